import Cx.Proofs.RevSuffix
import Cx.Proofs.Dfa
import Cx.Proofs.Pike
import Cx.Proofs.Reverse
import Cx.Proofs.LitCheck
/-
  Cx.Proofs.RevSuffixInst — the reverse-suffix strategy theorem with the REAL component models plugged in:

    Mt   := Accepts N                    (the path relation of the compiled automaton, `Cx.Model.Nfa`)
    ref  := btSearchAt N                 (the reference leftmost-first search)
    fwdEnd := the lazy DFA's uncached search `Dfa.apiSearchAtU N cfg` (its theorem: `Dfa.searchAtU_eq_bt'`), the Pike VM's
              end when the DFA gives up (`nfaFallback`)
    pike := `Pike.searchAt N · · false`  (`Pike.search_eq_bt`)
    pfFind := the naive literal search `refPfFind`
    necessity := the verified literal checker, `Lit.checkSuffix N [suffix] = true`   (`Lit.checkSuffix_sound`)
    lb_restart := proved for `btSearchAt` (`btSearchAt_restart`)

  In THIS file the reverse oracle stays abstract: the contract the strategy needs is stated on the reverse AUTOMATON
  `Rev.reverse N false` (= `nfa.Reverse(N)`) run over the reversed haystack (`RevDfaContract`, via `Rev.reverse_accepts`).
  `Cx.Proofs.RevSuffixDfa` discharges it with the model of `SearchReverse` / `SearchReverseLimited` (`Cx.Model.DfaRev`,
  reverse DFA with `BreakAtMatch = false`; theorems `Cx.Proofs.DfaRev`, `Cx.Proofs.DfaRevRef`) and restates the theorems
  below without the contract (`C14_revSuffix_find_eq_reference_closed`).  The statement that was needed:

      a model `searchReverse N' cfg h lo e` of lazy.go:1735 on `N' = Rev.reverse N false` with `breakAtMatch = false`, and
        searchReverse … = some s → lo ≤ s ≤ e ∧ AcceptsA N' (revB h) (|h|-e) (|h|-s) ∧ ∀ s' ∈ [lo, s), ¬ AcceptsA N' (revB h) (|h|-e) (|h|-s')
      (the LONGEST reverse match from the mirror image of `e`, not reading past the mirror image of `lo`), the same for
      `.found s` of `searchReverseLimited`, and `.none → ∀ s' ∈ [lo, e], ¬ AcceptsA N' (revB h) (|h|-e) (|h|-s')`.
-/
namespace Cx.RevSuffix
open Cx Cx.Nfa

/-! ### `btSearchAt` scans the start positions in order -/

/-- restarting the reference search anywhere before the match start changes nothing -/
theorem btSearchAt_restart {N : NFA} {h : Bytes} (hd : Pike.SparseDisjoint N) (hR : Pike.RuneOK N h) {a a' s e : Nat}
    (ha : a ≤ h.size) (hr : btSearchAt N h a = some (s, e)) (h1 : a ≤ a') (h2 : a' ≤ s) :
    btSearchAt N h a' = some (s, e) := by
  obtain ⟨b1, b2, b3, b4⟩ := btSearchAt_sound N h a s e hr
  have bleft := (btSearchAt_leftmost N h a ha).1 s e hr
  have bfirst : Pike.btFirst N h a s = some e := Pike.btSearchFrom_first N h a _ _ s e hr
  have ha' : a' ≤ h.size := by omega
  cases hr' : btSearchAt N h a' with
  | none => exact absurd b4 ((btSearchAt_leftmost N h a' ha').2 hr' s e h2 (by omega))
  | some p =>
    obtain ⟨s', e'⟩ := p
    obtain ⟨c1, c2, c3, c4⟩ := btSearchAt_sound N h a' s' e' hr'
    have cleft := (btSearchAt_leftmost N h a' ha').1 s' e' hr'
    have hs : s' = s := by
      have g1 : ¬ s < s' := fun hh => cleft s e h2 hh b4
      have g2 : ¬ s' < s := fun hh => bleft s' e' (by omega) hh c4
      omega
    subst hs
    have cfirst : Pike.btFirst N h a' s' = some e' := Pike.btSearchFrom_first N h a' _ _ s' e' hr'
    have r1 := Pike.R_eq_bt hd hR (at_ := a) (s := s') b1 (by omega)
    have r2 := Pike.R_eq_bt hd hR (at_ := a') (s := s') h2 (by omega)
    rw [r1, bfirst] at r2
    rw [cfirst] at r2
    cases r2
    rfl

/-! ### literal necessity from the literal checker -/

theorem occ_of_suffix {h suf : Bytes} {s e : Nat} (hse : s ≤ e) (he : e ≤ h.size) (hsuf : suf.toList <:+ Lit.slice h s e) :
    s + suf.size ≤ e ∧ Occ h suf (e - suf.size) := by
  obtain ⟨t, ht⟩ := hsuf
  have hlen : t.length + suf.size = e - s := by
    have := congrArg List.length ht
    rw [List.length_append, Lit.slice_length, Array.length_toList] at this
    exact this
  refine ⟨by omega, by omega, ?_⟩
  intro k hk
  have h1 : (Lit.slice h s e)[t.length + k]? = some (h.at (s + (t.length + k))) := Lit.slice_getElem? h s e _ (by omega)
  rw [← ht, List.getElem?_append_right (by omega), show t.length + k - t.length = k by omega] at h1
  have h2 : suf.toList[k]? = some (suf.at k) := by
    rw [Array.getElem?_toList]
    unfold Bytes.at
    rw [Array.getD_eq_getD_getElem?]
    have : k < suf.size := hk
    simp [this]
  rw [h2] at h1
  have := Option.some.inj h1
  rw [show e - suf.size + k = s + (t.length + k) by omega]
  exact this.symm

/-! ### the component oracles -/

/-- `forwardDFA.SearchAt`: the lazy DFA's search; the Pike VM's end when the DFA gives up (`nfaFallback`) -/
def fwdOracle (N : NFA) (cfg : Dfa.Config) (h : Bytes) (a : Nat) : Option Nat :=
  match Dfa.apiSearchAtU N cfg h a with
  | .ok r => r
  | .gaveUp => (Pike.searchAt N h a false).map (·.2)

/-- the searcher over the component models; the reverse DFA is a parameter -/
def realOracles (N : NFA) (cfg : Dfa.Config) (suf : Bytes) (revL : Bytes → Nat → Nat → Nat → RevAnswer)
    (revF : Bytes → Nat → Nat → Option Nat) : Oracles where
  pfFind := refPfFind suf
  revLimited := revL
  revFull := revF
  fwdEnd := fwdOracle N cfg
  pike := fun h a => Pike.searchAt N h a false

/-- `nfa.Reverse(N)` accepts, on the reversed haystack, from the mirror image of `e` to the mirror image of `s` -/
def RevAcc (N : NFA) (h : Bytes) (s e : Nat) : Prop :=
  Rev.AcceptsA (Rev.reverse N false) (Rev.revB h) (h.size - e) (h.size - s)

/-- what the searches of the reverse DFA must deliver, stated on the reverse automaton: the LONGEST reverse match from the
    mirror image of `end` that does not read past the mirror image of `start` -/
structure RevDfaContract (N : NFA) (revL : Bytes → Nat → Nat → Nat → RevAnswer) (revF : Bytes → Nat → Nat → Option Nat)
    (h : Bytes) : Prop where
  full_some : ∀ lo e s, lo ≤ e → e ≤ h.size → revF h lo e = some s →
    lo ≤ s ∧ s ≤ e ∧ RevAcc N h s e ∧ ∀ s', lo ≤ s' → s' < s → ¬ RevAcc N h s' e
  lim_found : ∀ lo e m s, lo < e → e ≤ h.size → revL h lo e m = .found s →
    lo ≤ s ∧ s ≤ e ∧ RevAcc N h s e ∧ ∀ s', lo ≤ s' → s' < s → ¬ RevAcc N h s' e
  lim_none : ∀ lo e m, lo < e → e ≤ h.size → revL h lo e m = .none → ∀ s', lo ≤ s' → s' ≤ e → ¬ RevAcc N h s' e

/-- the decidable hypotheses on the compiled automaton (all evaluated by the harness on every dumped automaton) -/
structure NfaHyp (N : NFA) (cfg : Dfa.Config) : Prop where
  rev : Rev.RevHyp N                       -- ids in range, look-free, no rune states, `(?s:.)*?` prefix
  sd : Dfa.sparseDisjointB N = true        -- sparse states with pairwise disjoint ranges
  pre : Dfa.prefixOKB N = true ∨ Dfa.anchoredHeadB N = true
  una : Pike.anchored N = false            -- separate unanchored start state
  brk : cfg.breakAtMatch = true            -- the FORWARD DFA breaks at match
  lim : N.states.size ≤ cfg.detLimit

theorem revAcc_iff {N : NFA} {cfg : Dfa.Config} (H : NfaHyp N cfg) (h : Bytes) {s e : Nat} (hs : s ≤ h.size) (he : e ≤ h.size) :
    RevAcc N h s e ↔ Accepts N h s e := by
  unfold RevAcc
  rw [Rev.reverse_accepts H.rev false h hs he]
  exact Rev.acceptsA_iff_accepts (Pike.sparseDet_of_disjoint (Dfa.sparseDisjoint_of_B H.sd)) h s e

/-- **all component contracts hold for the real models** (reverse DFA: relative to `RevDfaContract`) -/
theorem realOracles_spec {N : NFA} {cfg : Dfa.Config} (H : NfaHyp N cfg) {P : Params} (hL : 0 < P.suffix.size)
    (hlit : Lit.checkSuffix N [P.suffix.toList] = true)
    (hlb : P.lineBounded = true → ∀ (h : Bytes) s e, s ≤ h.size → Accepts N h s e → ∀ i, s ≤ i → i < e → h.at i ≠ 10)
    {revL : Bytes → Nat → Nat → Nat → RevAnswer} {revF : Bytes → Nat → Nat → Option Nat}
    {h : Bytes} (hb : Dfa.BytesOK h) (C : RevDfaContract N revL revF h) :
    Spec (realOracles N cfg P.suffix revL revF) P (Accepts N) (btSearchAt N) h := by
  have hd := Dfa.sparseDisjoint_of_B H.sd
  have hR : Pike.RuneOK N h := Or.inl (Dfa.noRune_of_B H.rev.nr)
  have hpos : ∀ {s e : Nat}, s ≤ h.size → Accepts N h s e → s ≤ e ∧ e ≤ h.size := fun hs ha => reaches_pos_le ha hs
  have hnec : ∀ s e, s ≤ h.size → Accepts N h s e → s + P.suffix.size ≤ e ∧ Occ h P.suffix (e - P.suffix.size) := by
    intro s e hs ha
    obtain ⟨l, hl, hsuf⟩ := Lit.checkSuffix_sound N _ hlit h s e hs ha
    simp only [List.mem_singleton] at hl
    subst hl
    obtain ⟨p1, p2⟩ := hpos hs ha
    exact occ_of_suffix p1 p2 hsuf
  exact {
    ref_sound := by
      intro a s e _ hr
      obtain ⟨b1, b2, b3, b4⟩ := btSearchAt_sound N h a s e hr
      exact ⟨b1, by omega, b4⟩
    ref_leftmost := by
      intro a s e ha hr s' e' g1 g2
      apply Classical.byContradiction
      intro hlt
      exact (btSearchAt_leftmost N h a ha).1 s e hr s' e' g1 (by omega) g2
    ref_none := fun a ha hr s e g1 g2 => (btSearchAt_leftmost N h a ha).2 hr s e g1 g2
    suf_pos := hL
    pf_some := fun st p _ hf => refPfFind_some hf
    pf_none := fun st _ hf => refPfFind_none hf
    necessity := hnec
    revL_found := by
      intro lo e m s hlo he hr
      obtain ⟨c1, c2, c3, c4⟩ := C.lim_found lo e m s hlo he hr
      refine ⟨c1, c2, (revAcc_iff H h (by omega) he).mp c3, ?_⟩
      intro s' g1 g2
      apply Classical.byContradiction
      intro hlt
      exact c4 s' g1 (by omega) ((revAcc_iff H h (by omega) he).mpr g2)
    revL_none := by
      intro lo e m hlo he hr s' g1 g2 g3
      have := (hpos g2 g3).1
      exact C.lim_none lo e m hlo he hr s' g1 this ((revAcc_iff H h g2 he).mpr g3)
    revF_some := by
      intro lo e s hlo he hr
      obtain ⟨c1, c2, c3, c4⟩ := C.full_some lo e s hlo he hr
      refine ⟨c1, (revAcc_iff H h (by omega) he).mp c3, ?_⟩
      intro s' g1 g2 g3
      apply Classical.byContradiction
      intro hlt
      exact c4 s' g1 (by omega) ((revAcc_iff H h g2 he).mpr g3)
    fwd := by
      intro a ha
      show fwdOracle N cfg h a = _
      unfold fwdOracle
      have hok : Dfa.apiSearchAtU N cfg h a = .ok ((btSearchAt N h a).map (·.2)) := by
        by_cases hlt : a < h.size
        · unfold Dfa.apiSearchAtU
          rw [if_neg (by omega), if_neg (by omega)]
          exact Dfa.searchAtU_eq_bt' H.rev.wf H.rev.nr H.sd H.pre cfg H.brk H.lim hb ha
        · have : a = h.size := by omega
          subst this
          exact Dfa.apiSearchAtU_end N cfg h
      rw [hok]
    pike := fun a ha => Pike.search_eq_bt H.una hd hR ha
    lb_nl := fun hl s e hs ha => hlb hl h s e hs ha
    lb_restart := fun _ a a' s e ha hr g1 g2 => btSearchAt_restart hd hR ha hr g1 g2 }

/-- **the strategy over the real component models is the reference search** (`matchStartZero = false`): for every automaton
    satisfying the decidable hypotheses, whose accepted spans all end with the suffix literal (literal checker), every
    haystack of bytes and every `at ≤ |h|`, with any reverse-DFA searches that meet `RevDfaContract` -/
theorem C14_revSuffix_find_eq_reference {N : NFA} {cfg : Dfa.Config} (H : NfaHyp N cfg) {P : Params} (hL : 0 < P.suffix.size)
    (hmz : P.matchStartZero = false) (hlit : Lit.checkSuffix N [P.suffix.toList] = true)
    (hlb : P.lineBounded = true → ∀ (h : Bytes) s e, s ≤ h.size → Accepts N h s e → ∀ i, s ≤ i → i < e → h.at i ≠ 10)
    {revL : Bytes → Nat → Nat → Nat → RevAnswer} {revF : Bytes → Nat → Nat → Option Nat}
    {h : Bytes} (hb : Dfa.BytesOK h) (C : RevDfaContract N revL revF h) {at_ : Nat} (hat : at_ ≤ h.size) :
    findIndicesAt (realOracles N cfg P.suffix revL revF) P h at_ = btSearchAt N h at_ :=
  findIndicesAt_eq_ref (realOracles_spec H hL hlit hlb hb C) hmz hat

theorem C14_revSuffix_isMatch_iff {N : NFA} {cfg : Dfa.Config} (H : NfaHyp N cfg) {P : Params} (hL : 0 < P.suffix.size)
    (hlit : Lit.checkSuffix N [P.suffix.toList] = true)
    {revL : Bytes → Nat → Nat → Nat → RevAnswer} {revF : Bytes → Nat → Nat → Option Nat}
    {h : Bytes} (hb : Dfa.BytesOK h) (C : RevDfaContract N revL revF h) :
    isMatch (realOracles N cfg P.suffix revL revF) P h = true ↔ ∃ i j, i ≤ h.size ∧ Accepts N h i j := by
  -- `IsMatch` does not read `lineBounded`
  have S := realOracles_spec (P := { P with lineBounded := false }) H hL hlit (fun hc => by cases hc) hb C
  have he : isMatch (realOracles N cfg P.suffix revL revF) P h =
      isMatch (realOracles N cfg P.suffix revL revF) { P with lineBounded := false } h :=
    isMatch_congr _ (P := P) (P' := { P with lineBounded := false }) rfl h
  rw [he, isMatch_eq_ref S]
  constructor
  · intro hs
    obtain ⟨p, hp⟩ := Option.isSome_iff_exists.mp hs
    obtain ⟨b1, b2, b3, b4⟩ := btSearchAt_sound N h 0 p.1 p.2 hp
    exact ⟨p.1, p.2, by omega, b4⟩
  · rintro ⟨i, j, hi, ha⟩
    cases hr : btSearchAt N h 0 with
    | some p => rfl
    | none => exact absurd ha ((btSearchAt_leftmost N h 0 (Nat.zero_le _)).2 hr i j (Nat.zero_le _) hi)

/-! ### the reverse contract is satisfiable: a specification-level reverse search -/

/-- least start in `[lo, e]` of a span ending at `e` the automaton accepts (decided by `acceptsSpan`) -/
def specRevFull (N : NFA) (h : Bytes) (lo e : Nat) : Option Nat := findFirst (fun s => acceptsSpan N h s e) lo (e + 1 - lo)

def specRevLimited (N : NFA) (h : Bytes) (lo e _minStart : Nat) : RevAnswer :=
  match specRevFull N h lo e with
  | some s => .found s
  | none => .none

theorem specRev_contract {N : NFA} {cfg : Dfa.Config} (H : NfaHyp N cfg) (h : Bytes) :
    RevDfaContract N (specRevLimited N) (specRevFull N) h := by
  have key : ∀ lo e s, e ≤ h.size → specRevFull N h lo e = some s →
      lo ≤ s ∧ s ≤ e ∧ RevAcc N h s e ∧ ∀ s', lo ≤ s' → s' < s → ¬ RevAcc N h s' e := by
    intro lo e s he hr
    obtain ⟨f1, f2, f3, f4⟩ := findFirst_some hr
    refine ⟨f1, by omega, (revAcc_iff H h (by omega) he).mpr (acceptsSpan_sound N h s e f3), ?_⟩
    intro s' g1 g2 g3
    have := f4 s' g1 g2
    rw [acceptsSpan_complete N h s' e (by omega) ((revAcc_iff H h (by omega) he).mp g3)] at this
    cases this
  refine ⟨fun lo e s _ he hr => key lo e s he hr, ?_, ?_⟩
  · intro lo e m s _ he hr
    unfold specRevLimited at hr
    split at hr
    · rename_i s1 hf
      cases hr
      exact key lo e s he hf
    · cases hr
  · intro lo e m _ he hr s' g1 g2 g3
    unfold specRevLimited at hr
    split at hr
    · cases hr
    · rename_i hf
      have := findFirst_none hf s' g1 (by omega)
      rw [acceptsSpan_complete N h s' e (by omega) ((revAcc_iff H h (by omega) he).mp g3)] at this
      cases this

/-- the strategy, every component a model or a specification-level function, is the reference search — no hypothesis left
    about the reverse oracle -/
theorem C14_revSuffix_find_eq_reference_specRev {N : NFA} {cfg : Dfa.Config} (H : NfaHyp N cfg) {P : Params}
    (hL : 0 < P.suffix.size) (hmz : P.matchStartZero = false) (hlit : Lit.checkSuffix N [P.suffix.toList] = true)
    (hlb : P.lineBounded = true → ∀ (h : Bytes) s e, s ≤ h.size → Accepts N h s e → ∀ i, s ≤ i → i < e → h.at i ≠ 10)
    {h : Bytes} (hb : Dfa.BytesOK h) {at_ : Nat} (hat : at_ ≤ h.size) :
    findIndicesAt (realOracles N cfg P.suffix (specRevLimited N) (specRevFull N)) P h at_ = btSearchAt N h at_ :=
  C14_revSuffix_find_eq_reference H hL hmz hlit hlb hb (specRev_contract H h) hat

/-! ### a verified replacement for `canMatchNewline`: no accepted span contains the byte `b`

The product exploration of the literal checker (`Lit.runCheck`, sound by `Lit.runCtx_sound`) with the one-bit property
automaton "byte `b` not seen". -/

def noByteAuto (b : Nat) : Lit.Auto Bool :=
  { init := true, step := fun d x => d && (x != b), good := fun d => d, hash := fun d => if d then 1 else 0 }

/-- no span the automaton accepts, in any haystack, contains the byte `b` -/
def checkNoByte (N : NFA) (b : Nat) : Bool := (Lit.runCheck N (noByteAuto b) [[b]] Lit.defaultFuel).passed

theorem noByte_run (b : Nat) : ∀ (w : List Nat) (d : Bool), (noByteAuto b).run d w = true → d = true ∧ ∀ x ∈ w, x ≠ b := by
  intro w
  induction w with
  | nil => intro d hr; exact ⟨hr, fun x hx => by cases hx⟩
  | cons a w ih =>
    intro d hr
    have hr' : (noByteAuto b).run (d && (a != b)) w = true := hr
    obtain ⟨h1, h2⟩ := ih _ hr'
    simp only [Bool.and_eq_true, bne_iff_ne, ne_eq] at h1
    refine ⟨h1.1, ?_⟩
    intro x hx
    rcases List.mem_cons.mp hx with rfl | hx
    · exact h1.2
    · exact h2 x hx

theorem checkNoByte_sound {N : NFA} {b : Nat} (hc : checkNoByte N b = true) :
    ∀ (h : Bytes) (s e : Nat), s ≤ h.size → Accepts N h s e → ∀ i, s ≤ i → i < e → h.at i ≠ b := by
  intro h s e hs ha i h1 h2 hib
  have ok := Lit.mkCtx_alphaOK N (noByteAuto b) [[b]]
  have hg := Lit.runCtx_sound (c := Lit.mkCtx N (noByteAuto b) [[b]]) hc hs ha
  rw [Lit.mkCtx_A, Lit.Ctx.cls_eq] at hg
  have hgood : (noByteAuto b).run (noByteAuto b).init
      ((Lit.slice h s e).map (Lit.clsOf (Lit.mkCtx N (noByteAuto b) [[b]]).alpha (Lit.mkCtx N (noByteAuto b) [[b]]).fresh)) = true := hg
  obtain ⟨_, hall⟩ := noByte_run b _ _ hgood
  have hmem : h.at i ∈ Lit.slice h s e := by
    have := Lit.slice_getElem? h s e (i - s) (by omega)
    rw [show s + (i - s) = i by omega] at this
    exact List.mem_of_getElem? this
  have hb_in : b ∈ (Lit.mkCtx N (noByteAuto b) [[b]]).alpha := ok.lit_mem [b] (by simp) b (by simp)
  refine hall _ (List.mem_map.mpr ⟨h.at i, hmem, ?_⟩) rfl
  rw [hib]
  unfold Lit.clsOf
  simp [hb_in]

/-! ### closed instance: `[a-z]+z` as the real compiler emits it (`gocheck/dump`), every hypothesis decided -/

/-- `[a-z]+z` : `0/6/B.97.122.2;E.3;P.0.1;B.122.122.4;M;B.0.255.6;P.0.5` -/
def exAzZ : NFA :=
  { states := #[.byteRange 97 122 2, .eps 3, .split 0 1, .byteRange 122 122 4, .mtch, .byteRange 0 255 6, .split 0 5],
    startAnchored := 0, startUnanchored := 6 }

theorem exAzZ_hyp : NfaHyp exAzZ Dfa.Config.plain :=
  { rev := Rev.revHyp_of_B (by decide), sd := by decide, pre := Or.inl (by decide), una := by decide, brk := rfl,
    lim := by decide }

theorem exAzZ_suffix : Lit.checkSuffix exAzZ [[122]] = true := by decide +kernel

theorem exAzZ_noNL : checkNoByte exAzZ 10 = true := by decide +kernel

/-- **`[a-z]+z`, closed**: the strategy with `lineBounded = true` (as the real engine sets it for this pattern), the real
    compiled automaton, the lazy-DFA model as forward oracle, the Pike model as fallback, returns the reference's span on
    every haystack of bytes, from every offset -/
theorem C14_revSuffix_closed_instance {h : Bytes} (hb : Dfa.BytesOK h) {at_ : Nat} (hat : at_ ≤ h.size) :
    findIndicesAt (realOracles exAzZ Dfa.Config.plain #[122] (specRevLimited exAzZ) (specRevFull exAzZ))
      { suffix := #[122], lineBounded := true } h at_ = btSearchAt exAzZ h at_ :=
  C14_revSuffix_find_eq_reference_specRev (P := { suffix := #[122], lineBounded := true }) exAzZ_hyp (by decide) rfl
    exAzZ_suffix (fun _ h s e hs ha => checkNoByte_sound exAzZ_noNL h s e hs ha) hb hat

end Cx.RevSuffix
