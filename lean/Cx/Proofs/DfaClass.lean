import Cx.Proofs.DfaCache
import Cx.Proofs.Nfa
import Cx.Proofs.PikeBase
/-
  Cx.Proofs.DfaClass — a checkable sufficient condition for `ClassSound` (the hypothesis of (a)), with look-around.

  `classCompatB N cls` / `classStepB N cls` (decidable, evaluated by `dfa classcompat` on the real byte-class map):
  bytes of one class are inside or outside every byte range of the automaton together, and are not told apart by the
  look-around kinds occurring in it — both or neither is `\n` when it has `(?m)^` / `(?m)$`, both or neither is a word
  byte when it has `\b` / `\B` (what `nfa.Builder.addLookBoundaries` adds to the class set).  Then `determinize` gives
  `≃`-equal successors for the two bytes from every state (`classSound_of_compat`): the look-ahead re-closure sees the
  same look set up to kinds that do not occur, the move follows the same transitions, targets are closed with the same
  look-behind set, and the new state's context (`isFromWord`, `lookHave`) differs only where it is irrelevant.
-/
namespace Cx.Dfa
open Cx Cx.Nfa

theorem get_mem_of_ne_fail {N : NFA} {q : Nat} (hne : N.get q ≠ .fail) : N.get q ∈ N.states.toList := by
  have hlt := Pike.get_lt_of_ne_fail hne
  unfold NFA.get
  have he : N.states.getD q NState.fail = N.states[q] := by simp [Array.getD_eq_getD_getElem?, hlt]
  rw [he]
  simp

theorem hasLookWhere_of {N : NFA} {p : Look → Bool} {q : Nat} {k : Look} {nx : Nat} (hq : N.get q = .look k nx)
    (hp : p k = true) : hasLookWhere N p = true := by
  cases hw : hasLookWhere N p with
  | true => rfl
  | false => rw [hasLookWhere_false hw hq] at hp; cases hp

/-- bytes of one class are inside or outside every byte range of the automaton together and are not told apart by its
    look-around -/
def ClassCompat (N : NFA) (cls : Nat → Nat) : Prop :=
  ∀ b b', b < 256 → b' < 256 → cls b = cls b' → (∀ q, stateAgree b b' (N.get q) = true) ∧ lookAgree N b b' = true

theorem classCompat_of_B {N : NFA} {cls : Nat → Nat} (hc : classCompatB N cls = true) : ClassCompat N cls := by
  intro b b' hb hb' hk
  unfold classCompatB at hc
  rw [List.all_eq_true] at hc
  have h1 := hc b (List.mem_range.mpr hb)
  rw [List.all_eq_true] at h1
  have h2 := h1 b' (List.mem_range.mpr hb')
  simp only [Bool.or_eq_true, bne_iff_ne, ne_eq, Bool.and_eq_true, List.all_eq_true] at h2
  rcases h2 with h2 | h2
  · exact absurd hk h2
  · refine ⟨?_, h2.2⟩
    intro q
    by_cases hq : N.get q = .fail
    · rw [hq]; rfl
    · exact h2.1 _ (get_mem_of_ne_fail hq)

theorem rangeAgree_refl (lo hi b : Nat) : rangeAgree lo hi b b = true := by simp [rangeAgree]

theorem rangeAgree_symm {lo hi b b' : Nat} (h : rangeAgree lo hi b b' = true) : rangeAgree lo hi b' b = true := by
  unfold rangeAgree at h ⊢
  exact decide_eq_true (of_decide_eq_true h).symm

theorem rangeAgree_trans {lo hi a b c : Nat} (h1 : rangeAgree lo hi a b = true) (h2 : rangeAgree lo hi b c = true) :
    rangeAgree lo hi a c = true := by
  unfold rangeAgree at h1 h2 ⊢
  exact decide_eq_true ((of_decide_eq_true h1).trans (of_decide_eq_true h2))

theorem stateAgree_refl (b : Nat) (s : NState) : stateAgree b b s = true := by
  cases s <;> simp [stateAgree, rangeAgree_refl]

theorem stateAgree_symm {b b' : Nat} {s : NState} (h : stateAgree b b' s = true) : stateAgree b' b s = true := by
  cases s with
  | byteRange lo hi nx => exact rangeAgree_symm h
  | sparse ts =>
    simp only [stateAgree, List.all_eq_true] at h ⊢
    exact fun t ht => rangeAgree_symm (h t ht)
  | _ => rfl

theorem stateAgree_trans {a b c : Nat} {s : NState} (h1 : stateAgree a b s = true) (h2 : stateAgree b c s = true) :
    stateAgree a c s = true := by
  cases s with
  | byteRange lo hi nx => exact rangeAgree_trans h1 h2
  | sparse ts =>
    simp only [stateAgree, List.all_eq_true] at h1 h2 ⊢
    exact fun t ht => rangeAgree_trans (h1 t ht) (h2 t ht)
  | _ => rfl

theorem lookAgree_refl (N : NFA) (b : Nat) : lookAgree N b b = true := by simp [lookAgree]

theorem lookAgree_symm {N : NFA} {b b' : Nat} (h : lookAgree N b b' = true) : lookAgree N b' b = true := by
  unfold lookAgree at h ⊢
  simp only [Bool.and_eq_true, Bool.or_eq_true, beq_iff_eq] at h ⊢
  exact ⟨h.1.imp id Eq.symm, h.2.imp id Eq.symm⟩

theorem lookAgree_trans {N : NFA} {a b c : Nat} (h1 : lookAgree N a b = true) (h2 : lookAgree N b c = true) :
    lookAgree N a c = true := by
  unfold lookAgree at h1 h2 ⊢
  simp only [Bool.and_eq_true, Bool.or_eq_true, beq_iff_eq] at h1 h2 ⊢
  refine ⟨?_, ?_⟩
  · rcases h1.1 with h | h
    · exact Or.inl h
    · rcases h2.1 with h' | h'
      · exact Or.inl h'
      · exact Or.inr (h.trans h')
  · rcases h1.2 with h | h
    · exact Or.inl h
    · rcases h2.2 with h' | h'
      · exact Or.inl h'
      · exact Or.inr (h.trans h')

theorem classCompat_of_step {N : NFA} {cls : Nat → Nat} (hc : classStepB N cls = true) : ClassCompat N cls := by
  unfold classStepB at hc
  simp only [List.all_eq_true, List.mem_range, Bool.and_eq_true, decide_eq_true_eq, Bool.or_eq_true, bne_iff_ne, ne_eq] at hc
  have hmono : ∀ d i, i + d < 256 → cls i ≤ cls (i + d) := by
    intro d
    induction d with
    | zero => intro i _; exact Nat.le_refl _
    | succ d ih =>
      intro i hi
      have h1 := ih i (by omega)
      have h2 := (hc (i + d) (by omega)).1
      have : i + (d + 1) = i + d + 1 := by omega
      rw [this]
      omega
  have hup : ∀ d b, b + d < 256 → cls b = cls (b + d) →
      (∀ q, stateAgree b (b + d) (N.get q) = true) ∧ lookAgree N b (b + d) = true := by
    intro d
    induction d with
    | zero => intro b _ _; exact ⟨fun q => stateAgree_refl _ _, lookAgree_refl _ _⟩
    | succ d ih =>
      intro b hb hk
      have hm1 := hmono 1 b (by omega)
      have hm2 := hmono d (b + 1) (by omega)
      have he : b + 1 + d = b + (d + 1) := by omega
      rw [he] at hm2
      have hk1 : cls b = cls (b + 1) := by omega
      have hstep : (∀ q, stateAgree b (b + 1) (N.get q) = true) ∧ lookAgree N b (b + 1) = true := by
        rcases (hc b (by omega)).2 with h' | h'
        · exact absurd hk1 h'
        · refine ⟨?_, h'.2⟩
          intro q
          by_cases hq : N.get q = .fail
          · rw [hq]; rfl
          · exact h'.1 _ (get_mem_of_ne_fail hq)
      have hrest := ih (b + 1) (by omega) (by rw [he]; omega)
      rw [he] at hrest
      exact ⟨fun q => stateAgree_trans (hstep.1 q) (hrest.1 q), lookAgree_trans hstep.2 hrest.2⟩
  intro b b' hb hb' hk
  by_cases hle : b ≤ b'
  · have := hup (b' - b) b (by omega) (by rw [show b + (b' - b) = b' by omega]; exact hk)
    rw [show b + (b' - b) = b' by omega] at this
    exact this
  · have := hup (b - b') b' (by omega) (by rw [show b' + (b - b') = b by omega]; exact hk.symm)
    rw [show b' + (b - b') = b by omega] at this
    exact ⟨fun q => stateAgree_symm (this.1 q), lookAgree_symm this.2⟩

theorem rangeAgree_iff {lo hi b b' : Nat} (h : rangeAgree lo hi b b' = true) : (lo ≤ b ∧ b ≤ hi) ↔ (lo ≤ b' ∧ b' ≤ hi) := by
  unfold rangeAgree at h
  exact of_decide_eq_true h

theorem sparseInto_compat {N : NFA} {lk lk' : LookSet} (hl : LkEq N lk lk') {b b' : Nat} :
    ∀ (ts : List (Nat × Nat × Nat)) (res : List Nat), (ts.all fun t => rangeAgree t.1 t.2.1 b b') = true →
      sparseInto N lk b ts res = sparseInto N lk' b' ts res := by
  intro ts
  induction ts with
  | nil => intro res _; rfl
  | cons t ts ih =>
    intro res hall
    obtain ⟨lo, hi, nx⟩ := t
    simp only [List.all_cons, Bool.and_eq_true] at hall
    have hiff := rangeAgree_iff hall.1
    simp only [sparseInto]
    by_cases hin : lo ≤ b ∧ b ≤ hi
    · rw [if_pos hin, if_pos (hiff.mp hin), closeSeed_congr hl]
      exact ih _ hall.2
    · rw [if_neg hin, if_neg (fun hh => hin (hiff.mpr hh))]
      exact ih _ hall.2

theorem moveLoop_compat {N : NFA} {lk lk' : LookSet} (hl : LkEq N lk lk') {b b' : Nat}
    (hag : ∀ q, stateAgree b b' (N.get q) = true) (brk : Bool) :
    ∀ (L res : List Nat), moveLoop N lk b brk L res = moveLoop N lk' b' brk L res := by
  intro L
  induction L with
  | nil => intro res; rfl
  | cons q qs ih =>
    intro res
    have hq := hag q
    rw [moveLoop, moveLoop]
    cases hg : N.get q with
    | mtch => simp only; split
              · rfl
              · exact ih res
    | byteRange lo hi nx =>
      rw [hg] at hq
      have hiff := rangeAgree_iff (show rangeAgree lo hi b b' = true from hq)
      simp only
      by_cases hin : lo ≤ b ∧ b ≤ hi
      · rw [if_pos hin, if_pos (hiff.mp hin), closeSeed_congr hl]
        exact ih _
      · rw [if_neg hin, if_neg (fun hh => hin (hiff.mpr hh))]
        exact ih _
    | sparse ts =>
      rw [hg] at hq
      simp only
      rw [sparseInto_compat hl ts res hq]
      exact ih _
    | _ => exact ih res

/-- what `lookAgree` says, kind by kind -/
theorem lookAgree_line {N : NFA} {b b' : Nat} (h : lookAgree N b b' = true) (hl : hasLineLook N = true) :
    (b == 10) = (b' == 10) := by
  unfold lookAgree at h
  simp only [Bool.and_eq_true, Bool.or_eq_true, hl, Bool.not_true, Bool.false_eq_true, false_or, beq_iff_eq] at h
  have h' : b = 10 ↔ b' = 10 := by simpa using h.1
  by_cases h1 : b = 10
  · have h2 := h'.mp h1
    simp [h1, h2]
  · have h2 : ¬ b' = 10 := fun hh => h1 (h'.mpr hh)
    have e1 : (b == 10) = false := by simp [h1]
    have e2 : (b' == 10) = false := by simp [h2]
    rw [e1, e2]

theorem lookAgree_word {N : NFA} {b b' : Nat} (h : lookAgree N b b' = true) (hw : hasWB N = true) :
    isWordByte b = isWordByte b' := by
  unfold lookAgree at h
  simp only [Bool.and_eq_true, Bool.or_eq_true, hw, Bool.not_true, Bool.false_eq_true, false_or, beq_iff_eq] at h
  exact h.2

theorem hasLineLook_of_startLine {N : NFA} (h : hasStartLine N = true) : hasLineLook N = true := by
  unfold hasStartLine hasLookWhere at h
  unfold hasLineLook hasLookWhere
  rw [List.any_eq_true] at h ⊢
  obtain ⟨s, hs, hp⟩ := h
  refine ⟨s, hs, ?_⟩
  cases s <;> simp_all

theorem hasLineLook_of_endLine {N : NFA} (h : hasEndLine N = true) : hasLineLook N = true := by
  unfold hasEndLine hasLookWhere at h
  unfold hasLineLook hasLookWhere
  rw [List.any_eq_true] at h ⊢
  obtain ⟨s, hs, hp⟩ := h
  refine ⟨s, hs, ?_⟩
  cases s <;> simp_all

/-- byte classes that respect every byte range and the look-around of the automaton make the memo table sound -/
theorem classSound_of_compat {N : NFA} (cfg : Config) (hc : ClassCompat N cfg.cls) : ClassSound N cfg := by
  intro S b b' hb hb' hk
  obtain ⟨hag, hla⟩ := hc b b' hb hb' hk
  -- the look-ahead re-closure
  have hres : resolved N S b = resolved N S b' := by
    unfold resolved resolveLookAhead
    have hcond : (hasWB N || (hasEndLine N && b == 10)) = (hasWB N || (hasEndLine N && b' == 10)) := by
      cases he : hasEndLine N with
      | false => simp
      | true => rw [lookAgree_line hla (hasLineLook_of_endLine he)]
    rw [hcond]
    split
    · apply epsilonClosure_congr
      apply lkEq_of_agree
      intro q k nx hq
      cases k with
      | startText => rfl
      | endText => rfl
      | startLine => rfl
      | endLine =>
        have := lookAgree_line hla (hasLookWhere_of hq (p := fun k => k == .startLine || k == .endLine) (by rfl))
        simp only [aheadLook, LookSet.contains]
        exact this
      | wordB =>
        have := lookAgree_word hla (hasLookWhere_of hq (p := fun k => k == .wordB || k == .noWordB) (by rfl))
        simp only [aheadLook, LookSet.contains, this]
      | noWordB =>
        have := lookAgree_word hla (hasLookWhere_of hq (p := fun k => k == .wordB || k == .noWordB) (by rfl))
        simp only [aheadLook, LookSet.contains, this]
    · rfl
  -- the move
  have hlk : LkEq N (lookAfter b) (lookAfter b') := by
    apply lkEq_of_agree
    intro q k nx hq
    cases k with
    | startLine =>
      have := lookAgree_line hla (hasLookWhere_of hq (p := fun k => k == .startLine || k == .endLine) (by rfl))
      have h10 : (b = 10) ↔ (b' = 10) := by
        constructor
        · intro h1; have : (b == 10) = true := by simp [h1]
          rw [‹(b == 10) = (b' == 10)›] at this; simpa using this
        · intro h1; have : (b' == 10) = true := by simp [h1]
          rw [← ‹(b == 10) = (b' == 10)›] at this; simpa using this
      unfold lookAfter
      by_cases h1 : b = 10
      · rw [if_pos h1, if_pos (h10.mp h1)]
      · rw [if_neg h1, if_neg (fun hh => h1 (h10.mpr hh))]
    | _ => unfold lookAfter; split <;> split <;> rfl
  have hml : ∀ brk, moveLoop N (lookAfter b) b brk (resolved N S b) [] =
      moveLoop N (lookAfter b') b' brk (resolved N S b') [] := by
    intro brk
    rw [hres]
    exact moveLoop_compat hlk hag brk _ _
  -- the new state's context
  have hline : (b == 10 && hasStartLine N) = (b' == 10 && hasStartLine N) := by
    cases hs : hasStartLine N with
    | false => simp
    | true => rw [lookAgree_line hla (hasLineLook_of_startLine hs)]
  unfold step
  simp only
  rw [hml, ← hres]
  constructor
  · intro hd
    split at hd
    · rename_i h1; rw [if_pos h1]
    · split at hd <;> cases hd
  · intro T hT
    split at hT
    · cases hT
    · rename_i h1
      rw [if_neg h1]
      split at hT
      · cases hT
      · rename_i h2
        rw [if_neg h2]
        cases hT
        refine ⟨_, rfl, rfl, rfl, rfl, ?_, ?_⟩
        · exact hline.symm
        · intro hw
          exact (lookAgree_word hla hw).symm

end Cx.Dfa
