import Cx.Proofs.ReverseBase
import Cx.Proofs.DfaRef
/-
  Cx.Proofs.ReverseSimple — the reverse automaton (`Cx.Model.Reverse`, `nfa/reverse.go`) consists of match, fail, byte
  range, sparse, split and epsilon states only: it has NO look-around, capture or rune states, whatever the forward
  automaton looks like.  Hence `lookFreeB (reverse N a) = true` and `noRuneB (reverse N a) = true`, the two hypotheses the
  reverse-DFA theorems (`Cx.Proofs.DfaRevRef`) put on the automaton the reverse DFA is built from.
-/
namespace Cx.Rev
open Cx Cx.Nfa

/-- the kinds of states the construction writes -/
def okS : NState → Bool
  | .mtch => true
  | s => simpleS s

/-- every state of the builder (ids out of range read as `fail`) is of such a kind -/
def AllOk (b : Bld) : Prop := ∀ z, okS (gget b z) = true

theorem gget_oob (b : Bld) {z : Nat} (h : b.size ≤ z) : gget b z = .fail := by
  unfold gget
  rw [Array.getD_eq_getD_getElem?, Array.getElem?_eq_none h]
  rfl

theorem allOk_push {b : Bld} (hb : AllOk b) {s : NState} (hs : okS s = true) : AllOk (b.push s) := by
  intro z
  by_cases h1 : z < b.size
  · rw [gget_push_lt b s h1]; exact hb z
  · by_cases h2 : z = b.size
    · rw [h2, gget_push_eq]; exact hs
    · rw [gget_oob _ (by rw [Array.size_push]; omega)]; rfl

theorem allOk_upd {b : Bld} (hb : AllOk b) (id : Nat) {f : NState → NState} (hf : ∀ s, okS s = true → okS (f s) = true) :
    AllOk (upd b id f) := by
  intro z
  by_cases hz : z = id
  · subst hz
    by_cases hlt : z < b.size
    · rw [gget_upd_eq b f hlt]; exact hf _ (hb z)
    · rw [gget_oob _ (by rw [size_upd]; omega)]; rfl
  · rw [gget_upd_ne b f hz]; exact hb z

theorem ok_patchS (t : Nat) : ∀ s, okS s = true → okS (patchS t s) = true := by
  intro s hs; cases s <;> simp_all [okS, simpleS, patchS]

theorem ok_patchSplitS (l r : Nat) : ∀ s, okS s = true → okS (patchSplitS l r s) = true := by
  intro s hs; cases s <;> simp_all [okS, simpleS, patchSplitS]

theorem ok_updByteRangeS (lo hi nx : Nat) : ∀ s, okS s = true → okS (updByteRangeS lo hi nx s) = true := by
  intro s hs; cases s <;> simp_all [okS, simpleS, updByteRangeS]

theorem ok_updSparseS (ts : List (Nat × Nat × Nat)) : ∀ s, okS s = true → okS (updSparseS ts s) = true := by
  intro s hs; cases s <;> simp_all [okS, simpleS, updSparseS]

theorem ok_placeholderS (es : List Edge) : okS (placeholderS es) = true := by
  unfold placeholderS
  split
  · rfl
  · simp only
    split
    · split <;> rfl
    · split
      · rfl
      · split <;> rfl

theorem allOk_chain {b : Bld} (hb : AllOk b) : ∀ ts : List Nat, AllOk (buildSplitChain b ts).2
  | [] => allOk_push hb rfl
  | [_] => hb
  | _ :: t1 :: ts => by
    rw [buildSplitChain]
    exact allOk_push (allOk_chain hb (t1 :: ts)) rfl

theorem allOk_fillSparse {b : Bld} (hb : AllOk b) (id : Nat) (bes : List Edge) (rm : RMap) :
    AllOk (fillSparseState b id bes rm) := allOk_upd hb id (ok_updSparseS _)

theorem allOk_fillEpsilon {b : Bld} (hb : AllOk b) (id : Nat) (ees : List Edge) (rm : RMap) :
    AllOk (fillEpsilonState b id ees rm) := by
  unfold fillEpsilonState
  split
  · exact allOk_upd hb id (ok_patchS _)
  · split
    · exact hb
    · exact allOk_upd hb id (ok_patchS _)
    · exact allOk_upd (allOk_chain hb _) id (ok_patchSplitS _ _)

theorem allOk_fillMixed {b : Bld} (hb : AllOk b) (id : Nat) (bes ees : List Edge) (rm : RMap) :
    AllOk (fillMixedState b id bes ees rm) := by
  unfold fillMixedState
  have h2 : AllOk (fillSparseState (b.push (.sparse [(0, 0, invalid)])) b.size bes rm) :=
    allOk_fillSparse (allOk_push hb rfl) _ _ _
  simp only
  split
  · exact allOk_fillSparse (allOk_upd h2 id (ok_updSparseS _)) _ _ _
  · exact allOk_upd (allOk_chain h2 _) id (ok_patchSplitS _ _)

theorem allOk_fillReverse {b : Bld} (hb : AllOk b) (id : Nat) (es : List Edge) (rm : RMap) :
    AllOk (fillReverseState b id es rm) := by
  unfold fillReverseState
  split
  · exact hb
  · simp only
    split
    · exact allOk_fillEpsilon hb _ _ _
    · split
      · exact allOk_upd hb id (ok_updByteRangeS _ _ _)
      · split
        · exact allOk_fillMixed hb _ _ _ _
        · exact allOk_fillSparse hb _ _ _

theorem allOk_fillStart {b : Bld} (hb : AllOk b) (proxy : Nat) (es : List Edge) (rm : RMap) (consume : Bool) :
    AllOk (fillStart b proxy es rm consume) := by
  unfold fillStart
  simp only
  split
  · exact hb
  · apply allOk_upd _ proxy (fun _ _ => rfl)
    apply allOk_chain
    split
    · exact allOk_fillReverse (allOk_push hb (ok_placeholderS _)) _ _ _
    · exact hb

theorem allOk_fillOne {b : Bld} (hb : AllOk b) (ei : Nat → List Edge) (skip : List Nat) (sa su : Nat) (anchored : Bool)
    (rm : RMap) (q : Nat) : AllOk (fillOne ei skip sa su anchored rm b q) := by
  unfold fillOne
  split
  · exact hb
  · simp only
    split
    · exact hb
    · split
      · exact hb
      · split
        · exact allOk_fillStart hb _ _ _ _
        · exact allOk_fillReverse hb _ _ _

theorem allOk_foldl {α : Type} (f : Bld → α → Bld) (hf : ∀ b a, AllOk b → AllOk (f b a)) :
    ∀ (l : List α) (b : Bld), AllOk b → AllOk (l.foldl f b) := by
  intro l
  induction l with
  | nil => intro b hb; exact hb
  | cons a l ih => intro b hb; exact ih _ (hf b a hb)

theorem allOk_mapOne (ei : Nat → List Edge) (st : Bld × RMap) (q : Nat) (hb : AllOk st.1) : AllOk (mapOne ei st q).1 := by
  unfold mapOne
  split
  · exact hb
  · exact allOk_push hb rfl

theorem allOk_allocOne (ei : Nat → List Edge) (skip : List Nat) (st : Bld × RMap) (q : Nat) (hb : AllOk st.1) :
    AllOk (allocOne ei skip st q).1 := by
  unfold allocOne
  split
  · exact hb
  · split
    · exact hb
    · exact allOk_push hb (ok_placeholderS _)

theorem allOk_foldl_pair {α : Type} (f : Bld × RMap → α → Bld × RMap) (hf : ∀ st a, AllOk st.1 → AllOk (f st a).1) :
    ∀ (l : List α) (st : Bld × RMap), AllOk st.1 → AllOk (l.foldl f st).1 := by
  intro l
  induction l with
  | nil => intro st hb; exact hb
  | cons a l ih => intro st hb; exact ih _ (hf st a hb)

theorem allOk_alloc (N : NFA) (a : Bool) : AllOk (alloc N a).1 := by
  unfold alloc
  simp only
  apply allOk_foldl_pair _ (fun st q hb => allOk_allocOne _ _ st q hb)
  unfold mapStart
  have h0 : AllOk (#[NState.mtch] : Bld) := by
    intro z
    by_cases hz : z = 0
    · subst hz; rfl
    · rw [gget_oob _ (by simp; omega)]; rfl
  simp only
  split
  · exact allOk_mapOne _ _ _ (allOk_mapOne _ _ _ h0)
  · exact allOk_mapOne _ _ _ h0

theorem allOk_buildStarts {b : Bld} (hb : AllOk b) (ms : List Nat) (rm : RMap) : AllOk (buildStarts b ms rm).2 := by
  unfold buildStarts
  split
  · exact allOk_push hb rfl
  · exact hb
  · exact allOk_chain hb _

/-- every state of the reverse automaton is a match, fail, byte-range, sparse, split or epsilon state -/
theorem reverse_allOk (N : NFA) (a : Bool) : AllOk (reverse N a).states := by
  unfold reverse build
  simp only
  apply allOk_buildStarts
  exact allOk_foldl _ (fun b q hb => allOk_fillOne hb _ _ _ _ _ _ q) _ _ (allOk_alloc N a)

theorem get_eq_gget (N : NFA) (q : Nat) : N.get q = gget N.states q := rfl

/-- **the reverse automaton has no look-around states** -/
theorem reverse_lookFree (N : NFA) (a : Bool) : Dfa.lookFreeB (reverse N a) = true := by
  have hall := reverse_allOk N a
  unfold Dfa.lookFreeB
  cases hw : Dfa.hasLookWhere (reverse N a) (fun _ => true) with
  | false => rfl
  | true =>
    obtain ⟨q, k, nx, hq, _⟩ := Dfa.hasLookWhere_true hw
    have := hall q
    rw [← get_eq_gget, hq] at this
    cases this

/-- **the reverse automaton has no rune states** -/
theorem reverse_noRune (N : NFA) (a : Bool) : Dfa.noRuneB (reverse N a) = true := by
  have hall := reverse_allOk N a
  unfold Dfa.noRuneB
  rw [List.all_eq_true]
  intro s hs
  obtain ⟨i, hi, hget⟩ := List.getElem_of_mem hs
  have hi' : i < (reverse N a).states.size := by simpa using hi
  have hg : gget (reverse N a).states i = s := by
    unfold gget
    rw [← hget]
    simp [Array.getD_eq_getD_getElem?, hi']
  have := hall i
  rw [hg] at this
  cases s <;> first | rfl | cases this

end Cx.Rev
