import Cx.Model.Caps
import Cx.Proofs.Nfa
import Cx.Proofs.PikeMulti
/-
  Cx.Proofs.CapsBase — the reference `btCaps` (priority DFS threading slots):
   * one-step form of `btCapsFind` (`nexts` / `tryCfg`), erasure to `btFind`;
   * (a) group 0 of `btCaps` is `btSearchAt`; (b) every slot is unset or lies inside the overall span;
   * a visited set may be enlarged by dead configurations without changing the answer, hence the search that
     shares one visited set among all start positions (`btShared`) equals `btCaps`.
-/
namespace Cx.Caps
open Cx Cx.Nfa

/-! ### one-step form -/

/-- the successor configurations of `(pos, q)` carrying slots `sl`, in priority order -/
def nexts (c : BTCtx) (pos q : Nat) (sl : Slots) : List (Nat × Nat × Slots) :=
  match c.N.get q with
  | .mtch => []
  | .byteRange lo hi nx => if pos < c.h.size ∧ lo ≤ c.h.at pos ∧ c.h.at pos ≤ hi then [(pos+1, nx, sl)] else []
  | .sparse ts =>
    if pos ≥ c.h.size then [] else
    match firstTrans (c.h.at pos) ts with
    | some nx => [(pos+1, nx, sl)]
    | none => []
  | .split l r => [(pos, l, sl), (pos, r, sl)]
  | .eps nx => [(pos, nx, sl)]
  | .cap idx st nx => [(pos, nx, sl.set (slotIdx idx st) (pos : Int))]
  | .look k nx => if lookOK k c.h pos then [(pos, nx, sl)] else []
  | .runeAny nx => if pos < c.h.size ∧ runeWidth c.h pos > 0 then [(pos + runeWidth c.h pos, nx, sl)] else []
  | .runeAnyNotNL nx =>
    if pos < c.h.size ∧ c.h.at pos ≠ 10 ∧ runeWidth c.h pos > 0 then [(pos + runeWidth c.h pos, nx, sl)] else []
  | .fail => []

abbrev BR := Option (Nat × Slots) × Array Bool

def tryCfg (f : Nat → Nat → Slots → Array Bool → BR) : List (Nat × Nat × Slots) → Array Bool → BR
  | [], vis => (none, vis)
  | (p, q, sl) :: rest, vis =>
    match f p q sl vis with
    | (some r, v) => (some r, v)
    | (none, v) => tryCfg f rest v

theorem tryCfg_single (f : Nat → Nat → Slots → Array Bool → BR) (x : Nat × Nat × Slots) (vis : Array Bool) :
    tryCfg f [x] vis = f x.1 x.2.1 x.2.2 vis := by
  obtain ⟨p, q, sl⟩ := x
  simp only [tryCfg]
  cases hf : f p q sl vis with
  | mk r v => cases r <;> rfl

theorem btCapsFind_unfold (c : BTCtx) (fuel pos q : Nat) (sl : Slots) (vis : Array Bool) :
    btCapsFind c (fuel+1) pos q sl vis =
      if q ≥ c.N.states.size then (none, vis) else
      if vis.getD (c.idx q pos) true then (none, vis) else
      if Pike.isMatchState c.N q then (some (pos, sl), vis.setIfInBounds (c.idx q pos) true) else
      tryCfg (btCapsFind c fuel) (nexts c pos q sl) (vis.setIfInBounds (c.idx q pos) true) := by
  rw [btCapsFind]
  split
  · rfl
  · split
    · rfl
    · simp only []
      cases hk : c.N.get q <;> simp only [nexts, hk, Pike.isMatchState, Bool.false_eq_true, ↓reduceIte]
      · -- byteRange
        split
        · rw [tryCfg_single]
        · rfl
      · -- sparse
        split
        · rfl
        · split
          · rename_i nx hf; simp only [hf]; rw [tryCfg_single]
          · rename_i hf; simp only [hf]; rfl
      · -- split
        rename_i l r
        simp only [tryCfg]
        cases h1 : btCapsFind c fuel pos l sl (vis.setIfInBounds (c.idx q pos) true) with
        | mk r1 v1 =>
          cases r1 with
          | some e => rfl
          | none =>
            simp only []
            cases h2 : btCapsFind c fuel pos r sl v1 with
            | mk r2 v2 => cases r2 <;> rfl
      · rw [tryCfg_single]
      · rw [tryCfg_single]
      · rfl
      · split
        · rw [tryCfg_single]
        · rfl
      · split
        · rw [tryCfg_single]
        · rfl
      · split
        · rw [tryCfg_single]
        · rfl


/-! ### erasure: the slots do not influence the control flow -/

theorem btCapsFind_erase (c : BTCtx) : ∀ (fuel pos q : Nat) (sl : Slots) (vis : Array Bool),
    (btCapsFind c fuel pos q sl vis).1.map (·.1) = (btFind c fuel pos q vis).1 ∧
    (btCapsFind c fuel pos q sl vis).2 = (btFind c fuel pos q vis).2 := by
  intro fuel
  induction fuel with
  | zero => intro pos q sl vis; simp [btCapsFind, btFind]
  | succ fuel ih =>
    intro pos q sl vis
    rw [btCapsFind, btFind]
    split
    · simp
    · split
      · simp
      · simp only []
        cases hk : c.N.get q <;> simp only []
        · simp
        · split
          · exact ih ..
          · simp
        · split
          · simp
          · cases hf : firstTrans (c.h.at pos) _ with
            | some nx => exact ih ..
            | none => simp
        · rename_i l r
          obtain ⟨a1, a2⟩ := ih pos l sl (vis.setIfInBounds (c.idx q pos) true)
          cases h1 : btCapsFind c fuel pos l sl (vis.setIfInBounds (c.idx q pos) true) with
          | mk r1 v1 =>
            cases h2 : btFind c fuel pos l (vis.setIfInBounds (c.idx q pos) true) with
            | mk r2 v2 =>
              rw [h1, h2] at a1 a2
              simp only at a1 a2
              subst a2
              cases r1 with
              | some e =>
                cases r2 with
                | some e2 => simp only []; simpa using a1
                | none => simp at a1
              | none =>
                cases r2 with
                | some e2 => simp at a1
                | none => simp only []; exact ih ..
        · exact ih ..
        · exact ih ..
        · simp
        · split
          · exact ih ..
          · simp
        · split
          · exact ih ..
          · simp
        · split
          · exact ih ..
          · simp


/-! ### facts about `nexts` -/

theorem nexts_step {c : BTCtx} {pos q : Nat} {sl : Slots} {x : Nat × Nat × Slots} (hx : x ∈ nexts c pos q sl) :
    Step c.N c.h (q, pos) (x.2.1, x.1) ∧
    (x.2.2 = sl ∨ ∃ k, x.2.2 = sl.set k (pos : Int) ∧ x.1 = pos) := by
  unfold nexts at hx
  cases hk : c.N.get q <;> simp only [hk] at hx
  · simp at hx
  · split at hx
    · rename_i hc
      simp only [List.mem_cons, List.not_mem_nil, or_false] at hx
      subst hx
      exact ⟨Step.byteRange hk hc.1 hc.2.1 hc.2.2, Or.inl rfl⟩
    · simp at hx
  · split at hx
    · simp at hx
    · rename_i hp
      split at hx
      · rename_i nx hf
        simp only [List.mem_cons, List.not_mem_nil, or_false] at hx
        subst hx
        exact ⟨Step.sparse hk (by omega) hf, Or.inl rfl⟩
      · simp at hx
  · simp only [List.mem_cons, List.not_mem_nil, or_false] at hx
    rcases hx with rfl | rfl
    · exact ⟨Step.splitL hk, Or.inl rfl⟩
    · exact ⟨Step.splitR hk, Or.inl rfl⟩
  · simp only [List.mem_cons, List.not_mem_nil, or_false] at hx
    subst hx
    exact ⟨Step.eps hk, Or.inl rfl⟩
  · simp only [List.mem_cons, List.not_mem_nil, or_false] at hx
    subst hx
    exact ⟨Step.cap hk, Or.inr ⟨_, rfl, rfl⟩⟩
  · simp at hx
  · split at hx
    · rename_i hl
      simp only [List.mem_cons, List.not_mem_nil, or_false] at hx
      subst hx
      exact ⟨Step.look hk hl, Or.inl rfl⟩
    · simp at hx
  · split at hx
    · rename_i hc
      simp only [List.mem_cons, List.not_mem_nil, or_false] at hx
      subst hx
      exact ⟨Step.runeAny hk hc.1 hc.2, Or.inl rfl⟩
    · simp at hx
  · split at hx
    · rename_i hc
      simp only [List.mem_cons, List.not_mem_nil, or_false] at hx
      subst hx
      exact ⟨Step.runeAnyNotNL hk hc.1 hc.2.1 hc.2.2, Or.inl rfl⟩
    · simp at hx

theorem nexts_pos {c : BTCtx} {pos q : Nat} {sl : Slots} {x : Nat × Nat × Slots} (hx : x ∈ nexts c pos q sl)
    (hp : pos ≤ c.h.size) : pos ≤ x.1 ∧ x.1 ≤ c.h.size :=
  step_pos_le (nexts_step hx).1 hp

/-! ### generic facts about `tryCfg` -/

theorem tryCfg_some {f : Nat → Nat → Slots → Array Bool → BR} {L : List (Nat × Nat × Slots)} {v v' : Array Bool}
    {r : Nat × Slots} (ht : tryCfg f L v = (some r, v')) :
    ∃ x ∈ L, ∃ v0 v1, f x.1 x.2.1 x.2.2 v0 = (some r, v1) := by
  induction L generalizing v with
  | nil => simp [tryCfg] at ht
  | cons x L ih =>
    obtain ⟨p, q, sl⟩ := x
    simp only [tryCfg] at ht
    cases hf : f p q sl v with
    | mk r1 v1 =>
      rw [hf] at ht
      cases r1 with
      | some e =>
        simp only [Prod.mk.injEq, Option.some.injEq] at ht
        obtain ⟨rfl, rfl⟩ := ht
        exact ⟨(p, q, sl), List.mem_cons_self, v, v1, hf⟩
      | none =>
        obtain ⟨x, hx, v0, v1', h2⟩ := ih ht
        exact ⟨x, List.mem_cons_of_mem _ hx, v0, v1', h2⟩

/-- an invariant of the visited set that every call preserves is preserved by `tryCfg` -/
theorem tryCfg_pres {f : Nat → Nat → Slots → Array Bool → BR} (P : Array Bool → Array Bool → Prop)
    (hrefl : ∀ v, P v v) (htrans : ∀ a b d, P a b → P b d → P a d)
    (L : List (Nat × Nat × Slots)) (hf : ∀ x ∈ L, ∀ v, P v (f x.1 x.2.1 x.2.2 v).2) :
    ∀ v, P v (tryCfg f L v).2 := by
  induction L with
  | nil => intro v; exact hrefl v
  | cons x L ih =>
    intro v
    obtain ⟨p, q, sl⟩ := x
    simp only [tryCfg]
    have h1 := hf (p, q, sl) List.mem_cons_self v
    cases hfv : f p q sl v with
    | mk r1 v1 =>
      rw [hfv] at h1
      cases r1 with
      | some e => exact h1
      | none => exact htrans _ _ _ h1 (ih (fun x hx => hf x (List.mem_cons_of_mem _ hx)) v1)

theorem set_count_le (vis : Array Bool) (i : Nat) : (vis.setIfInBounds i true).count false ≤ vis.count false := by
  by_cases hv : vis.getD i true = false
  · have := count_set_lt hv; omega
  · have hv' : vis.getD i true = true := by simpa using hv
    have : vis.setIfInBounds i true = vis := by
      apply Array.ext
      · simp
      · intro j h1 h2
        by_cases hj : i = j
        · subst hj
          simp only [Array.getD_eq_getD_getElem?, Array.getElem?_eq_getElem h2, Option.getD_some] at hv'
          simp [hv']
        · exact Array.getElem_setIfInBounds_ne h2 hj
    rw [this]; exact Nat.le_refl _

/-- the visited set only grows, keeps its size, and the number of unmarked entries never increases -/
theorem btCapsFind_vis (c : BTCtx) : ∀ (fuel pos q : Nat) (sl : Slots) (vis : Array Bool),
    (btCapsFind c fuel pos q sl vis).2.size = vis.size ∧
    (btCapsFind c fuel pos q sl vis).2.count false ≤ vis.count false := by
  intro fuel
  induction fuel with
  | zero => intro pos q sl vis; simp [btCapsFind]
  | succ fuel ih =>
    intro pos q sl vis
    rw [btCapsFind_unfold]
    split
    · simp
    · split
      · simp
      · have hs := set_count_le vis (c.idx q pos)
        split
        · exact ⟨by simp, hs⟩
        · have := tryCfg_pres (f := btCapsFind c fuel)
            (fun a b => b.size = a.size ∧ b.count false ≤ a.count false)
            (fun v => ⟨rfl, Nat.le_refl _⟩) (fun a b d h1 h2 => ⟨h2.1.trans h1.1, Nat.le_trans h2.2 h1.2⟩)
            (nexts c pos q sl) (fun x _ v => ih x.1 x.2.1 x.2.2 v) (vis.setIfInBounds (c.idx q pos) true)
          exact ⟨by rw [this.1]; simp, Nat.le_trans this.2 hs⟩


/-! ### what a call marks -/

/-- every entry that differs between `a` and `b` is the index of a `D`-configuration -/
def ChgIn (c : BTCtx) (D : Nat → Nat → Prop) (a b : Array Bool) : Prop :=
  ∀ i, b.getD i true ≠ a.getD i true →
    ∃ q' p', D q' p' ∧ q' < c.N.states.size ∧ c.spanStart ≤ p' ∧ i = c.idx q' p'

theorem ChgIn.refl (c : BTCtx) (D : Nat → Nat → Prop) (a : Array Bool) : ChgIn c D a a :=
  fun _ h => absurd rfl h

theorem ChgIn.trans {c : BTCtx} {D : Nat → Nat → Prop} {a b d : Array Bool} (h1 : ChgIn c D a b)
    (h2 : ChgIn c D b d) : ChgIn c D a d := by
  intro i hi
  by_cases hb : b.getD i true = a.getD i true
  · exact h2 i (by rw [hb]; exact hi)
  · exact h1 i hb

/-- a call started in a configuration of a `Step`-closed set `D` marks only configurations of `D` -/
theorem btCapsFind_chg (c : BTCtx) (D : Nat → Nat → Prop)
    (hD : ∀ q p q' p', D q p → Step c.N c.h (q, p) (q', p') → D q' p') :
    ∀ (fuel pos q : Nat) (sl : Slots) (vis : Array Bool), D q pos → c.spanStart ≤ pos → pos ≤ c.h.size →
      ChgIn c D vis (btCapsFind c fuel pos q sl vis).2 := by
  intro fuel
  induction fuel with
  | zero => intro pos q sl vis _ _ _; simp only [btCapsFind]; exact ChgIn.refl c D vis
  | succ fuel ih =>
    intro pos q sl vis hd hsp hle
    rw [btCapsFind_unfold]
    split
    · exact ChgIn.refl c D vis
    · rename_i hq
      split
      · exact ChgIn.refl c D vis
      · have hmark : ChgIn c D vis (vis.setIfInBounds (c.idx q pos) true) := by
          intro i hi
          by_cases he : c.idx q pos = i
          · exact ⟨q, pos, hd, by omega, hsp, he.symm⟩
          · rw [getD_set_other he] at hi
            exact absurd rfl hi
        split
        · exact hmark
        · refine hmark.trans ?_
          apply tryCfg_pres (f := btCapsFind c fuel) (ChgIn c D) (ChgIn.refl c D) (fun _ _ _ => ChgIn.trans)
          intro x hx v
          obtain ⟨hst, _⟩ := nexts_step hx
          have hp := nexts_pos hx hle
          exact ih x.1 x.2.1 x.2.2 v (hD _ _ _ _ hd hst) (by omega) hp.2

/-- a call started in a dead configuration finds nothing -/
theorem btCapsFind_dead (c : BTCtx) (fuel pos q : Nat) (sl : Slots) (vis : Array Bool)
    (hn : Pike.NM c.N c.h pos q) : (btCapsFind c fuel pos q sl vis).1 = none := by
  cases hr : (btCapsFind c fuel pos q sl vis).1 with
  | none => rfl
  | some r =>
    exfalso
    have he := (btCapsFind_erase c fuel pos q sl vis).1
    rw [hr] at he
    simp only [Option.map_some] at he
    exact hn ⟨r.1, btFind_sound c fuel pos q vis _ r.1 (Prod.ext he.symm rfl)⟩

theorem nm_closed (c : BTCtx) : ∀ q p q' p', Pike.NM c.N c.h p q → Step c.N c.h (q, p) (q', p') →
    Pike.NM c.N c.h p' q' := fun _ _ _ _ hn hs => hn.step hs

/-! ### enlarging the visited set by dead configurations does not change the answer -/

/-- the two visited sets differ only at dead configurations -/
def DA (c : BTCtx) (V1 V2 : Array Bool) : Prop :=
  V1.size = V2.size ∧ ∀ q p, q < c.N.states.size → c.spanStart ≤ p → p ≤ c.h.size →
    V1.getD (c.idx q p) true ≠ V2.getD (c.idx q p) true → Pike.NM c.N c.h p q

theorem DA.refl (c : BTCtx) (V : Array Bool) : DA c V V := ⟨rfl, fun _ _ _ _ _ h => absurd rfl h⟩

theorem DA.chg_right {c : BTCtx} {V1 V2 V2' : Array Bool} (h : DA c V1 V2)
    (hc : ChgIn c (fun q p => Pike.NM c.N c.h p q) V2 V2') (hs : V2'.size = V2.size) : DA c V1 V2' := by
  refine ⟨h.1.trans hs.symm, ?_⟩
  intro q p hq hsp hle hne
  by_cases h2 : V2'.getD (c.idx q p) true = V2.getD (c.idx q p) true
  · exact h.2 q p hq hsp hle (by rw [← h2]; exact hne)
  · obtain ⟨q', p', hd, hq', hsp', he⟩ := hc _ h2
    obtain ⟨rfl, rfl⟩ := idx_inj c hq hq' hsp hsp' he
    exact hd

theorem DA.chg_left {c : BTCtx} {V1 V1' V2 : Array Bool} (h : DA c V1 V2)
    (hc : ChgIn c (fun q p => Pike.NM c.N c.h p q) V1 V1') (hs : V1'.size = V1.size) : DA c V1' V2 := by
  refine ⟨hs.trans h.1, ?_⟩
  intro q p hq hsp hle hne
  by_cases h2 : V1'.getD (c.idx q p) true = V1.getD (c.idx q p) true
  · exact h.2 q p hq hsp hle (by rw [← h2]; exact hne)
  · obtain ⟨q', p', hd, hq', hsp', he⟩ := hc _ h2
    obtain ⟨rfl, rfl⟩ := idx_inj c hq hq' hsp hsp' he
    exact hd

theorem DA.set_both {c : BTCtx} {V1 V2 : Array Bool} (h : DA c V1 V2) (i : Nat) :
    DA c (V1.setIfInBounds i true) (V2.setIfInBounds i true) := by
  refine ⟨by simp [h.1], ?_⟩
  intro q p hq hsp hle hne
  by_cases he : i = c.idx q p
  · exfalso
    subst he
    apply hne
    have e1 : V1.size = V2.size := h.1
    simp only [Array.getD_eq_getD_getElem?, Array.getElem?_setIfInBounds, e1, ↓reduceIte]
  · rw [getD_set_other he, getD_set_other he] at hne
    exact h.2 q p hq hsp hle hne

theorem tryCfg_DA (c : BTCtx) (fuel : Nat)
    (ih : ∀ (pos q : Nat) (sl : Slots) (V1 V2 : Array Bool), DA c V1 V2 → V1.count false < fuel → V2.count false < fuel →
      c.spanStart ≤ pos → pos ≤ c.h.size →
      (btCapsFind c fuel pos q sl V1).1 = (btCapsFind c fuel pos q sl V2).1 ∧
      DA c (btCapsFind c fuel pos q sl V1).2 (btCapsFind c fuel pos q sl V2).2) :
    ∀ (L : List (Nat × Nat × Slots)) (V1 V2 : Array Bool), (∀ x ∈ L, c.spanStart ≤ x.1 ∧ x.1 ≤ c.h.size) →
      DA c V1 V2 → V1.count false < fuel → V2.count false < fuel →
      (tryCfg (btCapsFind c fuel) L V1).1 = (tryCfg (btCapsFind c fuel) L V2).1 ∧
      DA c (tryCfg (btCapsFind c fuel) L V1).2 (tryCfg (btCapsFind c fuel) L V2).2 := by
  intro L
  induction L with
  | nil => intro V1 V2 _ hda _ _; exact ⟨rfl, hda⟩
  | cons x L ihL =>
    intro V1 V2 hL hda h1 h2
    obtain ⟨p, q, sl⟩ := x
    have hx := hL (p, q, sl) List.mem_cons_self
    obtain ⟨a1, a2⟩ := ih p q sl V1 V2 hda h1 h2 hx.1 hx.2
    have c1 := (btCapsFind_vis c fuel p q sl V1).2
    have c2 := (btCapsFind_vis c fuel p q sl V2).2
    simp only [tryCfg]
    cases hf1 : btCapsFind c fuel p q sl V1 with
    | mk r1 v1 =>
      cases hf2 : btCapsFind c fuel p q sl V2 with
      | mk r2 v2 =>
        rw [hf1, hf2] at a1 a2
        rw [hf1] at c1
        rw [hf2] at c2
        simp only at a1 a2 c1 c2
        subst a1
        cases r1 with
        | some e => exact ⟨rfl, a2⟩
        | none =>
          exact ihL v1 v2 (fun y hy => hL y (List.mem_cons_of_mem _ hy)) a2 (by omega) (by omega)

theorem btCapsFind_DA (c : BTCtx) : ∀ (fuel pos q : Nat) (sl : Slots) (V1 V2 : Array Bool), DA c V1 V2 →
    V1.count false < fuel → V2.count false < fuel → c.spanStart ≤ pos → pos ≤ c.h.size →
    (btCapsFind c fuel pos q sl V1).1 = (btCapsFind c fuel pos q sl V2).1 ∧
    DA c (btCapsFind c fuel pos q sl V1).2 (btCapsFind c fuel pos q sl V2).2 := by
  intro fuel
  induction fuel with
  | zero => intro pos q sl V1 V2 _ h1; omega
  | succ fuel ih =>
    intro pos q sl V1 V2 hda h1 h2 hsp hle
    by_cases hq : q ≥ c.N.states.size
    · rw [btCapsFind_unfold, btCapsFind_unfold, if_pos hq, if_pos hq]
      exact ⟨rfl, hda⟩
    · have hq' : q < c.N.states.size := by omega
      by_cases m1 : V1.getD (c.idx q pos) true = true
      · by_cases m2 : V2.getD (c.idx q pos) true = true
        · rw [btCapsFind_unfold, btCapsFind_unfold, if_neg hq, if_neg hq, if_pos m1, if_pos m2]
          exact ⟨rfl, hda⟩
        · -- marked on the left only: the configuration is dead
          have hn : Pike.NM c.N c.h pos q := hda.2 q pos hq' hsp hle (by rw [m1]; simpa using m2)
          have hl : btCapsFind c (fuel+1) pos q sl V1 = (none, V1) := by
            rw [btCapsFind_unfold, if_neg hq, if_pos m1]
          rw [hl, btCapsFind_dead c _ pos q sl V2 hn]
          exact ⟨rfl, hda.chg_right (btCapsFind_chg c _ (nm_closed c) _ pos q sl V2 hn hsp hle)
            (btCapsFind_vis c _ pos q sl V2).1⟩
      · by_cases m2 : V2.getD (c.idx q pos) true = true
        · have hn : Pike.NM c.N c.h pos q := hda.2 q pos hq' hsp hle (by rw [m2]; simpa using m1)
          have hr : btCapsFind c (fuel+1) pos q sl V2 = (none, V2) := by
            rw [btCapsFind_unfold, if_neg hq, if_pos m2]
          rw [hr, btCapsFind_dead c _ pos q sl V1 hn]
          exact ⟨rfl, hda.chg_left (btCapsFind_chg c _ (nm_closed c) _ pos q sl V1 hn hsp hle)
            (btCapsFind_vis c _ pos q sl V1).1⟩
        · rw [btCapsFind_unfold, btCapsFind_unfold, if_neg hq, if_neg hq, if_neg m1, if_neg m2]
          have m1' : V1.getD (c.idx q pos) true = false := by simpa using m1
          have m2' : V2.getD (c.idx q pos) true = false := by simpa using m2
          have k1 := count_set_lt m1'
          have k2 := count_set_lt m2'
          split
          · exact ⟨rfl, hda.set_both _⟩
          · exact tryCfg_DA c fuel ih (nexts c pos q sl) _ _
              (fun x hx => by have := nexts_pos hx hle; exact ⟨by omega, this.2⟩)
              (hda.set_both _) (by omega) (by omega)


/-! ### (a) group 0 is the overall leftmost-first match -/

def spanOf (sl : Slots) : Nat × Nat := ((sl.getD 0 0).toNat, (sl.getD 1 0).toNat)

theorem spanOf_withSpan (s e : Nat) (sl : Slots) : spanOf (withSpan s e sl) = (s, e) := by
  simp [spanOf, withSpan]

theorem btCapsFrom_span (N : NFA) (h : Bytes) (at_ n : Nat) : ∀ (fuel start : Nat),
    (btCapsFrom N h at_ n fuel start).map spanOf = btSearchFrom N h at_ fuel start := by
  intro fuel
  induction fuel with
  | zero => intro start; rfl
  | succ fuel ih =>
    intro start
    rw [btCapsFrom, btSearchFrom]
    split
    · rfl
    · simp only []
      have he := (btCapsFind_erase { N := N, h := h, spanStart := at_ } (btFuel N h) start N.startAnchored (unset n)
        (freshVis N h)).1
      cases hr : (btCapsFind { N := N, h := h, spanStart := at_ } (btFuel N h) start N.startAnchored (unset n)
        (freshVis N h)).1 with
      | none =>
        rw [hr] at he
        simp only [Option.map_none] at he
        rw [← he]
        exact ih (start+1)
      | some r =>
        obtain ⟨e, sl⟩ := r
        rw [hr] at he
        simp only [Option.map_some] at he
        rw [← he]
        simp [spanOf_withSpan]

/-- (a) group 0 of the reference is the leftmost-first span of the backtracker -/
theorem btCaps_span (N : NFA) (h : Bytes) (at_ n : Nat) : (btCaps N h at_ n).map spanOf = btSearchAt N h at_ :=
  btCapsFrom_span N h at_ n _ _

theorem btCaps_span_some {N : NFA} {h : Bytes} {at_ n : Nat} {sl : Slots} (hr : btCaps N h at_ n = some sl) :
    btSearchAt N h at_ = some ((sl.getD 0 0).toNat, (sl.getD 1 0).toNat) := by
  rw [← btCaps_span N h at_ n, hr]; rfl

theorem btCaps_none_iff (N : NFA) (h : Bytes) (at_ n : Nat) : btCaps N h at_ n = none ↔ btSearchAt N h at_ = none := by
  rw [← btCaps_span N h at_ n]
  cases btCaps N h at_ n <;> simp

/-! ### (b) where the slots of the answer can point -/

theorem getD_set_cases (sl : Slots) (k0 : Nat) (v : Int) (k : Nat) :
    (sl.set k0 v).getD k (-1) = sl.getD k (-1) ∨ (sl.set k0 v).getD k (-1) = v := by
  simp only [List.getD_eq_getElem?_getD, List.getElem?_set]
  split
  · split
    · right; rfl
    · left
      rename_i h1 h2
      subst h1
      simp [List.getElem?_eq_none (by omega : sl.length ≤ k0)]
  · left; rfl

/-- slots of the first accepting path from `(pos, q)`: unchanged, or an offset between `pos` and the match end -/
theorem btCapsFind_bounds (c : BTCtx) : ∀ (fuel pos q : Nat) (sl : Slots) (vis : Array Bool) (e : Nat) (sl' : Slots)
    (v' : Array Bool), btCapsFind c fuel pos q sl vis = (some (e, sl'), v') → pos ≤ c.h.size →
    pos ≤ e ∧ e ≤ c.h.size ∧ sl'.length = sl.length ∧
    ∀ k, sl'.getD k (-1) = sl.getD k (-1) ∨ ((pos : Int) ≤ sl'.getD k (-1) ∧ sl'.getD k (-1) ≤ (e : Int)) := by
  intro fuel
  induction fuel with
  | zero => intro pos q sl vis e sl' v' hr; simp [btCapsFind] at hr
  | succ fuel ih =>
    intro pos q sl vis e sl' v' hr hle
    rw [btCapsFind_unfold] at hr
    split at hr
    · simp at hr
    · split at hr
      · simp at hr
      · split at hr
        · simp only [Prod.mk.injEq, Option.some.injEq] at hr
          obtain ⟨⟨rfl, rfl⟩, _⟩ := hr
          exact ⟨Nat.le_refl _, hle, rfl, fun _ => Or.inl rfl⟩
        · obtain ⟨x, hx, v0, v1, hf⟩ := tryCfg_some hr
          obtain ⟨_, hsl⟩ := nexts_step hx
          have hp := nexts_pos hx hle
          obtain ⟨b1, b2, b3, b4⟩ := ih x.1 x.2.1 x.2.2 v0 e sl' v1 hf hp.2
          refine ⟨by omega, b2, ?_, ?_⟩
          · rcases hsl with h1 | ⟨k0, h1, _⟩
            · rw [b3, h1]
            · rw [b3, h1]; simp
          · intro k
            rcases b4 k with h2 | h2
            · rcases hsl with h1 | ⟨k0, h1, h3⟩
              · left; rw [h2, h1]
              · rw [h1] at h2
                rcases getD_set_cases sl k0 (pos : Int) k with h4 | h4
                · left; rw [h2, h4]
                · right
                  rw [h2, h4]
                  exact ⟨Int.le_refl _, by omega⟩
            · right
              exact ⟨by omega, h2.2⟩

theorem unset_getD (n k : Nat) : (unset n).getD k (-1) = -1 := by
  simp only [unset, List.getD_eq_getElem?_getD, List.getElem?_replicate]
  split <;> rfl

theorem btCapsFrom_wf (N : NFA) (h : Bytes) (at_ n : Nat) : ∀ (fuel start : Nat) (sl : Slots),
    at_ ≤ start → btCapsFrom N h at_ n fuel start = some sl →
    ∃ s e : Nat, at_ ≤ s ∧ s ≤ e ∧ e ≤ h.size ∧ sl.getD 0 0 = (s : Int) ∧ sl.getD 1 0 = (e : Int) ∧
      sl.length = 2 + (n - 2) ∧
      ∀ k, 2 ≤ k → sl.getD k (-1) = -1 ∨ ((s : Int) ≤ sl.getD k (-1) ∧ sl.getD k (-1) ≤ (e : Int)) := by
  intro fuel
  induction fuel with
  | zero => intro start sl _ hr; simp [btCapsFrom] at hr
  | succ fuel ih =>
    intro start sl hat hr
    rw [btCapsFrom] at hr
    split at hr
    · simp at hr
    · rename_i hle
      simp only [] at hr
      split at hr
      · rename_i e sl' hf
        simp only [Option.some.injEq] at hr
        subst hr
        obtain ⟨b1, b2, b3, b4⟩ := btCapsFind_bounds _ _ _ _ _ _ e sl' _ (Prod.ext hf rfl) (by simp only; omega)
        refine ⟨start, e, hat, b1, b2, by simp [withSpan], by simp [withSpan], ?_, ?_⟩
        · simp [withSpan, b3, unset]; omega
        · intro k hk
          obtain ⟨j, rfl⟩ : ∃ j, k = j + 2 := ⟨k - 2, by omega⟩
          have hg : (withSpan start e sl').getD (j + 2) (-1) = sl'.getD (j + 2) (-1) := by
            simp [withSpan, List.getD_eq_getElem?_getD, Nat.add_comm]
          rw [hg]
          rcases b4 (j+2) with h1 | h1
          · left; rw [h1, unset_getD]
          · right; exact h1
      · exact ih (start+1) sl (by omega) hr

/-- (b) well-formedness of the reference answer: group 0 is a span inside `[at, len]`, and every other slot is
    unset or an offset inside the overall span.  (On an arbitrary automaton nothing orders the two slots of one
    group, and one of them may be set without the other: see `Cx.Caps.ex_start_without_end`.) -/
theorem btCaps_wf {N : NFA} {h : Bytes} {at_ n : Nat} {sl : Slots} (hr : btCaps N h at_ n = some sl) :
    ∃ s e : Nat, at_ ≤ s ∧ s ≤ e ∧ e ≤ h.size ∧ sl.getD 0 0 = (s : Int) ∧ sl.getD 1 0 = (e : Int) ∧
      sl.length = 2 + (n - 2) ∧
      ∀ k, 2 ≤ k → sl.getD k (-1) = -1 ∨ ((s : Int) ≤ sl.getD k (-1) ∧ sl.getD k (-1) ≤ (e : Int)) :=
  btCapsFrom_wf N h at_ n _ _ sl (Nat.le_refl _) hr

/-! ### one visited set shared by all start positions -/

/-- as `btCapsFrom`, but the visited set is never reset between start positions (this is what the Pike VM's
    generation-wise `Visited` amounts to) -/
def btSharedFrom (N : NFA) (h : Bytes) (at_ nslots : Nat) : Nat → Nat → Array Bool → Option Slots
  | 0, _, _ => none
  | fuel+1, start, V =>
    if start > h.size then none else
    match btCapsFind { N := N, h := h, spanStart := at_ } (btFuel N h) start N.startAnchored (unset nslots) V with
    | (some (e, sl), _) => some (withSpan start e sl)
    | (none, V') => btSharedFrom N h at_ nslots fuel (start+1) V'

theorem da_fresh {c : BTCtx} {V : Array Bool} (hinv : Inv c V (fun _ _ => False))
    (hs : V.size = (freshVis c.N c.h).size) : DA c V (freshVis c.N c.h) := by
  refine ⟨hs, ?_⟩
  intro q p hq hsp hle hne
  rw [freshVis_getD c.N c.h (idx_lt c hq hle)] at hne
  have hm : V.getD (c.idx q p) true = true := by
    cases hv : V.getD (c.idx q p) true with
    | true => rfl
    | false => exact absurd hv hne
  exact pruned_no_reach hinv (Or.inr hm) hsp hle

theorem btSharedFrom_eq (N : NFA) (h : Bytes) (at_ n : Nat) : ∀ (fuel start : Nat) (V : Array Bool),
    at_ ≤ start → Inv { N := N, h := h, spanStart := at_ } V (fun _ _ => False) → V.size = (freshVis N h).size →
    V.count false < btFuel N h →
    btSharedFrom N h at_ n fuel start V = btCapsFrom N h at_ n fuel start := by
  intro fuel
  induction fuel with
  | zero => intro start V _ _ _ _; rfl
  | succ fuel ih =>
    intro start V hat hinv hs hc
    rw [btSharedFrom, btCapsFrom]
    split
    · rfl
    · rename_i hle
      simp only []
      obtain ⟨a1, _⟩ := btCapsFind_DA { N := N, h := h, spanStart := at_ } (btFuel N h) start N.startAnchored
        (unset n) V (freshVis N h) (da_fresh hinv hs) hc (freshVis_fuel N h) hat (by simp only; omega)
      cases hf : btCapsFind { N := N, h := h, spanStart := at_ } (btFuel N h) start N.startAnchored (unset n) V with
      | mk r V' =>
        rw [hf] at a1
        simp only at a1
        rw [← a1]
        cases r with
        | some r => obtain ⟨e, sl⟩ := r; rfl
        | none =>
          simp only []
          have he := btCapsFind_erase { N := N, h := h, spanStart := at_ } (btFuel N h) start N.startAnchored (unset n) V
          rw [hf] at he
          simp only [Option.map_none] at he
          have hb := btFind_none { N := N, h := h, spanStart := at_ } (btFuel N h) start N.startAnchored V V'
            (fun _ _ => False) (Prod.ext he.1.symm he.2.symm) hc hat hinv
          have hv := btCapsFind_vis { N := N, h := h, spanStart := at_ } (btFuel N h) start N.startAnchored (unset n) V
          rw [hf] at hv
          exact ih (start+1) V' (by omega) hb.1 (hv.1.trans hs) (by have := hv.2; simp only at this; omega)

/-- the shared-visited search from a fresh visited set is the reference -/
theorem btShared_eq (N : NFA) (h : Bytes) (at_ n : Nat) :
    btSharedFrom N h at_ n (h.size + 2 - at_) at_ (freshVis N h) = btCaps N h at_ n :=
  btSharedFrom_eq N h at_ n _ _ _ (Nat.le_refl _) (freshVis_inv _) rfl (freshVis_fuel N h)

end Cx.Caps
