import Cx.Proofs.CompositeDfa
/-
  Cx.Proofs.CompositeDfaCex — why `compositeSequenceDFA_eq_reference` assumes `IsCompositeCharClassPattern` and not
  merely `IsCompositeSequenceDFAPattern`: the latter (like `NewCompositeSequenceDFA`) looks at the extracted parts only
  and accepts non-greedy quantifiers and Latin-1 class members, which the DFA does not implement.  meta never builds the
  DFA for such a pattern (the strategy is selected by `IsCompositeCharClassPattern`); the public nfa API does.
  Both witnesses confirmed on the Go code (gocheck/cexprobe):
      `[ab]+[cd]+?`      on "acc"    : DFA (0,3), regexp [0 2]
      `[a\x{e9}]+[cd]+`  on "\xe9c"  : DFA (0,2), regexp no match
-/
namespace Cx.CompDfa
open Cx Cx.Fast

/-- `[ab]+[cd]+?` -/
def reLazyTail : Re := Re.cat [Re.plusOf (Re.cls [97, 98]), Re.plusOf (Re.cls [99, 100]) true]

/-- `[a\x{e9}]+[cd]+` -/
def reLatin1 : Re := Re.cat [Re.plusOf (Re.cls [97, 97, 233, 233]), Re.plusOf (Re.cls [99, 100])]

set_option maxRecDepth 1000000 in
/-- the predicate and the constructor accept a non-greedy part; meta's predicate does not -/
theorem lazyTail_accepted : isCompositeSequenceDFAPattern reLazyTail = true ∧ isCompositeCharClassPattern reLazyTail = false := by
  decide

set_option maxRecDepth 1000000 in
/-- … and the DFA then returns the greedy end, the reference matcher (like `regexp`) the lazy one -/
theorem lazyTail_counterexample :
    (newCompositeSequenceDFA reLazyTail).map (fun d => d.searchAt #[97, 99, 99] 0) = some (some (0, 3)) ∧
    Ref.refFind reLazyTail #[97, 99, 99] 0 = some (0, 2) := by
  decide

set_option maxRecDepth 1000000 in
theorem latin1_accepted : isCompositeSequenceDFAPattern reLatin1 = true ∧ isCompositeCharClassPattern reLatin1 = false := by
  decide

set_option maxRecDepth 1000000 in
/-- a class member U+00E9 is used as the BYTE 0xE9 -/
theorem latin1_counterexample :
    (newCompositeSequenceDFA reLatin1).map (fun d => d.searchAt #[233, 99] 0) = some (some (0, 2)) ∧
    Ref.refFind reLatin1 #[233, 99] 0 = none := by
  decide

end Cx.CompDfa
