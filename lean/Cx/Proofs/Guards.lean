import Cx.Model.Guards
import Cx.Spec.ReSem
import Cx.Proofs.Fast
/-
  Cx.Proofs.Guards — what the strategy guards of the meta engine (Cx.Model.Guards = the AST predicates of meta/strategy.go,
  meta/compile.go, meta/reverse_inner.go) GUARANTEE.  The guards are the hypotheses of the strategy theorems ("a reverse strategy
  is only selected for a look-free automaton", "no lazy quantifier under the DFA pair", "the literal engines only without
  assertions", "every match starts with a digit", "no match contains '\n'", …); here they are discharged at the level of the AST.

  §0  induction over the nested AST (`Re.induct`, `Re.strongInduct`), `Node x re` (x is a node of re, under ANY operator),
      `HasOp re ops`, the generic lemma `guard_exact`, the parser normal form `normalForm` (decidable; checked by the harness on every
      AST it sends: "Cx.Guards.normalForm holds on the parsed AST")
  §1  EXACTNESS of the structural guards: the guard answers `true` iff some node (at any depth, under every operator: capture,
      `* + ? {n,m}`, concatenation, alternation) has the property — the typical slip of such a function is a case missing in its switch
        hasWordBoundary_exact            ↔ HasOp re [\b, \B]                                      (normalForm)
        hasNonGreedyQuantifier_exact     ↔ some `* + ? {n,m}` node carries NonGreedy               (normalForm)
        hasAnchorAssertions_exact        ↔ HasOp re [^ $ \A \z \b \B, both line modes]            (every AST)
        hasMultilineLineAnchor_exact     ↔ HasOp re [(?m)^, (?m)$]                                 (every AST)
        hasNonLineAnchors_exact          ↔ HasOp re [(?m)$, \A, \z, \b, \B]                       (normalForm)
        hasCaseInsensitiveUnicode_exact  ↔ some node has FoldCase and a rune > 127 in `Rune`        (every AST)
        hasWordBoundaryAnchorCombo_eq    = hasWordBoundary  (the "combination with an anchor" is vacuous: `\b` IS an anchor for
                                           `hasAnchorAssertions`)                                   (every AST)
        containsAnchor_exact             ↔ HasOp re [^ $ \A \z]                                    (normalForm)
        isSimpleCharClass_exact          ↔ every node is a class, `* + ? {n,m}`, concat or capture  (normalForm)
        isSafeForReverseSuffix_exact     ↔ ReverseSuffixShape (unwrapCapture re)                    (every AST)
        isSafeForReverseInner_exact      ↔ ReverseInnerShape (unwrapCapture re)                     (every AST)
  §2  `run_sound`: every answer of the reference matcher `Ref.run` / `matchAt` / `refFind` (Cx.Spec.ReRef) is a match of the
      declarative semantics `Cx.Fast.Sem.Matches` (Cx.Spec.ReSem) — for every fuel, task, continuation
  §3  SOUNDNESS of the semantic guards, for every haystack (well-formed UTF-8 or not) and every position
        canMatchEmpty_sound                      `false` ⇒ no match is empty                          (normalForm)
        canMatchNewline_sound                    `false` ⇒ no match contains 0x0A                     (every AST)
        isDigitLeadPattern_sound                 `true` ⇒ every match is non-empty and starts with an ASCII digit   (every AST)
        isDigitRunSkipSafe_sound                 `true` ⇒ inside a run of digits a match from a later start extends to a match
                                                 from every earlier start of the run, with the same end            (every AST)
        isSafeForMultilineReverseSuffix_sound    `true` ⇒ every match starts at a line start and contains no '\n'  (every AST)
        lineAnchorLeadsEveryBranch_sound         `true` ⇒ every match starts at a line start                        (every AST)
        isStartAnchorOnly_zeroWidth / _matches_at_zero   `true` ⇒ every match is empty; the pattern matches at position 0
  §4  the guards in combination: lookFree_of_guard, noWordBoundary_of_guard, allGreedy_of_guard, literalEngine_guard; the
      `_ref` corollaries about `Ref.refFind`
  §5  examples (`decide`): non-vacuity, and promises of doc comments the code does NOT keep:
        isStartAnchorOnly_not_only_at_zero        "empty at position 0 only" is false ((?m)^, the empty regexp, (?:^)*)  [unreachable]
        isSafeForReverseSuffix_accepts_anchors     anchors in the first / last element are not seen  [covered by hasAnchorAssertions]
        isSafeForReverseSuffix_accepts_quest_and_classStar, isDigitRunSkipSafe_ignores_lazy, hasCaseInsensitiveUnicode_written_runes_only,
        canMatchEmpty_needs_normalForm
-/
namespace Cx.Guards
open Cx Cx.Fast Cx.Fast.Sem

/-! ## §0 induction over the AST, nodes -/

/-- structural induction over `Re` (the nested inductive): the hypothesis for every operand -/
theorem Re.induct {P : Re → Prop}
    (step : ∀ op ng fc sub rune mn mx, (∀ x ∈ sub, P x) → P (.mk op ng fc sub rune mn mx)) : ∀ re, P re := by
  intro re
  exact Re.rec (motive_1 := P) (motive_2 := fun l => ∀ x ∈ l, P x)
    (fun op ng fc sub rune mn mx ih => step op ng fc sub rune mn mx ih)
    (fun x hx => nomatch hx)
    (fun hd tl ih1 ih2 x hx => by
      cases hx with
      | head => exact ih1
      | tail _ h => exact ih2 x h) re

/-- `Node x re`: `x` is a node of `re` — `re` itself, or a node of one of the operands in `re.Sub`, WHATEVER the operator of `re`
    is (reflexive-transitive closure of "is an operand of") -/
inductive Node : Re → Re → Prop
  | self (re : Re) : Node re re
  | child {x c re : Re} : c ∈ re.sub → Node x c → Node x re

theorem Node.trans {x y z : Re} (h1 : Node x y) (h2 : Node y z) : Node x z := by
  induction h2 with
  | self => exact h1
  | @child c z hc _ ih => exact .child hc ih

/-- induction with the hypothesis for every PROPER node (needed where a guard inspects `re.Sub[0].Sub[0]`) -/
theorem Re.strongInduct {P : Re → Prop}
    (step : ∀ re, (∀ c ∈ re.sub, ∀ y, Node y c → P y) → P re) : ∀ re, P re := by
  have key : ∀ re, ∀ y, Node y re → P y := by
    refine Re.induct ?_
    intro op ng fc sub rune mn mx ih y hy
    have hall : ∀ c ∈ sub, ∀ y, Node y c → P y := ih
    cases hy with
    | self => exact step _ hall
    | child hc hyc => exact hall _ hc _ hyc
  exact fun re => key re re (.self re)

/-- some node of `re` has an operator in `ops` -/
def HasOp (re : Re) (ops : List Op) : Prop := ∃ x, Node x re ∧ x.op ∈ ops

/-- the shape of all "is there a node such that …" guards: `f` answers `hit` at the node or descends — under the operators
    `desc` — into every operand.  If at every node that is neither a hit nor descended into there is nothing below (`hcov`), `f`
    finds exactly the nodes with `hit`. -/
theorem guard_exact_mp {f hit : Re → Bool} {desc : Op → Bool} : ∀ re : Re,
    (∀ x, Node x re → f x = (hit x || (desc x.op && x.sub.any f))) →
    f re = true → ∃ x, Node x re ∧ hit x = true := by
  refine Re.induct ?_
  intro op ng fc sub rune mn mx ih hf h
  rw [hf _ (Node.self _)] at h
  rcases Bool.or_eq_true_iff.mp h with h1 | h1
  · exact ⟨_, .self _, h1⟩
  · obtain ⟨_, h2⟩ := Bool.and_eq_true_iff.mp h1
    obtain ⟨c, hc, hfc⟩ := List.any_eq_true.mp h2
    obtain ⟨x, hx, hh⟩ := ih c hc (fun y hy => hf y (.child hc hy)) hfc
    exact ⟨x, .child hc hx, hh⟩

theorem guard_exact_mpr {f hit : Re → Bool} {desc : Op → Bool} {x re : Re} (hn : Node x re) :
    (∀ y, Node y re → f y = (hit y || (desc y.op && y.sub.any f))) →
    (∀ y, Node y re → hit y = true ∨ desc y.op = true ∨ y.sub = []) →
    hit x = true → f re = true := by
  induction hn with
  | self => intro hf _ hx; rw [hf _ (.self _), hx]; rfl
  | @child c re hc hxc ih =>
    intro hf hcov hx
    have hfc := ih (fun y hy => hf y (.child hc hy)) (fun y hy => hcov y (.child hc hy)) hx
    rw [hf _ (.self _)]
    rcases hcov _ (.self _) with h1 | h1 | h1
    · rw [h1]; rfl
    · rw [h1, Bool.true_and, Bool.or_eq_true_iff]
      exact Or.inr (List.any_eq_true.mpr ⟨c, hc, hfc⟩)
    · rw [h1] at hc; cases hc

theorem guard_exact {f hit : Re → Bool} {desc : Op → Bool} (re : Re)
    (hf : ∀ x, Node x re → f x = (hit x || (desc x.op && x.sub.any f)))
    (hcov : ∀ x, Node x re → hit x = true ∨ desc x.op = true ∨ x.sub = []) :
    f re = true ↔ ∃ x, Node x re ∧ hit x = true :=
  ⟨guard_exact_mp re hf, fun ⟨_, hn, hx⟩ => guard_exact_mpr hn hf hcov hx⟩

/-! ### parser normal form -/

theorem allNormalForm_iff (l : List Re) : allNormalForm l = true ↔ ∀ x ∈ l, normalForm x = true := by
  induction l with
  | nil => simp [allNormalForm]
  | cons x xs ih => simp [allNormalForm, ih]

theorem normalForm_sub {re : Re} (h : normalForm re = true) : ∀ c ∈ re.sub, normalForm c = true := by
  cases re with
  | mk op ng fc sub rune mn mx =>
    simp only [normalForm, Bool.and_eq_true] at h
    exact (allNormalForm_iff sub).mp h.2

theorem normalForm_node {x re : Re} (hn : Node x re) (h : normalForm re = true) : normalForm x = true := by
  induction hn with
  | self => exact h
  | @child c re hc _ ih => exact ih (normalForm_sub h _ hc)

theorem normalForm_leaf {re : Re} (h : normalForm re = true) (hop : isOperator re.op = false) : re.sub = [] := by
  cases re with
  | mk op ng fc sub rune mn mx =>
    simp only [normalForm, Bool.and_eq_true] at h
    have h1 := h.1.1.1.1
    cases op <;> simp_all [isOperator, isUnary, Re.op, Re.sub]

theorem normalForm_unary {re : Re} (h : normalForm re = true) (hop : isUnary re.op = true) : ∃ c, re.sub = [c] := by
  cases re with
  | mk op ng fc sub rune mn mx =>
    simp only [normalForm, Bool.and_eq_true] at h
    have h1 := h.1.1.1.1
    simp only [Re.op] at hop
    rw [if_pos hop] at h1
    have hl : sub.length = 1 := of_decide_eq_true h1
    match sub, hl with
    | [c], _ => exact ⟨c, rfl⟩

/-! ## §1 EXACTNESS of the structural guards -/

def wbOps : List Op := [.wordBoundary, .noWordBoundary]
def lookOps : List Op := [.beginLine, .endLine, .beginText, .endText, .wordBoundary, .noWordBoundary]
def lineOps : List Op := [.beginLine, .endLine]
def anchorOps : List Op := [.beginLine, .endLine, .beginText, .endText]
def nonLineOps : List Op := [.endLine, .endText, .beginText, .wordBoundary, .noWordBoundary]
def quantOps : List Op := [.star, .plus, .quest, .repeat_]

theorem hasOp_of_hit {re : Re} {ops : List Op} :
    (∃ x, Node x re ∧ decide (x.op ∈ ops) = true) ↔ HasOp re ops := by
  unfold HasOp
  constructor
  · rintro ⟨x, hx, h⟩; exact ⟨x, hx, of_decide_eq_true h⟩
  · rintro ⟨x, hx, h⟩; exact ⟨x, hx, decide_eq_true h⟩

/-- under the parser normal form a node whose operator has no operands has none -/
theorem cover_of_normalForm {re : Re} (hnf : normalForm re = true) (hit : Re → Bool) :
    ∀ x, Node x re → hit x = true ∨ isOperator x.op = true ∨ x.sub = [] := by
  intro x hx
  cases hop : isOperator x.op with
  | true => exact Or.inr (Or.inl rfl)
  | false => exact Or.inr (Or.inr (normalForm_leaf (normalForm_node hx hnf) hop))

/-! ### hasWordBoundary -/

theorem anyWordBoundary_eq (l : List Re) : anyWordBoundary l = l.any hasWordBoundary := by
  induction l with
  | nil => rfl
  | cons x xs ih => simp only [anyWordBoundary, List.any_cons, ih]

theorem hasWordBoundary_eq (re : Re) :
    hasWordBoundary re = (decide (re.op ∈ wbOps) || (isOperator re.op && re.sub.any hasWordBoundary)) := by
  cases re with
  | mk op ng fc sub rune mn mx =>
    cases op <;> simp [hasWordBoundary, anyWordBoundary_eq, wbOps, isOperator, Re.op, Re.sub]

/-- **`hasWordBoundary` is exact**: it answers `true` iff SOME node of the pattern — under any nesting of captures, repetitions
    (`*`, `+`, `?`, `{n,m}`), concatenations and alternations — is `\b` or `\B` -/
theorem hasWordBoundary_exact (re : Re) (hnf : normalForm re = true) :
    hasWordBoundary re = true ↔ HasOp re wbOps :=
  (guard_exact (desc := isOperator) re (fun x _ => hasWordBoundary_eq x) (cover_of_normalForm hnf _)).trans hasOp_of_hit

/-! ### hasNonGreedyQuantifier -/

theorem anyNonGreedy_eq (l : List Re) : anyNonGreedy l = l.any hasNonGreedyQuantifier := by
  induction l with
  | nil => rfl
  | cons x xs ih => simp only [anyNonGreedy, List.any_cons, ih]

/-- a quantifier node that carries the `NonGreedy` flag -/
def isLazyQuant (x : Re) : Bool := decide (x.op ∈ quantOps) && x.nonGreedy

theorem hasNonGreedyQuantifier_eq (re : Re) :
    hasNonGreedyQuantifier re = (isLazyQuant re || (isOperator re.op && re.sub.any hasNonGreedyQuantifier)) := by
  cases re with
  | mk op ng fc sub rune mn mx =>
    cases op <;> simp [hasNonGreedyQuantifier, anyNonGreedy_eq, isLazyQuant, quantOps, isOperator, Re.op, Re.sub, Re.nonGreedy]

/-- **`hasNonGreedyQuantifier` is exact**: `true` iff some `*`, `+`, `?` or `{n,m}` node, at any depth, carries `NonGreedy` -/
theorem hasNonGreedyQuantifier_exact (re : Re) (hnf : normalForm re = true) :
    hasNonGreedyQuantifier re = true ↔ ∃ x, Node x re ∧ x.op ∈ quantOps ∧ x.nonGreedy = true := by
  rw [guard_exact (desc := isOperator) re (fun x _ => hasNonGreedyQuantifier_eq x) (cover_of_normalForm hnf _)]
  constructor
  · rintro ⟨x, hx, h⟩
    obtain ⟨h1, h2⟩ := Bool.and_eq_true_iff.mp h
    exact ⟨x, hx, of_decide_eq_true h1, h2⟩
  · rintro ⟨x, hx, h1, h2⟩
    exact ⟨x, hx, Bool.and_eq_true_iff.mpr ⟨decide_eq_true h1, h2⟩⟩

/-! ### hasAnchorAssertions, hasMultilineLineAnchor (no hypothesis: they loop over `re.Sub` of every node) -/

theorem anyAnchorAssertions_eq (l : List Re) : anyAnchorAssertions l = l.any hasAnchorAssertions := by
  induction l with
  | nil => rfl
  | cons x xs ih => simp only [anyAnchorAssertions, List.any_cons, ih]

theorem hasAnchorAssertions_eq (re : Re) :
    hasAnchorAssertions re = (decide (re.op ∈ lookOps) || (!decide (re.op ∈ lookOps) && re.sub.any hasAnchorAssertions)) := by
  cases re with
  | mk op ng fc sub rune mn mx =>
    cases op <;> simp [hasAnchorAssertions, anyAnchorAssertions_eq, lookOps, Re.op, Re.sub]

theorem cover_not {ops : List Op} (x : Re) :
    decide (x.op ∈ ops) = true ∨ (!decide (x.op ∈ ops)) = true ∨ x.sub = [] := by
  cases decide (x.op ∈ ops) with
  | true => exact Or.inl rfl
  | false => exact Or.inr (Or.inl rfl)

/-- **`hasAnchorAssertions` is exact**, for EVERY AST: `true` iff some node is `^ $ \A \z \b \B` (in either line mode) -/
theorem hasAnchorAssertions_exact (re : Re) : hasAnchorAssertions re = true ↔ HasOp re lookOps :=
  (guard_exact (desc := fun op => !decide (op ∈ lookOps)) re (fun x _ => hasAnchorAssertions_eq x)
    (fun x _ => cover_not x)).trans hasOp_of_hit

theorem anyMultilineLineAnchor_eq (l : List Re) : anyMultilineLineAnchor l = l.any hasMultilineLineAnchor := by
  induction l with
  | nil => rfl
  | cons x xs ih => simp only [anyMultilineLineAnchor, List.any_cons, ih]

theorem hasMultilineLineAnchor_eq (re : Re) :
    hasMultilineLineAnchor re = (decide (re.op ∈ lineOps) || (!decide (re.op ∈ lineOps) && re.sub.any hasMultilineLineAnchor)) := by
  cases re with
  | mk op ng fc sub rune mn mx =>
    cases op <;> simp [hasMultilineLineAnchor, anyMultilineLineAnchor_eq, lineOps, Re.op, Re.sub]

/-- **`hasMultilineLineAnchor` is exact**, for every AST: `true` iff some node is `(?m)^` or `(?m)$` -/
theorem hasMultilineLineAnchor_exact (re : Re) : hasMultilineLineAnchor re = true ↔ HasOp re lineOps :=
  (guard_exact (desc := fun op => !decide (op ∈ lineOps)) re (fun x _ => hasMultilineLineAnchor_eq x)
    (fun x _ => cover_not x)).trans hasOp_of_hit

/-! ### hasNonLineAnchors -/

theorem anyNonLineAnchors_eq (l : List Re) : anyNonLineAnchors l = l.any hasNonLineAnchors := by
  induction l with
  | nil => rfl
  | cons x xs ih => simp only [anyNonLineAnchors, List.any_cons, ih]

theorem hasNonLineAnchors_eq (re : Re) :
    hasNonLineAnchors re = (decide (re.op ∈ nonLineOps) || (!decide (re.op ∈ lookOps) && re.sub.any hasNonLineAnchors)) := by
  cases re with
  | mk op ng fc sub rune mn mx =>
    cases op <;> simp [hasNonLineAnchors, anyNonLineAnchors_eq, nonLineOps, lookOps, Re.op, Re.sub]

/-- **`hasNonLineAnchors` is exact**: `true` iff some node is an assertion other than `(?m)^` (`(?m)$ \A \z \b \B`; the non-multiline
    `^` is `\A`, the non-multiline `$` is `\z`).  `hleaf`: an `OpBeginLine` node has no operands (parser normal form). -/
theorem hasNonLineAnchors_exact (re : Re) (hnf : normalForm re = true) :
    hasNonLineAnchors re = true ↔ HasOp re nonLineOps := by
  refine (guard_exact (desc := fun op => !decide (op ∈ lookOps)) re (fun x _ => hasNonLineAnchors_eq x) ?_).trans hasOp_of_hit
  intro x hx
  cases hl : decide (x.op ∈ lookOps) with
  | false => exact Or.inr (Or.inl rfl)
  | true =>
    refine Or.inr (Or.inr (normalForm_leaf (normalForm_node hx hnf) ?_))
    have := of_decide_eq_true hl
    revert this
    cases x.op <;> simp [lookOps, isOperator]

/-! ### hasCaseInsensitiveUnicode -/

theorem anyCaseInsensitiveUnicode_eq (l : List Re) : anyCaseInsensitiveUnicode l = l.any hasCaseInsensitiveUnicode := by
  induction l with
  | nil => rfl
  | cons x xs ih => simp only [anyCaseInsensitiveUnicode, List.any_cons, ih]

/-- the node carries `FoldCase` and lists a rune above U+007F -/
def isFoldNonAscii (x : Re) : Bool := x.foldCase && x.rune.any fun r => decide (r > 127)

theorem hasCaseInsensitiveUnicode_eq (re : Re) :
    hasCaseInsensitiveUnicode re = (isFoldNonAscii re || (true && re.sub.any hasCaseInsensitiveUnicode)) := by
  cases re with
  | mk op ng fc sub rune mn mx =>
    simp [hasCaseInsensitiveUnicode, anyCaseInsensitiveUnicode_eq, isFoldNonAscii, Re.foldCase, Re.rune, Re.sub]

/-- **`hasCaseInsensitiveUnicode` is exact**, for every AST: `true` iff some node has the `FoldCase` flag and a rune `> 127` in
    its `Rune` list (literal runes, or class range bounds) -/
theorem hasCaseInsensitiveUnicode_exact (re : Re) :
    hasCaseInsensitiveUnicode re = true ↔ ∃ x, Node x re ∧ x.foldCase = true ∧ ∃ r ∈ x.rune, r > 127 := by
  rw [guard_exact (desc := fun _ => true) re (fun x _ => hasCaseInsensitiveUnicode_eq x) (fun _ _ => Or.inr (Or.inl rfl))]
  constructor
  · rintro ⟨x, hx, h⟩
    obtain ⟨h1, h2⟩ := Bool.and_eq_true_iff.mp h
    obtain ⟨r, hr, h3⟩ := List.any_eq_true.mp h2
    exact ⟨x, hx, h1, r, hr, of_decide_eq_true h3⟩
  · rintro ⟨x, hx, h1, r, hr, h3⟩
    exact ⟨x, hx, Bool.and_eq_true_iff.mpr ⟨h1, List.any_eq_true.mpr ⟨r, hr, decide_eq_true h3⟩⟩⟩

/-! ### hasWordBoundaryAnchorCombo -/

theorem anyWordBoundary_le (l : List Re) (ih : ∀ x ∈ l, hasWordBoundary x = true → hasAnchorAssertions x = true) :
    anyWordBoundary l = true → anyAnchorAssertions l = true := by
  rw [anyWordBoundary_eq, anyAnchorAssertions_eq, List.any_eq_true, List.any_eq_true]
  rintro ⟨x, hx, h⟩
  exact ⟨x, hx, ih x hx h⟩

/-- every `\b` / `\B` that `hasWordBoundary` sees, `hasAnchorAssertions` sees too (no hypothesis) -/
theorem hasWordBoundary_le_hasAnchorAssertions : ∀ re, hasWordBoundary re = true → hasAnchorAssertions re = true := by
  refine Re.induct ?_
  intro op ng fc sub rune mn mx ih h
  have hl := anyWordBoundary_le sub ih
  cases op <;> first
    | rfl
    | exact hl h
    | exact absurd h Bool.false_ne_true

/-- **the "combo" guard is `hasWordBoundary`**: `hasAnchorAssertions` counts `\b` / `\B` themselves as anchors, so the conjunction
    adds nothing — EVERY pattern with a word boundary is a "word boundary + anchor combination" (so every `\bfoo\b` with fewer
    than 20 NFA states is sent to `UseNFA`, not only `\b^`-like patterns as the comment says) -/
theorem hasWordBoundaryAnchorCombo_eq (re : Re) : hasWordBoundaryAnchorCombo re = hasWordBoundary re := by
  unfold hasWordBoundaryAnchorCombo
  cases h : hasWordBoundary re with
  | false => rfl
  | true => rw [hasWordBoundary_le_hasAnchorAssertions re h]; rfl

theorem hasWordBoundaryAnchorCombo_exact (re : Re) (hnf : normalForm re = true) :
    hasWordBoundaryAnchorCombo re = true ↔ HasOp re wbOps := by
  rw [hasWordBoundaryAnchorCombo_eq]; exact hasWordBoundary_exact re hnf

/-! ### containsAnchor (helper of isSafeForReverseSuffix) -/

theorem anyContainsAnchor_eq (l : List Re) : anyContainsAnchor l = l.any containsAnchor := by
  induction l with
  | nil => rfl
  | cons x xs ih => simp only [anyContainsAnchor, List.any_cons, ih]

theorem containsAnchor_eq (re : Re) (hnf : normalForm re = true) :
    containsAnchor re = (decide (re.op ∈ anchorOps) || (isOperator re.op && re.sub.any containsAnchor)) := by
  cases hu : isUnary re.op with
  | true =>
    obtain ⟨c, hc⟩ := normalForm_unary hnf hu
    cases re with
    | mk op ng fc sub rune mn mx =>
      simp only [Re.sub] at hc
      subst hc
      cases op <;> simp_all [containsAnchor, headContainsAnchor, anchorOps, isOperator, isUnary, Re.op, Re.sub]
  | false =>
    cases re with
    | mk op ng fc sub rune mn mx =>
      cases op <;> simp_all [containsAnchor, anyContainsAnchor_eq, anchorOps, isOperator, isUnary, Re.op, Re.sub]

/-- **`containsAnchor` is exact** on parsed ASTs: `true` iff some node is `^ $ \A \z` (either line mode); under the unary operators
    the Go function inspects `Sub[0]` only, which is the only operand there is -/
theorem containsAnchor_exact (re : Re) (hnf : normalForm re = true) : containsAnchor re = true ↔ HasOp re anchorOps :=
  (guard_exact (desc := isOperator) re (fun x hx => containsAnchor_eq x (normalForm_node hx hnf))
    (cover_of_normalForm hnf _)).trans hasOp_of_hit

/-! ### the whitelists of the reverse strategies: exact shapes -/

theorem unwrapCapture_capture_cons (ng fc : Bool) (x : Re) (xs : List Re) (rune : List Nat) (mn mx : Int) :
    unwrapCapture (.mk .capture ng fc (x :: xs) rune mn mx) = unwrapCapture x := by
  rw [unwrapCapture]

/-- the result of the unwrapping loop is not a capture group with an operand -/
theorem unwrapCapture_stable : ∀ re, (unwrapCapture re).op = .capture → (unwrapCapture re).sub = [] := by
  refine Re.induct ?_
  intro op ng fc sub rune mn mx ih h
  cases op <;> first
    | (simp [unwrapCapture, Re.op] at h; done)
    | skip
  cases sub with
  | nil => simp [unwrapCapture, Re.sub]
  | cons x xs =>
    rw [unwrapCapture_capture_cons] at h ⊢
    exact ih x (List.mem_cons_self ..) h

theorem isSafeForReverseSuffix_unwrap : ∀ re, isSafeForReverseSuffix re = isSafeForReverseSuffix (unwrapCapture re) := by
  refine Re.induct ?_
  intro op ng fc sub rune mn mx ih
  cases op <;> first
    | rfl
    | skip
  cases sub with
  | nil => rfl
  | cons x xs =>
    rw [unwrapCapture_capture_cons, ← ih x (List.mem_cons_self ..)]
    simp only [isSafeForReverseSuffix, headSafeForReverseSuffix]

/-- what `isSafeForReverseSuffix` accepts, after its capture groups are peeled off: a concatenation of at least two elements,
    one of the elements before the last is a "wildcard" (`.*`, `.+`, `[class]+`, `x{n,m}` with `n ≥ 1`, possibly inside capture
    groups), and no element strictly between the first and the last contains `^ $ \A \z` -/
def ReverseSuffixShape (u : Re) : Prop :=
  u.op = .concat ∧ 2 ≤ u.sub.length ∧ (∃ w ∈ u.sub.dropLast, isWildcardSubexpression w = true) ∧
    ∀ x ∈ u.sub.dropLast.drop 1, containsAnchor x = false

theorem isSafeForReverseSuffix_exact (re : Re) :
    isSafeForReverseSuffix re = true ↔ ReverseSuffixShape (unwrapCapture re) := by
  rw [isSafeForReverseSuffix_unwrap]
  have hst := unwrapCapture_stable re
  generalize unwrapCapture re = u at hst
  cases u with
  | mk op ng fc sub rune mn mx =>
    unfold ReverseSuffixShape
    cases op <;> first
      | (simp only [isSafeForReverseSuffix, Re.op]; constructor
         · intro h; exact absurd h Bool.false_ne_true
         · intro h; exact absurd h.1 (by simp))
      | skip
    · -- capture: no operand left
      have hs : sub = [] := hst rfl
      subst hs
      simp [isSafeForReverseSuffix, headSafeForReverseSuffix, Re.op]
    · -- concat
      simp only [isSafeForReverseSuffix, Re.op, Re.sub, true_and]
      by_cases hl : sub.length < 2
      · simp [hl]; omega
      · simp only [hl, if_false]
        by_cases hw : (List.filter isWildcardSubexpression sub.dropLast).length = 0
        · simp only [hw, if_true]
          constructor
          · intro h; exact absurd h Bool.false_ne_true
          · rintro ⟨_, ⟨w, hw1, hw2⟩, _⟩
            have : w ∈ List.filter isWildcardSubexpression sub.dropLast := List.mem_filter.mpr ⟨hw1, hw2⟩
            rw [List.length_eq_zero_iff.mp hw] at this
            cases this
        · simp only [hw, if_false]
          have hne : List.filter isWildcardSubexpression sub.dropLast ≠ [] := fun h => hw (by rw [h]; rfl)
          obtain ⟨w, hwm⟩ := List.exists_mem_of_ne_nil _ hne
          obtain ⟨hw1, hw2⟩ := List.mem_filter.mp hwm
          constructor
          · intro h
            refine ⟨by omega, ⟨w, hw1, hw2⟩, ?_⟩
            intro x hx
            cases hc : containsAnchor x with
            | false => rfl
            | true =>
              have : (List.drop 1 sub.dropLast).any containsAnchor = true := List.any_eq_true.mpr ⟨x, hx, hc⟩
              rw [this] at h; exact absurd h Bool.false_ne_true
          · rintro ⟨_, _, h3⟩
            cases ha : (List.drop 1 sub.dropLast).any containsAnchor with
            | false => rfl
            | true =>
              obtain ⟨x, hx, hc⟩ := List.any_eq_true.mp ha
              rw [h3 x hx] at hc; exact absurd hc Bool.false_ne_true

theorem isSafeForReverseInner_unwrap : ∀ re, isSafeForReverseInner re = isSafeForReverseInner (unwrapCapture re) := by
  refine Re.induct ?_
  intro op ng fc sub rune mn mx ih
  cases op <;> first
    | rfl
    | skip
  cases sub with
  | nil => rfl
  | cons x xs =>
    rw [unwrapCapture_capture_cons, ← ih x (List.mem_cons_self ..)]
    simp only [isSafeForReverseInner, headSafeForReverseInner]

/-- `.*`, `.+` or `[class]+` — NOT inside a capture group (unlike `isWildcardSubexpression`) -/
def leadWildcard (first : Re) : Bool :=
  ((first.op == .star || first.op == .plus) && headIsAny first.sub) || (first.op == .plus && headIsClass first.sub)

/-- what `isSafeForReverseInner` accepts, after the capture groups around the WHOLE pattern are peeled off: a concatenation of at
    least two elements that begins with `.*`, `.+` or `[class]+` -/
def ReverseInnerShape (u : Re) : Prop :=
  u.op = .concat ∧ ∃ first second rest, u.sub = first :: second :: rest ∧ leadWildcard first = true

theorem isSafeForReverseInner_exact (re : Re) :
    isSafeForReverseInner re = true ↔ ReverseInnerShape (unwrapCapture re) := by
  rw [isSafeForReverseInner_unwrap]
  have hst := unwrapCapture_stable re
  generalize unwrapCapture re = u at hst
  cases u with
  | mk op ng fc sub rune mn mx =>
    unfold ReverseInnerShape
    cases op <;> first
      | (simp only [isSafeForReverseInner, Re.op]; constructor
         · intro h; exact absurd h Bool.false_ne_true
         · intro h; exact absurd h.1 (by simp))
      | skip
    · have hs : sub = [] := hst rfl
      subst hs
      simp [isSafeForReverseInner, headSafeForReverseInner, Re.op]
    · simp only [isSafeForReverseInner, Re.op, Re.sub, true_and]
      match sub with
      | [] => simp
      | [a] => simp
      | a :: b :: rest =>
        have : ¬ (a :: b :: rest).length < 2 := by simp
        simp only [this, if_false, leadWildcard]
        constructor
        · intro h; exact ⟨a, b, rest, rfl, h⟩
        · rintro ⟨f, s, r, he, h⟩
          cases he
          exact h

/-! ### isSimpleCharClass -/

def simpleOps : List Op := [.charClass, .plus, .star, .quest, .repeat_, .concat, .capture]

theorem allSimpleCharClass_iff (l : List Re) : allSimpleCharClass l = true ↔ ∀ x ∈ l, isSimpleCharClass x = true := by
  induction l with
  | nil => simp [allSimpleCharClass]
  | cons x xs ih => simp [allSimpleCharClass, ih]

theorem isSimpleCharClass_sub {op : Op} {ng fc : Bool} {sub : List Re} {rune : List Nat} {mn mx : Int}
    (hnf : normalForm (.mk op ng fc sub rune mn mx) = true) (h : isSimpleCharClass (.mk op ng fc sub rune mn mx) = true) :
    ∀ c ∈ sub, isSimpleCharClass c = true := by
  intro c hc
  cases op <;> rcases sub with _ | ⟨a, _ | ⟨b, t⟩⟩ <;>
    simp_all [isSimpleCharClass, normalForm, isUnary, isOperator, allSimpleCharClass, allSimpleCharClass_iff]
  all_goals
    rcases hc with rfl | rfl | hc
    · exact h.1
    · exact h.2.1
    · exact h.2.2 _ hc

/-- **`isSimpleCharClass` is exact** on parsed ASTs: `true` iff EVERY node is a class, `+ * ? {n,m}`, a concatenation or a capture
    group (no literal, no dot, no assertion, no alternation, no empty regexp anywhere) -/
theorem isSimpleCharClass_exact (re : Re) (hnf : normalForm re = true) :
    isSimpleCharClass re = true ↔ ∀ x, Node x re → x.op ∈ simpleOps := by
  revert hnf
  revert re
  refine Re.induct ?_
  intro op ng fc sub rune mn mx ih hnf
  constructor
  · intro h x hx
    cases hx with
    | self =>
      revert h
      cases op <;> simp [isSimpleCharClass, simpleOps, Re.op]
    | @child c _ hc hxc =>
      simp only [Re.sub] at hc
      exact (ih c hc (normalForm_sub hnf c hc)).mp (isSimpleCharClass_sub hnf h c hc) x hxc
  · intro h
    have hself := h _ (.self _)
    have hsub : ∀ c ∈ sub, isSimpleCharClass c = true := fun c hc =>
      (ih c hc (normalForm_sub hnf c hc)).mpr (fun x hx => h x (.child hc hx))
    cases op <;> first
      | (simp [simpleOps, Re.op] at hself; done)
      | rfl
      | exact (allSimpleCharClass_iff sub).mpr hsub
      | (obtain ⟨c, hc⟩ := normalForm_unary hnf rfl
         simp only [Re.sub] at hc
         subst hc
         exact hsub c (List.mem_cons_self ..))

/-! ## §2 the declarative semantics `Cx.Fast.Sem.Matches` and the reference matcher `Ref.run` -/

/-- what a task of `Ref.run` stands for -/
def repSem (h : Bytes) (x : Re) (mn : Nat) (mx : Option Nat) (i j : Nat) : Prop :=
  ∃ n, mn ≤ n ∧ (∀ m, mx = some m → n ≤ mn ∨ n ≤ m) ∧ Iter (Matches h x) n i j

def TaskSem (h : Bytes) : Ref.Task → Nat → Nat → Prop
  | .one re => Matches h re
  | .seq l => MatchesSeq h l
  | .alts l => MatchesAlt h l
  | .lit rs fold => LitAt h fold rs
  | .star x _ => fun i j => ∃ n, Iter (Matches h x) n i j
  | .rep x mn mx _ => repSem h x mn mx

theorem orElse_some {a : Option Nat} {b : Unit → Option Nat} {e : Nat} (h : Ref.orElse a b = some e) :
    a = some e ∨ b () = some e := by
  unfold Ref.orElse at h
  cases a with
  | some v => exact Or.inl h
  | none => exact Or.inr h

theorem ite_some {c : Prop} [Decidable c] {a : Option Nat} {e : Nat} (h : (if c then a else none) = some e) :
    c ∧ a = some e := by
  by_cases hc : c
  · rw [if_pos hc] at h; exact ⟨hc, h⟩
  · rw [if_neg hc] at h; exact nomatch h

/-- **soundness of the reference matcher for the declarative semantics**: whenever `Ref.run` — with any fuel, for any task, from any
    position, with any continuation — answers `some e`, it has called the continuation at a position `p` such that the task
    matches `h[pos:p)`, and `e` is the continuation's answer. -/
theorem run_sound (h : Bytes) : ∀ (f : Nat) (t : Ref.Task) (pos : Nat) (k : Nat → Option Nat) (e : Nat),
    Ref.run h f t pos k = some e → ∃ p, TaskSem h t pos p ∧ k p = some e := by
  intro f
  induction f with
  | zero => intro t pos k e hr; rw [Ref.run_zero] at hr; exact nomatch hr
  | succ f ih =>
    intro t pos k e hr
    cases t with
    | lit rs fold =>
      cases rs with
      | nil =>
        rw [Ref.run] at hr
        exact ⟨pos, rfl, hr⟩
      | cons r rs =>
        rw [Ref.run_lit_cons] at hr
        obtain ⟨hc, hr⟩ := ite_some hr
        obtain ⟨hw, hm⟩ := Bool.and_eq_true_iff.mp hc
        obtain ⟨p, hp, hk⟩ := ih _ _ _ _ hr
        exact ⟨p, ⟨of_decide_eq_true hw, hm, hp⟩, hk⟩
    | seq l =>
      cases l with
      | nil => rw [Ref.run_seq_nil] at hr; exact ⟨pos, rfl, hr⟩
      | cons x xs =>
        rw [Ref.run_seq_cons] at hr
        obtain ⟨p1, hp1, hr1⟩ := ih _ _ _ _ hr
        obtain ⟨p2, hp2, hk⟩ := ih _ _ _ _ hr1
        exact ⟨p2, ⟨p1, hp1, hp2⟩, hk⟩
    | alts l =>
      cases l with
      | nil => rw [Ref.run_alts_nil] at hr; exact nomatch hr
      | cons x xs =>
        rw [Ref.run_alts_cons] at hr
        rcases orElse_some hr with hr | hr
        · obtain ⟨p, hp, hk⟩ := ih _ _ _ _ hr
          exact ⟨p, Or.inl hp, hk⟩
        · obtain ⟨p, hp, hk⟩ := ih _ _ _ _ hr
          exact ⟨p, Or.inr hp, hk⟩
    | star x lazy =>
      rw [Ref.run_star] at hr
      have again : ∀ e, Ref.run h f (.one x) pos (fun p => if p > pos then Ref.run h f (.star x lazy) p k else none) = some e →
          ∃ p, (∃ n, Iter (Matches h x) n pos p) ∧ k p = some e := by
        intro e hr
        obtain ⟨p1, hp1, hr1⟩ := ih _ _ _ _ hr
        obtain ⟨_, hr1⟩ := ite_some hr1
        obtain ⟨p2, ⟨n, hn⟩, hk⟩ := ih _ _ _ _ hr1
        exact ⟨p2, ⟨n + 1, p1, hp1, hn⟩, hk⟩
      cases lazy with
      | true =>
        simp only [if_true] at hr
        rcases orElse_some hr with hr | hr
        · exact ⟨pos, ⟨0, rfl⟩, hr⟩
        · exact again e hr
      | false =>
        simp only [Bool.false_eq_true, if_false] at hr
        rcases orElse_some hr with hr | hr
        · exact again e hr
        · exact ⟨pos, ⟨0, rfl⟩, hr⟩
    | rep x m mx lazy =>
      cases m with
      | succ m =>
        rw [Ref.run_rep_succ] at hr
        obtain ⟨p1, hp1, hr1⟩ := ih _ _ _ _ hr
        obtain ⟨p2, ⟨n, hmn, hmx, hn⟩, hk⟩ := ih _ _ _ _ hr1
        refine ⟨p2, ⟨n + 1, by omega, ?_, p1, hp1, hn⟩, hk⟩
        intro M hM
        subst hM
        have := hmx (M - 1) rfl
        omega
      | zero =>
        cases mx with
        | none =>
          rw [Ref.run_rep_zero_none] at hr
          obtain ⟨p, ⟨n, hn⟩, hk⟩ := ih _ _ _ _ hr
          exact ⟨p, ⟨n, Nat.zero_le _, (fun _ hm => nomatch hm), hn⟩, hk⟩
        | some M =>
          cases M with
          | zero =>
            rw [Ref.run_rep_zero_zero] at hr
            exact ⟨pos, ⟨0, Nat.le_refl _, fun _ _ => Or.inl (Nat.le_refl _), rfl⟩, hr⟩
          | succ M =>
            rw [Ref.run_rep_zero_succ] at hr
            have more : ∀ e, Ref.run h f (.one x) pos (fun p => Ref.run h f (.rep x 0 (some M) lazy) p k) = some e →
                ∃ p, repSem h x 0 (some (M + 1)) pos p ∧ k p = some e := by
              intro e hr
              obtain ⟨p1, hp1, hr1⟩ := ih _ _ _ _ hr
              obtain ⟨p2, ⟨n, _, hmx, hn⟩, hk⟩ := ih _ _ _ _ hr1
              refine ⟨p2, ⟨n + 1, Nat.zero_le _, ?_, p1, hp1, hn⟩, hk⟩
              intro M' hM'
              cases hM'
              have := hmx M rfl
              omega
            have stop : k pos = some e → ∃ p, repSem h x 0 (some (M + 1)) pos p ∧ k p = some e :=
              fun hk => ⟨pos, ⟨0, Nat.le_refl _, fun _ _ => Or.inl (Nat.le_refl _), rfl⟩, hk⟩
            cases lazy with
            | true =>
              simp only [if_true] at hr
              rcases orElse_some hr with hr | hr
              · exact stop hr
              · exact more e hr
            | false =>
              simp only [Bool.false_eq_true, if_false] at hr
              rcases orElse_some hr with hr | hr
              · exact more e hr
              · exact stop hr
    | one re =>
      rw [Ref.run_one] at hr
      cases re with
      | mk op ng fc sub rune mn mx =>
        cases op <;> simp only [Re.op, Re.sub, Re.rune, Re.foldCase, Re.nonGreedy, Re.min, Re.max] at hr
        case noMatch => exact nomatch hr
        case emptyMatch => exact ⟨pos, by simp only [TaskSem, Matches], hr⟩
        case literal =>
          obtain ⟨p, hp, hk⟩ := ih _ _ _ _ hr
          exact ⟨p, by simpa only [TaskSem, Matches] using hp, hk⟩
        case charClass =>
          obtain ⟨hc, hr⟩ := ite_some hr
          obtain ⟨hw, hm⟩ := Bool.and_eq_true_iff.mp hc
          exact ⟨_, by simp only [TaskSem, Matches]; exact ⟨of_decide_eq_true hw, hm, rfl⟩, hr⟩
        case anyCharNotNL =>
          obtain ⟨hc, hr⟩ := ite_some hr
          obtain ⟨hw, hm⟩ := Bool.and_eq_true_iff.mp hc
          exact ⟨_, by simp only [TaskSem, Matches]; exact ⟨of_decide_eq_true hw, of_decide_eq_true hm, rfl⟩, hr⟩
        case anyChar =>
          obtain ⟨hc, hr⟩ := ite_some hr
          exact ⟨_, by simp only [TaskSem, Matches]; exact ⟨hc, trivial, rfl⟩, hr⟩
        case beginLine =>
          obtain ⟨hc, hr⟩ := ite_some hr
          exact ⟨pos, by simp only [TaskSem, Matches]; exact ⟨trivial, hc⟩, hr⟩
        case endLine =>
          obtain ⟨hc, hr⟩ := ite_some hr
          exact ⟨pos, by simp only [TaskSem, Matches]; exact ⟨trivial, hc⟩, hr⟩
        case beginText =>
          obtain ⟨hc, hr⟩ := ite_some hr
          exact ⟨pos, by simp only [TaskSem, Matches]; exact ⟨trivial, hc⟩, hr⟩
        case endText =>
          obtain ⟨hc, hr⟩ := ite_some hr
          exact ⟨pos, by simp only [TaskSem, Matches]; exact ⟨trivial, hc⟩, hr⟩
        case wordBoundary =>
          obtain ⟨hc, hr⟩ := ite_some hr
          exact ⟨pos, by simp only [TaskSem, Matches]; exact ⟨trivial, hc⟩, hr⟩
        case noWordBoundary =>
          obtain ⟨hc, hr⟩ := ite_some hr
          refine ⟨pos, ?_, hr⟩
          simp only [TaskSem, Matches]
          refine ⟨trivial, ?_⟩
          unfold wordEdge
          revert hc
          cases (decide (pos > 0) && Ref.isWordByte (h.at (pos - 1))) <;>
            cases (decide (pos < h.size) && Ref.isWordByte (h.at pos)) <;> simp
        case capture =>
          obtain ⟨p, hp, hk⟩ := ih _ _ _ _ hr
          exact ⟨p, by simpa only [TaskSem, Matches] using hp, hk⟩
        case concat =>
          obtain ⟨p, hp, hk⟩ := ih _ _ _ _ hr
          exact ⟨p, by simpa only [TaskSem, Matches] using hp, hk⟩
        case alternate =>
          obtain ⟨p, hp, hk⟩ := ih _ _ _ _ hr
          exact ⟨p, by simpa only [TaskSem, Matches] using hp, hk⟩
        case star =>
          match sub, hr with
          | [x], hr =>
            obtain ⟨p, hp, hk⟩ := ih _ _ _ _ hr
            exact ⟨p, by simpa only [TaskSem, Matches] using hp, hk⟩
        case plus =>
          match sub, hr with
          | [x], hr =>
            obtain ⟨p1, hp1, hr1⟩ := ih _ _ _ _ hr
            obtain ⟨p2, ⟨n, hn⟩, hk⟩ := ih _ _ _ _ hr1
            exact ⟨p2, by simp only [TaskSem, Matches]; exact ⟨n + 1, by omega, p1, hp1, hn⟩, hk⟩
        case quest =>
          match sub, hr with
          | [x], hr =>
            obtain ⟨p, ⟨n, _, hmx, hn⟩, hk⟩ := ih _ _ _ _ hr
            refine ⟨p, ?_, hk⟩
            simp only [TaskSem, Matches]
            have hle := hmx 1 rfl
            match n, hn, hle with
            | 0, hn, _ => exact Or.inl hn
            | 1, ⟨q, hq, hq2⟩, _ => cases hq2; exact Or.inr hq
        case repeat_ =>
          match sub, hr with
          | [x], hr =>
            obtain ⟨p, ⟨n, hmn, hmx, hn⟩, hk⟩ := ih _ _ _ _ hr
            refine ⟨p, ?_, hk⟩
            simp only [TaskSem, Matches]
            refine ⟨n, hmn, ?_, hn⟩
            unfold repUpper
            by_cases hneg : mx < 0
            · exact Or.inl hneg
            · exact Or.inr (hmx mx.toNat (if_neg hneg))

/-- every answer of `Ref.matchAt` is a match -/
theorem matchAt_sound {re : Re} {h : Bytes} {s e : Nat} (hm : Ref.matchAt re h s = some e) : Matches h re s e := by
  obtain ⟨p, hp, hk⟩ := run_sound h _ _ _ _ _ hm
  cases hk
  exact hp

theorem findLoop_sound {re : Re} {h : Bytes} : ∀ (k s0 : Nat) {s e : Nat},
    Ref.findLoop re h k s0 = some (s, e) → s0 ≤ s ∧ Ref.matchAt re h s = some e := by
  intro k
  induction k with
  | zero => intro s0 s e hf; rw [Ref.findLoop] at hf; exact nomatch hf
  | succ k ih =>
    intro s0 s e hf
    rw [Ref.findLoop] at hf
    cases hm : Ref.matchAt re h s0 with
    | some e' =>
      rw [hm] at hf
      cases hf
      exact ⟨Nat.le_refl _, hm⟩
    | none =>
      rw [hm] at hf
      obtain ⟨h1, h2⟩ := ih (s0 + 1) hf
      exact ⟨by omega, h2⟩

/-- every span the reference search `Ref.refFind` reports is a match that starts at or after `at` -/
theorem refFind_sound {re : Re} {h : Bytes} {at_ s e : Nat} (hf : Ref.refFind re h at_ = some (s, e)) :
    at_ ≤ s ∧ Matches h re s e := by
  obtain ⟨h1, h2⟩ := findLoop_sound _ _ hf
  exact ⟨h1, matchAt_sound h2⟩

/-! ## §3 SOUNDNESS of the semantic guards (against `Matches`, hence against everything `Ref.run` / `Ref.refFind` reports) -/

/-! ### inversion of `Matches` -/

theorem Matches_star {h : Bytes} {ng fc : Bool} {sub : List Re} {rune : List Nat} {mn mx : Int} {i j : Nat} :
    Matches h (.mk .star ng fc sub rune mn mx) i j ↔ ∃ x, sub = [x] ∧ ∃ n, Iter (Matches h x) n i j := by
  rcases sub with _ | ⟨x, _ | ⟨y, ys⟩⟩ <;> simp [Matches]

theorem Matches_plus {h : Bytes} {ng fc : Bool} {sub : List Re} {rune : List Nat} {mn mx : Int} {i j : Nat} :
    Matches h (.mk .plus ng fc sub rune mn mx) i j ↔ ∃ x, sub = [x] ∧ ∃ n, 1 ≤ n ∧ Iter (Matches h x) n i j := by
  rcases sub with _ | ⟨x, _ | ⟨y, ys⟩⟩ <;> simp [Matches]

theorem Matches_quest {h : Bytes} {ng fc : Bool} {sub : List Re} {rune : List Nat} {mn mx : Int} {i j : Nat} :
    Matches h (.mk .quest ng fc sub rune mn mx) i j ↔ ∃ x, sub = [x] ∧ (i = j ∨ Matches h x i j) := by
  rcases sub with _ | ⟨x, _ | ⟨y, ys⟩⟩ <;> simp [Matches]

theorem Matches_repeat {h : Bytes} {ng fc : Bool} {sub : List Re} {rune : List Nat} {mn mx : Int} {i j : Nat} :
    Matches h (.mk .repeat_ ng fc sub rune mn mx) i j ↔
      ∃ x, sub = [x] ∧ ∃ n, mn.toNat ≤ n ∧ repUpper mn mx n ∧ Iter (Matches h x) n i j := by
  rcases sub with _ | ⟨x, _ | ⟨y, ys⟩⟩ <;> simp [Matches]

theorem MatchesAlt_iff {h : Bytes} {l : List Re} {i j : Nat} : MatchesAlt h l i j ↔ ∃ x ∈ l, Matches h x i j := by
  induction l with
  | nil => simp [MatchesAlt]
  | cons x xs ih => simp [MatchesAlt, ih]

/-! ### matches go forward -/

theorem LitAt_le {h : Bytes} {fold : Bool} : ∀ {rs : List Nat} {i j : Nat}, LitAt h fold rs i j → i ≤ j := by
  intro rs
  induction rs with
  | nil => intro i j hm; exact Nat.le_of_eq hm
  | cons r rs ih => intro i j hm; have := ih hm.2.2; omega

/-- a non-empty literal consumes at least one byte -/
theorem LitAt_lt {h : Bytes} {fold : Bool} {r : Nat} {rs : List Nat} {i j : Nat} (hm : LitAt h fold (r :: rs) i j) : i < j := by
  have := LitAt_le hm.2.2
  have := hm.1
  omega

theorem RuneAt_lt {h : Bytes} {P : Nat → Prop} {i j : Nat} (hm : RuneAt h P i j) : i < j := by
  have := hm.1; have := hm.2.2; omega

theorem Iter_le {R : Nat → Nat → Prop} (hR : ∀ a b, R a b → a ≤ b) : ∀ {n i j : Nat}, Iter R n i j → i ≤ j := by
  intro n
  induction n with
  | zero => intro i j hm; exact Nat.le_of_eq hm
  | succ n ih => intro i j ⟨k, h1, h2⟩; have := hR _ _ h1; have := ih h2; omega

theorem MatchesSeq_le {h : Bytes} : ∀ {l : List Re}, (∀ x ∈ l, ∀ a b, Matches h x a b → a ≤ b) →
    ∀ {i j : Nat}, MatchesSeq h l i j → i ≤ j := by
  intro l
  induction l with
  | nil => intro _ i j hm; exact Nat.le_of_eq hm
  | cons x xs ih =>
    intro hl i j ⟨k, h1, h2⟩
    have := hl x (List.mem_cons_self ..) _ _ h1
    have := ih (fun y hy => hl y (List.mem_cons_of_mem _ hy)) h2
    omega

/-- every match goes forward: `Matches h re i j → i ≤ j` (every AST) -/
theorem Matches_le (h : Bytes) : ∀ re : Re, ∀ i j, Matches h re i j → i ≤ j := by
  refine Re.induct ?_
  intro op ng fc sub rune mn mx ih i j hm
  cases op
  case noMatch => simp only [Matches] at hm
  case emptyMatch => exact Nat.le_of_eq (by simpa only [Matches] using hm)
  case literal => exact LitAt_le (by simpa only [Matches] using hm)
  case charClass => exact Nat.le_of_lt (RuneAt_lt (by simpa only [Matches] using hm))
  case anyCharNotNL => exact Nat.le_of_lt (RuneAt_lt (by simpa only [Matches] using hm))
  case anyChar => exact Nat.le_of_lt (RuneAt_lt (by simpa only [Matches] using hm))
  case beginLine => simp only [Matches] at hm; exact Nat.le_of_eq hm.1
  case endLine => simp only [Matches] at hm; exact Nat.le_of_eq hm.1
  case beginText => simp only [Matches] at hm; exact Nat.le_of_eq hm.1
  case endText => simp only [Matches] at hm; exact Nat.le_of_eq hm.1
  case wordBoundary => simp only [Matches] at hm; exact Nat.le_of_eq hm.1
  case noWordBoundary => simp only [Matches] at hm; exact Nat.le_of_eq hm.1
  case capture => simp only [Matches] at hm; exact MatchesSeq_le ih hm
  case concat => simp only [Matches] at hm; exact MatchesSeq_le ih hm
  case alternate =>
    simp only [Matches] at hm
    obtain ⟨x, hx, hm⟩ := MatchesAlt_iff.mp hm
    exact ih x hx _ _ hm
  case star =>
    obtain ⟨x, rfl, n, hn⟩ := Matches_star.mp hm
    exact Iter_le (ih x (List.mem_cons_self ..)) hn
  case plus =>
    obtain ⟨x, rfl, n, _, hn⟩ := Matches_plus.mp hm
    exact Iter_le (ih x (List.mem_cons_self ..)) hn
  case quest =>
    obtain ⟨x, rfl, hq⟩ := Matches_quest.mp hm
    rcases hq with hq | hq
    · exact Nat.le_of_eq hq
    · exact ih x (List.mem_cons_self ..) _ _ hq
  case repeat_ =>
    obtain ⟨x, rfl, n, _, _, hn⟩ := Matches_repeat.mp hm
    exact Iter_le (ih x (List.mem_cons_self ..)) hn

/-! ### canMatchEmpty -/

theorem allCanMatchEmpty_false {l : List Re} (h : allCanMatchEmpty l = false) : ∃ x ∈ l, canMatchEmpty x = false := by
  induction l with
  | nil => exact absurd h (by simp [allCanMatchEmpty])
  | cons x xs ih =>
    simp only [allCanMatchEmpty, Bool.and_eq_false_iff] at h
    rcases h with h | h
    · exact ⟨x, List.mem_cons_self .., h⟩
    · obtain ⟨y, hy, hh⟩ := ih h; exact ⟨y, List.mem_cons_of_mem _ hy, hh⟩

theorem anyCanMatchEmpty_false {l : List Re} (h : anyCanMatchEmpty l = false) : ∀ x ∈ l, canMatchEmpty x = false := by
  induction l with
  | nil => intro x hx; cases hx
  | cons y ys ih =>
    simp only [anyCanMatchEmpty, Bool.or_eq_false_iff] at h
    intro x hx
    cases hx with
    | head => exact h.1
    | tail _ hx => exact ih h.2 x hx

/-- a sequence one of whose elements consumes, consumes -/
theorem MatchesSeq_lt {h : Bytes} : ∀ {l : List Re} {x : Re}, x ∈ l → (∀ a b, Matches h x a b → a < b) →
    ∀ {i j : Nat}, MatchesSeq h l i j → i < j := by
  intro l
  induction l with
  | nil => intro x hx; cases hx
  | cons y ys ih =>
    intro x hx hlt i j ⟨k, h1, h2⟩
    have hle1 := Matches_le h y _ _ h1
    have hle2 := MatchesSeq_le (fun z _ => Matches_le h z) h2
    cases hx with
    | head => have := hlt _ _ h1; omega
    | tail _ hx => have := ih hx hlt h2; omega

theorem Iter_lt {R : Nat → Nat → Prop} (hR : ∀ a b, R a b → a < b) : ∀ {n i j : Nat}, 1 ≤ n → Iter R n i j → i < j := by
  intro n i j hn hm
  match n, hn, hm with
  | n + 1, _, ⟨k, h1, h2⟩ =>
    have := hR _ _ h1
    have := Iter_le (fun a b hab => Nat.le_of_lt (hR a b hab)) h2
    omega

/-- **`canMatchEmpty` is sound**: if it answers `false` for a parsed pattern, NO match of the pattern is empty — on any haystack,
    at any position.  `hnf` is used for: a literal has a rune, `{n,m}` has `n ≥ 0`, a capture group / `+` / `{n,m}` has its operand. -/
theorem canMatchEmpty_sound (h : Bytes) : ∀ re : Re, normalForm re = true → canMatchEmpty re = false →
    ∀ i j, Matches h re i j → i < j := by
  refine Re.induct ?_
  intro op ng fc sub rune mn mx ih hnf hc i j hm
  have hsubnf := normalForm_sub hnf
  simp only [Re.sub] at hsubnf
  cases op
  case noMatch => exact absurd hc (by simp [canMatchEmpty])
  case emptyMatch => exact absurd hc (by simp [canMatchEmpty])
  case beginLine => exact absurd hc (by simp [canMatchEmpty])
  case endLine => exact absurd hc (by simp [canMatchEmpty])
  case beginText => exact absurd hc (by simp [canMatchEmpty])
  case endText => exact absurd hc (by simp [canMatchEmpty])
  case wordBoundary => exact absurd hc (by simp [canMatchEmpty])
  case noWordBoundary => exact absurd hc (by simp [canMatchEmpty])
  case star => exact absurd hc (by simp [canMatchEmpty])
  case quest => exact absurd hc (by simp [canMatchEmpty])
  case literal =>
    simp only [Matches] at hm
    cases rune with
    | nil => simp [normalForm] at hnf
    | cons r rs => exact LitAt_lt hm
  case charClass => exact RuneAt_lt (by simpa only [Matches] using hm)
  case anyCharNotNL => exact RuneAt_lt (by simpa only [Matches] using hm)
  case anyChar => exact RuneAt_lt (by simpa only [Matches] using hm)
  case capture =>
    obtain ⟨x, hx⟩ := normalForm_unary hnf rfl
    simp only [Re.sub] at hx
    subst hx
    simp only [canMatchEmpty, headCanMatchEmpty] at hc
    simp only [Matches] at hm
    exact MatchesSeq_lt (List.mem_cons_self ..) (ih x (List.mem_cons_self ..) (hsubnf x (List.mem_cons_self ..)) hc) hm
  case plus =>
    obtain ⟨x, rfl, n, hn, hi⟩ := Matches_plus.mp hm
    simp only [canMatchEmpty, headCanMatchEmpty] at hc
    exact Iter_lt (ih x (List.mem_cons_self ..) (hsubnf x (List.mem_cons_self ..)) hc) hn hi
  case repeat_ =>
    obtain ⟨x, rfl, n, hn, _, hi⟩ := Matches_repeat.mp hm
    simp only [canMatchEmpty, headCanMatchEmpty, Bool.or_eq_false_iff, decide_eq_false_iff_not] at hc
    have hmn : 0 ≤ mn := by
      simp only [normalForm, Bool.and_eq_true, Bool.or_eq_true, decide_eq_true_eq] at hnf
      have := hnf.1.2
      simp at this
      exact this.1
    exact Iter_lt (ih x (List.mem_cons_self ..) (hsubnf x (List.mem_cons_self ..)) hc.2) (by omega) hi
  case concat =>
    simp only [canMatchEmpty] at hc
    obtain ⟨x, hx, hcx⟩ := allCanMatchEmpty_false hc
    simp only [Matches] at hm
    exact MatchesSeq_lt hx (ih x hx (hsubnf x hx) hcx) hm
  case alternate =>
    simp only [canMatchEmpty] at hc
    simp only [Matches] at hm
    obtain ⟨x, hx, hm⟩ := MatchesAlt_iff.mp hm
    exact ih x hx (hsubnf x hx) (anyCanMatchEmpty_false hc x hx) _ _ hm

/-! ### canMatchNewline -/

/-- no byte of `h[i:j)` is `'\n'` -/
def NoNewline (h : Bytes) (i j : Nat) : Prop := ∀ p, i ≤ p → p < j → h.at p ≠ 10

theorem NoNewline.trans {h : Bytes} {i k j : Nat} (h1 : NoNewline h i k) (h2 : NoNewline h k j) : NoNewline h i j := by
  intro p hp1 hp2
  by_cases hk : p < k
  · exact h1 p hp1 hk
  · exact h2 p (by omega) hp2

/-- the bytes of a decoded rune other than U+000A contain no `'\n'` (an ill-formed byte is `≥ 0x80`) -/
theorem decode_noNewline (h : Bytes) (i : Nat) (hc : (Utf8.decodeAt h i).1 ≠ 10) :
    NoNewline h i (i + (Utf8.decodeAt h i).2) := by
  unfold Utf8.decodeAt at *
  intro p hp1 hp2
  rcases Utf8.decode_cases h h.size i with ⟨a, e⟩ | ⟨a, b, e⟩ | ⟨a, b, e⟩ | ⟨a, b, b', c, c', e⟩ |
    ⟨a, b, b', c, c', hE0, hED, d, d', e⟩ | ⟨a, b, b', c, c', hF0, hF4, d, d', f, f', e⟩
  all_goals rw [e] at hc hp2
  all_goals simp only [] at hc hp2
  · omega
  · have : p = i := by omega
    subst this; exact hc
  · have : p = i := by omega
    subst this; omega
  · have : p = i ∨ p = i + 1 := by omega
    rcases this with rfl | rfl <;> omega
  · have : p = i ∨ p = i + 1 ∨ p = i + 2 := by omega
    rcases this with rfl | rfl | rfl <;> omega
  · have : p = i ∨ p = i + 1 ∨ p = i + 2 ∨ p = i + 3 := by omega
    rcases this with rfl | rfl | rfl | rfl <;> omega

theorem foldEq_ten {r c : Nat} (h : Ref.foldEq r c = true) (hc : c = 10) : r = 10 := by
  subst hc
  unfold Ref.foldEq Ref.isAsciiLetter at h
  simp at h
  omega

theorem LitAt_noNewline {h : Bytes} {fold : Bool} : ∀ {rs : List Nat} {i j : Nat},
    (rs.any fun r => decide (r = 10)) = false → LitAt h fold rs i j → NoNewline h i j := by
  intro rs
  induction rs with
  | nil => intro i j _ hm p h1 h2; have : i = j := hm; omega
  | cons r rs ih =>
    intro i j hr hm
    simp only [List.any_cons, Bool.or_eq_false_iff, decide_eq_false_iff_not] at hr
    obtain ⟨_, hf, hrest⟩ := hm
    refine NoNewline.trans (decode_noNewline h i ?_) (ih hr.2 hrest)
    intro hc
    apply hr.1
    cases fold with
    | true => simp only [if_true] at hf; exact foldEq_ten hf hc
    | false =>
      simp only [Bool.false_eq_true, if_false] at hf
      rw [of_decide_eq_true hf, hc]

theorem anyCanMatchNewline_false {l : List Re} (h : anyCanMatchNewline l = false) : ∀ x ∈ l, canMatchNewline x = false := by
  induction l with
  | nil => intro x hx; cases hx
  | cons y ys ih =>
    simp only [anyCanMatchNewline, Bool.or_eq_false_iff] at h
    intro x hx
    cases hx with
    | head => exact h.1
    | tail _ hx => exact ih h.2 x hx

theorem MatchesSeq_noNewline {h : Bytes} : ∀ {l : List Re}, (∀ x ∈ l, ∀ a b, Matches h x a b → NoNewline h a b) →
    ∀ {i j : Nat}, MatchesSeq h l i j → NoNewline h i j := by
  intro l
  induction l with
  | nil => intro _ i j hm p h1 h2; have : i = j := hm; omega
  | cons x xs ih =>
    intro hl i j ⟨k, h1, h2⟩
    exact (hl x (List.mem_cons_self ..) _ _ h1).trans (ih (fun y hy => hl y (List.mem_cons_of_mem _ hy)) h2)

theorem Iter_noNewline {h : Bytes} {R : Nat → Nat → Prop} (hR : ∀ a b, R a b → NoNewline h a b) :
    ∀ {n i j : Nat}, Iter R n i j → NoNewline h i j := by
  intro n
  induction n with
  | zero => intro i j hm p h1 h2; have : i = j := hm; omega
  | succ n ih => intro i j ⟨k, h1, h2⟩; exact (hR _ _ h1).trans (ih h2)

theorem inRanges_iff {ranges : List (Nat × Nat)} {c : Nat} :
    Ref.inRanges ranges c = true ↔ ∃ p ∈ ranges, p.1 ≤ c ∧ c ≤ p.2 := by
  unfold Ref.inRanges
  simp [List.any_eq_true]

/-- **`canMatchNewline` is sound**, for EVERY AST: if it answers `false`, no match of the pattern contains the byte `0x0A` — on any
    haystack (well-formed UTF-8 or not), at any position.  This is what `SetLineBounded(!canMatchNewline(re))` and
    `isSafeForMultilineReverseSuffix` rely on. -/
theorem canMatchNewline_sound (h : Bytes) : ∀ re : Re, canMatchNewline re = false →
    ∀ i j, Matches h re i j → NoNewline h i j := by
  refine Re.induct ?_
  intro op ng fc sub rune mn mx ih hc i j hm
  have empty : i = j → NoNewline h i j := fun e p h1 h2 => by omega
  have hsub : anyCanMatchNewline sub = false → ∀ x ∈ sub, ∀ a b, Matches h x a b → NoNewline h a b :=
    fun hs x hx => ih x hx (anyCanMatchNewline_false hs x hx)
  cases op
  case noMatch => simp only [Matches] at hm
  case emptyMatch => exact empty (by simpa only [Matches] using hm)
  case beginLine => simp only [Matches] at hm; exact empty hm.1
  case endLine => simp only [Matches] at hm; exact empty hm.1
  case beginText => simp only [Matches] at hm; exact empty hm.1
  case endText => simp only [Matches] at hm; exact empty hm.1
  case wordBoundary => simp only [Matches] at hm; exact empty hm.1
  case noWordBoundary => simp only [Matches] at hm; exact empty hm.1
  case literal =>
    simp only [Matches] at hm
    simp only [canMatchNewline] at hc
    exact LitAt_noNewline hc hm
  case charClass =>
    simp only [Matches] at hm
    simp only [canMatchNewline] at hc
    obtain ⟨_, hin, rfl⟩ := hm
    apply decode_noNewline
    intro hten
    rw [hten] at hin
    obtain ⟨p, hp, h1, h2⟩ := inRanges_iff.mp hin
    have : (List.any (pairs rune) fun p => decide (p.1 ≤ 10) && decide (10 ≤ p.2)) = true :=
      List.any_eq_true.mpr ⟨p, hp, by simp [h1, h2]⟩
    rw [this] at hc
    exact absurd hc (by simp)
  case anyCharNotNL =>
    simp only [Matches] at hm
    obtain ⟨_, hne, rfl⟩ := hm
    exact decode_noNewline h i hne
  case anyChar => exact absurd hc (by simp [canMatchNewline])
  case capture =>
    simp only [Matches] at hm
    exact MatchesSeq_noNewline (hsub (by simpa only [canMatchNewline] using hc)) hm
  case concat =>
    simp only [Matches] at hm
    exact MatchesSeq_noNewline (hsub (by simpa only [canMatchNewline] using hc)) hm
  case alternate =>
    simp only [Matches] at hm
    obtain ⟨x, hx, hm⟩ := MatchesAlt_iff.mp hm
    exact hsub (by simpa only [canMatchNewline] using hc) x hx _ _ hm
  case star =>
    obtain ⟨x, rfl, n, hn⟩ := Matches_star.mp hm
    exact Iter_noNewline (hsub (by simpa only [canMatchNewline] using hc) x (List.mem_cons_self ..)) hn
  case plus =>
    obtain ⟨x, rfl, n, _, hn⟩ := Matches_plus.mp hm
    exact Iter_noNewline (hsub (by simpa only [canMatchNewline] using hc) x (List.mem_cons_self ..)) hn
  case quest =>
    obtain ⟨x, rfl, hq⟩ := Matches_quest.mp hm
    rcases hq with hq | hq
    · exact empty hq
    · exact hsub (by simpa only [canMatchNewline] using hc) x (List.mem_cons_self ..) _ _ hq
  case repeat_ =>
    obtain ⟨x, rfl, n, _, _, hn⟩ := Matches_repeat.mp hm
    exact Iter_noNewline (hsub (by simpa only [canMatchNewline] using hc) x (List.mem_cons_self ..)) hn

/-! ### isDigitLeadPattern -/

/-- an ASCII digit stands at `h[i]` -/
def DigitAt (h : Bytes) (i : Nat) : Prop := i < h.size ∧ 48 ≤ h.at i ∧ h.at i ≤ 57

theorem digitAt_of_decode {h : Bytes} {i : Nat} (hw : (Utf8.decodeAt h i).2 > 0)
    (hc : 48 ≤ (Utf8.decodeAt h i).1 ∧ (Utf8.decodeAt h i).1 ≤ 57) : DigitAt h i := by
  obtain ⟨h1, h2⟩ := decode_ascii_inv h i hw (by omega)
  exact ⟨h2, by omega, by omega⟩

theorem digitPairs_spec : ∀ (n : Nat) (runes : List Nat), runes.length ≤ n → digitPairs runes = true →
    ∀ p ∈ pairs runes, 48 ≤ p.1 ∧ p.2 ≤ 57 := by
  intro n
  induction n with
  | zero =>
    intro runes hl _ p hp
    match runes, hl with
    | [], _ => simp [pairs] at hp
  | succ n ih =>
    intro runes hl hd p hp
    match runes, hl, hd, hp with
    | [], _, _, hp => simp [pairs] at hp
    | [_], _, _, hp => simp [pairs] at hp
    | lo :: hi :: rest, hl, hd, hp =>
      simp only [digitPairs] at hd
      simp only [pairs, List.mem_cons] at hp
      by_cases hb : (decide (lo < 48) || decide (hi > 57)) = true
      · rw [if_pos hb] at hd; exact absurd hd Bool.false_ne_true
      · rw [if_neg hb] at hd
        rcases hp with rfl | hp
        · simp at hb; exact ⟨by omega, by omega⟩
        · exact ih rest (by simp at hl; omega) hd p hp

theorem isDigitOnlyClass_spec {runes : List Nat} (hd : isDigitOnlyClass runes = true) :
    ∀ p ∈ pairs runes, 48 ≤ p.1 ∧ p.2 ≤ 57 := by
  unfold isDigitOnlyClass at hd
  split at hd
  · exact absurd hd Bool.false_ne_true
  · exact digitPairs_spec _ runes (Nat.le_refl _) hd

/-- a match of a digit-only class is one ASCII digit -/
theorem digitClass_match {h : Bytes} {runes : List Nat} (hd : isDigitOnlyClass runes = true) {i j : Nat}
    (hm : RuneAt h (fun c => Ref.inRanges (pairs runes) c = true) i j) : i < j ∧ DigitAt h i := by
  obtain ⟨hw, hin, rfl⟩ := hm
  obtain ⟨p, hp, h1, h2⟩ := inRanges_iff.mp hin
  have := isDigitOnlyClass_spec hd p hp
  exact ⟨by omega, digitAt_of_decode hw ⟨by omega, by omega⟩⟩

theorem foldEq_digit {r c : Nat} (h : Ref.foldEq r c = true) (hr : 48 ≤ r ∧ r ≤ 57) : r = c := by
  unfold Ref.foldEq Ref.isAsciiLetter at h
  simp at h
  omega

/-- a match of a literal whose first rune is a digit starts with that digit -/
theorem digitLit_match {h : Bytes} {fold : Bool} {r : Nat} {rs : List Nat} (hr : 48 ≤ r ∧ r ≤ 57) {i j : Nat}
    (hm : LitAt h fold (r :: rs) i j) : i < j ∧ DigitAt h i := by
  refine ⟨LitAt_lt hm, ?_⟩
  obtain ⟨hw, hf, _⟩ := hm
  have hrc : r = (Utf8.decodeAt h i).1 := by
    cases fold with
    | true => simp only [if_true] at hf; exact foldEq_digit hf hr
    | false => simp only [Bool.false_eq_true, if_false] at hf; exact of_decide_eq_true hf
  exact digitAt_of_decode hw (by omega)

/-- among the steps of an iteration that moves there is one that starts at `i` and moves -/
theorem Iter_first_move {R : Nat → Nat → Prop} (hR : ∀ a b, R a b → a ≤ b) : ∀ {n i j : Nat}, Iter R n i j → i < j →
    ∃ m, R i m ∧ i < m := by
  intro n
  induction n with
  | zero => intro i j hm hlt; have : i = j := hm; omega
  | succ n ih =>
    intro i j ⟨k, h1, h2⟩ hlt
    by_cases hk : i < k
    · exact ⟨k, h1, hk⟩
    · have := hR _ _ h1
      have : i = k := by omega
      subst this
      exact ih h2 hlt

theorem allDigitLead_iff (l : List Re) : allDigitLead l = true ↔ ∀ x ∈ l, isDigitLeadPattern x = true := by
  induction l with
  | nil => simp [allDigitLead]
  | cons x xs ih => simp [allDigitLead, ih]

theorem allDigitRunes_spec {runes : List Nat} (h : allDigitRunes runes = true) :
    ∃ r rs, runes = r :: rs ∧ 48 ≤ r ∧ r ≤ 57 := by
  unfold allDigitRunes at h
  cases runes with
  | nil => simp at h
  | cons r rs =>
    simp at h
    exact ⟨r, rs, rfl, by omega, by omega⟩

/-- the property proved of every digit-lead pattern: every match is non-empty and starts with an ASCII digit -/
def DigitLead (h : Bytes) (x : Re) : Prop := ∀ i j, Matches h x i j → i < j ∧ DigitAt h i

/-- an OPTIONAL element that is "digit only" (`isOptionalDigitOnly`): whenever it consumes something, that starts with a digit -/
theorem optionalDigitOnly_match {h : Bytes} {x : Re} (hopt : isOptionalElement x = true) (hd : isOptionalDigitOnly x = true)
    (ihs : ∀ s ∈ x.sub, isDigitLeadPattern s = true → DigitLead h s) {i k : Nat} (hm : Matches h x i k) (hlt : i < k) :
    DigitAt h i := by
  cases x with
  | mk op ng fc sub rune mn mx =>
    -- the operand's match that starts at `i` and moves
    have step : ∃ s rest m, sub = s :: rest ∧ Matches h s i m ∧ i < m := by
      cases op <;> first
        | (simp [isOptionalElement, Re.op] at hopt; done)
        | skip
      · obtain ⟨s, rfl, n, hn⟩ := Matches_star.mp hm
        obtain ⟨m, h1, h2⟩ := Iter_first_move (Matches_le h s) hn hlt
        exact ⟨s, [], m, rfl, h1, h2⟩
      · obtain ⟨s, rfl, hq⟩ := Matches_quest.mp hm
        rcases hq with hq | hq
        · omega
        · exact ⟨s, [], k, rfl, hq, hlt⟩
      · obtain ⟨s, rfl, n, _, _, hn⟩ := Matches_repeat.mp hm
        obtain ⟨m, h1, h2⟩ := Iter_first_move (Matches_le h s) hn hlt
        exact ⟨s, [], m, rfl, h1, h2⟩
    obtain ⟨s, rest, m, rfl, hsm, hlt'⟩ := step
    simp only [isOptionalDigitOnly] at hd
    cases s with
    | mk sop sng sfc ssub srune smn smx =>
      cases sop <;> simp only [Re.op, Re.rune] at hd
      case charClass =>
        simp only [Matches] at hsm
        exact (digitClass_match hd hsm).2
      case literal =>
        obtain ⟨r, rs, rfl, hr⟩ := allDigitRunes_spec hd
        simp only [Matches] at hsm
        exact (digitLit_match hr hsm).2
      all_goals exact (ihs _ (List.mem_cons_self ..) hd _ _ hsm).2

/-- the loop `isDigitLeadConcat` -/
theorem digitLeadConcat_match {h : Bytes} : ∀ {l : List Re},
    (∀ x ∈ l, isDigitLeadPattern x = true → DigitLead h x) →
    (∀ x ∈ l, ∀ s ∈ x.sub, isDigitLeadPattern s = true → DigitLead h s) →
    isDigitLeadConcat l = true → ∀ i j, MatchesSeq h l i j → i < j ∧ DigitAt h i := by
  intro l
  induction l with
  | nil => intro _ _ hd; exact absurd hd (by simp [isDigitLeadConcat])
  | cons x xs ih =>
    intro ih1 ih2 hd i j ⟨k, h1, h2⟩
    have hle2 := MatchesSeq_le (fun z _ => Matches_le h z) h2
    simp only [isDigitLeadConcat] at hd
    by_cases hopt : isOptionalElement x = true
    · rw [if_pos hopt] at hd
      by_cases hod : isOptionalDigitOnly x = true
      · simp only [hod, Bool.not_true, Bool.false_eq_true, if_false] at hd
        have hle1 := Matches_le h x _ _ h1
        by_cases hik : i < k
        · exact ⟨by omega, optionalDigitOnly_match hopt hod (ih2 x (List.mem_cons_self ..)) h1 hik⟩
        · have : i = k := by omega
          subst this
          exact ih (fun y hy => ih1 y (List.mem_cons_of_mem _ hy)) (fun y hy => ih2 y (List.mem_cons_of_mem _ hy)) hd _ _ h2
      · simp only [hod, Bool.not_false, if_true] at hd
        exact absurd hd Bool.false_ne_true
    · rw [if_neg hopt] at hd
      obtain ⟨hlt, hdig⟩ := ih1 x (List.mem_cons_self ..) hd _ _ h1
      exact ⟨by omega, hdig⟩

/-- **`isDigitLeadPattern` is sound**, for EVERY AST: if it answers `true`, every match of the pattern — on any haystack, at any
    position — is non-empty and begins with an ASCII digit `0`–`9` (so a digit scan may skip every other position, which is what
    `UseDigitPrefilter` does; the same fact is why `selectReverseStrategy` may leave such patterns to it) -/
theorem isDigitLeadPattern_sound (h : Bytes) : ∀ re : Re, isDigitLeadPattern re = true → DigitLead h re := by
  refine Re.strongInduct ?_
  intro re ih hd i j hm
  have ihc : ∀ c ∈ re.sub, isDigitLeadPattern c = true → DigitLead h c := fun c hc => ih c hc c (.self c)
  have ihg : ∀ c ∈ re.sub, ∀ s ∈ c.sub, isDigitLeadPattern s = true → DigitLead h s :=
    fun c hc s hs => ih c hc s (.child hs (.self s))
  cases re with
  | mk op ng fc sub rune mn mx =>
    simp only [Re.sub] at ihc ihg
    cases op <;> first
      | (simp [isDigitLeadPattern] at hd; done)
      | skip
    case literal =>
      simp only [Matches] at hm
      cases rune with
      | nil => simp [isDigitLeadPattern] at hd
      | cons r rs =>
        simp [isDigitLeadPattern] at hd
        exact digitLit_match ⟨by omega, by omega⟩ hm
    case charClass =>
      simp only [Matches] at hm
      simp only [isDigitLeadPattern] at hd
      exact digitClass_match hd hm
    case capture =>
      simp only [Matches] at hm
      cases sub with
      | nil => simp [isDigitLeadPattern, headDigitLead] at hd
      | cons x xs =>
        simp only [isDigitLeadPattern, headDigitLead] at hd
        obtain ⟨k, h1, h2⟩ := hm
        have hx := ihc x (List.mem_cons_self ..) hd _ _ h1
        have := MatchesSeq_le (fun z _ => Matches_le h z) h2
        exact ⟨by omega, hx.2⟩
    case plus =>
      obtain ⟨x, rfl, n, hn, hi⟩ := Matches_plus.mp hm
      simp only [isDigitLeadPattern, headDigitLead] at hd
      match n, hn, hi with
      | n + 1, _, ⟨k, h1, h2⟩ =>
        have hx := ihc x (List.mem_cons_self ..) hd _ _ h1
        have := Iter_le (Matches_le h x) h2
        exact ⟨by omega, hx.2⟩
    case repeat_ =>
      obtain ⟨x, rfl, n, hn, _, hi⟩ := Matches_repeat.mp hm
      simp only [isDigitLeadPattern, headDigitLead, List.length_cons, List.length_nil] at hd
      by_cases hmn : mn ≥ 1
      · simp [hmn] at hd
        match n, (show 1 ≤ n by omega), hi with
        | n + 1, _, ⟨k, h1, h2⟩ =>
          have hx := ihc x (List.mem_cons_self ..) hd _ _ h1
          have := Iter_le (Matches_le h x) h2
          exact ⟨by omega, hx.2⟩
      · simp [hmn] at hd
    case concat =>
      simp only [Matches] at hm
      simp only [isDigitLeadPattern] at hd
      by_cases hl : sub.length = 0
      · simp [hl] at hd
      · simp only [hl, if_false] at hd
        exact digitLeadConcat_match ihc ihg hd _ _ hm
    case alternate =>
      simp only [Matches] at hm
      simp only [isDigitLeadPattern] at hd
      by_cases hl : sub.length = 0
      · simp [hl] at hd
      · simp only [hl, if_false] at hd
        obtain ⟨x, hx, hm⟩ := MatchesAlt_iff.mp hm
        exact ihc x hx ((allDigitLead_iff sub).mp hd x hx) _ _ hm

/-! ### isDigitRunSkipSafe -/

/-- `h[s:t)` consists of ASCII digits -/
def DigitRun (h : Bytes) (s t : Nat) : Prop := ∀ p, s ≤ p → p < t → DigitAt h p

/-- the class `[0-9]` (`Rune = [48, 57]`) matches one digit -/
theorem fullDigitClass_match {h : Bytes} {x : Re} (hop : x.op = .charClass) (hr : isFullDigitClass x.rune = true)
    {p : Nat} (hd : DigitAt h p) : Matches h x p (p + 1) := by
  cases x with
  | mk op ng fc sub rune mn mx =>
    simp only [Re.op] at hop
    subst hop
    simp only [Re.rune] at hr
    have hrune : rune = [48, 57] := by
      unfold isFullDigitClass at hr
      match rune, hr with
      | [a, b], hr =>
        simp at hr
        rw [hr.1, hr.2]
    subst hrune
    simp only [Matches]
    obtain ⟨h1, h2, h3⟩ := hd
    have hdec := decode_ascii_fwd h p h1 (by omega)
    refine ⟨by rw [hdec]; exact Nat.one_pos, ?_, by rw [hdec]⟩
    rw [hdec]
    simp [Ref.inRanges, pairs, h2, h3]

/-- iterations can be prepended along a run of positions each of which `R` steps over -/
theorem Iter_prepend {R : Nat → Nat → Prop} : ∀ (d : Nat) {n s s' e : Nat}, s + d = s' → (∀ p, s ≤ p → p < s' → R p (p + 1)) →
    Iter R n s' e → Iter R (n + d) s e := by
  intro d
  induction d with
  | zero => intro n s s' e hs _ hi; have : s = s' := by omega
            subst this; exact hi
  | succ d ih =>
    intro n s s' e hs hR hi
    have := ih (n := n) (s := s + 1) (s' := s') (e := e) (by omega) (fun p h1 h2 => hR p (by omega) h2) hi
    exact ⟨s + 1, hR s (Nat.le_refl _) (by omega), this⟩

/-- **what `isDigitRunSkipSafe` promises** (its comment: "on DFA failure within a digit run, all other starting positions in the same
    run will also fail"), at the level of the language (which is what a DFA decides), for EVERY AST: if the guard answers `true`
    and `h[s:s')` consists of ASCII digits, every match that starts at `s'` extends to a match that starts at `s` WITH THE SAME
    END — so if no match starts at `s`, none starts anywhere later in the run `[s, s']`.
    (The guard does not look at the `NonGreedy` flag although its comment says "greedy": for the existence of a match — all the
    callers ask — laziness is immaterial, and this theorem holds for lazy quantifiers as well.) -/
theorem isDigitRunSkipSafe_sound (h : Bytes) : ∀ re : Re, isDigitRunSkipSafe re = true →
    ∀ s s' e, s ≤ s' → DigitRun h s s' → Matches h re s' e → Matches h re s e := by
  refine Re.induct ?_
  intro op ng fc sub rune mn mx ih hd s s' e hss hrun hm
  have hseq : headDigitRunSkipSafe sub = true → MatchesSeq h sub s' e → MatchesSeq h sub s e := by
    intro hh hm
    cases sub with
    | nil => exact absurd hh (by simp [headDigitRunSkipSafe])
    | cons x xs =>
      obtain ⟨k, h1, h2⟩ := hm
      exact ⟨k, ih x (List.mem_cons_self ..) hh _ _ _ hss hrun h1, h2⟩
  have hiter : ∀ {x : Re} {n : Nat}, (x.op == .charClass && isFullDigitClass x.rune) = true →
      Iter (Matches h x) n s' e → Iter (Matches h x) (n + (s' - s)) s e := by
    intro x n hx hi
    obtain ⟨h1, h2⟩ := Bool.and_eq_true_iff.mp hx
    exact Iter_prepend (s' - s) (by omega) (fun p hp1 hp2 => fullDigitClass_match (by simpa using h1) h2 (hrun p hp1 hp2)) hi
  cases op <;> first
    | (simp [isDigitRunSkipSafe] at hd; done)
    | skip
  case capture =>
    simp only [Matches] at hm ⊢
    exact hseq (by simpa only [isDigitRunSkipSafe] using hd) hm
  case concat =>
    simp only [Matches] at hm ⊢
    exact hseq (by simpa only [isDigitRunSkipSafe] using hd) hm
  case star =>
    obtain ⟨x, rfl, n, hn⟩ := Matches_star.mp hm
    simp only [isDigitRunSkipSafe] at hd
    exact Matches_star.mpr ⟨x, rfl, _, hiter hd hn⟩
  case plus =>
    obtain ⟨x, rfl, n, h1, hn⟩ := Matches_plus.mp hm
    simp only [isDigitRunSkipSafe] at hd
    exact Matches_plus.mpr ⟨x, rfl, _, by omega, hiter hd hn⟩
  case repeat_ =>
    obtain ⟨x, rfl, n, h1, _, hn⟩ := Matches_repeat.mp hm
    simp only [isDigitRunSkipSafe, Bool.and_assoc, Bool.and_eq_true, decide_eq_true_eq] at hd
    refine Matches_repeat.mpr ⟨x, rfl, _, by omega, Or.inl (by omega), hiter ?_ hn⟩
    exact Bool.and_eq_true_iff.mpr hd.2

/-! ### line anchors: isSafeForMultilineReverseSuffix, lineAnchorLeadsEveryBranch -/

/-- position `i` is the start of a line -/
def AtLineStart (h : Bytes) (i : Nat) : Prop := i = 0 ∨ h.at (i - 1) = 10

theorem msLoop_lineAnchor : ∀ (l : List Re) (wc : Bool), (msLoop l false (false, wc)).1 = false := by
  intro l
  induction l with
  | nil => intro wc; rfl
  | cons x xs ih =>
    intro wc
    simp only [msLoop, Bool.false_and, Bool.false_eq_true, if_false]
    split <;> exact ih _

/-- `hasLineAnchor` after the loop: the FIRST element is `(?m)^` -/
theorem msLoop_first {l : List Re} (h : (msLoop l true (false, false)).1 = true) : ∃ x xs, l = x :: xs ∧ x.op = .beginLine := by
  cases l with
  | nil => exact absurd h (by simp [msLoop])
  | cons x xs =>
    refine ⟨x, xs, rfl, ?_⟩
    simp only [msLoop, Bool.true_and] at h
    by_cases hb : (x.op == .beginLine) = true
    · simpa using hb
    · rw [if_neg hb] at h
      split at h <;> rw [msLoop_lineAnchor] at h <;> exact absurd h Bool.false_ne_true

theorem beginLine_match {h : Bytes} {x : Re} (hop : x.op = .beginLine) {i k : Nat} (hm : Matches h x i k) :
    i = k ∧ AtLineStart h i := by
  cases x with
  | mk op ng fc sub rune mn mx =>
    simp only [Re.op] at hop
    subst hop
    simp only [Matches] at hm
    exact hm

/-- the `switch` of `isSafeForMultilineReverseSuffix`: every match starts at a line start -/
theorem isSafeForMultilineReverseSuffix_lineStart (h : Bytes) : ∀ re : Re, isSafeForMultilineReverseSuffix re = true →
    ∀ i j, Matches h re i j → AtLineStart h i := by
  refine Re.induct ?_
  intro op ng fc sub rune mn mx ih hs i j hm
  simp only [isSafeForMultilineReverseSuffix] at hs
  split at hs
  · exact absurd hs Bool.false_ne_true
  · split at hs
    · exact absurd hs Bool.false_ne_true
    · cases op <;> first
        | (simp at hs; done)
        | skip
      case capture =>
        simp only [Matches] at hm
        cases sub with
        | nil => simp [headSafeForMultilineReverseSuffix] at hs
        | cons x xs =>
          simp only [headSafeForMultilineReverseSuffix] at hs
          obtain ⟨k, h1, _⟩ := hm
          exact ih x (List.mem_cons_self ..) hs _ _ h1
      case concat =>
        simp only [Matches] at hm
        simp only [] at hs
        split at hs
        · exact absurd hs Bool.false_ne_true
        · obtain ⟨h1, _⟩ := Bool.and_eq_true_iff.mp hs
          obtain ⟨x, xs, rfl, hx⟩ := msLoop_first h1
          obtain ⟨k, hm1, _⟩ := hm
          exact (beginLine_match hx hm1).2

/-- **what `isSafeForMultilineReverseSuffix` must guarantee** (the hypotheses `line_start` and `no_nl` of
    `Cx.MultilineRevSuffix.Core`), for EVERY AST: if it answers `true`, every match of the pattern starts at the start of a line
    and contains no `'\n'` — so a match can be searched line by line. -/
theorem isSafeForMultilineReverseSuffix_sound (h : Bytes) (re : Re) (hs : isSafeForMultilineReverseSuffix re = true) :
    ∀ i j, Matches h re i j → AtLineStart h i ∧ NoNewline h i j := by
  intro i j hm
  refine ⟨isSafeForMultilineReverseSuffix_lineStart h re hs i j hm, canMatchNewline_sound h re ?_ i j hm⟩
  cases re with
  | mk op ng fc sub rune mn mx =>
    simp only [isSafeForMultilineReverseSuffix] at hs
    split at hs
    · exact absurd hs Bool.false_ne_true
    · split at hs
      · exact absurd hs Bool.false_ne_true
      · rename_i _ hn
        simpa using hn

theorem allLineAnchorLeads_iff (l : List Re) : allLineAnchorLeads l = true ↔ ∀ x ∈ l, lineAnchorLeadsEveryBranch x = true := by
  induction l with
  | nil => simp [allLineAnchorLeads]
  | cons x xs ih => simp [allLineAnchorLeads, ih]

/-- **`lineAnchorLeadsEveryBranch` is sound**, for every AST: if it answers `true`, every match of the pattern begins at a line start
    (so "the literal occurs at a line start" is necessary for a match: the condition under which `adjustForAnchors` wraps a
    complete prefilter with the line-start check) -/
theorem lineAnchorLeadsEveryBranch_sound (h : Bytes) : ∀ re : Re, lineAnchorLeadsEveryBranch re = true →
    ∀ i j, Matches h re i j → AtLineStart h i := by
  refine Re.induct ?_
  intro op ng fc sub rune mn mx ih hs i j hm
  cases op <;> first
    | (simp [lineAnchorLeadsEveryBranch] at hs; done)
    | skip
  case beginLine => simp only [Matches] at hm; exact hm.2
  case capture =>
    simp only [Matches] at hm
    match sub, hs, hm, ih with
    | [x], hs, ⟨k, h1, _⟩, ih =>
      simp only [lineAnchorLeadsEveryBranch] at hs
      exact ih x (List.mem_cons_self ..) hs _ _ h1
  case concat =>
    simp only [Matches] at hm
    match sub, hs, hm, ih with
    | x :: xs, hs, ⟨k, h1, _⟩, ih =>
      simp only [lineAnchorLeadsEveryBranch, Bool.and_eq_true] at hs
      exact ih x (List.mem_cons_self ..) hs.1 _ _ h1
  case alternate =>
    simp only [Matches] at hm
    simp only [lineAnchorLeadsEveryBranch, Bool.and_eq_true] at hs
    obtain ⟨x, hx, hm⟩ := MatchesAlt_iff.mp hm
    exact ih x hx ((allLineAnchorLeads_iff sub).mp hs.1 x hx) _ _ hm

/-- together with `hasNonLineAnchors re = false`: the only assertions of such a pattern are `(?m)^` -/
theorem lineAnchor_only (re : Re) (hnf : normalForm re = true) (hn : hasNonLineAnchors re = false) :
    ∀ x, Node x re → x.op ∈ lookOps → x.op = .beginLine := by
  intro x hx hl
  have : ¬ HasOp re nonLineOps := fun hh => by
    rw [(hasNonLineAnchors_exact re hnf).mpr hh] at hn; exact absurd hn (by simp)
  false_or_by_contra
  apply this
  refine ⟨x, hx, ?_⟩
  revert hl
  rename_i hne
  revert hne
  cases x.op <;> simp [lookOps, nonLineOps]

/-! ### isStartAnchorOnly -/

theorem allStartAnchorOnly_iff (l : List Re) : allStartAnchorOnly l = true ↔ ∀ x ∈ l, isStartAnchorOnly x = true := by
  induction l with
  | nil => simp [allStartAnchorOnly]
  | cons x xs ih => simp [allStartAnchorOnly, ih]

theorem MatchesSeq_zero {h : Bytes} : ∀ {l : List Re}, (∀ x ∈ l, ∀ a b, Matches h x a b → a = b) →
    ∀ {i j : Nat}, MatchesSeq h l i j → i = j := by
  intro l
  induction l with
  | nil => intro _ i j hm; exact hm
  | cons x xs ih =>
    intro hl i j ⟨k, h1, h2⟩
    have := hl x (List.mem_cons_self ..) _ _ h1
    have := ih (fun y hy => hl y (List.mem_cons_of_mem _ hy)) h2
    omega

theorem Iter_zero {R : Nat → Nat → Prop} (hR : ∀ a b, R a b → a = b) : ∀ {n i j : Nat}, Iter R n i j → i = j := by
  intro n
  induction n with
  | zero => intro i j hm; exact hm
  | succ n ih => intro i j ⟨k, h1, h2⟩; have := hR _ _ h1; have := ih h2; omega

/-- `isStartAnchorOnly`, what is TRUE of it (1): every match of such a pattern is empty -/
theorem isStartAnchorOnly_zeroWidth (h : Bytes) : ∀ re : Re, isStartAnchorOnly re = true → ∀ i j, Matches h re i j → i = j := by
  refine Re.induct ?_
  intro op ng fc sub rune mn mx ih hs i j hm
  cases op <;> first
    | (simp [isStartAnchorOnly] at hs; done)
    | skip
  case emptyMatch => simpa only [Matches] using hm
  case beginLine => simp only [Matches] at hm; exact hm.1
  case beginText => simp only [Matches] at hm; exact hm.1
  case capture =>
    simp only [Matches] at hm
    match sub, hs, hm, ih with
    | [x], hs, hm, ih =>
      simp only [isStartAnchorOnly] at hs
      exact MatchesSeq_zero (fun y hy => by cases hy with
        | head => exact ih x (List.mem_cons_self ..) hs
        | tail _ h' => cases h') hm
  case concat =>
    simp only [Matches] at hm
    simp only [isStartAnchorOnly, Bool.and_eq_true] at hs
    exact MatchesSeq_zero (fun y hy => ih y hy ((allStartAnchorOnly_iff sub).mp hs.1 y hy)) hm
  case star =>
    obtain ⟨x, rfl, n, hn⟩ := Matches_star.mp hm
    simp only [isStartAnchorOnly] at hs
    exact Iter_zero (ih x (List.mem_cons_self ..) hs) hn
  case plus =>
    obtain ⟨x, rfl, n, _, hn⟩ := Matches_plus.mp hm
    simp only [isStartAnchorOnly] at hs
    exact Iter_zero (ih x (List.mem_cons_self ..) hs) hn
  case quest =>
    obtain ⟨x, rfl, hq⟩ := Matches_quest.mp hm
    simp only [isStartAnchorOnly] at hs
    rcases hq with hq | hq
    · exact hq
    · exact ih x (List.mem_cons_self ..) hs _ _ hq

theorem MatchesSeq_at_zero {h : Bytes} : ∀ {l : List Re}, (∀ x ∈ l, Matches h x 0 0) → MatchesSeq h l 0 0 := by
  intro l
  induction l with
  | nil => intro _; rfl
  | cons x xs ih => intro hl; exact ⟨0, hl x (List.mem_cons_self ..), ih (fun y hy => hl y (List.mem_cons_of_mem _ hy))⟩

/-- (2): such a pattern matches the empty string at position 0 of every haystack -/
theorem isStartAnchorOnly_matches_at_zero (h : Bytes) : ∀ re : Re, isStartAnchorOnly re = true → Matches h re 0 0 := by
  refine Re.induct ?_
  intro op ng fc sub rune mn mx ih hs
  cases op <;> first
    | (simp [isStartAnchorOnly] at hs; done)
    | skip
  case emptyMatch => simp only [Matches]
  case beginLine => simp only [Matches]; exact ⟨trivial, Or.inl trivial⟩
  case beginText => simp only [Matches]; exact ⟨trivial, trivial⟩
  case capture =>
    match sub, hs, ih with
    | [x], hs, ih =>
      simp only [isStartAnchorOnly] at hs
      simp only [Matches]
      exact ⟨0, ih x (List.mem_cons_self ..) hs, rfl⟩
  case concat =>
    simp only [isStartAnchorOnly, Bool.and_eq_true] at hs
    simp only [Matches]
    exact MatchesSeq_at_zero (fun y hy => ih y hy ((allStartAnchorOnly_iff sub).mp hs.1 y hy))
  case star =>
    match sub, hs, ih with
    | [x], hs, ih => exact Matches_star.mpr ⟨x, rfl, 0, rfl⟩
  case plus =>
    match sub, hs, ih with
    | [x], hs, ih =>
      simp only [isStartAnchorOnly] at hs
      exact Matches_plus.mpr ⟨x, rfl, 1, Nat.le_refl _, 0, ih x (List.mem_cons_self ..) hs, rfl⟩
  case quest =>
    match sub, hs, ih with
    | [x], hs, ih => exact Matches_quest.mpr ⟨x, rfl, Or.inl rfl⟩

/-! ## §4 the guards in combination (what the strategy theorems assume) -/

/-- **look-free**: the reverse strategies (`UseReverseSuffix`, `UseReverseSuffixSet`, `UseReverseInner`: `selectReverseStrategy`
    returns 0 when `hasAnchorAssertions(re)`), the Aho-Corasick strategy (`!litAnalysis.hasAnchors`) and the reverse DFA of the
    bidirectional search (`buildStrategyEngines` returns early when `hasAnchorAssertions(re)`) are only reached by patterns NO node
    of which is an assertion — for every AST, under every operator.  (The compiled automaton of such a pattern has no look-around
    state: the hypothesis `Dfa.lookFreeB` of the reversal theorems.) -/
theorem lookFree_of_guard (re : Re) (hg : hasAnchorAssertions re = false) : ∀ x, Node x re → x.op ∉ lookOps := by
  intro x hx hl
  rw [(hasAnchorAssertions_exact re).mpr ⟨x, hx, hl⟩] at hg
  exact absurd hg (by simp)

/-- `UseReverseAnchored` is selected only without `\b` / `\B` anywhere (`hasWordAssertion`) -/
theorem noWordBoundary_of_guard (re : Re) (hnf : normalForm re = true) (hg : hasWordBoundary re = false) :
    ∀ x, Node x re → x.op ∉ wbOps := by
  intro x hx hl
  rw [(hasWordBoundary_exact re hnf).mpr ⟨x, hx, hl⟩] at hg
  exact absurd hg (by simp)

/-- the DFA pair (forward DFA + reverse DFA, `UseDFA`) is built only without a lazy quantifier anywhere -/
theorem allGreedy_of_guard (re : Re) (hnf : normalForm re = true) (hg : hasNonGreedyQuantifier re = false) :
    ∀ x, Node x re → x.op ∈ quantOps → x.nonGreedy = false := by
  intro x hx hq
  cases hn : x.nonGreedy with
  | false => rfl
  | true =>
    rw [(hasNonGreedyQuantifier_exact re hnf).mpr ⟨x, hx, hq, hn⟩] at hg
    exact absurd hg (by simp)

/-- **the literal engines** (`UseTeddy`: `!litAnalysis.hasNonLineAnchors`, where
    `hasNonLineAnchors := hasAnchors && (hasNonLineAnchors(re) || !lineAnchorLeadsEveryBranch(re))`; the same test decides in
    `adjustForAnchors` whether a complete prefilter is wrapped with the line-start check): either the pattern has no assertion
    at all, or its only assertions are `(?m)^` and every match begins at a line start. -/
theorem literalEngine_guard (re : Re) (hnf : normalForm re = true)
    (hg : (hasAnchorAssertions re && (hasNonLineAnchors re || !lineAnchorLeadsEveryBranch re)) = false) :
    (∀ x, Node x re → x.op ∉ lookOps) ∨
    ((∀ x, Node x re → x.op ∈ lookOps → x.op = .beginLine) ∧ ∀ h i j, Matches h re i j → AtLineStart h i) := by
  cases ha : hasAnchorAssertions re with
  | false => exact Or.inl (lookFree_of_guard re ha)
  | true =>
    rw [ha, Bool.true_and, Bool.or_eq_false_iff] at hg
    refine Or.inr ⟨lineAnchor_only re hnf hg.1, fun h => lineAnchorLeadsEveryBranch_sound h re ?_⟩
    simpa using hg.2

/-! ### the same statements about the executable reference search -/

theorem canMatchEmpty_sound_ref {re : Re} (hnf : normalForm re = true) (hc : canMatchEmpty re = false) {h : Bytes}
    {at_ s e : Nat} (hf : Ref.refFind re h at_ = some (s, e)) : s < e :=
  canMatchEmpty_sound h re hnf hc s e (refFind_sound hf).2

theorem canMatchNewline_sound_ref {re : Re} (hc : canMatchNewline re = false) {h : Bytes}
    {at_ s e : Nat} (hf : Ref.refFind re h at_ = some (s, e)) : NoNewline h s e :=
  canMatchNewline_sound h re hc s e (refFind_sound hf).2

theorem isDigitLeadPattern_sound_ref {re : Re} (hd : isDigitLeadPattern re = true) {h : Bytes}
    {at_ s e : Nat} (hf : Ref.refFind re h at_ = some (s, e)) : s < e ∧ DigitAt h s :=
  isDigitLeadPattern_sound h re hd s e (refFind_sound hf).2

/-! ## §5 examples: the statements are not vacuous; promises the code does NOT keep -/

section Examples
open Re

/-- `(?:(\ba)){2,3}`: `\b` under a capture group under a counted repetition -/
def exWB : Re := repOf (cap (cat [leaf .wordBoundary, lit [97]])) 2 3

example : normalForm exWB = true ∧ hasWordBoundary exWB = true ∧ hasAnchorAssertions exWB = true ∧
    hasWordBoundaryAnchorCombo exWB = true ∧ hasNonLineAnchors exWB = true := by decide

/-- `x(?:a*?|b)y`: a lazy star under an alternation under a concatenation -/
def exLazy : Re := cat [lit [120], alt [starOf (lit [97]) true, lit [98]], lit [121]]

example : normalForm exLazy = true ∧ hasNonGreedyQuantifier exLazy = true ∧ hasAnchorAssertions exLazy = false := by decide

/-- `a+b` cannot match empty, `(?:a|)` can; the reference finds the non-empty match -/
example : canMatchEmpty (cat [plusOf (lit [97]), lit [98]]) = false ∧ canMatchEmpty (alt [lit [97], leaf .emptyMatch]) = true ∧
    Ref.refFind (cat [plusOf (lit [97]), lit [98]]) #[120, 97, 97, 98] 0 = some (1, 4) := by decide

/-- the hypothesis `normalForm` of `canMatchEmpty_sound` is needed: a literal WITHOUT runes (never parsed: the parser builds
    `OpEmptyMatch`) is reported as non-nullable and matches the empty string -/
theorem canMatchEmpty_needs_normalForm :
    canMatchEmpty (lit []) = false ∧ normalForm (lit []) = false ∧ Ref.matchAt (lit []) #[97] 0 = some 0 := by decide

/-- `[^x\n]+a` cannot match a newline, `[^x]` can -/
example : canMatchNewline (cat [plusOf (cls [0, 9, 11, 119, 121, 0x10FFFF]), lit [97]]) = false ∧
    canMatchNewline (cls [0, 119, 121, 0x10FFFF]) = true ∧ canMatchNewline (leaf .anyChar) = true ∧
    canMatchNewline (leaf .anyCharNotNL) = false := by decide

/-- `(?:25[0-5]|2[0-4][0-9])\.` is digit-lead, `[1-9]?x` and `\d*` are not -/
def exIP : Re := cat [alt [cat [lit [50, 53], cls [48, 53]], cat [lit [50], cls [48, 52], cls [48, 57]]], lit [46]]

example : isDigitLeadPattern exIP = true ∧ isDigitLeadPattern (cat [questOf (cls [49, 57]), lit [120]]) = false ∧
    isDigitLeadPattern (starOf (cls [48, 57])) = false ∧
    Ref.refFind exIP #[120, 50, 53, 51, 46] 0 = some (1, 5) := by decide

/-- `\d+x` allows the run skip, `[0-5]+x` does not -/
example : isDigitRunSkipSafe (cat [plusOf (cls [48, 57]), lit [120]]) = true ∧
    isDigitRunSkipSafe (cat [plusOf (cls [48, 53]), lit [120]]) = false := by decide

/-- the comment of `isDigitRunSkipSafe` says "greedy"; the code does not look at the flag (`\d+?x` is accepted).  Harmless: the
    promise (`isDigitRunSkipSafe_sound`) is about the existence of a match. -/
theorem isDigitRunSkipSafe_ignores_lazy :
    isDigitRunSkipSafe (cat [plusOf (cls [48, 57]) true, lit [120]]) = true := by decide

/-- `(?m)^.*\.php` is accepted by the multiline guard; `(?m)^[^x]+\.txt` (the class contains `'\n'`) is not -/
def exPhp : Re := cat [leaf .beginLine, starOf (leaf .anyCharNotNL), lit [46, 112, 104, 112]]

example : isSafeForMultilineReverseSuffix exPhp = true ∧ lineAnchorLeadsEveryBranch exPhp = true ∧
    hasNonLineAnchors exPhp = false ∧ hasMultilineLineAnchor exPhp = true ∧
    isSafeForMultilineReverseSuffix (cat [leaf .beginLine, plusOf (cls [0, 119, 121, 0x10FFFF]), lit [46, 116, 120, 116]]) = false ∧
    Ref.refFind exPhp #[97, 10, 98, 46, 112, 104, 112] 0 = some (2, 7) := by decide

/-- `(.*)\.txt`, `[a-z]+@x` and the shapes behind them -/
example : isSafeForReverseSuffix (cat [cap (starOf (leaf .anyCharNotNL)), lit [46, 116, 120, 116]]) = true ∧
    isSafeForReverseInner (cat [cap (starOf (leaf .anyCharNotNL)), lit [46, 116, 120, 116]]) = false ∧
    isSafeForReverseInner (cap (cat [plusOf (cls [97, 122]), lit [64], lit [120]])) = true ∧
    isSimpleCharClass (cat [plusOf (cap (cls [97, 99])), starOf (cls [48, 57])]) = true := by decide

/-- **`isSafeForReverseSuffix` alone does NOT keep anchors out** (its comment lists "internal anchors" as excluded): an anchor in
    the FIRST or the LAST element is not looked at — `(?:^a){1,2}bcd` and `.+(^bcd)` are accepted.  What keeps such patterns from
    the reverse-suffix strategies is the `hasAnchorAssertions` test in front of it in `selectReverseStrategy` (`lookFree_of_guard`);
    the real function answers the same (harness tie) and meta.Compile selects UseDFA / UseBoth for the two patterns. -/
theorem isSafeForReverseSuffix_accepts_anchors :
    let p1 := cat [repOf (cat [leaf .beginText, lit [97]]) 1 2, lit [98, 99, 100]]
    let p2 := cat [plusOf (leaf .anyCharNotNL), cap (cat [leaf .beginText, lit [98, 99, 100]])]
    isSafeForReverseSuffix p1 = true ∧ hasAnchorAssertions p1 = true ∧ normalForm p1 = true ∧
    isSafeForReverseSuffix p2 = true ∧ hasAnchorAssertions p2 = true ∧ normalForm p2 = true := by decide

/-- the other two "excluded" shapes of that comment — a `?` in front of the suffix (`.+a?bcd`) and a star of a class
    (`.*[^ ]*foo`) — are accepted as soon as ANOTHER element is a wildcard (the real engine then selects UseReverseSuffix; exhaustive
    comparison with `regexp` on all haystacks up to 7 bytes over the pattern's alphabet found no difference) -/
theorem isSafeForReverseSuffix_accepts_quest_and_classStar :
    isSafeForReverseSuffix (cat [plusOf (leaf .anyCharNotNL), questOf (lit [97]), lit [98, 99, 100]]) = true ∧
    isSafeForReverseSuffix (cat [starOf (leaf .anyCharNotNL), starOf (cls [0, 31, 33, 0x10FFFF]), lit [102, 111, 111]]) = true := by
  decide

/-- **the promise of `isStartAnchorOnly` is false of the code**: "only match at position 0" (`startAnchored`: "empty at position 0
    only").  `(?m)^` matches at every line start, and the empty regexp, `(?:^)*`, `(?:^)?` match everywhere.  (Unreachable at
    HEAD: the prefix of a `UseReverseInner` pattern contains no assertion — `hasAnchorAssertions` — and begins with a wildcard.) -/
theorem isStartAnchorOnly_not_only_at_zero :
    isStartAnchorOnly (leaf .beginLine) = true ∧ Ref.matchAt (leaf .beginLine) #[97, 10, 98] 2 = some 2 ∧
    isStartAnchorOnly (leaf .emptyMatch) = true ∧ Ref.matchAt (leaf .emptyMatch) #[97, 10, 98] 1 = some 1 ∧
    isStartAnchorOnly (starOf (leaf .beginText)) = true ∧ Ref.matchAt (starOf (leaf .beginText)) #[97, 10, 98] 1 = some 1 := by
  decide

/-- `hasCaseInsensitiveUnicode` looks at the runes WRITTEN in the pattern: `(?i)k` (whose fold orbit contains U+212A KELVIN SIGN) and
    `(?i)s` (U+017F) are not "case-insensitive Unicode" for it, `(?i)é` and the class `(?i)[k]` (the parser adds U+212A) are -/
theorem hasCaseInsensitiveUnicode_written_runes_only :
    hasCaseInsensitiveUnicode (litFold [107]) = false ∧ hasCaseInsensitiveUnicode (litFold [233]) = true ∧
    hasCaseInsensitiveUnicode (.mk .charClass false true [] [75, 75, 107, 107, 0x212A, 0x212A] 0 0) = true := by decide

end Examples

end Cx.Guards
