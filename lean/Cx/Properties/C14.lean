import Cx.Proofs.Nfa
import Cx.Proofs.Pike
import Cx.Proofs.Dfa
import Cx.Proofs.RevSuffixDfa
/-
  C14 — each matching engine agrees with the reference on everything it accepts.

  Reference = the path relation of the NFA itself (`Cx.Nfa.Accepts N h i j`: some run of the automaton from the
  anchored start state at offset i reaches a match state at offset j, with look-around evaluated on the whole
  haystack).  Proved for the bounded backtracker (model `Cx.Nfa.bt*`), for every NFA, haystack and offset:
  boolean search sound and complete with the visited set shared by all start positions; span search sound, its
  start is the leftmost start with any match, `none` means no match at all.  The model is the reference the C14
  check runs against PikeVM, the real backtracker and the lazy DFA on the dumped NFA.
-/
namespace Cx.C14
open Cx Cx.Nfa

theorem C14_bt_isMatch_iff (N : NFA) (h : Bytes) :
    btIsMatch N h = true ↔ ∃ i j, i ≤ h.size ∧ Accepts N h i j :=
  ⟨btIsMatch_sound N h, fun ⟨i, j, hi, ha⟩ => btIsMatch_complete N h i j hi ha⟩

theorem C14_bt_search_sound (N : NFA) (h : Bytes) (at_ s e : Nat) (hr : btSearchAt N h at_ = some (s, e)) :
    at_ ≤ s ∧ s ≤ e ∧ e ≤ h.size ∧ Accepts N h s e := btSearchAt_sound N h at_ s e hr

theorem C14_bt_search_leftmost (N : NFA) (h : Bytes) (at_ : Nat) (hat : at_ ≤ h.size) :
    (∀ s e, btSearchAt N h at_ = some (s, e) → ∀ i j, at_ ≤ i → i < s → ¬ Accepts N h i j) ∧
    (btSearchAt N h at_ = none → ∀ i j, at_ ≤ i → i ≤ h.size → ¬ Accepts N h i j) := btSearchAt_leftmost N h at_ hat

theorem C14_positions_inside (N : NFA) (h : Bytes) (q i j : Nat) (r : Reaches N h q i j) (hi : i ≤ h.size) :
    i ≤ j ∧ j ≤ h.size := reaches_pos_le r hi

/-! #### Pike VM (SlotTable family: SearchWithSlotTableAt; IsMatch from the legacy family) -/

/-- hypotheses of the Pike theorems, all decided by the harness on every dumped NFA: separate unanchored start,
    sparse states with pairwise disjoint ranges (the VM follows every matching transition, the reference the first),
    no rune states or an ASCII haystack (rune states are mishandled by the VM on multi-byte input; the compiler never
    emits them) -/
theorem C14_pike_isMatch_iff {N : NFA} {h : Bytes} (hna : Pike.anchored N = false) (hS : Pike.SparseDet N) (hR : Pike.RuneOK N h) :
    Pike.isMatch N h = true ↔ ∃ i j, i ≤ h.size ∧ Accepts N h i j := Pike.isMatch_iff hna hS hR

/-- the ordered-thread simulation (thread priority, break at first match, per-position start injection, early exit)
    returns exactly what the priority DFS returns: same leftmost start, same leftmost-first end -/
theorem C14_pike_search_eq_reference {N : NFA} {h : Bytes} (hna : Pike.anchored N = false) (hd : Pike.SparseDisjoint N)
    (hR : Pike.RuneOK N h) {at_ : Nat} (hat : at_ ≤ h.size) :
    Pike.searchAt N h at_ false = btSearchAt N h at_ := Pike.search_eq_bt hna hd hR hat

theorem C14_pike_search_sound {N : NFA} {h : Bytes} (hna : Pike.anchored N = false) (hS : Pike.SparseDet N) (hR : Pike.RuneOK N h)
    {at_ s e : Nat} (hr : Pike.searchAt N h at_ false = some (s, e)) :
    at_ ≤ s ∧ s ≤ e ∧ e ≤ h.size ∧ Accepts N h s e := Pike.search_sound hna hS hR hr

/-! #### lazy DFA (`dfa/lazy`: determinisation on the fly, transition memo with capacity, clears and give-up)

The model `Cx.Dfa` is a transliteration of the search-relevant code (ordered closure with look sets, look-behind context
`lookHave` in states and cache keys, `determinize` with the look-ahead re-closure, move with break-at-match, end-of-input
check, `matchesEmptyAt`, start states, cache insert / clear-and-reinsert / give-up, exact state acceleration, the 4x
unrolled loop, the anchored loop with its anchored fallback) and is replayed call by call against the real DFA in every
run.  The memo is invisible and the answer is the reference's END — for automata WITH look-around (`\A \z ^ $ \b \B`,
multi-line or not) as well — for every cache capacity (also one too small for any state), every clear limit and every
history of earlier calls of ANY of the four entry points on the same cache.

Hypotheses (all decidable, evaluated by `dfa hyps` / `dfa classcompat` on the dumped automaton and its real byte classes):
`noRuneB` (the DFA ignores rune states; the compiler never emits them), `sparseDisjointB` (the DFA follows every sparse
transition containing the byte, the reference the first), `prefixOKB` (the unanchored start is the compiler's `(?s:.)*?`
prefix) or `anchoredHeadB` (always-anchored automaton: no prefix, the start state is `\\A`), `ClassSound` — implied by `classStepB`: bytes of
one class agree on every byte range of the automaton AND are not told apart by its look-around (`\n` when it has
`(?m)^`/`(?m)$`, word bytes when it has `\b`/`\B`).  `gaveUp` = the code hands over to the Pike VM (determinization
limit, cache full with no clear left); it is excluded by `wfB` and `states ≤ DeterminizationLimit` for the uncached
search (`Dfa.searchAtU_eq_bt'`). -/

/-- any sequence of `SearchAt`/`SearchAtAnchored`/`IsMatch`/`IsMatchAt` calls on one cache, then `SearchAt`: the code
    either hands over to the NFA simulation or returns the end of the leftmost-first match — never a different answer.
    No restriction on look-around, on the clear limit or on the kind of the earlier calls. -/
theorem C14_dfa_search_eq_reference_any_history {N : NFA} (hnr : Dfa.noRuneB N = true)
    (hsd : Dfa.sparseDisjointB N = true) (hp : Dfa.prefixOKB N = true ∨ Dfa.anchoredHeadB N = true) {cfg : Dfa.Config} (hbrk : cfg.breakAtMatch = true)
    (hC : Dfa.ClassSound N cfg) (calls : List Dfa.Call) (hbs : ∀ k ∈ calls, Dfa.BytesOK k.hay)
    {h : Bytes} (hb : Dfa.BytesOK h) {at_ : Nat} (hat : at_ ≤ h.size) :
    (Dfa.apiSearchAt N cfg (Dfa.runCalls N cfg calls) h at_).1 = .gaveUp ∨
    (Dfa.apiSearchAt N cfg (Dfa.runCalls N cfg calls) h at_).1 = .ok ((btSearchAt N h at_).map (·.2)) :=
  Dfa.session_searchAt hnr hsd hp hbrk hC calls hbs hb hat

theorem C14_dfa_isMatch_iff_any_history {N : NFA} (hnr : Dfa.noRuneB N = true)
    (hsd : Dfa.sparseDisjointB N = true) (hp : Dfa.prefixOKB N = true ∨ Dfa.anchoredHeadB N = true) {cfg : Dfa.Config} (hbrk : cfg.breakAtMatch = true)
    (hC : Dfa.ClassSound N cfg) (calls : List Dfa.Call) (hbs : ∀ k ∈ calls, Dfa.BytesOK k.hay)
    {h : Bytes} (hb : Dfa.BytesOK h) {at_ : Nat} (hat : at_ ≤ h.size) :
    (Dfa.apiIsMatchAt N cfg (Dfa.runCalls N cfg calls) h at_).1 = .gaveUp ∨
    ∃ r, (Dfa.apiIsMatchAt N cfg (Dfa.runCalls N cfg calls) h at_).1 = .ok r ∧
      (r = true ↔ ∃ i j, at_ ≤ i ∧ i ≤ h.size ∧ Accepts N h i j) :=
  Dfa.session_isMatchAt hnr hsd hp hbrk hC calls hbs hb hat

/-- `SearchAtAnchored` after any history, any clear limit: the anchored NFA fallback, or the end the priority DFS finds
    first from `at` (`Pike.btFirst`; sound and complete for "some span starting at `at` is accepted":
    `Pike.btFirst_sound`, `Pike.btFirst_complete`) -/
theorem C14_dfa_anchored_eq_reference_any_history {N : NFA} (hnr : Dfa.noRuneB N = true)
    (hsd : Dfa.sparseDisjointB N = true) {cfg : Dfa.Config} (hbrk : cfg.breakAtMatch = true)
    (hC : Dfa.ClassSound N cfg) (calls : List Dfa.Call) (hbs : ∀ k ∈ calls, Dfa.BytesOK k.hay)
    {h : Bytes} (hb : Dfa.BytesOK h) {at_ : Nat} (hat : at_ < h.size) :
    (Dfa.apiSearchAtAnchored N cfg (Dfa.runCalls N cfg calls) h at_).1 = .gaveUp ∨
    (Dfa.apiSearchAtAnchored N cfg (Dfa.runCalls N cfg calls) h at_).1 = .ok (Pike.btFirst N h at_ at_) :=
  Dfa.session_searchAtAnchored hnr hsd hbrk hC calls hbs hb hat

/-- (b) WITH LOOK-AROUND, the cache out of the way: the lazy DFA's search on state values (`determinize` recomputed for
    every byte) reports exactly the end of the reference's leftmost-first match, where the reference evaluates every
    assertion with `lookOK` on the whole haystack — for every automaton the decidable hypotheses hold for, whatever
    look-around states it contains, at every start offset `at ≤ len` (the `at = len` case is `matchesEmptyAt`). -/
theorem C14_dfa_look_eq_reference {N : NFA} (hwf : Dfa.wfB N = true) (hnr : Dfa.noRuneB N = true)
    (hsd : Dfa.sparseDisjointB N = true) (hp : Dfa.prefixOKB N = true ∨ Dfa.anchoredHeadB N = true) (cfg : Dfa.Config) (hbrk : cfg.breakAtMatch = true)
    (hl : N.states.size ≤ cfg.detLimit) {h : Bytes} (hb : Dfa.BytesOK h) {at_ : Nat} (hat : at_ ≤ h.size) :
    Dfa.apiSearchAtU N cfg h at_ = .ok ((btSearchAt N h at_).map (·.2)) := by
  by_cases hlt : at_ < h.size
  · unfold Dfa.apiSearchAtU
    rw [if_neg (by omega), if_neg (by omega)]
    exact Dfa.searchAtU_eq_bt' hwf hnr hsd hp cfg hbrk hl hb hat
  · have : at_ = h.size := by omega
    subst this
    exact Dfa.apiSearchAtU_end N cfg h

/-- the byte classes make the memo sound when they respect the byte ranges and the look-around of the automaton
    (`classStepB`, decided on the real class map by the harness; `classCompatB` is the quadratic variant) -/
theorem C14_dfa_classSound_of_check {N : NFA} (cfg : Dfa.Config) (hc : Dfa.classStepB N cfg.cls = true) :
    Dfa.ClassSound N cfg := Dfa.classSound_of_compat cfg (Dfa.classCompat_of_step hc)

/-- closed instances with look-around, every hypothesis decided: `(?m)^a` and `x*\b` with the byte classes the compiler
    computes for them, ANY capacity, ANY clear limit, ANY history -/
theorem C14_dfa_look_closed_instances (capacity maxClears : Nat) :
    (∀ (calls : List Dfa.Call), (∀ k ∈ calls, Dfa.BytesOK k.hay) → ∀ {h : Bytes}, Dfa.BytesOK h → ∀ {at_ : Nat}, at_ ≤ h.size →
      let cfg : Dfa.Config := { capacity := capacity, maxClears := maxClears, stride := 5, cls := Dfa.clsCaretA }
      (Dfa.apiSearchAt Dfa.nfaCaretA cfg (Dfa.runCalls Dfa.nfaCaretA cfg calls) h at_).1 = .gaveUp ∨
      (Dfa.apiSearchAt Dfa.nfaCaretA cfg (Dfa.runCalls Dfa.nfaCaretA cfg calls) h at_).1 =
        .ok ((btSearchAt Dfa.nfaCaretA h at_).map (·.2))) ∧
    (∀ (calls : List Dfa.Call), (∀ k ∈ calls, Dfa.BytesOK k.hay) → ∀ {h : Bytes}, Dfa.BytesOK h → ∀ {at_ : Nat}, at_ ≤ h.size →
      let cfg : Dfa.Config := { capacity := capacity, maxClears := maxClears, stride := 11, cls := Dfa.clsXsWB }
      (Dfa.apiSearchAt Dfa.nfaXsWB cfg (Dfa.runCalls Dfa.nfaXsWB cfg calls) h at_).1 = .gaveUp ∨
      (Dfa.apiSearchAt Dfa.nfaXsWB cfg (Dfa.runCalls Dfa.nfaXsWB cfg calls) h at_).1 =
        .ok ((btSearchAt Dfa.nfaXsWB h at_).map (·.2))) :=
  ⟨fun calls hbs _ hb _ hat => Dfa.session_caretA capacity maxClears calls hbs hb hat,
   fun calls hbs _ hb _ hat => Dfa.session_xsWB capacity maxClears calls hbs hb hat⟩

/-- THE FORMER DEVIATIONS, on the same dumped automata, haystacks and cache configurations (each was confirmed on the real
    DFA of the previous tree; the model of this tree — which the harness replays against the real code — now agrees with
    the reference on all of them):
    `(?m)^a` on "\n0a" (was end 3): none, with the byte classes of this tree; the old class map is refused by `classStepB`;
    `^` on "a" at 1 (was 1): none;  `x*\b` on "a\nx" at 2 (was 2): 3;  `a|\B` on "aa" at 1 (was 1): 2;
    `SearchAtAnchored` of `abc` with a 200-byte cache and 2 clears (was none): 3;
    `[ab]*a[ab][ab]` on "abbab0bb" after four anchored searches on the same cache (was 7): 3;
    `\B` on "  a", cached `IsMatch` (was false): true. -/
theorem C14_dfa_deviations_fixed :
    ((Dfa.apiSearchAt Dfa.nfaCaretA Dfa.cfgCaretA Dfa.Cache.empty #[10, 48, 97] 0).1 = .ok none ∧
      btSearchAt Dfa.nfaCaretA #[10, 48, 97] 0 = none ∧
      Dfa.classStepB Dfa.nfaCaretA (fun b => if b < 97 then 0 else if b = 97 then 1 else 2) = false) ∧
    (Dfa.apiSearchAtU Dfa.nfaCaret Dfa.Config.plain #[97] 1 = .ok none ∧ btSearchAt Dfa.nfaCaret #[97] 1 = none) ∧
    (Dfa.apiSearchAtU Dfa.nfaXsWB Dfa.Config.plain #[97, 10, 120] 2 = .ok (some 3) ∧
      btSearchAt Dfa.nfaXsWB #[97, 10, 120] 2 = some (2, 3)) ∧
    (Dfa.apiSearchAtU Dfa.nfaAorNotWB Dfa.Config.plain #[97, 97] 1 = .ok (some 2) ∧
      btSearchAt Dfa.nfaAorNotWB #[97, 97] 1 = some (1, 2)) ∧
    ((Dfa.apiSearchAtAnchored Dfa.nfaABC Dfa.cfg200 Dfa.Cache.empty #[97, 98, 99] 0).1 = .ok (some 3) ∧
      Dfa.apiSearchAtAnchoredU Dfa.nfaABC Dfa.cfg200 #[97, 98, 99] 0 = .ok (some 3)) ∧
    ((Dfa.apiSearchAt Dfa.nfaABs Dfa.cfgABs (Dfa.runCalls Dfa.nfaABs Dfa.cfgABs
        [.searchAtAnchored #[97, 98, 97] 0, .searchAtAnchored #[97, 98, 98] 0, .searchAtAnchored #[97, 98, 99] 0,
         .searchAtAnchored #[97, 98, 48] 0]) #[97, 98, 98, 97, 98, 48, 98, 98] 0).1 = .ok (some 3) ∧
      btSearchAt Dfa.nfaABs #[97, 98, 98, 97, 98, 48, 98, 98] 0 = some (0, 3)) ∧
    ((Dfa.apiIsMatch Dfa.nfaNotWB Dfa.Config.plain Dfa.Cache.empty #[32, 32, 97]).1 = .ok true) :=
  ⟨⟨Dfa.class_fixed.1, Dfa.class_fixed.2.2, Dfa.old_classes_rejected⟩, Dfa.empty_at_end_fixed, Dfa.wb_precheck_fixed,
   Dfa.wb_precheck_fixed2, Dfa.anchored_clear_fixed, ⟨Dfa.accel_fixed.1, Dfa.accel_fixed.2.2⟩, Dfa.wb_flags_fixed.1⟩

/- non-vacuity: the NFA of `a|ab` (split, two byte paths) on "ab": first alternative wins -/
def exN : NFA := { states := #[.split 1 2, .byteRange 97 97 5, .byteRange 97 97 3, .byteRange 98 98 5, .fail, .mtch],
                   startAnchored := 0, startUnanchored := 0 }
example : btSearchAt exN #[97, 98] 0 = some (0, 1) := by decide
example : btIsMatch exN #[98, 97, 98] = true := by decide

/-! ### the lazy DFA in reverse mode (`SearchReverse`, `SearchReverseLimited`, `IsMatchReverse`, fallback `reverseWalk`)

Model `Cx.Model.DfaRev` (a DFA configured with `BreakAtMatch = false`, as every reverse DFA is); the statements are those of
`Cx.C02` (where they serve the reverse strategies), restated here for the engine property. -/

/-- every cache capacity, clear limit, determinisation limit and history: the cached reverse searches answer what the uncached
    ones answer (for `SearchReverseLimited`: or -2 where the fallback already knows the start `minStart + 1`, which callers
    treat as "ask another engine") and keep the cache invariant -/
theorem C14_dfa_reverse_memo_invisible {R : NFA} {cfg : Dfa.Config} {h : Bytes} (hC : Dfa.ClassSound R cfg)
    (hb : Dfa.BytesOK h) {c : Dfa.Cache} (hI : Dfa.Inv R cfg c) (start e minStart : Nat) :
    (Dfa.searchReverseC R cfg c h start e).1 = Dfa.searchReverseU R cfg h start e ∧
    (Dfa.isMatchReverseC R cfg c h start e).1 = Dfa.isMatchReverseU R cfg h start e ∧
    ((Dfa.searchReverseLimitedC R cfg c h start e minStart).1 = Dfa.searchReverseLimitedU R cfg h start e minStart ∨
     ((Dfa.searchReverseLimitedC R cfg c h start e minStart).1 = .cutOff ∧ start < minStart ∧
        Dfa.searchReverseLimitedU R cfg h start e minStart = .found (minStart + 1))) ∧
    Dfa.Inv R cfg (Dfa.searchReverseC R cfg c h start e).2 ∧ Dfa.Inv R cfg (Dfa.isMatchReverseC R cfg c h start e).2 ∧
    Dfa.Inv R cfg (Dfa.searchReverseLimitedC R cfg c h start e minStart).2 :=
  ⟨(Dfa.searchReverseC_eq hC hb hI start e).2, (Dfa.isMatchReverseC_eq hC hb hI start e).2,
   (Dfa.searchReverseLimitedC_eq hC hb hI start e minStart).2, (Dfa.searchReverseC_eq hC hb hI start e).1,
   (Dfa.isMatchReverseC_eq hC hb hI start e).1, (Dfa.searchReverseLimitedC_eq hC hb hI start e minStart).1⟩

/-- the reverse search returns the reference: the least accepted start in `[start, end]`, -1 iff there is none -/
theorem C14_dfa_reverse_eq_reference {R : NFA} {cfg : Dfa.Config} (H : Dfa.RevDfaHyp R cfg) (h : Bytes)
    {start e : Nat} (hse : start < e) (he : e ≤ h.size) :
    ∃ o, Dfa.searchReverseU R cfg h start e = Dfa.ofLast o ∧ Dfa.LeastIn (Dfa.RAcc R h e) start e o :=
  Dfa.searchReverseU_spec H h hse he

/-- the bounded reverse search declines (-2) exactly when `minStart > start` and the automaton is alive after every byte
    it may read; otherwise it returns the reference -/
theorem C14_dfa_reverse_limited_eq_reference_or_declines {R : NFA} {cfg : Dfa.Config} (H : Dfa.RevDfaHyp R cfg) (h : Bytes)
    {start e minStart : Nat} (hse : start < e) (he : e ≤ h.size) :
    ((start < minStart ∧ ∀ at_, minStart ≤ at_ → at_ < e → Dfa.RAlive R h e at_) →
        Dfa.searchReverseLimitedU R cfg h start e minStart = .cutOff) ∧
    (¬ (start < minStart ∧ ∀ at_, minStart ≤ at_ → at_ < e → Dfa.RAlive R h e at_) →
        ∃ o, Dfa.searchReverseLimitedU R cfg h start e minStart = Dfa.ofLast o ∧ Dfa.LeastIn (Dfa.RAcc R h e) start e o) :=
  Dfa.reverseWalk_spec H h hse he

/-- the reversed NFA (`nfa.Reverse` / `nfa.ReverseAnchored`) driven by the reverse DFA: the leftmost start of a match of `N`
    ending at `e` -/
theorem C14_reversed_nfa_leftmost_start {N : NFA} (H : Rev.RevHyp N) (a : Bool) {rcfg : Dfa.Config}
    (hbrk : rcfg.breakAtMatch = false) (h : Bytes) {start e : Nat} (hse : start < e) (he : e ≤ h.size) :
    ∃ o, Dfa.searchReverseU (Rev.reverse N a) rcfg h start e = Dfa.ofLast o ∧
      Dfa.LeastIn (fun s => Rev.AcceptsA N h s e) start e o :=
  RevSuffix.reverse_search_leftmost_start H a hbrk h hse he

end Cx.C14
