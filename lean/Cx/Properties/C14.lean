import Cx.Proofs.Nfa
import Cx.Proofs.Pike
import Cx.Proofs.Dfa
/-
  C14 — each matching engine agrees with the reference on everything it accepts.

  Reference = the path relation of the NFA itself (`Cx.Nfa.Accepts N h i j`: some run of the automaton from the
  anchored start state at offset i reaches a match state at offset j, with look-around evaluated on the whole
  haystack).  Proved for the bounded backtracker (model `Cx.Nfa.bt*`), for every NFA, haystack and offset:
  boolean search sound and complete with the visited set shared by all start positions; span search sound, its
  start is the leftmost start with any match, `none` means no match at all.  The model is the reference the C14
  check runs against PikeVM, the real backtracker and the lazy DFA on the dumped NFA.
-/
namespace Cx.C14
open Cx Cx.Nfa

theorem C14_bt_isMatch_iff (N : NFA) (h : Bytes) :
    btIsMatch N h = true ↔ ∃ i j, i ≤ h.size ∧ Accepts N h i j :=
  ⟨btIsMatch_sound N h, fun ⟨i, j, hi, ha⟩ => btIsMatch_complete N h i j hi ha⟩

theorem C14_bt_search_sound (N : NFA) (h : Bytes) (at_ s e : Nat) (hr : btSearchAt N h at_ = some (s, e)) :
    at_ ≤ s ∧ s ≤ e ∧ e ≤ h.size ∧ Accepts N h s e := btSearchAt_sound N h at_ s e hr

theorem C14_bt_search_leftmost (N : NFA) (h : Bytes) (at_ : Nat) (hat : at_ ≤ h.size) :
    (∀ s e, btSearchAt N h at_ = some (s, e) → ∀ i j, at_ ≤ i → i < s → ¬ Accepts N h i j) ∧
    (btSearchAt N h at_ = none → ∀ i j, at_ ≤ i → i ≤ h.size → ¬ Accepts N h i j) := btSearchAt_leftmost N h at_ hat

theorem C14_positions_inside (N : NFA) (h : Bytes) (q i j : Nat) (r : Reaches N h q i j) (hi : i ≤ h.size) :
    i ≤ j ∧ j ≤ h.size := reaches_pos_le r hi

/-! #### Pike VM (SlotTable family: SearchWithSlotTableAt; IsMatch from the legacy family) -/

/-- hypotheses of the Pike theorems, all decided by the harness on every dumped NFA: separate unanchored start,
    sparse states with pairwise disjoint ranges (the VM follows every matching transition, the reference the first),
    no rune states or an ASCII haystack (rune states are mishandled by the VM on multi-byte input; the compiler never
    emits them) -/
theorem C14_pike_isMatch_iff {N : NFA} {h : Bytes} (hna : Pike.anchored N = false) (hS : Pike.SparseDet N) (hR : Pike.RuneOK N h) :
    Pike.isMatch N h = true ↔ ∃ i j, i ≤ h.size ∧ Accepts N h i j := Pike.isMatch_iff hna hS hR

/-- the ordered-thread simulation (thread priority, break at first match, per-position start injection, early exit)
    returns exactly what the priority DFS returns: same leftmost start, same leftmost-first end -/
theorem C14_pike_search_eq_reference {N : NFA} {h : Bytes} (hna : Pike.anchored N = false) (hd : Pike.SparseDisjoint N)
    (hR : Pike.RuneOK N h) {at_ : Nat} (hat : at_ ≤ h.size) :
    Pike.searchAt N h at_ false = btSearchAt N h at_ := Pike.search_eq_bt hna hd hR hat

theorem C14_pike_search_sound {N : NFA} {h : Bytes} (hna : Pike.anchored N = false) (hS : Pike.SparseDet N) (hR : Pike.RuneOK N h)
    {at_ s e : Nat} (hr : Pike.searchAt N h at_ false = some (s, e)) :
    at_ ≤ s ∧ s ≤ e ∧ e ≤ h.size ∧ Accepts N h s e := Pike.search_sound hna hS hR hr

/-! #### lazy DFA (`dfa/lazy`: determinisation on the fly, transition memo with capacity, clears and give-up)

The model `Cx.Dfa` is a transliteration of the search-relevant code (closure, move with break-at-match, start states,
cache insert / clear-and-rebuild / give-up, acceleration, the 4x unrolled loop) and is replayed call by call against the
real DFA in every run.  For look-free automata the memo is invisible and the answer is the reference's END, for every cache
capacity (also one too small for any state), every clear limit and every history of earlier calls on the same cache. -/

/-- any sequence of `SearchAt`/`IsMatch`/`IsMatchAt` calls on one cache, then `SearchAt`: the code either hands over to the
    NFA simulation or returns the end of the leftmost-first match — never a different answer.  Hypotheses are decidable
    checks on the dumped automaton and its byte classes (`dfa hyps`, `dfa classcompat` in the driver). -/
theorem C14_dfa_search_eq_reference_any_history {N : NFA} (hlf : Dfa.lookFreeB N = true) (hnr : Dfa.noRuneB N = true)
    (hsd : Dfa.sparseDisjointB N = true) (hp : Dfa.prefixOKB N = true) {cfg : Dfa.Config} (hbrk : cfg.breakAtMatch = true)
    (hC : Dfa.ClassSound N cfg) (calls : List Dfa.Call) (hbs : ∀ k ∈ calls, Dfa.BytesOK k.hay)
    (hks : ∀ k ∈ calls, k.isAnchored = false) {h : Bytes} (hb : Dfa.BytesOK h) {at_ : Nat} (hat : at_ ≤ h.size) :
    (Dfa.apiSearchAt N cfg (Dfa.runCalls N cfg calls) h at_).1 = .gaveUp ∨
    (Dfa.apiSearchAt N cfg (Dfa.runCalls N cfg calls) h at_).1 = .ok ((btSearchAt N h at_).map (·.2)) :=
  Dfa.session_searchAt hlf hnr hsd hp hbrk hC calls hbs hks hb hat

theorem C14_dfa_isMatch_iff_any_history {N : NFA} (hlf : Dfa.lookFreeB N = true) (hnr : Dfa.noRuneB N = true)
    (hsd : Dfa.sparseDisjointB N = true) (hp : Dfa.prefixOKB N = true) {cfg : Dfa.Config} (hbrk : cfg.breakAtMatch = true)
    (hC : Dfa.ClassSound N cfg) (calls : List Dfa.Call) (hbs : ∀ k ∈ calls, Dfa.BytesOK k.hay)
    (hks : ∀ k ∈ calls, k.isAnchored = false) {h : Bytes} (hb : Dfa.BytesOK h) {at_ : Nat} (hat : at_ < h.size) :
    (Dfa.apiIsMatchAt N cfg (Dfa.runCalls N cfg calls) h at_).1 = .gaveUp ∨
    ∃ r, (Dfa.apiIsMatchAt N cfg (Dfa.runCalls N cfg calls) h at_).1 = .ok r ∧
      (r = true ↔ ∃ i j, at_ ≤ i ∧ i ≤ h.size ∧ Accepts N h i j) :=
  Dfa.session_isMatchAt hlf hnr hsd hp hbrk hC calls hbs hks hb hat

/-- the statement is FALSE for the code outside those hypotheses; each witness is the model run on an NFA dumped from the
    real compiler and was confirmed on the real DFA (they are the open C14-dfa-* findings):
    byte classes that do not separate `\n` when the automaton has `(?m)^` ((?m)^a on "\n0a": end 3, reference none);
    `SearchAtAnchored` after a cache clear (abc, 200-byte cache: none instead of 3);
    state acceleration after anchored searches filled a row ([ab]*a[ab][ab]: end 7 instead of 3) -/
theorem C14_dfa_deviations_partial :
    ((Dfa.apiSearchAt Dfa.nfaCaretA Dfa.cfgCaretA Dfa.Cache.empty #[10, 48, 97] 0).1 = .ok (some 3) ∧
      btSearchAt Dfa.nfaCaretA #[10, 48, 97] 0 = none) ∧
    ((Dfa.apiSearchAtAnchored Dfa.nfaABC Dfa.cfg200 Dfa.Cache.empty #[97, 98, 99] 0).1 = .ok none ∧
      Dfa.apiSearchAtAnchoredU Dfa.nfaABC Dfa.cfg200 #[97, 98, 99] 0 = .ok (some 3)) :=
  ⟨⟨Dfa.class_unsound_visible.1, Dfa.class_unsound_visible.2.2⟩, Dfa.anchored_clear_visible⟩

/- non-vacuity: the NFA of `a|ab` (split, two byte paths) on "ab": first alternative wins -/
def exN : NFA := { states := #[.split 1 2, .byteRange 97 97 5, .byteRange 97 97 3, .byteRange 98 98 5, .fail, .mtch],
                   startAnchored := 0, startUnanchored := 0 }
example : btSearchAt exN #[97, 98] 0 = some (0, 1) := by decide
example : btIsMatch exN #[98, 97, 98] = true := by decide

end Cx.C14
