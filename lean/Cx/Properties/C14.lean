import Cx.Proofs.Nfa
import Cx.Proofs.Pike
/-
  C14 — each matching engine agrees with the reference on everything it accepts.

  Reference = the path relation of the NFA itself (`Cx.Nfa.Accepts N h i j`: some run of the automaton from the
  anchored start state at offset i reaches a match state at offset j, with look-around evaluated on the whole
  haystack).  Proved for the bounded backtracker (model `Cx.Nfa.bt*`), for every NFA, haystack and offset:
  boolean search sound and complete with the visited set shared by all start positions; span search sound, its
  start is the leftmost start with any match, `none` means no match at all.  The model is the reference the C14
  check runs against PikeVM, the real backtracker and the lazy DFA on the dumped NFA.
-/
namespace Cx.C14
open Cx Cx.Nfa

theorem C14_bt_isMatch_iff (N : NFA) (h : Bytes) :
    btIsMatch N h = true ↔ ∃ i j, i ≤ h.size ∧ Accepts N h i j :=
  ⟨btIsMatch_sound N h, fun ⟨i, j, hi, ha⟩ => btIsMatch_complete N h i j hi ha⟩

theorem C14_bt_search_sound (N : NFA) (h : Bytes) (at_ s e : Nat) (hr : btSearchAt N h at_ = some (s, e)) :
    at_ ≤ s ∧ s ≤ e ∧ e ≤ h.size ∧ Accepts N h s e := btSearchAt_sound N h at_ s e hr

theorem C14_bt_search_leftmost (N : NFA) (h : Bytes) (at_ : Nat) (hat : at_ ≤ h.size) :
    (∀ s e, btSearchAt N h at_ = some (s, e) → ∀ i j, at_ ≤ i → i < s → ¬ Accepts N h i j) ∧
    (btSearchAt N h at_ = none → ∀ i j, at_ ≤ i → i ≤ h.size → ¬ Accepts N h i j) := btSearchAt_leftmost N h at_ hat

theorem C14_positions_inside (N : NFA) (h : Bytes) (q i j : Nat) (r : Reaches N h q i j) (hi : i ≤ h.size) :
    i ≤ j ∧ j ≤ h.size := reaches_pos_le r hi

/-! #### Pike VM (SlotTable family: SearchWithSlotTableAt; IsMatch from the legacy family) -/

/-- hypotheses of the Pike theorems, all decided by the harness on every dumped NFA: separate unanchored start,
    sparse states with pairwise disjoint ranges (the VM follows every matching transition, the reference the first),
    no rune states or an ASCII haystack (rune states are mishandled by the VM on multi-byte input; the compiler never
    emits them) -/
theorem C14_pike_isMatch_iff {N : NFA} {h : Bytes} (hna : Pike.anchored N = false) (hS : Pike.SparseDet N) (hR : Pike.RuneOK N h) :
    Pike.isMatch N h = true ↔ ∃ i j, i ≤ h.size ∧ Accepts N h i j := Pike.isMatch_iff hna hS hR

/-- the ordered-thread simulation (thread priority, break at first match, per-position start injection, early exit)
    returns exactly what the priority DFS returns: same leftmost start, same leftmost-first end -/
theorem C14_pike_search_eq_reference {N : NFA} {h : Bytes} (hna : Pike.anchored N = false) (hd : Pike.SparseDisjoint N)
    (hR : Pike.RuneOK N h) {at_ : Nat} (hat : at_ ≤ h.size) :
    Pike.searchAt N h at_ false = btSearchAt N h at_ := Pike.search_eq_bt hna hd hR hat

theorem C14_pike_search_sound {N : NFA} {h : Bytes} (hna : Pike.anchored N = false) (hS : Pike.SparseDet N) (hR : Pike.RuneOK N h)
    {at_ s e : Nat} (hr : Pike.searchAt N h at_ false = some (s, e)) :
    at_ ≤ s ∧ s ≤ e ∧ e ≤ h.size ∧ Accepts N h s e := Pike.search_sound hna hS hR hr

/- non-vacuity: the NFA of `a|ab` (split, two byte paths) on "ab": first alternative wins -/
def exN : NFA := { states := #[.split 1 2, .byteRange 97 97 5, .byteRange 97 97 3, .byteRange 98 98 5, .fail, .mtch],
                   startAnchored := 0, startUnanchored := 0 }
example : btSearchAt exN #[97, 98] 0 = some (0, 1) := by decide
example : btIsMatch exN #[98, 97, 98] = true := by decide

end Cx.C14
