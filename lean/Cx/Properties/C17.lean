import Cx.Proofs.LitCheck
import Cx.Proofs.SeqOps
/-
  C17 — extracted literals are necessary for every match.

  The literal extractor (`literal.Extractor`: ExtractPrefixes / ExtractSuffixes / ExtractInner and the strategy
  selection that turns them into a prefilter) is not modelled.  What is proved is the *decision procedure* the C17
  check applies to the extractor's actual output: a product exploration of the compiled NFA (dumped from the real
  compiler) with a literal-set automaton.  If the procedure answers `true` for literal set `lits`, then in EVERY
  haystack, at EVERY offset, EVERY span accepted by the NFA starts with / ends with / contains a member of `lits` —
  i.e. a prefilter that skips positions where no literal occurs cannot drop a match.  The quantifier over haystacks is
  discharged by the theorem, the quantifier over (pattern, extractor configuration) is sampled by the check.

  Second part (`Cx.Model.SeqOps` / `Cx.Proofs.SeqOps`, model of `literal/seq.go`): the set reductions applied to an
  extracted sequence — longest common prefix / suffix, minimisation, de-duplication, truncation, cross product — KEEP
  the necessity guarantee: whatever was true of every match before the reduction (starts with / ends with one of the
  literals) is true after it.  Model-to-code: `gocheck/seqops.go`, exhaustive small sequences + random, 0 mismatches.
-/
namespace Cx.C17
open Cx Cx.Nfa Cx.Lit

/-- prefix literals: if the check passes, every accepted span of every haystack starts with one of the literals -/
theorem C17_prefix_necessary (N : NFA) (lits : List Lit) (hc : checkPrefix N lits = true) :
    ∀ (h : Bytes) (i j : Nat), i ≤ h.size → Accepts N h i j → ∃ l ∈ lits, l <+: slice h i j :=
  checkPrefix_sound N lits hc

/-- suffix literals: every accepted span ends with one of the literals -/
theorem C17_suffix_necessary (N : NFA) (lits : List Lit) (hc : checkSuffix N lits = true) :
    ∀ (h : Bytes) (i j : Nat), i ≤ h.size → Accepts N h i j → ∃ l ∈ lits, l <:+ slice h i j :=
  checkSuffix_sound N lits hc

/-- inner literals: every accepted span contains one of the literals -/
theorem C17_inner_necessary (N : NFA) (lits : List Lit) (hc : checkInner N lits = true) :
    ∀ (h : Bytes) (i j : Nat), i ≤ h.size → Accepts N h i j → ∃ l ∈ lits, l <:+: slice h i j :=
  checkInner_sound N lits hc

/-- consequence used by the check: a haystack without any occurrence of an inner-checked literal has no match at all
    (so skipping it is safe) -/
theorem C17_no_literal_no_match (N : NFA) (lits : List Lit) (hc : checkInner N lits = true) (h : Bytes)
    (hno : ∀ l ∈ lits, ∀ i j, ¬ l <:+: slice h i j) : ∀ i j, i ≤ h.size → ¬ Accepts N h i j := by
  intro i j hi ha
  obtain ⟨l, hl, hin⟩ := checkInner_sound N lits hc h i j hi ha
  exact hno l hl i j hin

/- non-vacuity (kernel-evaluated): `x*foo` — "foo" is a necessary suffix and "oo" a necessary inner literal, "foo" is
   NOT a necessary prefix and the checker produces the witness "xfoo" -/
example : checkSuffix exXFoo [[102, 111, 111]] = true := by decide +kernel
example : checkInner exXFoo [[111, 111]] = true := by decide +kernel
example : checkPrefix exXFoo [[102, 111, 111]] = false := by decide +kernel
example : checkPrefixWitness exXFoo [[102, 111, 111]] = some [120, 102, 111, 111] := by decide +kernel

/-! ## the set reductions keep the guarantees (`literal/seq.go`) -/
section SeqOps
open Cx.SeqOps

/-- LongestCommonPrefix: if every match `m` starts with one of the prefix literals, it starts with their LCP
    (which is the greatest byte string with that property of the literals) -/
theorem C17_lcp_keeps_prefix (s : List SeqOps.Lit) (m : List Nat) (h : ∃ l ∈ s, l.bytes <+: m) :
    lcp s <+: m ∧ (∀ l ∈ s, lcp s <+: l.bytes) ∧ ∀ p, (∀ l ∈ s, p <+: l.bytes) → p <+: lcp s := by
  refine ⟨lcp_keeps_prefix s m h, lcp_prefix_all s, fun p hp => lcp_greatest s p hp ?_⟩
  obtain ⟨l, hl, -⟩ := h
  intro e; rw [e] at hl; nomatch hl

/-- LongestCommonSuffix: if every match ends with one of the suffix literals, it ends with their LCS -/
theorem C17_lcs_keeps_suffix (s : List SeqOps.Lit) (m : List Nat) (h : ∃ l ∈ s, l.bytes <:+ m) :
    lcs s <:+ m ∧ (∀ l ∈ s, lcs s <:+ l.bytes) ∧ ∀ p, (∀ l ∈ s, p <:+ l.bytes) → p <:+ lcs s := by
  refine ⟨lcs_keeps_suffix s m h, lcs_suffix_all s, fun p hp => lcs_greatest s p hp ?_⟩
  obtain ⟨l, hl, -⟩ := h
  intro e; rw [e] at hl; nomatch hl

/-- Minimize (prefix sequences): a match starts with a literal of the sequence iff it starts with one of the minimised
    sequence — for the model's stable sort and for ANY length-sorted arrangement `s'` Go's unstable `sort.Slice` may
    produce; the minimised literals are literals of the input, none a prefix of another -/
theorem C17_minimize_keeps_prefix (s : List SeqOps.Lit) (m : List Nat) :
    ((∃ l ∈ s, l.bytes <+: m) ↔ (∃ l ∈ minimize s, l.bytes <+: m)) ∧
    (∀ s', s'.Perm s → ((∃ l ∈ s, l.bytes <+: m) ↔ (∃ l ∈ minLoop [] s', l.bytes <+: m))) ∧
    (∀ l ∈ minimize s, l ∈ s) ∧ (minimize s).Pairwise Incomp :=
  ⟨minimize_keeps_prefix s m, fun s' hp => minimize_any_sort_keeps_prefix s s' hp m, minimize_subset s,
    minimize_antichain s⟩

/-- Dedup: any guarantee stated on the byte strings (prefix, suffix, inner) is kept, both ways -/
theorem C17_dedup_keeps (s : List SeqOps.Lit) (m : List Nat) :
    ((∃ l ∈ s, l.bytes <+: m) ↔ (∃ l ∈ dedup s, l.bytes <+: m)) ∧
    ((∃ l ∈ s, l.bytes <:+ m) ↔ (∃ l ∈ dedup s, l.bytes <:+ m)) ∧
    ((∃ l ∈ s, l.bytes <:+: m) ↔ (∃ l ∈ dedup s, l.bytes <:+: m)) :=
  ⟨dedup_keeps s (· <+: m), dedup_keeps s (· <:+ m), dedup_keeps s (· <:+: m)⟩

/-- KeepFirstBytes: truncation keeps the prefix guarantee and the meaning of the flags -/
theorem C17_truncation_keeps_prefix (s : List SeqOps.Lit) (n : Int) (m : List Nat) :
    ((∃ l ∈ s, l.bytes <+: m) → ∃ l ∈ keepFirstBytes s n, l.bytes <+: m) ∧
    (Covers s m → Covers (keepFirstBytes s n) m) :=
  ⟨keepFirstBytes_keeps_prefix s n m, keepFirstBytes_covers s n m⟩

/-- CrossForward: the product of a sequence that accounts for `a` and one that accounts for `b` accounts for `a ++ b`;
    in particular every match `a ++ b ++ rest` starts with a literal of the product -/
theorem C17_cross_product_sound (s t : List SeqOps.Lit) (a b rest : List Nat) (hs : Covers s a) (ht : Covers t b) :
    Covers (crossForward s t) (a ++ b) ∧ ∃ l ∈ crossForward s t, l.bytes <+: a ++ b ++ rest :=
  ⟨crossForward_sound s t a b hs ht, crossForward_keeps_prefix s t a b rest hs ht⟩

/- non-vacuity: a prefix set for `(hello|help)…`, and the reductions applied to it -/
example : (∃ l ∈ [(⟨[104, 101, 108, 108, 111], true⟩ : SeqOps.Lit), ⟨[104, 101, 108, 112], false⟩],
      l.bytes <+: [104, 101, 108, 112, 33]) ∧
    lcp [⟨[104, 101, 108, 108, 111], true⟩, ⟨[104, 101, 108, 112], false⟩] = [104, 101, 108] ∧
    keepFirstBytes [⟨[104, 101, 108, 108, 111], true⟩, ⟨[104, 101, 108, 112], false⟩] 3 =
      [⟨[104, 101, 108], false⟩, ⟨[104, 101, 108], false⟩] ∧
    dedup [⟨[104, 101, 108], false⟩, ⟨[104, 101, 108], false⟩] = [⟨[104, 101, 108], false⟩] := by decide

end SeqOps

end Cx.C17
