import Cx.Proofs.LitCheck
/-
  C17 — extracted literals are necessary for every match.

  The literal extractor (`literal.Extractor`: ExtractPrefixes / ExtractSuffixes / ExtractInner and the strategy
  selection that turns them into a prefilter) is not modelled.  What is proved is the *decision procedure* the C17
  check applies to the extractor's actual output: a product exploration of the compiled NFA (dumped from the real
  compiler) with a literal-set automaton.  If the procedure answers `true` for literal set `lits`, then in EVERY
  haystack, at EVERY offset, EVERY span accepted by the NFA starts with / ends with / contains a member of `lits` —
  i.e. a prefilter that skips positions where no literal occurs cannot drop a match.  The quantifier over haystacks is
  discharged by the theorem, the quantifier over (pattern, extractor configuration) is sampled by the check.
-/
namespace Cx.C17
open Cx Cx.Nfa Cx.Lit

/-- prefix literals: if the check passes, every accepted span of every haystack starts with one of the literals -/
theorem C17_prefix_necessary (N : NFA) (lits : List Lit) (hc : checkPrefix N lits = true) :
    ∀ (h : Bytes) (i j : Nat), i ≤ h.size → Accepts N h i j → ∃ l ∈ lits, l <+: slice h i j :=
  checkPrefix_sound N lits hc

/-- suffix literals: every accepted span ends with one of the literals -/
theorem C17_suffix_necessary (N : NFA) (lits : List Lit) (hc : checkSuffix N lits = true) :
    ∀ (h : Bytes) (i j : Nat), i ≤ h.size → Accepts N h i j → ∃ l ∈ lits, l <:+ slice h i j :=
  checkSuffix_sound N lits hc

/-- inner literals: every accepted span contains one of the literals -/
theorem C17_inner_necessary (N : NFA) (lits : List Lit) (hc : checkInner N lits = true) :
    ∀ (h : Bytes) (i j : Nat), i ≤ h.size → Accepts N h i j → ∃ l ∈ lits, l <:+: slice h i j :=
  checkInner_sound N lits hc

/-- consequence used by the check: a haystack without any occurrence of an inner-checked literal has no match at all
    (so skipping it is safe) -/
theorem C17_no_literal_no_match (N : NFA) (lits : List Lit) (hc : checkInner N lits = true) (h : Bytes)
    (hno : ∀ l ∈ lits, ∀ i j, ¬ l <:+: slice h i j) : ∀ i j, i ≤ h.size → ¬ Accepts N h i j := by
  intro i j hi ha
  obtain ⟨l, hl, hin⟩ := checkInner_sound N lits hc h i j hi ha
  exact hno l hl i j hin

/- non-vacuity (kernel-evaluated): `x*foo` — "foo" is a necessary suffix and "oo" a necessary inner literal, "foo" is
   NOT a necessary prefix and the checker produces the witness "xfoo" -/
example : checkSuffix exXFoo [[102, 111, 111]] = true := by decide +kernel
example : checkInner exXFoo [[111, 111]] = true := by decide +kernel
example : checkPrefix exXFoo [[102, 111, 111]] = false := by decide +kernel
example : checkPrefixWitness exXFoo [[102, 111, 111]] = some [120, 102, 111, 111] := by decide +kernel

end Cx.C17
