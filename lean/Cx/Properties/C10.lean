import Cx.Proofs.Pike
/-
  C10 — leftmost-longest mode matches stdlib's Longest/POSIX semantics (the engine part).

  Leftmost-longest has a purely declarative meaning on the automaton: the least start with any match and, for that
  start, the greatest end.  Proved for the Pike VM model in longest mode (SetLongest(true)), for every NFA satisfying the
  harness-checked hypotheses, every haystack and offset.  That the mode flag reaches the engine on every dispatch
  path of the meta engine, and that Copy / a second Regex are unaffected, is tied by the mode x strategy x API
  correspondence of the C10 check (known findings list the strategies that ignore the flag).
-/
namespace Cx.C10
open Cx Cx.Nfa

theorem C10_pike_leftmost_longest {N : NFA} {h : Bytes} (hna : Pike.anchored N = false) (hS : Pike.SparseDet N)
    (hR : Pike.RuneOK N h) (at_ : Nat) :
    (∀ s e, Pike.searchAt N h at_ true = some (s, e) →
      (at_ ≤ s ∧ s ≤ e ∧ e ≤ h.size ∧ Accepts N h s e) ∧ (∀ i j, at_ ≤ i → i < s → ¬ Accepts N h i j) ∧
      (∀ j, Accepts N h s j → j ≤ e)) ∧
    (Pike.searchAt N h at_ true = none ↔ ∀ i j, at_ ≤ i → i ≤ h.size → ¬ Accepts N h i j) :=
  Pike.search_longest hna hS hR at_

/-- both modes agree on WHETHER and WHERE a match starts; only the end may differ -/
theorem C10_modes_agree_on_existence {N : NFA} {h : Bytes} (hna : Pike.anchored N = false) (hS : Pike.SparseDet N)
    (hR : Pike.RuneOK N h) (at_ : Nat) :
    Pike.searchAt N h at_ true = none ↔ Pike.searchAt N h at_ false = none := by
  rw [(Pike.search_longest hna hS hR at_).2, (Pike.search_leftmost hna hS hR at_).2]

/- non-vacuity: `a|ab` on "ab": first = [0,1], longest = [0,2] -/
example : Pike.searchAt Pike.exN #[97, 98] 0 false = some (0, 1) := by decide
example : Pike.searchAt Pike.exN #[97, 98] 0 true = some (0, 2) := by decide

end Cx.C10
