import Cx.Properties.C04
import Cx.Proofs.MetaFindAll
/-
  C04b — C04 continued INSIDE the meta engine: the enumeration loops of `meta/findall.go` (`FindAllIndicesStreaming` /
  `findAllIndicesLoop`, `Count`, `FindAllSubmatch`; model `Cx.Model.MetaFindAll`, with the `useDFADirect` branch, its guard,
  the always-anchored shortcut, the CharClassSearcher streaming branch and Go's `n int`) deliver regexp's `allMatches` sequence
  over the reference single search `ref`.

  C04 proves the abstract loops (`Cx.Model.Loops`, one `find`) equal to `allMatches`; C04b proves that the text of findall.go
  refines those loops with `find := ref`, and composes.  Hypotheses, all about ONE haystack of length `len`:

    FindOK ref id len   the reference is well formed: a match found from `pos` lies in `[pos, len]`; searching again from
                        anywhere between `pos` and its start finds the same match           (`Cx.Proofs.Loops`)
    WidthOK w len       `w` is `utf8.DecodeRune`'s width: ≥ 1 inside the input, 0 at its end (`widthAt_ok`: true of the real one)
    LoopOK O P ref len  the single searches the loops call:
        findAt       `findIndicesAtWithState(h, a) = ref a` for `a ≤ len`            (C02: `MetaFind.findIndicesAtWithState_eq_ref`, …)
        findIndices  `FindIndices(h) = ref 0`, asked only when `IsAlwaysAnchored()`
        direct       ONLY WHEN `useDFADirect` (leftmost-first mode, UseDFA, both DFAs):  `DirectOK`:
                       fwd  `dfa.SearchAt(h, a)` = end of `ref a`                     (`Dfa.searchAtU_eq_bt'`)
                       rev  `ref a = (s, e)`, `e ≠ a` → `SearchReverse(h, a, e) = s`  (from `BiOK.rev_some` + `BiOK.rev_total`
                                                                                       by the two-pass lemma: `DirectOK.of_bi`)
    anch                an engine that says `IsAlwaysAnchored()` has no reference match from an offset > 0
    CcOK                the CharClassSearcher's `FindAllIndices` is the full enumeration (its own model: `Cx.Model.Fast`)
    SubOK               spans of the capture engines (one-pass DFA, Pike VM at an offset / inside a span)
-/
namespace Cx.C04
open Cx.Std Cx.Loops Cx.MetaFindAll
open Cx.MetaFind (Span)

theorem lim_eq_limOf (n : Int) : MetaFindAll.lim n = limOf n := rfl

/-- C04b, refinement: `findAllIndicesLoop` IS the abstract loop `findAllA` of C04 run over the reference search -/
theorem C04b_findAllIndicesLoop_refines {O : Oracles} {P : Params} {ref : Nat → Option Span} {len : Nat}
    (ok : FindOK ref id len) (L : LoopOK O P ref len) (next : Nat → Nat) (n : Int) :
    findAllIndicesLoop O P next len n = findAllA P.alwaysAnchored ref id next len (limOf n) :=
  findAllIndicesLoop_refines ok L next n

/-- C04b, refinement: `Count` is the length of the abstract loop `findAllB` of C04 run over the reference search -/
theorem C04b_count_refines {O : Oracles} {P : Params} {ref : Nat → Option Span} {len : Nat}
    (ok : FindOK ref id len) (L : LoopOK O P ref len) (next : Nat → Nat) (n : Int) (hn : n ≠ 0) :
    count O P next len n = (findAllB ref id next len (limOf n)).length :=
  count_refines ok L next n hn

/-- C04b (`Engine.FindAllIndicesStreaming`, hence FindAll*, AppendAllIndex): equals `allMatches` for every `n ≠ 0` -/
theorem C04b_findAllIndicesStreaming {O : Oracles} {P : Params} {ref : Nat → Option Span} {len : Nat} (w : Nat → Nat)
    (ok : FindOK ref id len) (wk : WidthOK w len) (L : LoopOK O P ref len)
    (anch : P.alwaysAnchored = true → ∀ p, 0 < p → ref p = none) (C : CcOK O P ref w len) (n : Int) (hn : n ≠ 0) :
    findAllIndicesStreaming O P (nextOf w) len n = stdFindAll ref id w len n := by
  rw [findAllIndicesStreaming_eq_std w ok wk L anch C n, if_neg hn]

/-- C04b: for the meta engine `n = 0` means "no limit" (regexp: nothing; regex.go returns before the call) -/
theorem C04b_findAllIndicesStreaming_zero {O : Oracles} {P : Params} {ref : Nat → Option Span} {len : Nat} (w : Nat → Nat)
    (ok : FindOK ref id len) (wk : WidthOK w len) (L : LoopOK O P ref len)
    (anch : P.alwaysAnchored = true → ∀ p, 0 < p → ref p = none) (C : CcOK O P ref w len) :
    findAllIndicesStreaming O P (nextOf w) len 0 = stdFindAll ref id w len (-1) := by
  rw [findAllIndicesStreaming_eq_std w ok wk L anch C 0, if_pos rfl]

/-- C04b (`Engine.Count`): the number of matches `allMatches` delivers; `Count(h, 0) = 0` -/
theorem C04b_count {O : Oracles} {P : Params} {ref : Nat → Option Span} {len : Nat} (w : Nat → Nat)
    (ok : FindOK ref id len) (wk : WidthOK w len) (L : LoopOK O P ref len) (n : Int) :
    count O P (nextOf w) len n = (stdFindAll ref id w len n).length := by
  by_cases hn : n = 0
  · rw [hn, count_zero]; rfl
  · exact count_eq_std w ok wk L n hn

/-- C04b: `Count(h, n) = len(FindAllIndicesStreaming(h, n))` for `n ≠ 0` -/
theorem C04b_count_is_length {O : Oracles} {P : Params} {ref : Nat → Option Span} {len : Nat} (w : Nat → Nat)
    (ok : FindOK ref id len) (wk : WidthOK w len) (L : LoopOK O P ref len)
    (anch : P.alwaysAnchored = true → ∀ p, 0 < p → ref p = none) (C : CcOK O P ref w len) (n : Int) (hn : n ≠ 0) :
    count O P (nextOf w) len n = (findAllIndicesStreaming O P (nextOf w) len n).length :=
  count_eq_length w ok wk L anch C n hn

/-- C04b/C11: a positive limit only truncates the unlimited enumeration -/
theorem C04b_limit_is_prefix {O : Oracles} {P : Params} {ref : Nat → Option Span} {len : Nat} (w : Nat → Nat)
    (ok : FindOK ref id len) (wk : WidthOK w len) (L : LoopOK O P ref len)
    (anch : P.alwaysAnchored = true → ∀ p, 0 < p → ref p = none) (C : CcOK O P ref w len) (n : Nat) (hn : 0 < n) :
    findAllIndicesStreaming O P (nextOf w) len (n : Int) = (findAllIndicesStreaming O P (nextOf w) len (-1)).take n :=
  streaming_limit_prefix w ok wk L anch C n hn

/-- C04b (`Engine.FindAllSubmatch`): the overall spans are `allMatches`, through the one-pass, direct Pike VM and two-phase
    paths of `findSubmatchAtWithState` -/
theorem C04b_findAllSubmatch_spans {M : Type} {O : Oracles} {S : SubOracles M} {P : Params} {sp : M → Span}
    {ref : Nat → Option Span} {len : Nat} (w : Nat → Nat) (ok : FindOK ref id len) (wk : WidthOK w len)
    (hat : ∀ a, a ≤ len → O.findAt a = ref a) (K : SubOK S P sp ref len) (n : Int) :
    (findAllSubmatch O S P sp (nextOf w) len n).map sp = stdFindAll ref id w len n := by
  by_cases hn : n = 0
  · rw [hn, findAllSubmatch_zero]; rfl
  · exact findAllSubmatch_eq_std w ok wk hat K n hn

/-- C04b over C02: for the four core strategies the hypotheses follow from the component contracts of the dispatch
    (`MetaFind.OraclesOK`), `nextPos` is Go's, and the width is `utf8.DecodeRune`'s -/
theorem C04b_meta_findAll {O : MetaFind.Oracles} {P : MetaFind.Params} {Mt : Bytes → Nat → Nat → Prop}
    {ref : Bytes → Nat → Option Span} {h : Bytes} (S : MetaFind.OraclesOK O P Mt ref h) (st : MetaFind.Strategy)
    (hf : ∀ a, a ≤ h.size → MetaFind.StratFlags O P ref h a st) (n : Int) (hn : n ≠ 0) :
    metaFindAll O P st h n = stdFindAll (refOn ref h) id (Utf8.widthAt h) h.size n := by
  rw [metaFindAll_eq_std S st hf n, if_neg hn]

theorem C04b_meta_count {O : MetaFind.Oracles} {P : MetaFind.Params} {Mt : Bytes → Nat → Nat → Prop}
    {ref : Bytes → Nat → Option Span} {h : Bytes} (S : MetaFind.OraclesOK O P Mt ref h) (st : MetaFind.Strategy)
    (hf : ∀ a, a ≤ h.size → MetaFind.StratFlags O P ref h a st) (n : Int) (hn : n ≠ 0) :
    metaCount O P st h n = (stdFindAll (refOn ref h) id (Utf8.widthAt h) h.size n).length :=
  metaCount_eq_std S st hf n hn

/-- C04b: the direct DFA branch is never taken in leftmost-longest mode, and never for UseBoth -/
theorem C04b_direct_guard (P : Params) :
    (P.longest = true → useDFADirect P = false) ∧ (P.strategy = .both → useDFADirect P = false)
    ∧ (useDFADirect P = true ↔ P.longest = false ∧ P.strategy = .dfa ∧ P.hasDFA = true ∧ P.hasReverseDFA = true) :=
  ⟨useDFADirect_longest P, useDFADirect_both P, useDFADirect_iff P⟩

/-- C04b, necessity of the guard: without `!e.longest` (`Count` before the fix) `[ab]|[ab][ab]` on "aaa" counts 3, not 2 -/
theorem C04b_guard_necessary :
    count cexL_O cexL_P (nextOf (asciiW 3)) 3 (-1) = 2
    ∧ countNoLongestGuard cexL_O cexL_P (nextOf (asciiW 3)) 3 (-1) = 3
    ∧ (stdFindAll cexL_ref id (asciiW 3) 3 (-1)).length = 2 := by
  decide

/-- C04b, necessity of `rev_total`: a reverse search that gives up ends the enumeration early -/
theorem C04b_rev_total_necessary :
    findAllIndicesStreaming cexR_O cexR_P (nextOf (asciiW 3)) 3 (-1) = []
    ∧ stdFindAll cexR_ref id (asciiW 3) 3 (-1) = [(0, 2)] := by
  decide

/- Non-vacuity: `a*` on "baaé" (C04's example) through the direct branch of a UseDFA engine. -/
def exO : Oracles where
  findAt := exFind
  findIndices := exFind 0
  fwdSearchAt := fun a => (exFind a).map (·.2)
  revSearch := fun lo e => if lo = 1 ∧ e = 3 then some 1 else if lo = 2 ∧ e = 3 then some 2 else none

example : useDFADirect cexR_P = true
    ∧ findAllIndicesStreaming exO cexR_P (nextOf exW) 5 (-1) = [(0,0), (1,3), (5,5)]
    ∧ count exO cexR_P (nextOf exW) 5 (-1) = 3
    ∧ count exO cexR_P (nextOf exW) 5 2 = 2 := by decide

end Cx.C04
