import Cx.Proofs.Loops
import Cx.Proofs.Nfa
import Cx.Proofs.Utf8
import Cx.Proofs.Teddy
/-
  C07 — total and memory-safe; results well-formed (the part that is logic).

  Every model function in `Cx/Model` and `Cx/Spec` is accepted by Lean without `partial`: loops are structural or
  fuel-bounded with a proved-sufficient fuel, so the modelled algorithms terminate on every input.  Proved
  well-formedness: reported spans lie inside the input and are ordered (backtracker model), enumerations are ordered
  and non-overlapping, rune stepping stays inside the input, prefilter matches are real occurrences inside the
  haystack.  Faults, stack growth and what the assembly reads are runtime facts observed by the C07 check through
  guard pages; they are not modelled.
-/
namespace Cx.C07
open Cx

theorem C07_span_wf (N : Nfa.NFA) (h : Bytes) (at_ s e : Nat) (hr : Nfa.btSearchAt N h at_ = some (s, e)) :
    at_ ≤ s ∧ s ≤ e ∧ e ≤ h.size := by
  have := Nfa.btSearchAt_sound N h at_ s e hr
  exact ⟨this.1, this.2.1, this.2.2.1⟩

theorem C07_enum_wf {α : Type} (find : Nat → Option α) (sp : α → Nat × Nat) (w : Nat → Nat) (len : Nat)
    (ok : FindOK find sp len) (wk : WidthOK w len) (n : Int) :
    (Std.stdFindAll find sp w len n).Pairwise (fun a b => (sp a).2 ≤ (sp b).1 ∧ (sp a).1 < (sp b).1)
    ∧ ∀ m ∈ Std.stdFindAll find sp w len n, (sp m).1 ≤ (sp m).2 ∧ (sp m).2 ≤ len :=
  std_wellformed find sp w len ok wk n

theorem C07_rune_step_inside (h : Bytes) (i : Nat) (hi : i < h.size) :
    1 ≤ (Utf8.decodeAt h i).2 ∧ (Utf8.decodeAt h i).2 ≤ 4 ∧ i + (Utf8.decodeAt h i).2 ≤ h.size :=
  Utf8.decode_progress h i hi

theorem C07_prefilter_match_inside (t : Teddy.T) (h : Bytes) (start s id : Nat)
    (hr : Teddy.findMatch t h start = some (s, id)) :
    ∃ p, t.patterns[id]? = some p ∧ s + p.length ≤ h.size ∧ start ≤ s := by
  obtain ⟨p, hp, ho, hs⟩ := Teddy.findMatch_sound t h start s id hr
  refine ⟨p, hp, ?_, hs⟩
  unfold Teddy.occursAt at ho
  simp only [Bool.and_eq_true, decide_eq_true_eq] at ho
  exact ho.1

end Cx.C07
