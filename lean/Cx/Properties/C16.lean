import Cx.Proofs.Teddy
import Cx.Proofs.Swar
/-
  C16 — prefilters never skip a match and 'complete' prefilters are exact.

  Slim Teddy (Go logic with the scalar candidate finder): the nibble-mask fingerprint never hides a literal, hence
  `Find` = least offset at or after `start` where some literal occurs; a reported match is a real occurrence; with
  any number of literals the reported literal is the first one in pattern order (what "complete" needs; before the
  fix commit this needed ≤ 8 literals: the hypothesis the proof forced was the defect).
  Memchr/Memmem prefilters: C18's theorems.  The SSSE3/AVX2 kernels, Aho-Corasick (external library) and the
  wrappers are tied by the exhaustive correspondence of the C16 check.
-/
namespace Cx.C16
open Cx Cx.Teddy

theorem C16_teddy_mask_sound (t : T) (wf : WF t) (h : Bytes) (hb : ∀ k, h.at k < 256) (i id : Nat) (p : Pat)
    (hp : t.patterns[id]? = some p) (ho : occursAt h p i = true) :
    (candMask t h i).testBit (id % t.nb) = true := candMask_sound t wf h hb i id p hp ho

theorem C16_teddy_find (t : T) (wf : WF t) (h : Bytes) (hb : ∀ k, h.at k < 256) (start : Nat) :
    find t h start = if start ≥ h.size then none else naiveFind t.patterns h (h.size + 1) start :=
  find_eq_naive t wf h hb start

theorem C16_teddy_match_is_occurrence (t : T) (h : Bytes) (start s id : Nat) (hr : findMatch t h start = some (s, id)) :
    ∃ p, t.patterns[id]? = some p ∧ occursAt h p s = true ∧ start ≤ s := findMatch_sound t h start s id hr

theorem C16_teddy_priority (t : T) (wf : WF t) (h : Bytes) (hb : ∀ k, h.at k < 256) (start s id : Nat)
    (hr : findMatch t h start = some (s, id)) :
    ∀ j p, j < id → t.patterns[j]? = some p → occursAt h p s = false := findMatch_priority t wf h hb start s id hr

theorem C16_memmem (h n : Bytes) (rareIdx : Nat) (hr : rareIdx < n.size) :
    Swar.memmemSingle h n rareIdx = Swar.naiveMemmem h n := Swar.memmemSingle_eq_naive h n rareIdx hr

example : find (mk [[102,111,111],[98,97,114]] 1) #[1,2,3,4,5,6,7,8,9,10,11,12,13,98,97,114,0,0] 0 = some 13 := by decide

end Cx.C16
