import Cx.Proofs.MetaFind2
import Cx.Properties.C05
/-
  C05 (continued) — the strategy loops of meta modelled in Cx.Model.MetaFind2 (digit prefilter with its scan budget, Teddy / Aho-Corasick
  strategies, isMatchBoundedBacktracker): property-level statements. Audited together with Cx/Properties/C05.lean.
-/
namespace Cx.C05
open Cx

/-- **The digit-prefilter loop does linear work** (what `candidateBudget` is for).  Over the instrumented twins (erasure:
    their first component is the function itself), for ANY oracles that answer inside the haystack (`CostOK`: the digit scan
    answers a position in `[p, len)`, the anchored scan stops at `stop ≤ len`): the bytes read by all anchored verification scans
    plus the fallback searches (`IsMatchAt`, Pike VM) of one call are at most
    `(candidateBudgetFactor + 3)·(len(h) − at) + candidateBudgetAllowance = 35·(len(h) − at) + 4096`,
    and the digit scan is called at most `len(h) − at` times.  (Charging the budget per scan instead of accumulating it is
    quadratic: `MetaFind2.test_per_scan_quadratic`.) -/
theorem C05_digitPrefilter_linear_work {O : MetaFind2.Oracles2} {P : MetaFind2.Params2} {h : Bytes}
    (C : MetaFind2.CostOK O h) (at_ : Nat) :
    (MetaFind2.findIndicesDigitPrefilterAtT O P h at_).1 = MetaFind2.findIndicesDigitPrefilterAt O P h at_ ∧
    (MetaFind2.findIndicesDigitPrefilterAtT O P h at_).2.cost h ≤ (P.budgetFactor + 3) * (h.size - at_) + P.budgetAllowance ∧
    (MetaFind2.findIndicesDigitPrefilterAtT O P h at_).2.digitCalls ≤ h.size - at_ ∧
    (MetaFind2.findIndicesDigitPrefilterT O P h).1 = MetaFind2.findIndicesDigitPrefilter O P h ∧
    (MetaFind2.findIndicesDigitPrefilterT O P h).2.cost h ≤ (P.budgetFactor + 3) * h.size + P.budgetAllowance ∧
    (MetaFind2.isMatchDigitPrefilterT O P h).1 = MetaFind2.isMatchDigitPrefilter O P h ∧
    (MetaFind2.isMatchDigitPrefilterT O P h).2.cost h ≤ (P.budgetFactor + 3) * h.size + P.budgetAllowance :=
  ⟨MetaFind2.findIndicesDigitPrefilterAtT_fst at_, (MetaFind2.findIndicesDigitPrefilterAtT_cost C at_).1,
   (MetaFind2.findIndicesDigitPrefilterAtT_cost C at_).2, MetaFind2.findIndicesDigitPrefilterT_fst,
   (MetaFind2.findIndicesDigitPrefilterT_cost C).1, MetaFind2.isMatchDigitPrefilterT_fst, MetaFind2.isMatchDigitPrefilterT_cost C⟩

/-- with the constants of the code: 35·(len(h) − at) + 4096 -/
theorem C05_digitPrefilter_linear_work_constants {O : MetaFind2.Oracles2} {P : MetaFind2.Params2} {h : Bytes}
    (C : MetaFind2.CostOK O h) (hf : P.budgetFactor = 32) (ha : P.budgetAllowance = 4096) (at_ : Nat) :
    (MetaFind2.findIndicesDigitPrefilterAtT O P h at_).2.cost h ≤ 35 * (h.size - at_) + 4096 := by
  have := (MetaFind2.findIndicesDigitPrefilterAtT_cost (P := P) C at_).1
  rw [hf, ha] at this
  exact this

end Cx.C05
