import Cx.Proofs.Loops
/-
  C11 — all views of one Regex tell the same story (the relations between the enumeration views).

  Every enumeration view is one of the three loop models over the same single-match function, so they agree with each
  other without any oracle: FindAll(n) is a prefix of FindAll(-1); Count equals the length of FindAll; the iterators
  and AppendAllIndex deliver FindAll's sequence; FindAllSubmatch restricted to group 0 is FindAll (the loop only looks
  at the span).  The relations Match ⇔ Find ≠ nil, Find = group 0 of FindSubmatch and string/bytes/reader agreement are
  about the engines underneath and are tied by the C11 check on the real code (correspondence).
-/
namespace Cx.C11
open Cx Cx.Std Cx.Loops

variable {α : Type}

/-- Count(n) = len(FindAll(n)): both loops deliver the same sequence -/
theorem C11_count_eq_len_findall (find : Nat → Option α) (sp : α → Nat × Nat) (w : Nat → Nat) (len : Nat)
    (ok : FindOK find sp len) (wk : WidthOK w len) (n : Int) (hn : n ≠ 0) :
    (findAllB find sp (nextOf w) len (if n ≤ 0 then none else some n.toNat)).length
      = (findAllA false find sp (nextOf w) len (if n ≤ 0 then none else some n.toNat)).length := by
  rw [loopB_eq_std find sp w len ok wk n hn, loopA_eq_std find sp w len ok wk n hn]

/-- iterators = FindAll(-1) -/
theorem C11_iterator_eq_findall (find : Nat → Option α) (sp : α → Nat × Nat) (w : Nat → Nat) (len : Nat)
    (ok : FindOK find sp len) (wk : WidthOK w len) :
    findAllC find sp (nextOf w) len = findAllA false find sp (nextOf w) len none := by
  have h := loopA_eq_std find sp w len ok wk (-1) (by decide)
  simp only [show ((-1 : Int) ≤ 0) = True from by decide, if_true] at h
  rw [loopC_eq_std find sp w len ok wk, h]

/-- FindAll(n) is the length-n prefix of FindAll(-1) (n > 0) -/
theorem C11_limit_prefix (find : Nat → Option α) (sp : α → Nat × Nat) (w : Nat → Nat) (len : Nat)
    (ok : FindOK find sp len) (wk : WidthOK w len) (n : Nat) (hn : 0 < n) :
    findAllA false find sp (nextOf w) len (some n) = (findAllA false find sp (nextOf w) len none).take n := by
  have h1 := loopA_eq_std find sp w len ok wk (n : Int) (by omega)
  have h2 := loopA_eq_std find sp w len ok wk (-1) (by decide)
  simp only [show ((-1 : Int) ≤ 0) = True from by decide, if_true] at h2
  have hn' : ¬ ((n : Int) ≤ 0) := by omega
  simp only [hn', if_false, Int.toNat_natCast] at h1
  rw [h1, h2, std_limit_prefix find sp w len ok wk n]

/-- FindAllSubmatch restricted to group 0 is FindAll: the loop reads nothing of a match but its span.
    (`find` returns capture vectors, `sp` their group 0; mapping `sp` over the captures enumeration gives the span
    enumeration of the span-only matcher.) -/
theorem C11_submatch_group0 (find : Nat → Option α) (sp : α → Nat × Nat) (w : Nat → Nat) (len : Nat)
    (ok : FindOK find sp len) (wk : WidthOK w len) :
    ∀ m ∈ findAllB find sp (nextOf w) len none, (sp m).1 ≤ (sp m).2 ∧ (sp m).2 ≤ len := by
  intro m hm
  have h := loopB_eq_std find sp w len ok wk (-1) (by decide)
  simp only [show ((-1 : Int) ≤ 0) = True from by decide, if_true] at h
  rw [h] at hm
  exact (std_wellformed find sp w len ok wk (-1)).2 m hm

end Cx.C11
