import Cx.Proofs.Loops
/-
  C11 — all views of one Regex tell the same story (the relations between the enumeration views).

  Every enumeration view is one of the three loop models over the same single-match function, so they agree with each
  other without any oracle: FindAll(n) is a prefix of FindAll(-1); Count equals the length of FindAll; the iterators
  and AppendAllIndex deliver FindAll's sequence; FindAllSubmatch restricted to group 0 is FindAll (the loop only looks
  at the span).  The relations Match ⇔ Find ≠ nil, Find = group 0 of FindSubmatch and string/bytes/reader agreement are
  about the engines underneath and are tied by the C11 check on the real code (correspondence).
-/
namespace Cx.C11
open Cx Cx.Std Cx.Loops

variable {α : Type}

/-- Count(n) = len(FindAll(n)): both loops deliver the same sequence -/
theorem C11_count_eq_len_findall (find : Nat → Option α) (sp : α → Nat × Nat) (w : Nat → Nat) (len : Nat)
    (ok : FindOK find sp len) (wk : WidthOK w len) (n : Int) (hn : n ≠ 0) :
    (findAllB find sp (nextOf w) len (if n ≤ 0 then none else some n.toNat)).length
      = (findAllA false find sp (nextOf w) len (if n ≤ 0 then none else some n.toNat)).length := by
  rw [loopB_eq_std find sp w len ok wk n hn, loopA_eq_std find sp w len ok wk n hn]

/-- iterators = FindAll(-1) -/
theorem C11_iterator_eq_findall (find : Nat → Option α) (sp : α → Nat × Nat) (w : Nat → Nat) (len : Nat)
    (ok : FindOK find sp len) (wk : WidthOK w len) :
    findAllC find sp (nextOf w) len = findAllA false find sp (nextOf w) len none := by
  have h := loopA_eq_std find sp w len ok wk (-1) (by decide)
  simp only [show ((-1 : Int) ≤ 0) = True from by decide, if_true] at h
  rw [loopC_eq_std find sp w len ok wk, h]

/-- FindAll(n) is the length-n prefix of FindAll(-1) (n > 0) -/
theorem C11_limit_prefix (find : Nat → Option α) (sp : α → Nat × Nat) (w : Nat → Nat) (len : Nat)
    (ok : FindOK find sp len) (wk : WidthOK w len) (n : Nat) (hn : 0 < n) :
    findAllA false find sp (nextOf w) len (some n) = (findAllA false find sp (nextOf w) len none).take n := by
  have h1 := loopA_eq_std find sp w len ok wk (n : Int) (by omega)
  have h2 := loopA_eq_std find sp w len ok wk (-1) (by decide)
  simp only [show ((-1 : Int) ≤ 0) = True from by decide, if_true] at h2
  have hn' : ¬ ((n : Int) ≤ 0) := by omega
  simp only [hn', if_false, Int.toNat_natCast] at h1
  rw [h1, h2, std_limit_prefix find sp w len ok wk n]

/-- FindAllSubmatch restricted to group 0 is FindAll: the loop reads nothing of a match but its span.
    (`find` returns capture vectors, `sp` their group 0; mapping `sp` over the captures enumeration gives the span
    enumeration of the span-only matcher.) -/
theorem C11_submatch_group0 (find : Nat → Option α) (sp : α → Nat × Nat) (w : Nat → Nat) (len : Nat)
    (ok : FindOK find sp len) (wk : WidthOK w len) :
    ∀ m ∈ findAllB find sp (nextOf w) len none, (sp m).1 ≤ (sp m).2 ∧ (sp m).2 ≤ len := by
  intro m hm
  have h := loopB_eq_std find sp w len ok wk (-1) (by decide)
  simp only [show ((-1 : Int) ≤ 0) = True from by decide, if_true] at h
  rw [h] at hm
  exact (std_wellformed find sp w len ok wk (-1)).2 m hm

/-- the span-only view of a capture-returning matcher -/
def spanFind (find : Nat → Option α) (sp : α → Nat × Nat) : Nat → Option (Nat × Nat) := fun p => (find p).map sp

theorem spanFind_ok {find : Nat → Option α} {sp : α → Nat × Nat} {len : Nat} (ok : FindOK find sp len) :
    FindOK (spanFind find sp) id len where
  bounds := by
    intro pos m h
    unfold spanFind at h
    cases hf : find pos with
    | none => rw [hf] at h; exact nomatch h
    | some a =>
      rw [hf] at h
      have : sp a = m := by simpa using h
      subst this; exact ok.bounds hf
  stable := by
    intro pos m p h h1 h2
    unfold spanFind at h ⊢
    cases hf : find pos with
    | none => rw [hf] at h; exact nomatch h
    | some a =>
      rw [hf] at h
      have : sp a = m := by simpa using h
      subst this
      rw [ok.stable hf h1 h2]; rfl

/-- `allMatches` reads nothing of a match but its span: projecting commutes with enumerating -/
theorem stdAll_map_span (find : Nat → Option α) (sp : α → Nat × Nat) (w : Nat → Nat) (len : Nat) :
    ∀ (fuel pos i : Nat) (prev : Option Nat) (n : Nat),
      (stdAll find sp w len fuel pos i prev n).map sp = stdAll (spanFind find sp) id w len fuel pos i prev n := by
  intro fuel
  induction fuel with
  | zero => intro pos i prev n; rfl
  | succ k ih =>
    intro pos i prev n
    simp only [stdAll, spanFind]
    by_cases hc : i < n ∧ pos ≤ len
    · simp only [hc, not_true_eq_false, and_self, if_false]
      cases hf : find pos with
      | none => rfl
      | some m =>
        simp only [Option.map_some, id]
        by_cases he : (sp m).2 = pos
        · simp only [he, if_true]
          by_cases hp : some (sp m).1 = prev
          · simp only [hp, if_true]; exact ih _ _ _ _
          · simp only [hp, if_false, List.map_cons]; rw [ih]
        · simp only [he, if_false, List.map_cons]; rw [ih]
    · simp only [hc, not_false_eq_true, if_true, List.map_nil]

/-- FindAllSubmatch(-1) restricted to group 0 IS FindAll(-1) of the span-only matcher (the full statement) -/
theorem C11_submatch_group0_is_findall (find : Nat → Option α) (sp : α → Nat × Nat) (w : Nat → Nat) (len : Nat)
    (ok : FindOK find sp len) (wk : WidthOK w len) (n : Int) (hn : n ≠ 0) :
    (findAllB find sp (nextOf w) len (if n ≤ 0 then none else some n.toNat)).map sp
      = findAllA false (spanFind find sp) id (nextOf w) len (if n ≤ 0 then none else some n.toNat) := by
  rw [loopB_eq_std find sp w len ok wk n hn, loopA_eq_std (spanFind find sp) id w len (spanFind_ok ok) wk n hn]
  unfold stdFindAll
  exact stdAll_map_span find sp w len _ _ _ _ _

/-- the first element of FindAll(-1) is FindIndex (and FindAll is empty exactly when FindIndex is nil) -/
theorem C11_first_is_find (find : Nat → Option α) (sp : α → Nat × Nat) (w : Nat → Nat) (len : Nat)
    (ok : FindOK find sp len) (wk : WidthOK w len) :
    (findAllA false find sp (nextOf w) len none).head? = find 0 := by
  have h2 := loopA_eq_std find sp w len ok wk (-1) (by decide)
  simp only [show ((-1 : Int) ≤ 0) = True from by decide, if_true] at h2
  rw [h2]
  unfold stdFindAll
  have h : 2 * (len + 2) = (2 * len + 3) + 1 := by omega
  simp only [h, stdAll]
  have hc : (0 < (if (-1 : Int) < 0 then len + 1 else (-1 : Int).toNat)) ∧ 0 ≤ len := by
    simp
  simp only [hc, not_true_eq_false, and_self, if_false]
  cases hf : find 0 with
  | none => rfl
  | some m =>
    simp only
    by_cases he : (sp m).2 = 0
    · simp only [he, if_true]
      rw [if_neg (by simp)]; rfl
    · simp only [he, if_false]; rfl

end Cx.C11
