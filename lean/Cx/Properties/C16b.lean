import Cx.Properties.C16
import Cx.Proofs.MetaFind2
/-
  C16 (continued) — `prefilter.AhoCorasickPrefilter` (prefilter/ahocorasick.go, HEAD 21d622b) never skips a match.

  C16.lean left Aho-Corasick ("external library") to the exhaustive correspondence of the C16 check.  With the model of
  `(p *AhoCorasickPrefilter) Find` (`MetaFind2.ahoPrefilterFind`) the property is now a THEOREM relative to what the library's
  automaton actually does: `Automaton.Find` reports the occurrence of a literal that ENDS first (`MetaFind2.EndsFirstOK`),
  `Automaton.FindAt(h, p)` answers iff some literal starts exactly at `p` (`MetaFind2.AnchOccOK`, needed for nested sets only),
  `p.nested` / `p.maxLen` describe the literal list (`MetaFind2.AcSetOK`, decidable: `MetaFind2.acSetOK_compile`), no literal is
  empty.  The code as of a92eaaa returned `m.Start` of the ends-first occurrence and DID skip
  (`MetaFind2.cex_acpf_direct_skips`: {rdqs1b, dqs} on "xrdqs1b": candidate 2, the match starts at 1).
-/
namespace Cx.C16
open Cx

/-- **`AhoCorasickPrefilter.Find(h, a)` = the LEAST start `≥ a` of an occurrence of a literal of the set**; `none` = no literal
    occurs at or after `a` -/
theorem C16_ahoCorasick_prefilter_find_least {find findAt : Bytes → Nat → Option MetaFind.Span} {lits : List Bytes} {h : Bytes}
    {nested : Bool} {maxLen : Nat} (S : MetaFind2.AcSetOK lits nested maxLen) (E : MetaFind2.EndsFirstOK (find h) lits h)
    (A : nested = true → MetaFind2.AnchOccOK (findAt h) lits h) (hne : ∀ l, l ∈ lits → 0 < l.size) (a : Nat) :
    (∀ p, MetaFind2.ahoPrefilterFind find findAt nested maxLen h a = some p →
        a ≤ p ∧ p < h.size ∧ (∃ e, MetaFind2.LitOcc lits h p e) ∧ ∀ s e, a ≤ s → s < p → ¬ MetaFind2.LitOcc lits h s e) ∧
    (MetaFind2.ahoPrefilterFind find findAt nested maxLen h a = none → ∀ s e, a ≤ s → ¬ MetaFind2.LitOcc lits h s e) :=
  ⟨fun _ hf => MetaFind2.ahoPrefilterFind_some S E A hne hf, fun hf => MetaFind2.ahoPrefilterFind_none E hne hf⟩

/-- **the Aho-Corasick prefilter never skips a match**: `PfOK` — the hypothesis the strategy theorems of C02 make about
    `prefilter.Find` — is DISCHARGED for this prefilter: if the engine's prefilter is `AhoCorasickPrefilter.Find` over an ends-first
    automaton and every match starts with an occurrence of a literal of the set (`hmt`; for a complete prefilter the matches ARE
    the occurrences), no match starts before the candidate, and "no candidate" means "no match". -/
theorem C16_ahoCorasick_prefilter_never_skips {O : MetaFind.Oracles} {Mt : Bytes → Nat → Nat → Prop}
    {find findAt : Bytes → Nat → Option MetaFind.Span} {lits : List Bytes} {h : Bytes} {nested : Bool} {maxLen : Nat}
    (hpf : ∀ a, O.pfFind h a = MetaFind2.ahoPrefilterFind find findAt nested maxLen h a)
    (S : MetaFind2.AcSetOK lits nested maxLen) (E : MetaFind2.EndsFirstOK (find h) lits h)
    (A : nested = true → MetaFind2.AnchOccOK (findAt h) lits h) (hne : ∀ l, l ∈ lits → 0 < l.size)
    (hmt : ∀ s e, Mt h s e → ∃ e', MetaFind2.LitOcc lits h s e') : MetaFind.PfOK O Mt h where
  pf_some := by
    intro a p _ hf
    rw [hpf a] at hf
    obtain ⟨h1, h2, _, h4⟩ := MetaFind2.ahoPrefilterFind_some S E A hne hf
    refine ⟨h1, h2, ?_⟩
    intro s e g1 g2 hm
    obtain ⟨e', ho⟩ := hmt s e hm
    exact h4 s e' g1 g2 ho
  pf_none := by
    intro a _ hf s e g1 _ hm
    rw [hpf a] at hf
    obtain ⟨e', ho⟩ := hmt s e hm
    exact MetaFind2.ahoPrefilterFind_none E hne hf s e' g1 ho

/-- non-vacuity / closed form: over the brute-force ends-first automaton and the brute-force anchored match, for EVERY list of
    non-empty literals and EVERY haystack, the prefilter answers the start of the leftmost-first reference `refLit` -/
theorem C16_ahoCorasick_prefilter_closed (lits : List Bytes) (hne : ∀ l, l ∈ lits → 0 < l.size) (h : Bytes) (a : Nat) :
    MetaFind2.ahoPrefilterFind (MetaFind2.endsFirst lits) (fun h p => if MetaFind2.anyLitAt lits h p then some (p, p) else none)
      (MetaFind2.hasNestedLiteral lits) (MetaFind2.litMaxLen lits) h a = (MetaFind2.refLit lits h a).map (·.1) := by
  have S := MetaFind2.acSetOK_compile lits
  have E := MetaFind2.endsFirst_ok lits h
  have A : MetaFind2.hasNestedLiteral lits = true →
      MetaFind2.AnchOccOK ((fun h p => if MetaFind2.anyLitAt lits h p then some (p, p) else none) h) lits h :=
    fun _ => MetaFind2.anchOcc_ok lits h
  cases hf : MetaFind2.ahoPrefilterFind (MetaFind2.endsFirst lits)
      (fun h p => if MetaFind2.anyLitAt lits h p then some (p, p) else none)
      (MetaFind2.hasNestedLiteral lits) (MetaFind2.litMaxLen lits) h a with
  | none =>
    have hno := MetaFind2.ahoPrefilterFind_none E hne hf
    cases hr : MetaFind2.refLit lits h a with
    | none => rfl
    | some se =>
      obtain ⟨h1, _, h3, _⟩ := MetaFind2.refLit_some (s := se.1) (e := se.2) hr
      exact absurd h3 (hno se.1 se.2 h1)
  | some p =>
    obtain ⟨h1, _, ⟨e, h3⟩, h4⟩ := MetaFind2.ahoPrefilterFind_some S E A hne hf
    cases hr : MetaFind2.refLit lits h a with
    | none => exact absurd h3 (MetaFind2.refLit_none hr p e h1)
    | some se =>
      obtain ⟨k1, _, k3, k4⟩ := MetaFind2.refLit_some (s := se.1) (e := se.2) hr
      have a1 : ¬ se.1 < p := fun hlt => h4 se.1 se.2 k1 hlt k3
      have a2 : ¬ p < se.1 := fun hlt => k4 p e h1 hlt h3
      simp only [Option.map_some, Option.some.injEq]
      omega

end Cx.C16
