import Cx.Proofs.Loops
import Cx.Proofs.Expand
/-
  C08 — Replace, Expand and Split produce stdlib's output.

  * the five Replace* loops of regex.go (one model, `Cx.Loops.replaceAll`) equal `regexp.replaceAll` for every
    well-behaved single-match function, every source text and every replacement function;
  * the ported template expansion equals `regexp.expand` for every template, source, match vector and name list;
  * the ported Split equals `regexp.Split` for every n.
  The full-strength replace statement (without `RuneAligned`) is FALSE and its refutation is kept: when a match ends
  strictly inside the code point at the search position, regexp resumes after the code point and coregex at the
  match end.  `RuneAligned` is checked by the harness on every recorded match table.
-/
namespace Cx.C08
open Cx Cx.Std Cx.Loops Cx.Model

variable {α : Type}

/-- ReplaceAll / ReplaceAllString / ReplaceAllLiteral / ReplaceAllLiteralString / ReplaceAllFunc / ReplaceAllStringFunc -/
theorem C08_replace_partial (find : Nat → Option α) (sp : α → Nat × Nat) (w : Nat → Nat) (src : List Nat)
    (repl : α → List Nat) (ok : FindOK find sp src.length) (wk : WidthOK w src.length)
    (al : RuneAligned find sp w) :
    replaceAll find sp (nextOf w) src repl = stdReplaceAll find sp w src repl :=
  replace_eq_std_partial find sp w src repl ok wk al

/-- the unrestricted statement does not hold (witness: a match [0,1] ending inside a two-byte code point) -/
theorem C08_replace_needs_alignment :
    ¬ ∀ (find : Nat → Option (Nat × Nat)) (sp : Nat × Nat → Nat × Nat) (w : Nat → Nat) (src : List Nat)
        (repl : Nat × Nat → List Nat), FindOK find sp src.length → WidthOK w src.length →
        replaceAll find sp (nextOf w) src repl = stdReplaceAll find sp w src repl :=
  replace_eq_std_false

/-- Expand / ExpandString and the template step of ReplaceAll: `$name`, `${name}`, `$10`, `$$`, unmatched and
    out-of-range groups — for every template -/
theorem C08_expand (isNameRune : Nat → Bool) (t src : Bytes) (m : List Int) (names : List (List Nat)) :
    cxExpand isNameRune t src m names = stdExpand isNameRune t src m names :=
  cxExpand_eq_std isNameRune t src m names

/-- Split for n < 0, n == 0, n == 1, n > 1 and the empty-input case -/
theorem C08_split (patEmpty : Bool) (s : List Nat) (n : Int) (ms : List (Nat × Nat)) :
    Cx.Loops.split patEmpty s n ms = stdSplit patEmpty s n ms :=
  split_eq_std patEmpty s n ms

/- `${1}x-$10-$$-$na` with src "abcd", match [0,4,1,3], names ["", "na"]: group 1 = "bc", $10 unset, $$ = "$", $na = "bc" -/
example : stdExpand (fun r => (48 ≤ r && r ≤ 57) || (97 ≤ r && r ≤ 122) || r = 95)
    #[36,123,49,125,120,45,36,49,48,45,36,36,45,36,110,97] #[97,98,99,100] [0,4,1,3] [[], [110,97]]
    = [98,99,120,45,45,36,45,98,99] := by decide

end Cx.C08
