import Cx.Proofs.Compile
import Cx.Proofs.Nfa
/-
  C01 — Match decides exactly what regexp decides (the chain that is proved).

  For every AST of the modelled fragment (literals, byte classes, look-around, captures, star/plus/quest/repeat
  greedy and lazy, concatenation, alternation), every haystack:
     backtracker-model(compile-model(re)) says "match"  ⇔  some substring h[i:j] is in the declarative language M re.
  `compile-model` is a transliteration of nfa/compile.go whose output is compared, state by state, with the NFA the
  real compiler produces (C01/C15 ties); the backtracker model is compared with the real engines on dumped NFAs (C14).
  What stays correspondence: M ≈ regexp (validated on exhaustive short inputs), Unicode classes / case folding / dot
  (verified per instance by the C15 checker), and the meta engine's strategy dispatch around the NFA engines
  (end-to-end differential, known findings).  Hence `_partial`.
-/
namespace Cx.C01
open Cx Cx.Nfa Cx.Compile

/-- language-level correctness of "compile, then search" for the whole modelled fragment -/
theorem C01_isMatch_partial {cfg : Config} {re : Regex} {N : NFA} (hc : compileTop cfg re = some N) (hw : Regex.AltOK re)
    (hsz : N.states.size ≤ invalid) (h : Bytes) :
    btIsMatch N h = true ↔ ∃ i j, i ≤ h.size ∧ Regex.M re h i j := by
  constructor
  · intro hm
    obtain ⟨i, j, hi, ha⟩ := btIsMatch_sound N h hm
    exact ⟨i, j, hi, (compile_lang hc hw hsz h i j).mp ha⟩
  · rintro ⟨i, j, hi, hM⟩
    exact btIsMatch_complete N h i j hi ((compile_lang hc hw hsz h i j).mpr hM)

/-- no optimisation on the NFA path can turn a non-match into a match: whatever the backtracker reports is in M -/
theorem C01_no_false_positive {cfg : Config} {re : Regex} {N : NFA} (hc : compileTop cfg re = some N) (hw : Regex.AltOK re)
    (hsz : N.states.size ≤ invalid) (h : Bytes) (at_ s e : Nat) (hr : btSearchAt N h at_ = some (s, e)) :
    Regex.M re h s e :=
  (compile_lang hc hw hsz h s e).mp (btSearchAt_sound N h at_ s e hr).2.2.2

end Cx.C01
