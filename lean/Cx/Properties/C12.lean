import Cx.Model.Config
import Cx.Proofs.Pike
/-
  C12 — optimisation settings never change answers.

  (1) The reference (`Cx.Nfa.btSearchAt`, the priority DFS over the compiled NFA, i.e. "the plain NFA simulation") has no
      configuration parameter at all; every engine model proved equal to it returns the same span whichever of them a
      configuration selects.  `C12_selection_irrelevant` states this for an arbitrary selection function, so it covers
      every configuration value, not an enumeration.
  (2) `Validate` (meta/config.go) is modelled exactly; `validate c = none` is equivalent to the documented bounds, the
      default configuration is valid, and switches that disable a subsystem remove exactly that subsystem's bounds.
  The strategy selector (meta/strategy.go, ~1600 lines of heuristics) is NOT modelled: that each configuration only
  chooses among answer-equivalent strategies is what the C12 correspondence run checks on the real code (12
  configurations x generated patterns x haystacks, against the default and the NFA-only configuration).
-/
namespace Cx.C12
open Cx Cx.Nfa Cx.Config

/-- the engines with a Lean model -/
inductive Engine | backtracker | pikevm
deriving DecidableEq, Repr

def run (e : Engine) (N : NFA) (h : Bytes) (at_ : Nat) : Option (Nat × Nat) :=
  match e with
  | .backtracker => btSearchAt N h at_
  | .pikevm => Pike.searchAt N h at_ false

/-- whatever engine a configuration selects (any function of configuration, automaton and input), the answer is the
    configuration-free reference -/
theorem C12_selection_irrelevant {N : NFA} {h : Bytes} (hna : Pike.anchored N = false) (hd : Pike.SparseDisjoint N)
    (hR : Pike.RuneOK N h) {at_ : Nat} (hat : at_ ≤ h.size) (select : Config → NFA → Bytes → Engine) (c : Config) :
    run (select c N h) N h at_ = btSearchAt N h at_ := by
  cases hs : select c N h with
  | backtracker => rfl
  | pikevm => exact Pike.search_eq_bt hna hd hR hat

/-- two configurations always agree with each other -/
theorem C12_configs_agree {N : NFA} {h : Bytes} (hna : Pike.anchored N = false) (hd : Pike.SparseDisjoint N)
    (hR : Pike.RuneOK N h) {at_ : Nat} (hat : at_ ≤ h.size) (select : Config → NFA → Bytes → Engine) (c₁ c₂ : Config) :
    run (select c₁ N h) N h at_ = run (select c₂ N h) N h at_ := by
  rw [C12_selection_irrelevant hna hd hR hat select c₁, C12_selection_irrelevant hna hd hR hat select c₂]

/-- `Validate` accepts exactly the documented ranges (the ranges of a disabled subsystem are not checked) -/
theorem C12_validate_iff (c : Config) :
    validate c = none ↔
      ((c.enableDFA = true → 1 ≤ c.maxDFAStates ∧ c.maxDFAStates ≤ 1000000 ∧ 10 ≤ c.determinizationLimit ∧ c.determinizationLimit ≤ 100000) ∧
       (c.enablePrefilter = true → 1 ≤ c.minLiteralLen ∧ c.minLiteralLen ≤ 64 ∧ 1 ≤ c.maxLiterals ∧ c.maxLiterals ≤ 1000) ∧
       10 ≤ c.maxRecursionDepth ∧ c.maxRecursionDepth ≤ 1000) := by
  unfold validate
  cases hd : c.enableDFA <;> cases hp : c.enablePrefilter <;> simp <;> (repeat' split) <;> simp_all <;> omega

theorem C12_default_valid : validate Config.default = none := by decide

/-- the configurations the check enumerates by switching subsystems off stay valid -/
theorem C12_switch_off_valid (c : Config) (hv : validate c = none) :
    validate { c with enableDFA := false } = none ∧ validate { c with enablePrefilter := false } = none ∧
    validate { c with enableASCIIOptimization := false } = none := by
  rw [C12_validate_iff] at hv
  refine ⟨?_, ?_, ?_⟩ <;> rw [C12_validate_iff] <;> simp_all

/- non-vacuity: invalid values are rejected with the first offending field, in the order of the Go code -/
example : validate { Config.default with maxDFAStates := 0 } = some "MaxDFAStates" := by decide
example : validate { Config.default with maxDFAStates := 0, enableDFA := false } = none := by decide
example : validate { Config.default with maxLiterals := 1001, maxRecursionDepth := 5 } = some "MaxLiterals" := by decide

end Cx.C12
