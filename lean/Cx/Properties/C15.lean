import Cx.Proofs.Utf8
import Cx.Proofs.Nfa
import Cx.Proofs.Utf8Range
import Cx.Proofs.Utf8RangeNfa
import Cx.Proofs.NfaSpan
import Cx.Proofs.ClassCheck
/-
  C15 — compiled byte automata recognise exactly the UTF-8 of the intended runes.

  The per-class verdict is computed by a verified checker run by cxdrv on the NFA dumped from the code: for EVERY
  code point r it decides `Accepts N (encode r) 0 |encode r|` with `Cx.Nfa.accWhole` (proved: `accWhole_iff`) and compares with membership
  in the class's rune ranges, and for every ill-formed string of ≤ 3 bytes over boundary bytes it compares with Go's
  rule (one invalid byte = U+FFFD, width 1).  The theorems below are what makes that enumeration a complete case
  analysis: decoding inverts encoding for all scalar values, a decode step consumes either the encoding of the rune
  it reports or a single byte, and never leaves the input.
-/
namespace Cx.C15
open Cx Cx.Utf8

theorem C15_decode_encode (r : Nat) (hs : isScalar r) (rest : List Nat) :
    decodeAt (ofList (encode r ++ rest)) 0 = (r, (encode r).length) := decode_encode r hs rest

theorem C15_encode_injective (r s : Nat) (hr : isScalar r) (hs : isScalar s) (h : encode r = encode s) : r = s :=
  encode_injective r s hr hs h

theorem C15_decode_is_encoding_or_single_byte (h : Bytes) (i : Nat) (hb : ∀ k, h.at k < 256) (hi : i < h.size) :
    (1 < (decodeAt h i).2 ∧ (List.range (decodeAt h i).2).map (fun k => h.at (i + k)) = encode (decodeAt h i).1) ∨
    ((decodeAt h i).2 = 1 ∧ ((h.at i < 128 ∧ (decodeAt h i).1 = h.at i) ∨ (128 ≤ h.at i ∧ (decodeAt h i).1 = runeError))) := by
  have hp := decode_progress h i hi
  by_cases hw : 1 < (decodeAt h i).2
  · exact Or.inl ⟨hw, decode_wide_is_encoding h i hb hw⟩
  · have h1 : (decodeAt h i).2 = 1 := by omega
    exact Or.inr ⟨h1, decode_width_one h i hi h1⟩

theorem C15_decode_scalar (h : Bytes) (i : Nat) (hb : ∀ k, h.at k < 256) : isScalar (decodeAt h i).1 :=
  decode_scalar h i hb

/-! #### the checker itself (`cxdrv classcheck` = `ClassCheck.classCheck`, Cx/Model/ClassCheck.lean) -/

/-- what the answer `ok` of the per-class checker means, about the path relation of the dumped automaton: for EVERY scalar
    value r of [lo, hi], the whole of `encode r` is accepted from the anchored start ⇔ r is in the class; and when
    128 ≤ hi, every byte string of length 1 and 2 and every length-3 string over the boundary bytes is accepted ⇔ Go's
    DecodeRune consumes it entirely as one rune of the class.  No hypothesis on automaton, ranges or bounds. -/
theorem C15_class_checker_sound (N : Nfa.NFA) (ranges : List (Nat × Nat)) (lo hi : Nat)
    (h : ClassCheck.classCheck N ranges lo hi = "ok") :
    (∀ r, lo ≤ r → r ≤ hi → isScalar r →
      (Nfa.Accepts N (ofList (encode r)) 0 (encode r).length ↔ GoRef.inRanges r ranges = true)) ∧
    (128 ≤ hi →
      (∀ a, a < 256 → (Nfa.Accepts N #[a] 0 1 ↔
        ((decodeAt #[a] 0).2 = 1 ∧ GoRef.inRanges (decodeAt #[a] 0).1 ranges = true))) ∧
      (∀ a b, a < 256 → b < 256 → (Nfa.Accepts N #[a, b] 0 2 ↔
        ((decodeAt #[a, b] 0).2 = 2 ∧ GoRef.inRanges (decodeAt #[a, b] 0).1 ranges = true))) ∧
      (∀ a b c, a ∈ ClassCheck.boundaryBytes → b ∈ ClassCheck.boundaryBytes → c ∈ ClassCheck.boundaryBytes →
        (Nfa.Accepts N #[a, b, c] 0 3 ↔
          ((decodeAt #[a, b, c] 0).2 = 3 ∧ GoRef.inRanges (decodeAt #[a, b, c] 0).1 ranges = true)))) :=
  ClassCheck.classCheck_ok N ranges lo hi h

/-- … and it is exact: `ok` is answered iff both properties hold, so any other answer (`fail:rune:<r>:<acc>` with the FIRST
    differing rune, `fail:bytes:<hex>`) reports a genuine difference (`ClassCheck.classCheck_fail`) -/
theorem C15_class_checker_exact (N : Nfa.NFA) (ranges : List (Nat × Nat)) (lo hi : Nat) :
    ClassCheck.classCheck N ranges lo hi = "ok" ↔
      (ClassCheck.RunesOK N ranges lo hi ∧ (128 ≤ hi → ClassCheck.StringsOK N ranges)) :=
  ClassCheck.classCheck_ok_iff N ranges lo hi

/-- the acceptance test the checker runs on every string decides the path relation -/
theorem C15_class_checker_acceptance (N : Nfa.NFA) (bs : Bytes) : Nfa.accWhole N bs = true ↔ Nfa.Accepts N bs 0 bs.size :=
  Nfa.accWhole_iff N bs


/-! #### the class compiler itself (`nfa/compile.go`: compileCharClass → compileUnicodeClass / compileUnicodeClassLarge →
compileUTF8Range, compileUTF8{1,2,3,4}ByteRange, utf84Split and the continuation-bound helpers), transliterated in
`Cx/Model/Utf8Range.lean` as the list of byte-range sequences it emits.  The check compares, for every class instance, the
sequences along all paths of the NFA the real compiler produced with the model's output LITERALLY (`utf8range nfa`), so the
theorems below then hold for that automaton and EVERY byte string — the quantifier over runes and over ill-formed input is
discharged by proof, no longer by enumeration. -/

/-- one range, NO precondition on lo/hi: exactly the encodings of the scalar values in [lo, hi]
    (no overlong form, no surrogate, nothing above U+10FFFF, whatever the range) -/
theorem C15_utf8_range_exact (lo hi : Nat) (bs : List Nat) :
    Utf8Range.accepts (Utf8Range.compileUTF8Range lo hi) bs = true ↔ ∃ r, lo ≤ r ∧ r ≤ hi ∧ isScalar r ∧ bs = encode r :=
  Utf8Range.compileUTF8Range_exact lo hi bs

/-- a whole class (all three compilation paths): what is accepted, exactly — the encodings of its scalar members, plus the
    one deviation named in the statement (a lone byte ≥ 0x80 when the class contains every non-ASCII rune: deliberate, it
    is how `[^,]` matches an invalid byte as regexp does).  Surrogate members contribute nothing on any path (the
    small-class path skips them since b9d1f3d, `C15_small_class_surrogate_fixed`). -/
theorem C15_class_language (ranges : List (Nat × Nat)) (hwf : Utf8Range.wfRanges ranges = true) (bs : List Nat) :
    Utf8Range.accepts (Utf8Range.classSeqs ranges) bs = true ↔
      (∃ r, Utf8Range.inR r ranges ∧ isScalar r ∧ bs = encode r) ∨
      (Utf8Range.usesLarge ranges = true ∧ Utf8Range.coversAllNonASCII (Utf8Range.nonAsciiPart ranges) = true ∧
        ∃ b, 0x80 ≤ b ∧ b ≤ 0xFF ∧ bs = [b]) :=
  Utf8Range.classSeqs_exact ranges hwf bs

/-- on classes where the deviation does not apply (decidable `exactClass` = well-formed and not the any-non-ASCII shortcut,
    evaluated per instance): exactly the UTF-8 of the members -/
theorem C15_class_exact (ranges : List (Nat × Nat)) (h : Utf8Range.exactClass ranges = true) (bs : List Nat) :
    Utf8Range.accepts (Utf8Range.classSeqs ranges) bs = true ↔ ∃ r, isScalar r ∧ Utf8Range.inR r ranges ∧ bs = encode r :=
  Utf8Range.classSeqs_exact_of_exactClass ranges h bs

/-- transfer to the automaton dumped from the real compiler: if its paths are literally the model's sequences, then for
    every haystack the anchored whole-input acceptance is membership of the decoded rune -/
theorem C15_dumped_class_automaton_exact (N : Nfa.NFA) (ranges : List (Nat × Nat)) (hx : Utf8Range.exactClass ranges = true)
    (hp : Utf8Range.pathsOf N = some (Utf8Range.classSeqs ranges)) (h : Bytes) :
    Nfa.Accepts N h 0 h.size ↔ ∃ r, isScalar r ∧ Utf8Range.inR r ranges ∧ h.toList = encode r :=
  Utf8Range.nfa_class_exact_of_exactClass N ranges hx hp h

/-- the former small-class surrogate defect is gone: the class `[\x{D7FF}-\x{D800}]` (2 runes, literal-alternation path)
    rejects the ill-formed bytes ED A0 80 and still accepts U+D7FF = ED 9F BF; the all-surrogate class
    `[\x{D800}-\x{D8FF}]` (256 runes, same path) emits no byte sequence (a Fail state) and accepts nothing;
    confirmed on the real compiler -/
theorem C15_small_class_surrogate_fixed :
    Utf8Range.wfRanges [(0xD7FF, 0xD800)] = true ∧ Utf8Range.usesSmall [(0xD7FF, 0xD800)] = true ∧
    Utf8Range.accepts (Utf8Range.classSeqs [(0xD7FF, 0xD800)]) [0xED, 0xA0, 0x80] = false ∧
    Utf8Range.accepts (Utf8Range.classSeqs [(0xD7FF, 0xD800)]) [0xED, 0x9F, 0xBF] = true ∧
    (¬ ∃ r, isScalar r ∧ [0xED, 0xA0, 0x80] = encode r) ∧
    Utf8Range.usesSmall [(0xD800, 0xD8FF)] = true ∧ Utf8Range.classSeqs [(0xD800, 0xD8FF)] = [] ∧
    ∀ bs, Utf8Range.accepts (Utf8Range.classSeqs [(0xD800, 0xD8FF)]) bs = false := Utf8Range.small_class_surrogate_fixed

/-- a class made of surrogates only accepts nothing, on every compilation path -/
theorem C15_all_surrogate_class_empty (ranges : List (Nat × Nat)) (hwf : Utf8Range.wfRanges ranges = true)
    (hs : ∀ r, Utf8Range.inR r ranges → 0xD800 ≤ r ∧ r ≤ 0xDFFF) (bs : List Nat) :
    Utf8Range.accepts (Utf8Range.classSeqs ranges) bs = false := Utf8Range.all_surrogate_class_empty ranges hwf hs bs

example : decodeAt #[0xE4, 0xB8, 0x96, 0x41] 0 = (0x4E16, 3) := by decide
example : decodeAt #[0xED, 0xA0, 0x80] 0 = (0xFFFD, 1) := by decide   -- surrogate: ill-formed

end Cx.C15
