import Cx.Proofs.Utf8
import Cx.Proofs.Nfa
/-
  C15 — compiled byte automata recognise exactly the UTF-8 of the intended runes.

  The per-class verdict is computed by a verified checker run by cxdrv on the NFA dumped from the code: for EVERY
  code point r it decides `Accepts N (encode r) 0 |encode r|` with `Cx.Nfa.acceptsSpan` and compares with membership
  in the class's rune ranges, and for every ill-formed string of ≤ 3 bytes over boundary bytes it compares with Go's
  rule (one invalid byte = U+FFFD, width 1).  The theorems below are what makes that enumeration a complete case
  analysis: decoding inverts encoding for all scalar values, a decode step consumes either the encoding of the rune
  it reports or a single byte, and never leaves the input.
-/
namespace Cx.C15
open Cx Cx.Utf8

theorem C15_decode_encode (r : Nat) (hs : isScalar r) (rest : List Nat) :
    decodeAt (ofList (encode r ++ rest)) 0 = (r, (encode r).length) := decode_encode r hs rest

theorem C15_encode_injective (r s : Nat) (hr : isScalar r) (hs : isScalar s) (h : encode r = encode s) : r = s :=
  encode_injective r s hr hs h

theorem C15_decode_is_encoding_or_single_byte (h : Bytes) (i : Nat) (hb : ∀ k, h.at k < 256) (hi : i < h.size) :
    (1 < (decodeAt h i).2 ∧ (List.range (decodeAt h i).2).map (fun k => h.at (i + k)) = encode (decodeAt h i).1) ∨
    ((decodeAt h i).2 = 1 ∧ ((h.at i < 128 ∧ (decodeAt h i).1 = h.at i) ∨ (128 ≤ h.at i ∧ (decodeAt h i).1 = runeError))) := by
  have hp := decode_progress h i hi
  by_cases hw : 1 < (decodeAt h i).2
  · exact Or.inl ⟨hw, decode_wide_is_encoding h i hb hw⟩
  · have h1 : (decodeAt h i).2 = 1 := by omega
    exact Or.inr ⟨h1, decode_width_one h i hi h1⟩

theorem C15_decode_scalar (h : Bytes) (i : Nat) (hb : ∀ k, h.at k < 256) : isScalar (decodeAt h i).1 :=
  decode_scalar h i hb

example : decodeAt #[0xE4, 0xB8, 0x96, 0x41] 0 = (0x4E16, 3) := by decide
example : decodeAt #[0xED, 0xA0, 0x80] 0 = (0xFFFD, 1) := by decide   -- surrogate: ill-formed

end Cx.C15
