import Cx.Proofs.MetaFind2
import Cx.Properties.C02
/-
  C02 (continued) — the strategy loops of meta modelled in Cx.Model.MetaFind2 (digit prefilter with its scan budget, Teddy / Aho-Corasick
  strategies, isMatchBoundedBacktracker): property-level statements. Audited together with Cx/Properties/C02.lean.
-/
namespace Cx.C02
open Cx

/-- **UseDigitPrefilter** (`findIndicesDigitPrefilter`, `…At`, `…AtWithState`, `FindIndices` / `FindIndicesAt` /
    `findIndicesAtWithState` dispatched to them; meta/find_indices.go l.975-1150): digit scan, anchored DFA verification at every
    digit, run skip, the candidate budget and the one unanchored search that replaces the loop when it is exhausted — the answer
    is the reference's span from `at`.
    Contracts (`DigitOK`): the digit scan answers the LEAST position `≥ p` holding a digit; every match starts with a digit
    (`isDigitLeadPattern`); the anchored DFA reports the end of the reference match that starts exactly at the digit (whatever
    `stop` it reports); `IsMatchAt` has no false negatives; the Pike VM is the reference; with `digitRunSkipSafe`, a failed scan
    at a digit rules out every later start in the same run of digits.  `NfaOK`: the NFA functions used for `at = len(h)`. -/
theorem C02_digitPrefilter_find_eq_reference {O : MetaFind2.Oracles2} {P : MetaFind2.Params2} {Mt : Bytes → Nat → Nat → Prop}
    {ref : Bytes → Nat → Option MetaFind.Span} {h : Bytes} {at_ : Nat} (hat : at_ ≤ h.size)
    (hd : P.hasDigitPrefilter = true → MetaFind2.DigitOK O P Mt ref h)
    (hn : P.hasDigitPrefilter = false ∨ at_ = h.size → MetaFind2.NfaOK O P Mt ref h) :
    MetaFind2.findIndicesDigitPrefilter O P h = ref h 0 ∧
    MetaFind2.findIndicesDigitPrefilterAt O P h at_ = ref h at_ ∧
    MetaFind2.findIndicesDigitPrefilterAtWithState O P h at_ = ref h at_ :=
  ⟨MetaFind2.findIndicesDigitPrefilter_eq_ref hd (fun g => hn (Or.inl g)),
   MetaFind2.findIndicesDigitPrefilterAt_eq_ref hd hn hat,
   MetaFind2.findIndicesDigitPrefilterAtWithState_eq_ref hd hn hat⟩

/-- the `Find` / `FindAt` twins of find.go (`findDigitPrefilter`, `findDigitPrefilterAt`, `findFromFirstDigit`): one unanchored
    search from the first digit (`hfa`: `dfa.FindAt` has no false negatives) -/
theorem C02_digitPrefilter_findAt_eq_reference {O : MetaFind2.Oracles2} {P : MetaFind2.Params2} {Mt : Bytes → Nat → Nat → Prop}
    {ref : Bytes → Nat → Option MetaFind.Span} {h : Bytes} {at_ : Nat} (hat : at_ ≤ h.size)
    (hd : P.hasDigitPrefilter = true → MetaFind2.DigitOK O P Mt ref h)
    (hfa : P.hasDFA = true → ∀ a, a ≤ h.size → (ref h a).isSome = true → (O.fwdFindAt h a).isSome = true)
    (K : MetaFind.PikeOK O.toOracles ref h) :
    MetaFind2.findDigitPrefilter O P h = ref h 0 ∧ MetaFind2.findDigitPrefilterAt O P h at_ = ref h at_ :=
  ⟨MetaFind2.findDigitPrefilter_eq_ref hd hfa K, MetaFind2.findDigitPrefilterAt_eq_ref hd hfa K hat⟩

/-- **UseTeddy** (`findIndicesTeddy`, `findIndicesTeddyAt`; meta/find_indices.go l.901-956): the complete multi-literal
    prefilter's `FindMatch` answer is returned as it is — so `FindMatch` must BE the reference search (`TeddyOK.fm` =
    `PfMatchOK`: leftmost occurrence, among the literals occurring there the first in pattern order); without `FindMatch`:
    `Find` never skips (`PfOK`) and a uniform `LiteralLen()` makes the candidate the match (`PfCompleteOK`), else the NFA
    functions decide from the candidate (`NfaOK`, also used without a prefilter and for `at = len(h)`). -/
theorem C02_teddy_find_eq_reference {O : MetaFind2.Oracles2} {P : MetaFind2.Params2} {Mt : Bytes → Nat → Nat → Prop}
    {ref : Bytes → Nat → Option MetaFind.Span} {h : Bytes} {at_ : Nat} (hat : at_ ≤ h.size)
    (ht : P.hasPrefilter = true → MetaFind2.TeddyOK O P Mt ref h)
    (hn : P.hasPrefilter = false ∨ at_ = h.size ∨ (P.pfHasFindMatch = false ∧ P.literalLen = 0) →
      MetaFind2.NfaOK O P Mt ref h) :
    MetaFind2.findIndicesTeddy O P h = ref h 0 ∧ MetaFind2.findIndicesTeddyAt O P h at_ = ref h at_ :=
  ⟨MetaFind2.findIndicesTeddy_eq_ref ht (fun g => hn (g.elim Or.inl (fun g' => Or.inr (Or.inr g')))),
   MetaFind2.findIndicesTeddyAt_eq_ref ht hn hat⟩

/-- the `Find` / `FindAt` twins of find.go (`findTeddy`, `findTeddyAt`) with the Fat Teddy small-haystack fallback: the
    Aho-Corasick fallback automaton's `Find` (at 0) resp. `FindAt` (at `at`) must be the reference SEARCH — the dependency's
    `FindAt` is an anchored match (`MetaFind2.cex_fat_findAt_anchored`, reproduced on the real `Engine.FindAt`) -/
theorem C02_teddy_findAt_eq_reference_under_contract {O : MetaFind2.Oracles2} {P : MetaFind2.Params2}
    {Mt : Bytes → Nat → Nat → Prop} {ref : Bytes → Nat → Option MetaFind.Span} {h : Bytes} {at_ : Nat} (hat : at_ ≤ h.size)
    (ht : P.hasPrefilter = true → MetaFind2.TeddyOK O P Mt ref h) (K : MetaFind.PikeOK O.toOracles ref h)
    (hfat0 : MetaFind2.useFatFallback P h = true → O.fatFind h 0 = ref h 0)
    (hfat : MetaFind2.useFatFallback P h = true → O.fatFindAt h at_ = ref h at_) :
    MetaFind2.findTeddy O P h = ref h 0 ∧ MetaFind2.findTeddyAt O P h at_ = ref h at_ :=
  ⟨MetaFind2.findTeddy_eq_ref ht K hfat0, MetaFind2.findTeddyAt_eq_ref ht K hfat hat⟩

/-- **UseAhoCorasick** (`findIndicesAhoCorasick`, `…At`; meta/find_indices.go l.1153-1178; `findAhoCorasick(At)` of find.go):
    the automaton's `Find` answer is returned as it is — correct UNDER THE CONTRACT `AhoOK`: `Find(h, a)` is the reference
    search (leftmost occurrence, first alternative).  The contract is necessary (`MetaFind2.cex_aho_ends_first`: literals
    {rdqs1b, dqs} on "rdqs1b") and github.com/coregx/ahocorasick v0.3.0 does NOT meet it: its `Find` reports the occurrence
    that ENDS first. -/
theorem C02_ahoCorasick_find_eq_reference_under_contract {O : MetaFind2.Oracles2} {P : MetaFind2.Params2}
    {Mt : Bytes → Nat → Nat → Prop} {ref : Bytes → Nat → Option MetaFind.Span} {h : Bytes} {at_ : Nat} (hat : at_ ≤ h.size)
    (ha : P.hasAho = true → MetaFind2.AhoOK O ref h)
    (hn : P.hasAho = false ∨ at_ = h.size → MetaFind2.NfaOK O P Mt ref h) :
    MetaFind2.findIndicesAhoCorasick O P h = ref h 0 ∧ MetaFind2.findIndicesAhoCorasickAt O P h at_ = ref h at_ :=
  ⟨MetaFind2.findIndicesAhoCorasick_eq_ref ha (fun g => hn (Or.inl g)), MetaFind2.findIndicesAhoCorasickAt_eq_ref ha hn hat⟩

/-- the dispatch `FindIndices` / `FindIndicesAt` / `findIndicesAtWithState` for the three strategies, including the
    always-anchored early exit and the leftmost-longest routing of `searchStrategy()` (engine.go l.266-277: the NFA functions
    search; `ref` then is the leftmost-longest reference and only `NfaOK` is needed) -/
theorem C02_metaFind2_dispatch_eq_reference {O : MetaFind2.Oracles2} {P : MetaFind2.Params2} {Mt : Bytes → Nat → Nat → Prop}
    {ref : Bytes → Nat → Option MetaFind.Span} {h : Bytes} (st : MetaFind2.Strategy2) {at_ : Nat} (hat : at_ ≤ h.size)
    (R : MetaFind.RefOK Mt ref h) (hanch : P.alwaysAnchored = true → ∀ s e, s ≤ h.size → Mt h s e → s = 0)
    (hl : P.longest = true → MetaFind2.NfaOK O P Mt ref h)
    (h0 : P.longest = false → MetaFind2.StratOK O P Mt ref h 0 st)
    (hs : P.longest = false → MetaFind2.StratOK O P Mt ref h at_ st) :
    MetaFind2.findIndices O P st h = ref h 0 ∧ MetaFind2.findIndicesAt O P st h at_ = ref h at_ ∧
    MetaFind2.findIndicesAtWithState O P st h at_ = ref h at_ :=
  ⟨MetaFind2.findIndices_eq_ref st hl h0, MetaFind2.findIndicesAt_eq_ref st hat R hanch hl hs,
   MetaFind2.findIndicesAtWithState_eq_ref st hat R hanch hl hs⟩

end Cx.C02
