import Cx.Proofs.MetaFind2
import Cx.Properties.C02
/-
  C02 (continued) — the strategy loops of meta modelled in Cx.Model.MetaFind2 (digit prefilter with its scan budget, Teddy / Aho-Corasick
  strategies, isMatchBoundedBacktracker): property-level statements. Audited together with Cx/Properties/C02.lean.
-/
namespace Cx.C02
open Cx

/-- **UseDigitPrefilter** (`findIndicesDigitPrefilter`, `…At`, `…AtWithState`, `FindIndices` / `FindIndicesAt` /
    `findIndicesAtWithState` dispatched to them; meta/find_indices.go l.975-1150): digit scan, anchored DFA verification at every
    digit, run skip, the candidate budget and the one unanchored search that replaces the loop when it is exhausted — the answer
    is the reference's span from `at`.
    Contracts (`DigitOK`): the digit scan answers the LEAST position `≥ p` holding a digit; every match starts with a digit
    (`isDigitLeadPattern`); the anchored DFA reports the end of the reference match that starts exactly at the digit (whatever
    `stop` it reports); `IsMatchAt` has no false negatives; the Pike VM is the reference; with `digitRunSkipSafe`, a failed scan
    at a digit rules out every later start in the same run of digits.  `NfaOK`: the NFA functions used for `at = len(h)`. -/
theorem C02_digitPrefilter_find_eq_reference {O : MetaFind2.Oracles2} {P : MetaFind2.Params2} {Mt : Bytes → Nat → Nat → Prop}
    {ref : Bytes → Nat → Option MetaFind.Span} {h : Bytes} {at_ : Nat} (hat : at_ ≤ h.size)
    (hd : P.hasDigitPrefilter = true → MetaFind2.DigitOK O P Mt ref h)
    (hn : P.hasDigitPrefilter = false ∨ at_ = h.size → MetaFind2.NfaOK O P Mt ref h) :
    MetaFind2.findIndicesDigitPrefilter O P h = ref h 0 ∧
    MetaFind2.findIndicesDigitPrefilterAt O P h at_ = ref h at_ ∧
    MetaFind2.findIndicesDigitPrefilterAtWithState O P h at_ = ref h at_ :=
  ⟨MetaFind2.findIndicesDigitPrefilter_eq_ref hd (fun g => hn (Or.inl g)),
   MetaFind2.findIndicesDigitPrefilterAt_eq_ref hd hn hat,
   MetaFind2.findIndicesDigitPrefilterAtWithState_eq_ref hd hn hat⟩

/-- the `Find` / `FindAt` twins of find.go (`findDigitPrefilter`, `findDigitPrefilterAt`, `findFromFirstDigit`): one unanchored
    search from the first digit (`hfa`: `dfa.FindAt` has no false negatives) -/
theorem C02_digitPrefilter_findAt_eq_reference {O : MetaFind2.Oracles2} {P : MetaFind2.Params2} {Mt : Bytes → Nat → Nat → Prop}
    {ref : Bytes → Nat → Option MetaFind.Span} {h : Bytes} {at_ : Nat} (hat : at_ ≤ h.size)
    (hd : P.hasDigitPrefilter = true → MetaFind2.DigitOK O P Mt ref h)
    (hfa : P.hasDFA = true → ∀ a, a ≤ h.size → (ref h a).isSome = true → (O.fwdFindAt h a).isSome = true)
    (K : MetaFind.PikeOK O.toOracles ref h) :
    MetaFind2.findDigitPrefilter O P h = ref h 0 ∧ MetaFind2.findDigitPrefilterAt O P h at_ = ref h at_ :=
  ⟨MetaFind2.findDigitPrefilter_eq_ref hd hfa K, MetaFind2.findDigitPrefilterAt_eq_ref hd hfa K hat⟩

/-- **UseTeddy** (`findIndicesTeddy`, `findIndicesTeddyAt`; meta/find_indices.go l.901-956): the complete multi-literal
    prefilter's `FindMatch` answer is returned as it is — so `FindMatch` must BE the reference search (`TeddyOK.fm` =
    `PfMatchOK`: leftmost occurrence, among the literals occurring there the first in pattern order); without `FindMatch`:
    `Find` never skips (`PfOK`) and a uniform `LiteralLen()` makes the candidate the match (`PfCompleteOK`), else the NFA
    functions decide from the candidate (`NfaOK`, also used without a prefilter and for `at = len(h)`). -/
theorem C02_teddy_find_eq_reference {O : MetaFind2.Oracles2} {P : MetaFind2.Params2} {Mt : Bytes → Nat → Nat → Prop}
    {ref : Bytes → Nat → Option MetaFind.Span} {h : Bytes} {at_ : Nat} (hat : at_ ≤ h.size)
    (ht : P.hasPrefilter = true → MetaFind2.TeddyOK O P Mt ref h)
    (hn : P.hasPrefilter = false ∨ at_ = h.size ∨ (P.pfHasFindMatch = false ∧ P.literalLen = 0) →
      MetaFind2.NfaOK O P Mt ref h) :
    MetaFind2.findIndicesTeddy O P h = ref h 0 ∧ MetaFind2.findIndicesTeddyAt O P h at_ = ref h at_ :=
  ⟨MetaFind2.findIndicesTeddy_eq_ref ht (fun g => hn (g.elim Or.inl (fun g' => Or.inr (Or.inr g')))),
   MetaFind2.findIndicesTeddyAt_eq_ref ht hn hat⟩

/-- the `Find` / `FindAt` twins of find.go (`findTeddy`, `findTeddyAt`) with the Fat Teddy small-haystack fallback
    (HEAD 21d622b): both SEARCH with the Aho-Corasick fallback automaton's `Find` (the anchored `FindAt` of the earlier code was
    wrong: `MetaFind2.cex_fat_findAt_anchored`), and the contract is what the dependency actually does (`FatOK`): the automaton
    reports the occurrence of a literal that ENDS first — exact because compile.go builds the fallback only for literal sets
    in which no literal occurs inside another one (`hasNestedLiteral lits = false`).  (The name keeps its `_under_contract`
    suffix; the contract is now the realistic one.) -/
theorem C02_teddy_findAt_eq_reference_under_contract {O : MetaFind2.Oracles2} {P : MetaFind2.Params2} {lits : List Bytes}
    {Mt : Bytes → Nat → Nat → Prop} {ref : Bytes → Nat → Option MetaFind.Span} {h : Bytes} {at_ : Nat} (hat : at_ ≤ h.size)
    (ht : P.hasPrefilter = true → MetaFind2.TeddyOK O P Mt ref h) (K : MetaFind.PikeOK O.toOracles ref h)
    (hfat : P.hasFatFallback = true → MetaFind2.FatOK O lits Mt h) :
    MetaFind2.findTeddy O P h = ref h 0 ∧ MetaFind2.findTeddyAt O P h at_ = ref h at_ :=
  ⟨MetaFind2.findTeddy_eq_ref ht K hfat, MetaFind2.findTeddyAt_eq_ref ht K hfat hat⟩

/-- **UseAhoCorasick** (`findIndicesAhoCorasick`, `…At`, `ahoCorasickSpan`; meta/find_indices.go l.1153-1196;
    `findAhoCorasick(At)` of find.go) returns the reference's span — UNDER THE REALISTIC CONTRACT `AhoEndsFirstOK` (the name of
    the theorem is kept; the unrealistic `AhoOK` = "`Find` is the reference search" is gone): the automaton of
    github.com/coregx/ahocorasick v0.3.0 reports the occurrence of a literal that ENDS first among those starting at or after
    `at` (`MetaFind2.EndsFirstOK`; which one among those with the same end is immaterial — the real one reports the longest).
    `AhoLitOK` bundles it with: the matches are the occurrences of the literals `lits` (`mt_iff`; `ref` is any reference
    meeting `RefOK`); the engine's `ahoCorasickNested` / `ahoCorasickMaxLen` describe the list (`AcSetOK`: every literal is at most
    `maxLen` long, `nested = false` only if `prefilter.HasNestedLiteral` = `MetaFind2.hasNestedLiteral lits` is false — decidable,
    `MetaFind2.acSetOK_compile`); for nested sets the Pike VM is the reference search.
    Why it holds: without nesting an occurrence that started earlier would contain the reported one and two literals at one start
    would be prefix-related, so ends-first = leftmost-first (`MetaFind2.endsFirst_eq_ref`, `endsFirst_eq_refLit` for the
    executable reference `refLit`); with nesting no occurrence starts before `lo = max(at, end − maxLen)`
    (`MetaFind2.endsFirst_lo`) and the reference restarted at `lo` answers the same (`RefOK.restart`).
    Both the flag and the bound are necessary: `MetaFind2.cex_aho_nested_flag_needed` ({rdqs1b, dqs} on "rdqs1b": the direct
    return answers [1,4), the reference [0,6)), `MetaFind2.cex_aho_maxLen_needed`; the former counter-model is now
    `MetaFind2.cex_aho_ends_first_fixed`. -/
theorem C02_ahoCorasick_find_eq_reference_under_contract {O : MetaFind2.Oracles2} {P : MetaFind2.Params2} {lits : List Bytes}
    {Mt : Bytes → Nat → Nat → Prop} {ref : Bytes → Nat → Option MetaFind.Span} {h : Bytes} {at_ : Nat} (hat : at_ ≤ h.size)
    (ha : P.hasAho = true → MetaFind2.AhoLitOK O P lits Mt ref h)
    (hn : P.hasAho = false ∨ at_ = h.size → MetaFind2.NfaOK O P Mt ref h) :
    MetaFind2.findIndicesAhoCorasick O P h = ref h 0 ∧ MetaFind2.findIndicesAhoCorasickAt O P h at_ = ref h at_ :=
  ⟨MetaFind2.findIndicesAhoCorasick_eq_ref ha (fun g => hn (Or.inl g)), MetaFind2.findIndicesAhoCorasickAt_eq_ref ha hn hat⟩

/-- the `Find` / `FindAt` twins of find.go (`findAhoCorasick`, `findAhoCorasickAt`): the same `ahoCorasickSpan` -/
theorem C02_ahoCorasick_findAt_eq_reference {O : MetaFind2.Oracles2} {P : MetaFind2.Params2} {lits : List Bytes}
    {Mt : Bytes → Nat → Nat → Prop} {ref : Bytes → Nat → Option MetaFind.Span} {h : Bytes} {at_ : Nat} (hat : at_ ≤ h.size)
    (ha : P.hasAho = true → MetaFind2.AhoLitOK O P lits Mt ref h) (K : MetaFind.PikeOK O.toOracles ref h) :
    MetaFind2.findAhoCorasick O P h = ref h 0 ∧ MetaFind2.findAhoCorasickAt O P h at_ = ref h at_ :=
  ⟨MetaFind2.findAhoCorasick_eq_ref ha K, MetaFind2.findAhoCorasickAt_eq_ref ha K hat⟩

/-- **closed**: for EVERY list of literals — nested or not — and EVERY haystack, the UseAhoCorasick functions over the
    brute-force ends-first automaton `MetaFind2.endsFirst` (which meets `EndsFirstOK`: `MetaFind2.endsFirst_ok`), the engine's flags
    computed as compile.go computes them, return the leftmost-first reference of the alternation `MetaFind2.refLit`
    (leftmost start, then the first literal in list order) -/
theorem C02_ahoCorasick_find_eq_refLit_closed (lits : List Bytes) (h : Bytes) {at_ : Nat} (hat : at_ ≤ h.size) :
    let P : MetaFind2.Params2 :=
      { hasAho := true, acNested := MetaFind2.hasNestedLiteral lits, acMaxLen := MetaFind2.litMaxLen lits }
    MetaFind2.findIndicesAhoCorasickAt (MetaFind2.acOracles lits) P h at_ = MetaFind2.refLit lits h at_ ∧
    MetaFind2.findIndicesAhoCorasick (MetaFind2.acOracles lits) P h = MetaFind2.refLit lits h 0 :=
  ⟨(MetaFind2.acOracles_instance lits h hat).1, (MetaFind2.acOracles_instance lits h hat).2.1⟩

/-- the dispatch `FindIndices` / `FindIndicesAt` / `findIndicesAtWithState` for the three strategies, including the
    always-anchored early exit and the leftmost-longest routing of `searchStrategy()` (engine.go l.266-277: the NFA functions
    search; `ref` then is the leftmost-longest reference and only `NfaOK` is needed); `lits`: the literal list of
    the UseAhoCorasick contracts (`AhoLitOK`) -/
theorem C02_metaFind2_dispatch_eq_reference {O : MetaFind2.Oracles2} {P : MetaFind2.Params2} {lits : List Bytes}
    {Mt : Bytes → Nat → Nat → Prop} {ref : Bytes → Nat → Option MetaFind.Span} {h : Bytes} (st : MetaFind2.Strategy2) {at_ : Nat} (hat : at_ ≤ h.size)
    (R : MetaFind.RefOK Mt ref h) (hanch : P.alwaysAnchored = true → ∀ s e, s ≤ h.size → Mt h s e → s = 0)
    (hl : P.longest = true → MetaFind2.NfaOK O P Mt ref h)
    (h0 : P.longest = false → MetaFind2.StratOK O P lits Mt ref h 0 st)
    (hs : P.longest = false → MetaFind2.StratOK O P lits Mt ref h at_ st) :
    MetaFind2.findIndices O P st h = ref h 0 ∧ MetaFind2.findIndicesAt O P st h at_ = ref h at_ ∧
    MetaFind2.findIndicesAtWithState O P st h at_ = ref h at_ :=
  ⟨MetaFind2.findIndices_eq_ref st hl h0, MetaFind2.findIndicesAt_eq_ref st hat R hanch hl hs,
   MetaFind2.findIndicesAtWithState_eq_ref st hat R hanch hl hs⟩

end Cx.C02
