import Cx.Proofs.MetaFind2
import Cx.Proofs.Guards
import Cx.Properties.C02
/-
  C02 (continued) — the strategy loops of meta modelled in Cx.Model.MetaFind2 (digit prefilter with its scan budget, Teddy / Aho-Corasick
  strategies, isMatchBoundedBacktracker): property-level statements. Audited together with Cx/Properties/C02.lean.
-/
namespace Cx.C02
open Cx

/-- **UseDigitPrefilter** (`findIndicesDigitPrefilter`, `…At`, `…AtWithState`, `FindIndices` / `FindIndicesAt` /
    `findIndicesAtWithState` dispatched to them; meta/find_indices.go l.975-1150): digit scan, anchored DFA verification at every
    digit, run skip, the candidate budget and the one unanchored search that replaces the loop when it is exhausted — the answer
    is the reference's span from `at`.
    Contracts (`DigitOK`): the digit scan answers the LEAST position `≥ p` holding a digit; every match starts with a digit
    (`isDigitLeadPattern`); the anchored DFA reports the end of the reference match that starts exactly at the digit (whatever
    `stop` it reports); `IsMatchAt` has no false negatives; the Pike VM is the reference; with `digitRunSkipSafe`, a failed scan
    at a digit rules out every later start in the same run of digits.  `NfaOK`: the NFA functions used for `at = len(h)`. -/
theorem C02_digitPrefilter_find_eq_reference {O : MetaFind2.Oracles2} {P : MetaFind2.Params2} {Mt : Bytes → Nat → Nat → Prop}
    {ref : Bytes → Nat → Option MetaFind.Span} {h : Bytes} {at_ : Nat} (hat : at_ ≤ h.size)
    (hd : P.hasDigitPrefilter = true → MetaFind2.DigitOK O P Mt ref h)
    (hn : P.hasDigitPrefilter = false ∨ at_ = h.size → MetaFind2.NfaOK O P Mt ref h) :
    MetaFind2.findIndicesDigitPrefilter O P h = ref h 0 ∧
    MetaFind2.findIndicesDigitPrefilterAt O P h at_ = ref h at_ ∧
    MetaFind2.findIndicesDigitPrefilterAtWithState O P h at_ = ref h at_ :=
  ⟨MetaFind2.findIndicesDigitPrefilter_eq_ref hd (fun g => hn (Or.inl g)),
   MetaFind2.findIndicesDigitPrefilterAt_eq_ref hd hn hat,
   MetaFind2.findIndicesDigitPrefilterAtWithState_eq_ref hd hn hat⟩

/-- the `Find` / `FindAt` twins of find.go (`findDigitPrefilter`, `findDigitPrefilterAt`, `findFromFirstDigit`): one unanchored
    search from the first digit (`hfa`: `dfa.FindAt` has no false negatives) -/
theorem C02_digitPrefilter_findAt_eq_reference {O : MetaFind2.Oracles2} {P : MetaFind2.Params2} {Mt : Bytes → Nat → Nat → Prop}
    {ref : Bytes → Nat → Option MetaFind.Span} {h : Bytes} {at_ : Nat} (hat : at_ ≤ h.size)
    (hd : P.hasDigitPrefilter = true → MetaFind2.DigitOK O P Mt ref h)
    (hfa : P.hasDFA = true → ∀ a, a ≤ h.size → (ref h a).isSome = true → (O.fwdFindAt h a).isSome = true)
    (K : MetaFind.PikeOK O.toOracles ref h) :
    MetaFind2.findDigitPrefilter O P h = ref h 0 ∧ MetaFind2.findDigitPrefilterAt O P h at_ = ref h at_ :=
  ⟨MetaFind2.findDigitPrefilter_eq_ref hd hfa K, MetaFind2.findDigitPrefilterAt_eq_ref hd hfa K hat⟩

/-- **UseTeddy** (`findIndicesTeddy`, `findIndicesTeddyAt`; meta/find_indices.go l.901-956): the complete multi-literal
    prefilter's `FindMatch` answer is returned as it is — so `FindMatch` must BE the reference search (`TeddyOK.fm` =
    `PfMatchOK`: leftmost occurrence, among the literals occurring there the first in pattern order); without `FindMatch`:
    `Find` never skips (`PfOK`) and a uniform `LiteralLen()` makes the candidate the match (`PfCompleteOK`), else the NFA
    functions decide from the candidate (`NfaOK`, also used without a prefilter and for `at = len(h)`). -/
theorem C02_teddy_find_eq_reference {O : MetaFind2.Oracles2} {P : MetaFind2.Params2} {Mt : Bytes → Nat → Nat → Prop}
    {ref : Bytes → Nat → Option MetaFind.Span} {h : Bytes} {at_ : Nat} (hat : at_ ≤ h.size)
    (ht : P.hasPrefilter = true → MetaFind2.TeddyOK O P Mt ref h)
    (hn : P.hasPrefilter = false ∨ at_ = h.size ∨ (P.pfHasFindMatch = false ∧ P.literalLen = 0) →
      MetaFind2.NfaOK O P Mt ref h) :
    MetaFind2.findIndicesTeddy O P h = ref h 0 ∧ MetaFind2.findIndicesTeddyAt O P h at_ = ref h at_ :=
  ⟨MetaFind2.findIndicesTeddy_eq_ref ht (fun g => hn (g.elim Or.inl (fun g' => Or.inr (Or.inr g')))),
   MetaFind2.findIndicesTeddyAt_eq_ref ht hn hat⟩

/-- the `Find` / `FindAt` twins of find.go (`findTeddy`, `findTeddyAt`) with the Fat Teddy small-haystack fallback
    (HEAD 21d622b): both SEARCH with the Aho-Corasick fallback automaton's `Find` (the anchored `FindAt` of the earlier code was
    wrong: `MetaFind2.cex_fat_findAt_anchored`), and the contract is what the dependency actually does (`FatOK`): the automaton
    reports the occurrence of a literal that ENDS first — exact because compile.go builds the fallback only for literal sets
    in which no literal occurs inside another one (`hasNestedLiteral lits = false`).  (The name keeps its `_under_contract`
    suffix; the contract is now the realistic one.) -/
theorem C02_teddy_findAt_eq_reference_under_contract {O : MetaFind2.Oracles2} {P : MetaFind2.Params2} {lits : List Bytes}
    {Mt : Bytes → Nat → Nat → Prop} {ref : Bytes → Nat → Option MetaFind.Span} {h : Bytes} {at_ : Nat} (hat : at_ ≤ h.size)
    (ht : P.hasPrefilter = true → MetaFind2.TeddyOK O P Mt ref h) (K : MetaFind.PikeOK O.toOracles ref h)
    (hfat : P.hasFatFallback = true → MetaFind2.FatOK O lits Mt h) :
    MetaFind2.findTeddy O P h = ref h 0 ∧ MetaFind2.findTeddyAt O P h at_ = ref h at_ :=
  ⟨MetaFind2.findTeddy_eq_ref ht K hfat, MetaFind2.findTeddyAt_eq_ref ht K hfat hat⟩

/-- **UseAhoCorasick** (`findIndicesAhoCorasick`, `…At`, `ahoCorasickSpan`; meta/find_indices.go l.1153-1196;
    `findAhoCorasick(At)` of find.go) returns the reference's span — UNDER THE REALISTIC CONTRACT `AhoEndsFirstOK` (the name of
    the theorem is kept; the unrealistic `AhoOK` = "`Find` is the reference search" is gone): the automaton of
    github.com/coregx/ahocorasick v0.3.0 reports the occurrence of a literal that ENDS first among those starting at or after
    `at` (`MetaFind2.EndsFirstOK`; which one among those with the same end is immaterial — the real one reports the longest).
    `AhoLitOK` bundles it with: the matches are the occurrences of the literals `lits` (`mt_iff`; `ref` is any reference
    meeting `RefOK`); the engine's `ahoCorasickNested` / `ahoCorasickMaxLen` describe the list (`AcSetOK`: every literal is at most
    `maxLen` long, `nested = false` only if `prefilter.HasNestedLiteral` = `MetaFind2.hasNestedLiteral lits` is false — decidable,
    `MetaFind2.acSetOK_compile`); for nested sets the Pike VM is the reference search.
    Why it holds: without nesting an occurrence that started earlier would contain the reported one and two literals at one start
    would be prefix-related, so ends-first = leftmost-first (`MetaFind2.endsFirst_eq_ref`, `endsFirst_eq_refLit` for the
    executable reference `refLit`); with nesting no occurrence starts before `lo = max(at, end − maxLen)`
    (`MetaFind2.endsFirst_lo`) and the reference restarted at `lo` answers the same (`RefOK.restart`).
    Both the flag and the bound are necessary: `MetaFind2.cex_aho_nested_flag_needed` ({rdqs1b, dqs} on "rdqs1b": the direct
    return answers [1,4), the reference [0,6)), `MetaFind2.cex_aho_maxLen_needed`; the former counter-model is now
    `MetaFind2.cex_aho_ends_first_fixed`. -/
theorem C02_ahoCorasick_find_eq_reference_under_contract {O : MetaFind2.Oracles2} {P : MetaFind2.Params2} {lits : List Bytes}
    {Mt : Bytes → Nat → Nat → Prop} {ref : Bytes → Nat → Option MetaFind.Span} {h : Bytes} {at_ : Nat} (hat : at_ ≤ h.size)
    (ha : P.hasAho = true → MetaFind2.AhoLitOK O P lits Mt ref h)
    (hn : P.hasAho = false ∨ at_ = h.size → MetaFind2.NfaOK O P Mt ref h) :
    MetaFind2.findIndicesAhoCorasick O P h = ref h 0 ∧ MetaFind2.findIndicesAhoCorasickAt O P h at_ = ref h at_ :=
  ⟨MetaFind2.findIndicesAhoCorasick_eq_ref ha (fun g => hn (Or.inl g)), MetaFind2.findIndicesAhoCorasickAt_eq_ref ha hn hat⟩

/-- the `Find` / `FindAt` twins of find.go (`findAhoCorasick`, `findAhoCorasickAt`): the same `ahoCorasickSpan` -/
theorem C02_ahoCorasick_findAt_eq_reference {O : MetaFind2.Oracles2} {P : MetaFind2.Params2} {lits : List Bytes}
    {Mt : Bytes → Nat → Nat → Prop} {ref : Bytes → Nat → Option MetaFind.Span} {h : Bytes} {at_ : Nat} (hat : at_ ≤ h.size)
    (ha : P.hasAho = true → MetaFind2.AhoLitOK O P lits Mt ref h) (K : MetaFind.PikeOK O.toOracles ref h) :
    MetaFind2.findAhoCorasick O P h = ref h 0 ∧ MetaFind2.findAhoCorasickAt O P h at_ = ref h at_ :=
  ⟨MetaFind2.findAhoCorasick_eq_ref ha K, MetaFind2.findAhoCorasickAt_eq_ref ha K hat⟩

/-- **closed**: for EVERY list of literals — nested or not — and EVERY haystack, the UseAhoCorasick functions over the
    brute-force ends-first automaton `MetaFind2.endsFirst` (which meets `EndsFirstOK`: `MetaFind2.endsFirst_ok`), the engine's flags
    computed as compile.go computes them, return the leftmost-first reference of the alternation `MetaFind2.refLit`
    (leftmost start, then the first literal in list order) -/
theorem C02_ahoCorasick_find_eq_refLit_closed (lits : List Bytes) (h : Bytes) {at_ : Nat} (hat : at_ ≤ h.size) :
    let P : MetaFind2.Params2 :=
      { hasAho := true, acNested := MetaFind2.hasNestedLiteral lits, acMaxLen := MetaFind2.litMaxLen lits }
    MetaFind2.findIndicesAhoCorasickAt (MetaFind2.acOracles lits) P h at_ = MetaFind2.refLit lits h at_ ∧
    MetaFind2.findIndicesAhoCorasick (MetaFind2.acOracles lits) P h = MetaFind2.refLit lits h 0 :=
  ⟨(MetaFind2.acOracles_instance lits h hat).1, (MetaFind2.acOracles_instance lits h hat).2.1⟩

/-- the dispatch `FindIndices` / `FindIndicesAt` / `findIndicesAtWithState` for the three strategies, including the
    always-anchored early exit and the leftmost-longest routing of `searchStrategy()` (engine.go l.266-277: the NFA functions
    search; `ref` then is the leftmost-longest reference and only `NfaOK` is needed); `lits`: the literal list of
    the UseAhoCorasick contracts (`AhoLitOK`) -/
theorem C02_metaFind2_dispatch_eq_reference {O : MetaFind2.Oracles2} {P : MetaFind2.Params2} {lits : List Bytes}
    {Mt : Bytes → Nat → Nat → Prop} {ref : Bytes → Nat → Option MetaFind.Span} {h : Bytes} (st : MetaFind2.Strategy2) {at_ : Nat} (hat : at_ ≤ h.size)
    (R : MetaFind.RefOK Mt ref h) (hanch : P.alwaysAnchored = true → ∀ s e, s ≤ h.size → Mt h s e → s = 0)
    (hl : P.longest = true → MetaFind2.NfaOK O P Mt ref h)
    (h0 : P.longest = false → MetaFind2.StratOK O P lits Mt ref h 0 st)
    (hs : P.longest = false → MetaFind2.StratOK O P lits Mt ref h at_ st) :
    MetaFind2.findIndices O P st h = ref h 0 ∧ MetaFind2.findIndicesAt O P st h at_ = ref h at_ ∧
    MetaFind2.findIndicesAtWithState O P st h at_ = ref h at_ :=
  ⟨MetaFind2.findIndices_eq_ref st hl h0, MetaFind2.findIndicesAt_eq_ref st hat R hanch hl hs,
   MetaFind2.findIndicesAtWithState_eq_ref st hat R hanch hl hs⟩

/-! ### the strategy GUARDS (meta/strategy.go, meta/compile.go, meta/reverse_inner.go; model Cx.Model.Guards, proofs Cx.Proofs.Guards)

The AST predicates that route a pattern away from the engines that cannot express it are the hypotheses of the strategy theorems
above and in C02.lean.  `Guards.Node x re`: `x` is a node of `re` (under ANY operator); `Guards.HasOp re ops`: some node has an
operator in `ops`; `Guards.normalForm re` (decidable): the shape `syntax.Parse` guarantees (leaves have no operand, unary operators
one, `{n,m}` has `0 ≤ n`, a literal has a rune) — checked by the harness on every AST of the tie; `Sem.Matches h re i j`: `re` matches
`h[i:j)` (declarative semantics, Cx.Spec.ReSem), which every answer of the reference matcher satisfies (`C02_guard_reference_sound`).
The models are tied to the real unexported functions by `c02GuardsTie` ("Cx.Guards.<name> == meta.<name>"). -/

open Cx.Fast in
/-- every span the executable reference search reports is a match of the declarative semantics the `_sound` theorems speak about -/
theorem C02_guard_reference_sound {re : Re} {h : Bytes} {at_ s e : Nat} (hf : Ref.refFind re h at_ = some (s, e)) :
    at_ ≤ s ∧ Sem.Matches h re s e := Guards.refFind_sound hf

open Cx.Fast in
/-- `hasWordBoundary` sees `\b` / `\B` under EVERY operator (capture, `* + ? {n,m}`, concatenation, alternation, at any depth) -/
theorem C02_guard_hasWordBoundary_exact (re : Re) (hnf : Guards.normalForm re = true) :
    Guards.hasWordBoundary re = true ↔ Guards.HasOp re [.wordBoundary, .noWordBoundary] := Guards.hasWordBoundary_exact re hnf

open Cx.Fast in
/-- `hasNonGreedyQuantifier`: `true` iff some `*`, `+`, `?`, `{n,m}` node — anywhere — carries the `NonGreedy` flag -/
theorem C02_guard_hasNonGreedyQuantifier_exact (re : Re) (hnf : Guards.normalForm re = true) :
    Guards.hasNonGreedyQuantifier re = true ↔
      ∃ x, Guards.Node x re ∧ x.op ∈ [Op.star, Op.plus, Op.quest, Op.repeat_] ∧ x.nonGreedy = true :=
  Guards.hasNonGreedyQuantifier_exact re hnf

open Cx.Fast in
/-- `hasAnchorAssertions`, for EVERY AST: `true` iff some node is one of `^ $ \A \z \b \B` (both line modes).  Hence (second part)
    the strategies behind its negation — the reverse suffix / suffix-set / inner strategies, Aho-Corasick, the reverse DFA of the
    bidirectional search — only see LOOK-FREE patterns. -/
theorem C02_guard_hasAnchorAssertions_exact (re : Re) :
    (Guards.hasAnchorAssertions re = true ↔
      Guards.HasOp re [.beginLine, .endLine, .beginText, .endText, .wordBoundary, .noWordBoundary]) ∧
    (Guards.hasAnchorAssertions re = false → ∀ x, Guards.Node x re →
      x.op ∉ [Op.beginLine, Op.endLine, Op.beginText, Op.endText, Op.wordBoundary, Op.noWordBoundary]) :=
  ⟨Guards.hasAnchorAssertions_exact re, Guards.lookFree_of_guard re⟩

open Cx.Fast in
/-- `hasMultilineLineAnchor`, for every AST: `true` iff some node is `(?m)^` or `(?m)$` -/
theorem C02_guard_hasMultilineLineAnchor_exact (re : Re) :
    Guards.hasMultilineLineAnchor re = true ↔ Guards.HasOp re [.beginLine, .endLine] := Guards.hasMultilineLineAnchor_exact re

open Cx.Fast in
/-- `canMatchEmpty` is SOUND: a `false` means that no match of the pattern is empty — any haystack, any position; in particular
    the reference search never reports an empty span -/
theorem C02_guard_canMatchEmpty_sound (re : Re) (hnf : Guards.normalForm re = true) (hc : Guards.canMatchEmpty re = false) (h : Bytes) :
    (∀ i j, Sem.Matches h re i j → i < j) ∧ (∀ at_ s e, Ref.refFind re h at_ = some (s, e) → s < e) :=
  ⟨Guards.canMatchEmpty_sound h re hnf hc, fun _ _ _ hf => Guards.canMatchEmpty_sound_ref hnf hc hf⟩

open Cx.Fast in
/-- `canMatchNewline` is SOUND, for EVERY AST: a `false` means that no match contains the byte 0x0A (`lineBounded`, the `lb_nl` /
    `no_nl` hypotheses of the reverse strategies) -/
theorem C02_guard_canMatchNewline_sound (re : Re) (hc : Guards.canMatchNewline re = false) (h : Bytes) :
    (∀ i j, Sem.Matches h re i j → ∀ p, i ≤ p → p < j → h.at p ≠ 10) ∧
    (∀ at_ s e, Ref.refFind re h at_ = some (s, e) → ∀ p, s ≤ p → p < e → h.at p ≠ 10) :=
  ⟨Guards.canMatchNewline_sound h re hc, fun _ _ _ hf => Guards.canMatchNewline_sound_ref hc hf⟩

open Cx.Fast in
/-- `isSafeForReverseSuffix`, for every AST: exactly the patterns that — capture groups around the whole pattern peeled off — are a
    concatenation of at least two elements with a "wildcard" element (`.*`, `.+`, `[class]+`, `x{n,m}` with `n ≥ 1`, possibly in capture
    groups) before the last one and no `^ $ \A \z` in the elements strictly between the first and the last.  (Anchors in the first
    and last element are NOT excluded by it: `Guards.isSafeForReverseSuffix_accepts_anchors`; `hasAnchorAssertions` is what excludes them.) -/
theorem C02_guard_isSafeForReverseSuffix_exact (re : Re) :
    Guards.isSafeForReverseSuffix re = true ↔
      (Guards.unwrapCapture re).op = .concat ∧ 2 ≤ (Guards.unwrapCapture re).sub.length ∧
      (∃ w ∈ (Guards.unwrapCapture re).sub.dropLast, Guards.isWildcardSubexpression w = true) ∧
      ∀ x ∈ (Guards.unwrapCapture re).sub.dropLast.drop 1, Guards.containsAnchor x = false :=
  Guards.isSafeForReverseSuffix_exact re

open Cx.Fast in
/-- `isSafeForReverseInner`, for every AST: exactly the patterns that — capture groups around the whole pattern peeled off — are a
    concatenation of at least two elements that begins with `.*`, `.+` or `[class]+` (not inside a group) -/
theorem C02_guard_isSafeForReverseInner_exact (re : Re) :
    Guards.isSafeForReverseInner re = true ↔
      (Guards.unwrapCapture re).op = .concat ∧
      ∃ first second rest, (Guards.unwrapCapture re).sub = first :: second :: rest ∧ Guards.leadWildcard first = true :=
  Guards.isSafeForReverseInner_exact re

open Cx.Fast in
/-- `isSafeForMultilineReverseSuffix` is SOUND, for every AST: a `true` means that every match starts at the start of a line and
    contains no '\n' (`line_start`, `no_nl` of `Cx.MultilineRevSuffix.Core`) -/
theorem C02_guard_isSafeForMultilineReverseSuffix_sound (re : Re) (hs : Guards.isSafeForMultilineReverseSuffix re = true) (h : Bytes) :
    ∀ i j, Sem.Matches h re i j → (i = 0 ∨ h.at (i - 1) = 10) ∧ ∀ p, i ≤ p → p < j → h.at p ≠ 10 :=
  Guards.isSafeForMultilineReverseSuffix_sound h re hs

open Cx.Fast in
/-- `isSimpleCharClass`: `true` iff EVERY node is a class, `* + ? {n,m}`, a concatenation or a capture group -/
theorem C02_guard_isSimpleCharClass_exact (re : Re) (hnf : Guards.normalForm re = true) :
    Guards.isSimpleCharClass re = true ↔
      ∀ x, Guards.Node x re → x.op ∈ [Op.charClass, Op.plus, Op.star, Op.quest, Op.repeat_, Op.concat, Op.capture] :=
  Guards.isSimpleCharClass_exact re hnf

open Cx.Fast in
/-- `isDigitLeadPattern` is SOUND, for every AST: a `true` means that every match is non-empty and starts with an ASCII digit
    (the `DigitOK` contract "every match starts with a digit" of `C02_digitPrefilter_find_eq_reference`) -/
theorem C02_guard_isDigitLeadPattern_sound (re : Re) (hd : Guards.isDigitLeadPattern re = true) (h : Bytes) :
    (∀ i j, Sem.Matches h re i j → i < j ∧ i < h.size ∧ 48 ≤ h.at i ∧ h.at i ≤ 57) ∧
    (∀ at_ s e, Ref.refFind re h at_ = some (s, e) → s < e ∧ s < h.size ∧ 48 ≤ h.at s ∧ h.at s ≤ 57) :=
  ⟨Guards.isDigitLeadPattern_sound h re hd, fun _ _ _ hf => Guards.isDigitLeadPattern_sound_ref hd hf⟩

open Cx.Fast in
/-- `isDigitRunSkipSafe` keeps its promise ("on failure within a digit run, all other starting positions in the same run will also
    fail"), for every AST, at the level of the language: if `h[s:s')` are ASCII digits, a match from `s'` extends to a match from `s`
    with the same end; so no match from `s` ⇒ no match from any later start of the run -/
theorem C02_guard_isDigitRunSkipSafe_sound (re : Re) (hd : Guards.isDigitRunSkipSafe re = true) (h : Bytes) (s s' : Nat) (hss : s ≤ s')
    (hrun : ∀ p, s ≤ p → p < s' → p < h.size ∧ 48 ≤ h.at p ∧ h.at p ≤ 57) :
    (∀ e, Sem.Matches h re s' e → Sem.Matches h re s e) ∧ ((∀ e, ¬ Sem.Matches h re s e) → ∀ e, ¬ Sem.Matches h re s' e) :=
  ⟨fun e hm => Guards.isDigitRunSkipSafe_sound h re hd s s' e hss hrun hm,
   fun hno e hm => hno e (Guards.isDigitRunSkipSafe_sound h re hd s s' e hss hrun hm)⟩

open Cx.Fast in
/-- `hasWordBoundaryAnchorCombo` IS `hasWordBoundary` (every AST): `hasAnchorAssertions` counts `\b` / `\B` as anchors, so "word
    boundary combined with an anchor" holds of every pattern with a word boundary -/
theorem C02_guard_hasWordBoundaryAnchorCombo_exact (re : Re) :
    Guards.hasWordBoundaryAnchorCombo re = Guards.hasWordBoundary re ∧
    (Guards.normalForm re = true → (Guards.hasWordBoundaryAnchorCombo re = true ↔ Guards.HasOp re [.wordBoundary, .noWordBoundary])) :=
  ⟨Guards.hasWordBoundaryAnchorCombo_eq re, Guards.hasWordBoundaryAnchorCombo_exact re⟩

open Cx.Fast in
/-- `hasCaseInsensitiveUnicode`, for every AST: `true` iff some node has the `FoldCase` flag and lists a rune above U+007F -/
theorem C02_guard_hasCaseInsensitiveUnicode_exact (re : Re) :
    Guards.hasCaseInsensitiveUnicode re = true ↔ ∃ x, Guards.Node x re ∧ x.foldCase = true ∧ ∃ r ∈ x.rune, r > 127 :=
  Guards.hasCaseInsensitiveUnicode_exact re

open Cx.Fast in
/-- `hasNonLineAnchors`: `true` iff some node is an assertion other than `(?m)^` -/
theorem C02_guard_hasNonLineAnchors_exact (re : Re) (hnf : Guards.normalForm re = true) :
    Guards.hasNonLineAnchors re = true ↔ Guards.HasOp re [.endLine, .endText, .beginText, .wordBoundary, .noWordBoundary] :=
  Guards.hasNonLineAnchors_exact re hnf

open Cx.Fast in
/-- `lineAnchorLeadsEveryBranch` is SOUND, for every AST: a `true` means that every match begins at a line start; and the test that
    admits a pattern to the literal engines (`UseTeddy`, the line-anchor wrapper of `adjustForAnchors`) means: no assertion at all, or
    only `(?m)^` assertions and every match at a line start -/
theorem C02_guard_lineAnchorLeadsEveryBranch_sound (re : Re) :
    (Guards.lineAnchorLeadsEveryBranch re = true → ∀ h i j, Sem.Matches h re i j → i = 0 ∨ h.at (i - 1) = 10) ∧
    (Guards.normalForm re = true →
      (Guards.hasAnchorAssertions re && (Guards.hasNonLineAnchors re || !Guards.lineAnchorLeadsEveryBranch re)) = false →
      (∀ x, Guards.Node x re → x.op ∉ Guards.lookOps) ∨
      ((∀ x, Guards.Node x re → x.op ∈ Guards.lookOps → x.op = .beginLine) ∧
        ∀ h i j, Sem.Matches h re i j → i = 0 ∨ h.at (i - 1) = 10)) :=
  ⟨fun hs h => Guards.lineAnchorLeadsEveryBranch_sound h re hs, Guards.literalEngine_guard re⟩

open Cx.Fast in
/-- `isStartAnchorOnly`, what holds: every match of such a pattern is empty and the pattern matches at position 0.  Its documented
    promise "empty at position 0 ONLY" does NOT hold (`C02_guard_isStartAnchorOnly_cex`); hence `_partial`. -/
theorem C02_guard_isStartAnchorOnly_sound_partial (re : Re) (hs : Guards.isStartAnchorOnly re = true) (h : Bytes) :
    (∀ i j, Sem.Matches h re i j → i = j) ∧ Sem.Matches h re 0 0 :=
  ⟨Guards.isStartAnchorOnly_zeroWidth h re hs, Guards.isStartAnchorOnly_matches_at_zero h re hs⟩

open Cx.Fast in
/-- counterexample to "a start-anchor-only pattern matches at position 0 only": `(?m)^` on "a\nb" at 2, the empty regexp and `(?:\A)*` at 1
    (the real `isStartAnchorOnly` answers `true` for all three: harness tie; unreachable at HEAD, see Cx.Proofs.Guards §5) -/
theorem C02_guard_isStartAnchorOnly_cex :
    Guards.isStartAnchorOnly (Re.leaf .beginLine) = true ∧ Ref.matchAt (Re.leaf .beginLine) #[97, 10, 98] 2 = some 2 ∧
    Guards.isStartAnchorOnly (Re.leaf .emptyMatch) = true ∧ Ref.matchAt (Re.leaf .emptyMatch) #[97, 10, 98] 1 = some 1 ∧
    Guards.isStartAnchorOnly (Re.starOf (Re.leaf .beginText)) = true ∧
      Ref.matchAt (Re.starOf (Re.leaf .beginText)) #[97, 10, 98] 1 = some 1 :=
  Guards.isStartAnchorOnly_not_only_at_zero


end Cx.C02
