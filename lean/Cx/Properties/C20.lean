import Cx.Proofs.State
/-
  C20 — memory per Regex stays bounded; steady-state searches do not allocate (the bookkeeping part).

  * lazy-DFA cache: for every history of inserts and clears, MemoryUsage() ≤ capacity + one state's worth
    (insert refuses once usage ≥ capacity; the first insert after new/clear also pays for the reserved row 0
    and two list slots — hence 8*stride + 16);
  * visited table: never larger than the largest request that passed CanHandle;
  * per-search state pool: a sequential caller never makes the pool allocate after warm-up.
  Escape analysis, map growth and the allocator are measured by the C20 check, not proved.
-/
namespace Cx.C20
open Cx.State

theorem C20_cache_bound (stride cap maxSz : Nat) (ops : List COp) (hs : 0 < stride)
    (hsz : ∀ sz, COp.add sz ∈ ops → sz ≤ maxSz) :
    ((Cache.new stride cap).run ops).mem ≤ cap + (48 + 16 + 8 * stride + maxSz) :=
  cache_mem_bound_two_slots stride cap maxSz ops hs hsz

theorem C20_visited_bound (ops : List VOp) (m : Nat) (hm : ∀ n, VOp.reset n ∈ ops → n ≤ m) :
    (Vis.new.run ops).arr.length ≤ m ∧ (Vis.new.run ops).len ≤ (Vis.new.run ops).arr.length :=
  vis_size_bound ops m hm

theorem C20_pool_steady (k t : Nat) :
    Pool.init.run ((List.replicate k [POp.getLocal t, POp.put t 0]).flatten) = Pool.init :=
  pool_sequential_no_alloc k t

example : ((Cache.new 4 100).run [.add 10, .add 10, .add 10, .clear, .add 5]).mem = 101 := by decide

end Cx.C20
