import Cx.Proofs.State
/-
  C06 — a compiled Regex is safe for concurrent use (the hand-off protocol).

  `getSearchState` / `putSearchState` (atomic single slot + sync.Pool) as a transition system with one atomic action
  per step, any number of goroutines, any interleaving, the collector dropping pooled states at any time:
  in every reachable state no per-search state is in two places, so no two calls ever hold the same state.
  What the theorem cannot exhibit: accesses that bypass the protocol (an engine-level simulator used on a search
  path), the Go memory model, sync.Pool internals — those are the subject of the race-detector tie of the C06 check.
-/
namespace Cx.C06
open Cx.State

theorem C06_no_state_in_two_places (ops : List POp) : (Pool.init.run ops).ids.Nodup := pool_ids_nodup ops

theorem C06_exclusive (ops : List POp) (t1 t2 s : Nat) (h1 : (t1, s) ∈ (Pool.init.run ops).held)
    (h2 : (t2, s) ∈ (Pool.init.run ops).held) : t1 = t2 := pool_exclusive ops t1 t2 s h1 h2

/- non-vacuity: two goroutines racing for the slot, one falls through to the pool -/
example : (Pool.init.run [.getLocal 1, .getNew 2, .put 1 0, .put 2 1, .gc [false], .getLocal 3, .getNew 4]).held = [(4, 2), (3, 0)] := by decide

end Cx.C06
