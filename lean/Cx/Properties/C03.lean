import Cx.Proofs.Caps
import Cx.Proofs.CapsAnchored
import Cx.Proofs.CapsGroups
import Cx.Proofs.OnePass
/-
  C03 — capture-group positions.

  Reference: `Caps.btCaps N h at n` = the slot vector written along the FIRST accepting path of the priority DFS over the
  compiled NFA (slot 2i / 2i+1 overwritten at every pass through group i's open / close state, i.e. "last iteration on the
  winning path"), from the leftmost start position with any match.  It is the capture-carrying version of the C02/C14
  reference: its group 0 is exactly `btSearchAt` (C03_group0_is_the_match).
  Engines (transliterated in Cx/Model/Caps.lean and Cx/Model/OnePass.lean, tied to the real code on dumped NFAs in every
  run of the C03 check):
    * Pike VM with per-state slot tables (`nfa/pikevm.go: SearchWithSlotTableCapturesAt`, `nfa/slot_table.go`):
      equal to the reference for every NFA the compiler emits, every haystack and every start offset `at < len(h)`.
      At `at = len(h)` the code returns group 0 only — proved to be exactly that (C03_pike_at_end_drops_groups), and
      machine-checked to differ from the reference (`()` on ""), a defect reported by the check as a finding.
    * one-pass DFA (`dfa/onepass`): the memoised builder, flat table and 64-bit transition word reduce to a run over NFA
      roots; under explicit decidable hypotheses on the automaton the DFA returns the reference's slots whenever the
      reference's match consumes the whole input.  The converse (every non-nil answer is the reference's) is FALSE for
      the code as it stands: leftmost-first priority and look-around are ignored (witnesses below); the check compares
      every non-nil answer of the real DFA with the reference.
-/
namespace Cx.C03
open Cx Cx.Nfa Cx.Caps

/-- group 0 of the reference is the leftmost-first match of C02/C14; no match iff no match -/
theorem C03_group0_is_the_match (N : NFA) (h : Bytes) (at_ n : Nat) :
    (btCaps N h at_ n).map spanOf = btSearchAt N h at_ := btCaps_span N h at_ n

/-- shape: exactly `n` slots (n ≥ 2), group 0 = (s, e) with at ≤ s ≤ e ≤ |h|, every other slot unset or inside [s, e] -/
theorem C03_reference_wellformed {N : NFA} {h : Bytes} {at_ n : Nat} {sl : Slots} (hr : btCaps N h at_ n = some sl) :
    ∃ s e : Nat, at_ ≤ s ∧ s ≤ e ∧ e ≤ h.size ∧ sl.getD 0 0 = (s : Int) ∧ sl.getD 1 0 = (e : Int) ∧
      sl.length = 2 + (n - 2) ∧
      ∀ k, 2 ≤ k → sl.getD k (-1) = -1 ∨ ((s : Int) ≤ sl.getD k (-1) ∧ sl.getD k (-1) ≤ (e : Int)) := btCaps_wf hr

/-- on automata whose capture states are properly nested (`labOK`, decided by the harness on every dumped NFA): each group
    is either unset in both slots (-1 and -1, "did not participate") or start ≤ end inside the overall match -/
theorem C03_groups_unset_or_nested {N : NFA} {h : Bytes} {at_ n ng : Nat} {lab : Lab} (hok : labOK N ng lab = true)
    (hn : 2 * ng ≤ n) {sl : Slots} (hr : btCaps N h at_ n = some sl) :
    ∀ i, 1 ≤ i → i < ng →
      (sl.getD (2*i) (-1) = -1 ∧ sl.getD (2*i+1) (-1) = -1) ∨
      (sl.getD 0 0 ≤ sl.getD (2*i) (-1) ∧ sl.getD (2*i) (-1) ≤ sl.getD (2*i+1) (-1) ∧ sl.getD (2*i+1) (-1) ≤ sl.getD 1 0) :=
  btCaps_groups hok hn hr

/-- Pike VM with slot tables = reference, all inputs, all start offsets before the end (hypotheses as in C14: separate
    unanchored start, disjoint sparse ranges, no rune states or ASCII haystack — decided per dumped NFA) -/
theorem C03_pike_captures_eq_reference {N : NFA} {h : Bytes} (hna : Pike.anchored N = false) (hd : Pike.SparseDisjoint N)
    (hR : Pike.RuneOK N h) {at_ : Nat} (hat : at_ < h.size) {ng : Nat} {lab : Lab} (hok : labOK N ng lab = true)
    (hng : 1 ≤ ng) : pikeCaps N h at_ (2 * ng) = btCaps N h at_ (2 * ng) :=
  pikeCaps_eq_btCaps_groups hna hd hR hat hok hng

/-- the same for start-anchored automata (`^…`) -/
theorem C03_pike_captures_anchored {N : NFA} {h : Bytes} (ha : Pike.anchored N = true) (hd : Pike.SparseDisjoint N)
    (hR : Pike.RuneOK N h) {at_ : Nat} (hat : at_ < h.size) (n : Nat) :
    pikeCaps N h at_ n = (btCapsAnchored N h at_ n).map normCaps := pikeCaps_anchored_eq ha hd hR hat n

/-- what the code does when the search starts at the end of the haystack: group 0 survives, every other group is
    reported unset — NOT the reference (see `C03_pike_at_end_differs`) -/
theorem C03_pike_at_end_drops_groups {N : NFA} {h : Bytes} (hna : Pike.anchored N = false) (hd : Pike.SparseDisjoint N)
    (hR : Pike.RuneOK N h) (n : Nat) :
    pikeCaps N h h.size n = (btCaps N h h.size n).map (fun sl => sl.take 2 ++ unset (n - 2)) := pikeCaps_at_end hna hd hR n

/-- `()` on "": the reference (and regexp) report [0 0 0 0], the modelled code [0 0 -1 -1] -/
theorem C03_pike_at_end_differs :
    btCaps exEmptyGroup #[] 0 4 = some [0, 0, 0, 0] ∧ pikeCaps exEmptyGroup #[] 0 4 = some [0, 0, -1, -1] :=
  ⟨ex_end_ref, ex_end_pike⟩

/-- one-pass DFA: builder + table + search collapse to a run over NFA roots -/
theorem C03_onepass_is_a_run_over_the_nfa {N : NFA} {T : OnePass.Table} (hb : OnePass.build N = some T) (h : Bytes) (n : Nat) :
    OnePass.search T h n = OnePass.arunSearch N h n := OnePass.search_eq_arun hb h n

/-- one-pass DFA, completeness direction: whenever the anchored reference match consumes the whole input, the DFA returns
    exactly its slots (hypotheses are decidable checks on the automaton, evaluated by the harness per pattern) -/
theorem C03_onepass_complete_partial {N : NFA} {T : OnePass.Table} (hb : OnePass.build N = some T)
    (hs : OnePass.strictRows N = true) (hnb : OnePass.noBackToStart N = true) (hc0 : OnePass.noCap0 N = true)
    (hnr : noRuneB N = true) {n : Nat} (hn2 : 2 ≤ n) (hn : n ≤ 32) {h : Bytes} {sl : Slots}
    (href : btCapsAnchored N h 0 n = some sl) (hend : sl.getD 1 0 = (h.size : Int)) : OnePass.search T h n = some sl :=
  OnePass.onepass_eq_btCaps hb hs hnb hc0 hnr hn2 hn href hend

/-- …and the soundness direction is false for the code as it stands: `(a+?)` on "aa" (lazy ignored), `(\b)` on ""
    (look-around followed unconditionally) -/
theorem C03_onepass_unsound_witnesses :
    (OnePass.runOnePass OnePass.exLazy #[97, 97] 4 = some (some [0, 2, 0, 2]) ∧ btCapsAnchored OnePass.exLazy #[97, 97] 0 4 = some [0, 1, 0, 1]) ∧
    (OnePass.runOnePass OnePass.exWordB #[] 4 = some (some [0, 0, 0, 0]) ∧ btCapsAnchored OnePass.exWordB #[] 0 4 = none) :=
  ⟨⟨OnePass.ex_lazy_onepass, OnePass.ex_lazy_ref⟩, ⟨OnePass.ex_wordb_onepass, OnePass.ex_wordb_ref⟩⟩

/- non-vacuity: `(a*)` on "a" from 0 — reference and Pike VM model agree on [0 1 0 1] -/
example : btCaps exStarGroup #[97] 0 4 = some [0, 1, 0, 1] ∧ pikeCaps exStarGroup #[97] 0 4 = some [0, 1, 0, 1] :=
  ⟨ex_mid_ref, ex_mid_pike⟩

end Cx.C03
