import Cx.Proofs.Caps
import Cx.Proofs.CapsAnchored
import Cx.Proofs.CapsGroups
import Cx.Proofs.OnePass
/-
  C03 — capture-group positions.

  Reference: `Caps.btCaps N h at n` = the slot vector written along the FIRST accepting path of the priority DFS over the
  compiled NFA (slot 2i / 2i+1 overwritten at every pass through group i's open / close state, i.e. "last iteration on the
  winning path"), from the leftmost start position with any match.  It is the capture-carrying version of the C02/C14
  reference: its group 0 is exactly `btSearchAt` (C03_group0_is_the_match).
  Engines (transliterated in Cx/Model/Caps.lean and Cx/Model/OnePass.lean, tied to the real code on dumped NFAs in every
  run of the C03 check; code as of 729c212 / 4f5a457 / 2d44821):
    * Pike VM with per-state slot tables (`nfa/pikevm.go: SearchWithSlotTableCapturesAt`, `nfa/slot_table.go`):
      equal to the reference for every NFA the compiler emits, every haystack and EVERY start offset `at ≤ len(h)`.
      (`at = len(h)` used to go through `matchesEmptyAt` and return group 0 only — `()` on "" gave [0 0 -1 -1]; that
      special case is gone from the code and from the model, see the `_fixed` example at the end.)
    * one-pass DFA (`dfa/onepass`): guards (`IsAlwaysAnchored`, at most 16 groups, `hasUnsupportedLook`: no `\b`, `\B`,
      `(?m)$`, no start look after a consumed byte, no byte after `\z`), builder (closure as a priority-ordered tree,
      `matchWins` flags, one `(target, slots, matchWins)` per byte class, state 0 dead), flat table, 64-bit transition
      word and `Search` (scratch slots, recorded match, match-wins return, end-only match states).  For every table the
      builder produces, `Search` IS the anchored reference: same nil / non-nil, same slots, wherever the match ends
      (C03_onepass_eq_reference).  The witnesses of the former deviations (lazy quantifier ignored, look-around
      followed blindly, start state = dead state) now agree with the reference or are rejected by the build.
-/
namespace Cx.C03
open Cx Cx.Nfa Cx.Caps

/-- group 0 of the reference is the leftmost-first match of C02/C14; no match iff no match -/
theorem C03_group0_is_the_match (N : NFA) (h : Bytes) (at_ n : Nat) :
    (btCaps N h at_ n).map spanOf = btSearchAt N h at_ := btCaps_span N h at_ n

/-- shape: exactly `n` slots (n ≥ 2), group 0 = (s, e) with at ≤ s ≤ e ≤ |h|, every other slot unset or inside [s, e] -/
theorem C03_reference_wellformed {N : NFA} {h : Bytes} {at_ n : Nat} {sl : Slots} (hr : btCaps N h at_ n = some sl) :
    ∃ s e : Nat, at_ ≤ s ∧ s ≤ e ∧ e ≤ h.size ∧ sl.getD 0 0 = (s : Int) ∧ sl.getD 1 0 = (e : Int) ∧
      sl.length = 2 + (n - 2) ∧
      ∀ k, 2 ≤ k → sl.getD k (-1) = -1 ∨ ((s : Int) ≤ sl.getD k (-1) ∧ sl.getD k (-1) ≤ (e : Int)) := btCaps_wf hr

/-- on automata whose capture states are properly nested (`labOK`, decided by the harness on every dumped NFA): each group
    is either unset in both slots (-1 and -1, "did not participate") or start ≤ end inside the overall match -/
theorem C03_groups_unset_or_nested {N : NFA} {h : Bytes} {at_ n ng : Nat} {lab : Lab} (hok : labOK N ng lab = true)
    (hn : 2 * ng ≤ n) {sl : Slots} (hr : btCaps N h at_ n = some sl) :
    ∀ i, 1 ≤ i → i < ng →
      (sl.getD (2*i) (-1) = -1 ∧ sl.getD (2*i+1) (-1) = -1) ∨
      (sl.getD 0 0 ≤ sl.getD (2*i) (-1) ∧ sl.getD (2*i) (-1) ≤ sl.getD (2*i+1) (-1) ∧ sl.getD (2*i+1) (-1) ≤ sl.getD 1 0) :=
  btCaps_groups hok hn hr

/-- Pike VM with slot tables = reference, all inputs, all start offsets up to and including the end of the haystack
    (hypotheses as in C14: separate unanchored start, disjoint sparse ranges, no rune states or ASCII haystack —
    decided per dumped NFA) -/
theorem C03_pike_captures_eq_reference {N : NFA} {h : Bytes} (hna : Pike.anchored N = false) (hd : Pike.SparseDisjoint N)
    (hR : Pike.RuneOK N h) {at_ : Nat} (hat : at_ ≤ h.size) {ng : Nat} {lab : Lab} (hok : labOK N ng lab = true)
    (hng : 1 ≤ ng) : pikeCaps N h at_ (2 * ng) = btCaps N h at_ (2 * ng) :=
  pikeCaps_eq_btCaps_groups hna hd hR hat hok hng

/-- the same for start-anchored automata (`^…`) -/
theorem C03_pike_captures_anchored {N : NFA} {h : Bytes} (ha : Pike.anchored N = true) (hd : Pike.SparseDisjoint N)
    (hR : Pike.RuneOK N h) {at_ : Nat} (hat : at_ ≤ h.size) (n : Nat) :
    pikeCaps N h at_ n = (btCapsAnchored N h at_ n).map normCaps := pikeCaps_anchored_eq ha hd hR hat n

/-- one-pass DFA: builder + table + search collapse to a run over NFA roots (also for `SearchLongest`) -/
theorem C03_onepass_is_a_run_over_the_nfa {N : NFA} {T : OnePass.Table} (hb : OnePass.build N = some T) (h : Bytes) (n : Nat) :
    OnePass.search T h n = OnePass.orunSearch N h n false ∧ OnePass.searchLongest T h n = OnePass.orunSearch N h n true :=
  ⟨OnePass.search_eq_orun hb h n, OnePass.searchLongest_eq_orun hb h n⟩

/-- one-pass DFA = anchored reference, both directions at once: for every table that `Build` produces (`buildFor`
    = `Build` with `n = 2 * CaptureCount`; its success carries all the guards), every haystack of bytes and every
    `n ≥ 2`, `Search` answers nil iff the reference does and otherwise returns exactly the reference's slots —
    wherever the match ends (leftmost-first priority, lazy quantifiers, `\z`/`$`, `\A`/`^`/`(?m)^` at offset 0). -/
theorem C03_onepass_eq_reference {N : NFA} {T : OnePass.Table} {n : Nat} (hb : OnePass.buildFor N n = some T)
    (hn2 : 2 ≤ n) {h : Bytes} (hbytes : ∀ i, h.at i < 256) : OnePass.search T h n = btCapsAnchored N h 0 n :=
  OnePass.onepass_eq_btCaps hb hn2 hbytes

/-- soundness, spelled out -/
theorem C03_onepass_sound {N : NFA} {T : OnePass.Table} {n : Nat} (hb : OnePass.buildFor N n = some T)
    (hn2 : 2 ≤ n) {h : Bytes} (hbytes : ∀ i, h.at i < 256) {sl : Slots} (hs : OnePass.search T h n = some sl) :
    btCapsAnchored N h 0 n = some sl := by rw [← OnePass.onepass_eq_btCaps hb hn2 hbytes]; exact hs

/-- completeness, spelled out -/
theorem C03_onepass_complete {N : NFA} {T : OnePass.Table} {n : Nat} (hb : OnePass.buildFor N n = some T)
    (hn2 : 2 ≤ n) {h : Bytes} (hbytes : ∀ i, h.at i < 256) {sl : Slots} (hr : btCapsAnchored N h 0 n = some sl) :
    OnePass.search T h n = some sl := by rw [OnePass.onepass_eq_btCaps hb hn2 hbytes]; exact hr

/-- the automata that witnessed the deviations of the earlier code: `(a+?)` on "aa" now [0 1 0 1] as the reference,
    `(\b)` and `(a)\b(b)` rejected by the build, `a*(b)` on "ab" now [0 2 1 2] as the reference -/
theorem C03_onepass_former_witnesses_fixed :
    (OnePass.runOnePass OnePass.exLazy #[97, 97] 4 = some (some [0, 1, 0, 1]) ∧ btCapsAnchored OnePass.exLazy #[97, 97] 0 4 = some [0, 1, 0, 1]) ∧
    OnePass.buildFor OnePass.exWordB 4 = none ∧ OnePass.buildFor OnePass.exMidB 6 = none ∧
    (OnePass.runOnePass OnePass.exStartLoop #[97, 98] 4 = some (some [0, 2, 1, 2]) ∧
      btCapsAnchored OnePass.exStartLoop #[97, 98] 0 4 = some [0, 2, 1, 2]) :=
  ⟨⟨OnePass.ex_lazy_onepass_fixed, OnePass.ex_lazy_ref⟩, OnePass.ex_wordb_onepass_fixed, OnePass.ex_midb_onepass_fixed,
    ⟨OnePass.ex_startloop_onepass_fixed, OnePass.ex_startloop_ref⟩⟩

/- non-vacuity: `(a*)` on "a" from 0 — reference and Pike VM model agree on [0 1 0 1] -/
example : btCaps exStarGroup #[97] 0 4 = some [0, 1, 0, 1] ∧ pikeCaps exStarGroup #[97] 0 4 = some [0, 1, 0, 1] :=
  ⟨ex_mid_ref, ex_mid_pike⟩

/- `at = len(h)`, fixed: `()` on "" — reference, regexp and the modelled code all report [0 0 0 0] (the code used to
   report [0 0 -1 -1]); `(a*)` on "a" from 1: [1 1 1 1] -/
example : btCaps exEmptyGroup #[] 0 4 = some [0, 0, 0, 0] ∧ pikeCaps exEmptyGroup #[] 0 4 = some [0, 0, 0, 0] :=
  ⟨ex_end_ref, ex_end_pike_fixed⟩
example : btCaps exStarGroup #[97] 1 4 = some [1, 1, 1, 1] ∧ pikeCaps exStarGroup #[97] 1 4 = some [1, 1, 1, 1] :=
  ⟨ex_end2_ref, ex_end2_pike_fixed⟩

/- non-vacuity of the one-pass theorem: `(a)(b)` builds, and `Search` on "ab" is the reference's [0 2 0 1 1 2] -/
example (T : OnePass.Table) (hb : OnePass.buildFor OnePass.exAB 6 = some T) :
    OnePass.search T #[97, 98] 6 = some [0, 2, 0, 1, 1, 2] := by
  rw [C03_onepass_eq_reference hb (by decide) OnePass.bytes_ab]
  decide

end Cx.C03
