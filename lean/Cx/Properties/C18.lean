import Cx.Model.Swar
import Cx.Proofs.Swar
/-
  C18 — vectorised byte-search primitives equal their scalar definitions.

  Proved here for the pure-Go (SWAR) implementations, for every haystack content and length: the chunked
  loops with the zero-byte bit trick return exactly the first index of the one-line scalar definition.
  The assembly kernels are not modelled (no ISA semantics); they are tied to the same scalar definition by the
  exhaustive length x alignment x hit-position correspondence of the C18 check.
-/
namespace Cx.C18
open Cx Cx.Swar

/-- the zero-byte detector is zero exactly when no byte of the word is zero -/
theorem C18_hasZero (x : BitVec 64) : hasZero x = 0#64 ↔ ∀ k, k < 8 → byteOf x k ≠ 0#8 :=
  hasZero_eq_zero_iff x

/-- its lowest set bit, divided by 8, is the index of the first zero byte (borrow propagation only pollutes higher bytes) -/
theorem C18_first_zero_byte (x : BitVec 64) (k : Nat) (hk : k < 8) (hz : byteOf x k = 0#8)
    (hfirst : ∀ j, j < k → byteOf x j ≠ 0#8) : tz (hasZero x) / 8 = k :=
  tz_hasZero x k hk hz hfirst

theorem C18_memchr (h : Bytes) (n : Nat) (hb : BytesOK h) (hn : n < 256) :
    memchrGeneric h n = naiveIndex h (fun b => [n].contains b) :=
  memchrN_eq_naive h [n] hb (by simpa using hn) (by simp)

theorem C18_memchr2 (h : Bytes) (a b : Nat) (hb : BytesOK h) (ha : a < 256) (hb' : b < 256) :
    memchr2Generic h a b = naiveIndex h (fun x => [a, b].contains x) :=
  memchrN_eq_naive h [a, b] hb (by intro n hn; simp at hn; omega) (by simp)

theorem C18_memchr3 (h : Bytes) (a b c : Nat) (hb : BytesOK h) (ha : a < 256) (hb' : b < 256) (hc : c < 256) :
    memchr3Generic h a b c = naiveIndex h (fun x => [a, b, c].contains x) :=
  memchrN_eq_naive h [a, b, c] hb (by intro n hn; simp at hn; omega) (by simp)

theorem C18_isASCII (h : Bytes) (hb : BytesOK h) :
    isASCIIGeneric h = decide (naiveIndex h (fun b => b ≥ 128) = -1) :=
  isASCII_eq_naive h hb

/-- rare-byte candidate + verify + resume finds the first occurrence of the needle, for any choice of rare index -/
theorem C18_memmem (h n : Bytes) (rareIdx : Nat) (hr : rareIdx < n.size) :
    memmemSingle h n rareIdx = naiveMemmem h n :=
  memmemSingle_eq_naive h n rareIdx hr

/-- the scalar definition means "least index": result -1 iff no byte satisfies `p`, else the first that does -/
theorem C18_naive_is_least (h : Bytes) (p : Nat → Bool) :
    (naiveIndex h p = -1 ∧ ∀ i, i < h.size → p (h.at i) = false) ∨
    (∃ i : Nat, naiveIndex h p = (i : Int) ∧ i < h.size ∧ p (h.at i) = true ∧ ∀ j, j < i → p (h.at j) = false) :=
  naiveIndex_spec h p

example : memchrGeneric #[1,2,3,4,5,6,7,8,9,0x42,11] 0x42 = 9 := by decide
example : memchr2Generic #[1,2,3,4,5,6,7,8,9,0x42,11] 0x50 11 = 10 := by decide
example : memmemSingle #[1,2,3,1,2,4] #[1,2,4] 2 = 3 := by decide

end Cx.C18
