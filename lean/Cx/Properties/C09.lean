import Cx.Proofs.Expand
/-
  C09 — Compile accepts stdlib's language and reports stdlib's metadata (the part that is logic of its own).

  Proved: QuoteMeta equals regexp.QuoteMeta for every string, it only inserts one backslash before each special
  byte, and that is invertible (nothing is lost, so the quoted text denotes exactly the input).
  Acceptance, error text, NumSubexp/SubexpNames/SubexpIndex, LiteralPrefix, Marshal/Unmarshal/Copy are delegated
  by coregex to regexp/syntax or re-derived from the AST; they are tied by the differential run of the C09 check
  (see `level_note`): that part is correspondence, not theorem.
-/
namespace Cx.C09
open Cx Cx.Std Cx.Model

theorem C09_quoteMeta (s : List Nat) : cxQuoteMeta s = stdQuoteMeta s := cxQuoteMeta_eq_std s

theorem C09_quoteMeta_shape (s : List Nat) :
    stdQuoteMeta s = s.flatMap fun c => if special c then [92, c] else [c] := stdQuoteMeta_eq_flatMap s

theorem C09_quoteMeta_lossless (s : List Nat) : unquote (cxQuoteMeta s) = s := by
  rw [cxQuoteMeta_eq_std]; exact unquote_quoteMeta s

example : cxQuoteMeta [97, 46, 42] = [97, 92, 46, 92, 42] := by decide

end Cx.C09
