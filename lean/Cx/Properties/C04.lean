import Cx.Spec.StdLoops
import Cx.Model.Loops
import Cx.Proofs.Loops
/-
  C04 — successive-match enumeration equals stdlib's FindAll sequence.

  Every hand-written enumeration loop of coregex (models in `Cx.Model.Loops`) returns, for every
  well-behaved single-match function, every input length, every rune-width function and every limit,
  exactly what `regexp.(*Regexp).allMatches` (`Cx.Std.stdAll`) delivers.  The hypotheses are the contract
  of the engine underneath (C02's subject), checked on every recorded `find` table by the harness:

    FindOK:  a match found from `pos` lies in [pos, len]; searching again from anywhere between `pos` and
             its start finds the same match (leftmost-ness, with the full input as context).
    WidthOK: `w p ≥ 1` inside the input, `w p = 0` at/after the end  (utf8.DecodeRune's width).
-/
namespace Cx.C04
open Cx.Std Cx.Loops

variable {α : Type}

/-- coregex's encoding of the limit: `n <= 0` means "all". -/
def limOf (n : Int) : Option Nat := if n ≤ 0 then none else some n.toNat

/-- C04 (FindAll*, AppendAllIndex via `findAllIndicesLoop`): equals `allMatches` for every `n ≠ 0`. -/
theorem C04_findAllIndicesLoop (find : Nat → Option α) (sp : α → Nat × Nat) (w : Nat → Nat) (len : Nat)
    (ok : FindOK find sp len) (wk : WidthOK w len) (n : Int) (hn : n ≠ 0) :
    findAllA false find sp (nextOf w) len (limOf n) = stdFindAll find sp w len n :=
  loopA_eq_std find sp w len ok wk n hn

/-- "none for n == 0": `allMatches` with limit 0 delivers nothing. -/
theorem C04_std_limit_zero (find : Nat → Option α) (sp : α → Nat × Nat) (w : Nat → Nat) (len : Nat) :
    stdFindAll find sp w len 0 = [] := by
  unfold stdFindAll
  have h : 2 * (len + 2) = (2 * len + 3) + 1 := by omega
  simp only [h, stdAll]
  simp

/-- The public entry points (`FindAll`, `FindAllIndex`, `AppendAllIndex`, …): `if n == 0 { return nil }` in front of
    the loop (regex.go), so that the loop's `n <= 0 = all` encoding is never reached with 0. -/
def findAllTop (anch : Bool) (find : Nat → Option α) (sp : α → Nat × Nat) (next : Nat → Nat) (len : Nat) (n : Int) : List α :=
  if n = 0 then [] else findAllA anch find sp next len (limOf n)

/-- C04 at full strength in `n`: entry guard + loop equal `allMatches` for EVERY limit, 0 included. -/
theorem C04_findAll_every_limit (find : Nat → Option α) (sp : α → Nat × Nat) (w : Nat → Nat) (len : Nat)
    (ok : FindOK find sp len) (wk : WidthOK w len) (n : Int) :
    findAllTop false find sp (nextOf w) len n = stdFindAll find sp w len n := by
  unfold findAllTop
  by_cases hn : n = 0
  · rw [if_pos hn, hn, C04_std_limit_zero]
  · rw [if_neg hn]; exact loopA_eq_std find sp w len ok wk n hn

/- `a` on "a" -/
def exFind0 : Nat → Option (Nat × Nat) | 0 => some (0, 1) | _ => none
def exW0 : Nat → Nat | 0 => 1 | _ => 0

/-- without the entry guard the loop alone is wrong at 0 (it would enumerate everything): the guard is needed. -/
example : findAllA false exFind0 id (nextOf exW0) 1 (limOf 0) ≠ stdFindAll exFind0 id exW0 1 0 := by decide

/-- C04, start-anchored shortcut: sound exactly when nothing can match from a later offset. -/
theorem C04_anchored_shortcut (find : Nat → Option α) (sp : α → Nat × Nat) (w : Nat → Nat) (len : Nat)
    (ok : FindOK find sp len) (wk : WidthOK w len) (anch : ∀ p, 0 < p → find p = none) (n : Int) (hn : n ≠ 0) :
    findAllA true find sp (nextOf w) len (limOf n) = stdFindAll find sp w len n :=
  anchored_eq_std find sp w len ok wk anch n hn

/-- C04 (Count, FindAllSubmatch*): the bottom-limit loop delivers the same sequence. -/
theorem C04_count_loop (find : Nat → Option α) (sp : α → Nat × Nat) (w : Nat → Nat) (len : Nat)
    (ok : FindOK find sp len) (wk : WidthOK w len) (n : Int) (hn : n ≠ 0) :
    findAllB find sp (nextOf w) len (limOf n) = stdFindAll find sp w len n :=
  loopB_eq_std find sp w len ok wk n hn

/-- C04 (AllIndex / AllStringIndex / All / AllString iterators run to completion). -/
theorem C04_iterator (find : Nat → Option α) (sp : α → Nat × Nat) (w : Nat → Nat) (len : Nat)
    (ok : FindOK find sp len) (wk : WidthOK w len) :
    findAllC find sp (nextOf w) len = stdFindAll find sp w len (-1) :=
  loopC_eq_std find sp w len ok wk

/-- C04/C11: a limit only truncates: `FindAll(n)` is the length-`n` prefix of `FindAll(-1)`. -/
theorem C04_limit_is_prefix (find : Nat → Option α) (sp : α → Nat × Nat) (w : Nat → Nat) (len : Nat)
    (ok : FindOK find sp len) (wk : WidthOK w len) (n : Nat) :
    stdFindAll find sp w len (n : Int) = (stdFindAll find sp w len (-1)).take n :=
  std_limit_prefix find sp w len ok wk n

/-- C04/C07: the enumeration is ordered, non-overlapping and inside the input. -/
theorem C04_enumeration_wellformed (find : Nat → Option α) (sp : α → Nat × Nat) (w : Nat → Nat) (len : Nat)
    (ok : FindOK find sp len) (wk : WidthOK w len) (n : Int) :
    (stdFindAll find sp w len n).Pairwise (fun a b => (sp a).2 ≤ (sp b).1 ∧ (sp a).1 < (sp b).1)
    ∧ ∀ m ∈ stdFindAll find sp w len n, (sp m).1 ≤ (sp m).2 ∧ (sp m).2 ≤ len :=
  std_wellformed find sp w len ok wk n

/- Non-vacuity: a concrete matcher (`a*` on "baaé": empty at 0, [1,3], empty at 3 dropped, empty at 5)
   satisfies the hypotheses and the loops produce the stdlib sequence. -/
def exFind : Nat → Option (Nat × Nat)
  | 0 => some (0, 0) | 1 => some (1, 3) | 2 => some (2, 3) | 3 => some (3, 3) | 4 => some (4, 4) | 5 => some (5, 5) | _ => none
def exW : Nat → Nat | 0 => 1 | 1 => 1 | 2 => 1 | 3 => 2 | 4 => 1 | _ => 0

example : findAllA false exFind id (nextOf exW) 5 none = [(0,0), (1,3), (5,5)] := by decide
example : stdFindAll exFind id exW 5 (-1) = [(0,0), (1,3), (5,5)] := by decide

end Cx.C04
