import Cx.Proofs.State
/-
  C13 — results do not depend on what the Regex was used for before (the recycled-state part).

  The backtracker's visited table is recycled across searches and invalidated by a 16-bit generation stamp.
  Proved, for EVERY history of searches of any sizes, start-position bumps and markings (including across the
  uint16 wrap and across re-slicing of the never-shrunk backing array): a new search starts with no entry visited.
  The lazy-DFA cache: after a clear the accounting equals that of a new cache (ids restart, transition rows dropped).
  `C13_old_wrap_defect` records what was wrong before the fix commit (stale stamp beyond the current length).
-/
namespace Cx.C13
open Cx.State

theorem C13_visited_fresh_after_reset (ops : List VOp) (n idx : Nat) :
    ((Vis.new.run ops).reset n).visited idx = false := vis_fresh_after_reset ops n idx

theorem C13_visited_fresh_after_bump (ops : List VOp) (idx : Nat) :
    ((Vis.new.run ops).bump).visited idx = false := vis_fresh_after_bump ops idx

theorem C13_mark_exact (s : Vis) (i j : Nat) (hi : i < s.len) (hl : s.len ≤ s.arr.length) :
    (s.mark i).visited j = (decide (j = i) || s.visited j) := vis_mark_exact s i j hi hl

theorem C13_cache_clear_is_new (stride cap : Nat) (ops : List COp) :
    { ((Cache.new stride cap).run ops).clear with clears := 0 } = Cache.new stride cap := cache_clear_is_new stride cap ops

theorem C13_old_wrap_defect :
    let s : Vis := { arr := [0, 2], len := 1, gen := 65535 }
    (((s.bumpOld).reset 2)).visited 1 = true ∧ (((s.bump).reset 2)).visited 1 = false := vis_old_wrap_witness

/- non-vacuity: a history crossing a re-slice (long, short, long) -/
example : ((Vis.new.run [.reset 4, .mark 3, .reset 2, .mark 1]).reset 4).visited 3 = false := by decide

end Cx.C13
