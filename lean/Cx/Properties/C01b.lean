import Cx.Proofs.MetaFind2
import Cx.Properties.C01
/-
  C01 (continued) — the strategy loops of meta modelled in Cx.Model.MetaFind2 (digit prefilter with its scan budget, Teddy / Aho-Corasick
  strategies, isMatchBoundedBacktracker): property-level statements. Audited together with Cx/Properties/C01.lean.
-/
namespace Cx.C01
open Cx

/-- **`isMatchDigitPrefilter`** (meta/ismatch.go l.282-332) answers true iff the reference finds a match.  On top of `DigitOK`:
    once the budget is exhausted the function RETURNS `dfa.IsMatchAt(h, digitPos+1)`, which therefore must be exact
    (`IsMatchExactOK`; `MetaFind2.cex_isMatchAt_false_positive`). -/
theorem C01_digitPrefilter_isMatch_iff {O : MetaFind2.Oracles2} {P : MetaFind2.Params2} {Mt : Bytes → Nat → Nat → Prop}
    {ref : Bytes → Nat → Option MetaFind.Span} {h : Bytes}
    (hd : P.hasDigitPrefilter = true → MetaFind2.DigitOK O P Mt ref h)
    (E : P.hasDigitPrefilter = true → P.hasDFA = true → MetaFind2.IsMatchExactOK O ref h)
    (hn : P.hasDigitPrefilter = false → MetaFind.isMatchNFA O.toOracles P.toParams h = (ref h 0).isSome) :
    MetaFind2.isMatchDigitPrefilter O P h = true ↔ ∃ s e, ref h 0 = some (s, e) := by
  rw [MetaFind2.isMatchDigitPrefilter_eq_ref hd E hn]
  cases ref h 0 with
  | none => simp
  | some se => exact ⟨fun _ => ⟨se.1, se.2, rfl⟩, fun _ => rfl⟩

/-- **`isMatchBoundedBacktracker`** (meta/ismatch.go l.189-230) answers true iff the reference finds a match.
    Contracts: the first-byte rejection is sound (`FirstByteOK`); every match ends at the end of the haystack with
    `anchoredSuffix` (`SuffixOK`: the pattern must be END-anchored, `MetaFind2.cex_im_suffix`); the boolean entry points
    `pikevm.IsMatch` and `boundedBacktracker.IsMatchWithState` (on inputs it `CanHandle`) are exact (`IsMatchEnginesOK` — these
    are other functions than the searches `PikeOK` / `BtOK` speak about); the ASCII backtracker is exact on the ASCII
    haystacks it can handle (`AsciiIsOK`). -/
theorem C01_isMatchBoundedBacktracker_iff {O : MetaFind2.Oracles2} {P : MetaFind2.Params2} {Mt : Bytes → Nat → Nat → Prop}
    {ref : Bytes → Nat → Option MetaFind.Span} {h : Bytes} (R : MetaFind.RefOK Mt ref h)
    (E : MetaFind.IsMatchEnginesOK O.toOracles P.toParams ref h) (hfb : MetaFind.FirstByteOK O.toOracles P.toParams ref h)
    (hs : MetaFind2.SuffixOK P Mt h) (ha : MetaFind2.AsciiIsOK O P ref h)
    (hn : P.hasBT = false → MetaFind.isMatchNFA O.toOracles P.toParams h = (ref h 0).isSome) :
    MetaFind2.isMatchBoundedBacktracker O P h = true ↔ ∃ s e, ref h 0 = some (s, e) := by
  rw [MetaFind2.isMatchBoundedBacktracker_eq_ref R E hfb hs ha hn]
  cases ref h 0 with
  | none => simp
  | some se => exact ⟨fun _ => ⟨se.1, se.2, rfl⟩, fun _ => rfl⟩

/-- `isMatchTeddy` / `isMatchAhoCorasick` (meta/ismatch.go l.265-278, 336-342): a candidate of the COMPLETE prefilter is a
    match; the small-haystack automaton's `IsMatch` is exact; `ahoCorasick.IsMatch` answers iff some literal of `lits` occurs
    (`AhoIsMatchOK`, a statement about OCCURRENCES — what the dependency computes) and the matches are these occurrences
    (`hmt`) -/
theorem C01_teddy_ahoCorasick_isMatch_iff {O : MetaFind2.Oracles2} {P : MetaFind2.Params2} {lits : List Bytes}
    {Mt : Bytes → Nat → Nat → Prop} {ref : Bytes → Nat → Option MetaFind.Span} {h : Bytes} (R : MetaFind.RefOK Mt ref h)
    (hpf : P.hasPrefilter = true → MetaFind.PfOK O.toOracles Mt h)
    (hpc : P.hasPrefilter = true → ∀ p, O.pfFind h 0 = some p → (ref h 0).isSome = true)
    (hfat : MetaFind2.useFatFallback P h = true → O.fatIsMatch h = (ref h 0).isSome)
    (hn : P.hasPrefilter = false → MetaFind.isMatchNFA O.toOracles P.toParams h = (ref h 0).isSome)
    (hmt : P.hasAho = true → ∀ s e, Mt h s e ↔ MetaFind2.LitOcc lits h s e)
    (ha : P.hasAho = true → MetaFind2.AhoIsMatchOK O lits h)
    (hn' : P.hasAho = false → MetaFind.isMatchNFA O.toOracles P.toParams h = (ref h 0).isSome) :
    MetaFind2.isMatchTeddy O P h = (ref h 0).isSome ∧ MetaFind2.isMatchAhoCorasick O P h = (ref h 0).isSome :=
  ⟨MetaFind2.isMatchTeddy_eq_ref R hpf hpc hfat hn, MetaFind2.isMatchAhoCorasick_eq_ref R hmt ha hn'⟩

end Cx.C01
