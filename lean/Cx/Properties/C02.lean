import Cx.Proofs.Compile
import Cx.Proofs.Nfa
/-
  C02 — first-match location is the leftmost(-first) match (the part that is proved).

  For the modelled fragment: the span reported by the backtracker model on the compiled NFA is a match of the AST,
  its start is the leftmost start at or after the search offset that has any match, and `none` is reported exactly when
  nothing matches from there on.  Which END is chosen among the matches at that start is the priority order of the
  automaton (left branch of every split first); the backtracker model implements it by construction and is the
  executable reference all engines are compared with (C14 tie) and regexp is compared with (C02 tie); equality of that
  order with regexp's is validated by correspondence, not proved — hence `_partial`.
-/
namespace Cx.C02
open Cx Cx.Nfa Cx.Compile

theorem C02_span_is_match_and_leftmost_partial {cfg : Config} {re : Regex} {N : NFA} (hc : compileTop cfg re = some N)
    (hw : Regex.AltOK re) (hsz : N.states.size ≤ invalid) (h : Bytes) (at_ s e : Nat) (hat : at_ ≤ h.size)
    (hr : btSearchAt N h at_ = some (s, e)) :
    at_ ≤ s ∧ s ≤ e ∧ e ≤ h.size ∧ Regex.M re h s e ∧ ∀ i j, at_ ≤ i → i < s → ¬ Regex.M re h i j := by
  obtain ⟨h1, h2, h3, h4⟩ := btSearchAt_sound N h at_ s e hr
  refine ⟨h1, h2, h3, (compile_lang hc hw hsz h s e).mp h4, ?_⟩
  intro i j hi hlt hM
  exact (btSearchAt_leftmost N h at_ hat).1 s e hr i j hi hlt ((compile_lang hc hw hsz h i j).mpr hM)

theorem C02_none_iff_no_match {cfg : Config} {re : Regex} {N : NFA} (hc : compileTop cfg re = some N)
    (hw : Regex.AltOK re) (hsz : N.states.size ≤ invalid) (h : Bytes) (at_ : Nat) (hat : at_ ≤ h.size) :
    btSearchAt N h at_ = none ↔ ∀ i j, at_ ≤ i → i ≤ h.size → ¬ Regex.M re h i j := by
  constructor
  · intro hn i j hi hle hM
    exact (btSearchAt_leftmost N h at_ hat).2 hn i j hi hle ((compile_lang hc hw hsz h i j).mpr hM)
  · intro hall
    cases hs : btSearchAt N h at_ with
    | none => rfl
    | some p =>
      obtain ⟨s, e⟩ := p
      obtain ⟨h1, h2, h3, h4⟩ := btSearchAt_sound N h at_ s e hs
      exact absurd ((compile_lang hc hw hsz h s e).mp h4) (hall s e h1 (by omega))

end Cx.C02
