import Cx.Proofs.Reverse
import Cx.Proofs.RevSuffixInst
import Cx.Proofs.Compile
import Cx.Proofs.Nfa
/-
  C02 — first-match location is the leftmost(-first) match (the part that is proved).

  For the modelled fragment: the span reported by the backtracker model on the compiled NFA is a match of the AST,
  its start is the leftmost start at or after the search offset that has any match, and `none` is reported exactly when
  nothing matches from there on.  Which END is chosen among the matches at that start is the priority order of the
  automaton (left branch of every split first); the backtracker model implements it by construction and is the
  executable reference all engines are compared with (C14 tie) and regexp is compared with (C02 tie); equality of that
  order with regexp's is validated by correspondence, not proved — hence `_partial`.
-/
namespace Cx.C02
open Cx Cx.Nfa Cx.Compile

theorem C02_span_is_match_and_leftmost_partial {cfg : Config} {re : Regex} {N : NFA} (hc : compileTop cfg re = some N)
    (hw : Regex.AltOK re) (hsz : N.states.size ≤ invalid) (h : Bytes) (at_ s e : Nat) (hat : at_ ≤ h.size)
    (hr : btSearchAt N h at_ = some (s, e)) :
    at_ ≤ s ∧ s ≤ e ∧ e ≤ h.size ∧ Regex.M re h s e ∧ ∀ i j, at_ ≤ i → i < s → ¬ Regex.M re h i j := by
  obtain ⟨h1, h2, h3, h4⟩ := btSearchAt_sound N h at_ s e hr
  refine ⟨h1, h2, h3, (compile_lang hc hw hsz h s e).mp h4, ?_⟩
  intro i j hi hlt hM
  exact (btSearchAt_leftmost N h at_ hat).1 s e hr i j hi hlt ((compile_lang hc hw hsz h i j).mpr hM)

theorem C02_none_iff_no_match {cfg : Config} {re : Regex} {N : NFA} (hc : compileTop cfg re = some N)
    (hw : Regex.AltOK re) (hsz : N.states.size ≤ invalid) (h : Bytes) (at_ : Nat) (hat : at_ ≤ h.size) :
    btSearchAt N h at_ = none ↔ ∀ i j, at_ ≤ i → i ≤ h.size → ¬ Regex.M re h i j := by
  constructor
  · intro hn i j hi hle hM
    exact (btSearchAt_leftmost N h at_ hat).2 hn i j hi hle ((compile_lang hc hw hsz h i j).mpr hM)
  · intro hall
    cases hs : btSearchAt N h at_ with
    | none => rfl
    | some p =>
      obtain ⟨s, e⟩ := p
      obtain ⟨h1, h2, h3, h4⟩ := btSearchAt_sound N h at_ s e hs
      exact absurd ((compile_lang hc hw hsz h s e).mp h4) (hall s e h1 (by omega))

/-! #### start location through the reverse automaton (`nfa/reverse.go`: ReverseAnchored / Reverse)

The meta engine finds the START of a match by running a DFA over the reverse automaton backwards from the match end.
`Cx.Rev.reverse` is a state-by-state transliteration of `reverseWithOptions` (the check compares its output literally with
the automaton the real code builds for every look-free pattern it generates).  `AcceptsA` is the path relation in which a
sparse state may take ANY matching transition (what the Pike VM and the lazy DFA do; the construction merges byte edges into
sparse states with overlapping ranges, so first-match acceptance would be the wrong reference — see
`Cx.Rev.overlap_needs_all_transitions`). -/

/-- reversing the automaton reverses the language, span by span: the reverse automaton, run on the reversed haystack from the
    mirror image of `e`, accepts up to the mirror image of `s` exactly when the forward automaton accepts [s, e) -/
theorem C02_reverse_automaton_language {N : NFA} (H : Rev.RevHyp N) (a : Bool) (h : Bytes) {s e : Nat} (hs : s ≤ h.size)
    (he : e ≤ h.size) :
    Rev.AcceptsA (Rev.reverse N a) (Rev.revB h) (h.size - e) (h.size - s) ↔ Rev.AcceptsA N h s e :=
  Rev.reverse_accepts H a h hs he

/-- hence the leftmost start for a fixed end is the LONGEST reverse match from that end — which is what the reverse DFA
    (run in longest mode) reports -/
theorem C02_leftmost_start_is_longest_reverse_match {N : NFA} (H : Rev.RevHyp N) (a : Bool) (h : Bytes) {s e : Nat}
    (hs : s ≤ h.size) (he : e ≤ h.size) :
    (Rev.AcceptsA N h s e ∧ ∀ s', s' < s → ¬ Rev.AcceptsA N h s' e) ↔
      (Rev.AcceptsA (Rev.reverse N a) (Rev.revB h) (h.size - e) (h.size - s) ∧
        ∀ j, h.size - s < j → j ≤ h.size → ¬ Rev.AcceptsA (Rev.reverse N a) (Rev.revB h) (h.size - e) j) :=
  Rev.leftmost_start_is_longest_reverse H a h hs he

/-! #### a strategy of the meta engine: reverse suffix (`meta/reverse_suffix.go`)

`Cx.RevSuffix` transliterates the candidate loop (prefilter on the suffix literal, bounded reverse scans with the
anti-quadratic guard, forward search for the span, Pike fallback, the `.*literal` shortcut) over component oracles.  The
theorems are RELATIVE to the oracles' contracts; the instantiation plugs in the proved models (forward lazy DFA, Pike VM,
literal-necessity checker) and leaves the reverse DFA search as the contract `RevDfaContract` (its language side is
`C02_reverse_automaton_language`; the reverse search LOOP of dfa/lazy is not modelled).  The check replays the model
with brute-force oracles against the real searcher on every generated pattern that selects the strategy. -/

/-- under the component contracts the strategy returns exactly the reference's leftmost-first span, for every haystack and
    every start offset (whatever the cut-off / give-up behaviour of the reverse scans) -/
theorem C02_revSuffix_find_eq_reference {N : NFA} {cfg : Dfa.Config} (H : RevSuffix.NfaHyp N cfg) {P : RevSuffix.Params}
    (hL : 0 < P.suffix.size) (hmz : P.matchStartZero = false) (hlit : Lit.checkSuffix N [P.suffix.toList] = true)
    (hlb : P.lineBounded = true → ∀ (h : Bytes) s e, s ≤ h.size → Accepts N h s e → ∀ i, s ≤ i → i < e → h.at i ≠ 10)
    {revL : Bytes → Nat → Nat → Nat → RevSuffix.RevAnswer} {revF : Bytes → Nat → Nat → Option Nat}
    {h : Bytes} (hb : Dfa.BytesOK h) (C : RevSuffix.RevDfaContract N revL revF h) {at_ : Nat} (hat : at_ ≤ h.size) :
    RevSuffix.findIndicesAt (RevSuffix.realOracles N cfg P.suffix revL revF) P h at_ = btSearchAt N h at_ :=
  RevSuffix.C14_revSuffix_find_eq_reference H hL hmz hlit hlb hb C hat

theorem C02_revSuffix_isMatch_iff {N : NFA} {cfg : Dfa.Config} (H : RevSuffix.NfaHyp N cfg) {P : RevSuffix.Params}
    (hL : 0 < P.suffix.size) (hlit : Lit.checkSuffix N [P.suffix.toList] = true)
    {revL : Bytes → Nat → Nat → Nat → RevSuffix.RevAnswer} {revF : Bytes → Nat → Nat → Option Nat}
    {h : Bytes} (hb : Dfa.BytesOK h) (C : RevSuffix.RevDfaContract N revL revF h) :
    RevSuffix.isMatch (RevSuffix.realOracles N cfg P.suffix revL revF) P h = true ↔ ∃ i j, i ≤ h.size ∧ Accepts N h i j :=
  RevSuffix.C14_revSuffix_isMatch_iff H hL hlit hb C

/-- the anti-quadratic guard works: the windows of the bounded reverse scans are disjoint, so all reverse scans together
    read at most 2·(|h| - at) bytes and the prefilter is called at most |h| - at times -/
theorem C02_revSuffix_linear_reverse_work {O : RevSuffix.Oracles} (P : RevSuffix.Params) (h : Bytes) (at_ : Nat)
    (hpf : ∀ st p, O.pfFind h st = some p → st ≤ p) (hfw : ∀ a e, O.fwdEnd h a = some e → e ≤ h.size) (hat : at_ ≤ h.size) :
    (RevSuffix.findIndicesAtT O P h at_).2.revCost ≤ 2 * (h.size - at_) ∧
    (RevSuffix.findIndicesAtT O P h at_).2.pfCalls ≤ h.size - at_ :=
  RevSuffix.revCost_le (O := O) (P := P) (h := h) hpf hfw hat

end Cx.C02
