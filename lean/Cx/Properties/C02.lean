import Cx.Proofs.Reverse
import Cx.Proofs.RevSuffixInst
import Cx.Proofs.RevInnerInst
import Cx.Proofs.RevAnchored
import Cx.Proofs.RevSuffixSet
import Cx.Proofs.RevSuffixSetInst
import Cx.Proofs.MultilineRevSuffix
import Cx.Proofs.RevSuffixDfa
import Cx.Proofs.MetaFindInst
import Cx.Proofs.Compile
import Cx.Proofs.Nfa
/-
  C02 — first-match location is the leftmost(-first) match (the part that is proved).

  For the modelled fragment: the span reported by the backtracker model on the compiled NFA is a match of the AST,
  its start is the leftmost start at or after the search offset that has any match, and `none` is reported exactly when
  nothing matches from there on.  Which END is chosen among the matches at that start is the priority order of the
  automaton (left branch of every split first); the backtracker model implements it by construction and is the
  executable reference all engines are compared with (C14 tie) and regexp is compared with (C02 tie); equality of that
  order with regexp's is validated by correspondence, not proved — hence `_partial`.
-/
namespace Cx.C02
open Cx Cx.Nfa Cx.Compile

theorem C02_span_is_match_and_leftmost_partial {cfg : Config} {re : Regex} {N : NFA} (hc : compileTop cfg re = some N)
    (hw : Regex.AltOK re) (hsz : N.states.size ≤ invalid) (h : Bytes) (at_ s e : Nat) (hat : at_ ≤ h.size)
    (hr : btSearchAt N h at_ = some (s, e)) :
    at_ ≤ s ∧ s ≤ e ∧ e ≤ h.size ∧ Regex.M re h s e ∧ ∀ i j, at_ ≤ i → i < s → ¬ Regex.M re h i j := by
  obtain ⟨h1, h2, h3, h4⟩ := btSearchAt_sound N h at_ s e hr
  refine ⟨h1, h2, h3, (compile_lang hc hw hsz h s e).mp h4, ?_⟩
  intro i j hi hlt hM
  exact (btSearchAt_leftmost N h at_ hat).1 s e hr i j hi hlt ((compile_lang hc hw hsz h i j).mpr hM)

theorem C02_none_iff_no_match {cfg : Config} {re : Regex} {N : NFA} (hc : compileTop cfg re = some N)
    (hw : Regex.AltOK re) (hsz : N.states.size ≤ invalid) (h : Bytes) (at_ : Nat) (hat : at_ ≤ h.size) :
    btSearchAt N h at_ = none ↔ ∀ i j, at_ ≤ i → i ≤ h.size → ¬ Regex.M re h i j := by
  constructor
  · intro hn i j hi hle hM
    exact (btSearchAt_leftmost N h at_ hat).2 hn i j hi hle ((compile_lang hc hw hsz h i j).mpr hM)
  · intro hall
    cases hs : btSearchAt N h at_ with
    | none => rfl
    | some p =>
      obtain ⟨s, e⟩ := p
      obtain ⟨h1, h2, h3, h4⟩ := btSearchAt_sound N h at_ s e hs
      exact absurd ((compile_lang hc hw hsz h s e).mp h4) (hall s e h1 (by omega))

/-! #### start location through the reverse automaton (`nfa/reverse.go`: ReverseAnchored / Reverse)

The meta engine finds the START of a match by running a DFA over the reverse automaton backwards from the match end.
`Cx.Rev.reverse` is a state-by-state transliteration of `reverseWithOptions` (the check compares its output literally with
the automaton the real code builds for every look-free pattern it generates).  `AcceptsA` is the path relation in which a
sparse state may take ANY matching transition (what the Pike VM and the lazy DFA do; the construction merges byte edges into
sparse states with overlapping ranges, so first-match acceptance would be the wrong reference — see
`Cx.Rev.overlap_needs_all_transitions`). -/

/-- reversing the automaton reverses the language, span by span: the reverse automaton, run on the reversed haystack from the
    mirror image of `e`, accepts up to the mirror image of `s` exactly when the forward automaton accepts [s, e) -/
theorem C02_reverse_automaton_language {N : NFA} (H : Rev.RevHyp N) (a : Bool) (h : Bytes) {s e : Nat} (hs : s ≤ h.size)
    (he : e ≤ h.size) :
    Rev.AcceptsA (Rev.reverse N a) (Rev.revB h) (h.size - e) (h.size - s) ↔ Rev.AcceptsA N h s e :=
  Rev.reverse_accepts H a h hs he

/-- hence the leftmost start for a fixed end is the LONGEST reverse match from that end — which is what the reverse DFA
    (run in longest mode) reports -/
theorem C02_leftmost_start_is_longest_reverse_match {N : NFA} (H : Rev.RevHyp N) (a : Bool) (h : Bytes) {s e : Nat}
    (hs : s ≤ h.size) (he : e ≤ h.size) :
    (Rev.AcceptsA N h s e ∧ ∀ s', s' < s → ¬ Rev.AcceptsA N h s' e) ↔
      (Rev.AcceptsA (Rev.reverse N a) (Rev.revB h) (h.size - e) (h.size - s) ∧
        ∀ j, h.size - s < j → j ≤ h.size → ¬ Rev.AcceptsA (Rev.reverse N a) (Rev.revB h) (h.size - e) j) :=
  Rev.leftmost_start_is_longest_reverse H a h hs he

/-! #### a strategy of the meta engine: reverse suffix (`meta/reverse_suffix.go`)

`Cx.RevSuffix` transliterates the candidate loop (prefilter on the suffix literal, bounded reverse scans with the
anti-quadratic guard, forward search for the span, Pike fallback, the `.*literal` shortcut) over component oracles.  The
theorems are RELATIVE to the oracles' contracts; the instantiation plugs in the proved models (forward lazy DFA, Pike VM,
literal-necessity checker).  `C02_revSuffix_find_eq_reference` leaves the reverse DFA search as the contract
`RevDfaContract`; `C02_revSuffix_find_eq_reference_closed` (below) discharges it with the model of the real reverse
searches of dfa/lazy (`Cx.Model.DfaRev`).  The check replays the model with brute-force oracles against the real searcher
on every generated pattern that selects the strategy. -/

/-- under the component contracts the strategy returns exactly the reference's leftmost-first span, for every haystack and
    every start offset (whatever the cut-off / give-up behaviour of the reverse scans) -/
theorem C02_revSuffix_find_eq_reference {N : NFA} {cfg : Dfa.Config} (H : RevSuffix.NfaHyp N cfg) {P : RevSuffix.Params}
    (hL : 0 < P.suffix.size) (hmz : P.matchStartZero = false) (hlit : Lit.checkSuffix N [P.suffix.toList] = true)
    (hlb : P.lineBounded = true → ∀ (h : Bytes) s e, s ≤ h.size → Accepts N h s e → ∀ i, s ≤ i → i < e → h.at i ≠ 10)
    {revL : Bytes → Nat → Nat → Nat → RevSuffix.RevAnswer} {revF : Bytes → Nat → Nat → Option Nat}
    {h : Bytes} (hb : Dfa.BytesOK h) (C : RevSuffix.RevDfaContract N revL revF h) {at_ : Nat} (hat : at_ ≤ h.size) :
    RevSuffix.findIndicesAt (RevSuffix.realOracles N cfg P.suffix revL revF) P h at_ = btSearchAt N h at_ :=
  RevSuffix.C14_revSuffix_find_eq_reference H hL hmz hlit hlb hb C hat

theorem C02_revSuffix_isMatch_iff {N : NFA} {cfg : Dfa.Config} (H : RevSuffix.NfaHyp N cfg) {P : RevSuffix.Params}
    (hL : 0 < P.suffix.size) (hlit : Lit.checkSuffix N [P.suffix.toList] = true)
    {revL : Bytes → Nat → Nat → Nat → RevSuffix.RevAnswer} {revF : Bytes → Nat → Nat → Option Nat}
    {h : Bytes} (hb : Dfa.BytesOK h) (C : RevSuffix.RevDfaContract N revL revF h) :
    RevSuffix.isMatch (RevSuffix.realOracles N cfg P.suffix revL revF) P h = true ↔ ∃ i j, i ≤ h.size ∧ Accepts N h i j :=
  RevSuffix.C14_revSuffix_isMatch_iff H hL hlit hb C

/-- the anti-quadratic guard works: the windows of the bounded reverse scans are disjoint, so all reverse scans together
    read at most 2·(|h| - at) bytes and the prefilter is called at most |h| - at times -/
theorem C02_revSuffix_linear_reverse_work {O : RevSuffix.Oracles} (P : RevSuffix.Params) (h : Bytes) (at_ : Nat)
    (hpf : ∀ st p, O.pfFind h st = some p → st ≤ p) (hfw : ∀ a e, O.fwdEnd h a = some e → e ≤ h.size) (hat : at_ ≤ h.size) :
    (RevSuffix.findIndicesAtT O P h at_).2.revCost ≤ 2 * (h.size - at_) ∧
    (RevSuffix.findIndicesAtT O P h at_).2.pfCalls ≤ h.size - at_ :=
  RevSuffix.revCost_le (O := O) (P := P) (h := h) hpf hfw hat

/-! #### the reverse lazy-DFA searches (`dfa/lazy/lazy.go`: SearchReverse / SearchReverseLimited / IsMatchReverse)

`Cx.Model.DfaRev` transliterates the three searches (4x unrolled block, single-byte loops, start state, cache, the NFA
fallback `reverseWalk`) for a DFA configured with `BreakAtMatch = false`, as every reverse DFA is.  (a) the cache is
invisible; (b) the uncached search on a look-free, rune-free automaton `R` returns the LEAST `s ∈ [start, end]` such that `R`
accepts `h[end-1] … h[s]` (`AcceptsA`-style reference: every matching sparse transition is followed — reverse automata have
overlapping sparse ranges); (c) on `R = nfa.Reverse(N)` / `nfa.ReverseAnchored(N)` that is the leftmost start of a match of
`N` ending at `end`. -/

/-- (a) `SearchReverse` and `IsMatchReverse` do not depend on the cache; `SearchReverseLimited` only in that the DFA loop
    may answer -2 (`SearchReverseLimitedQuadratic`) where the NFA fallback already knows the start `minStart + 1`
    (witness: `Cx.Dfa.limited_cache_dependent`) -/
theorem C02_reverse_search_memo_invisible {R : NFA} {cfg : Dfa.Config} {h : Bytes} (hC : Dfa.ClassSound R cfg)
    (hb : Dfa.BytesOK h) {c : Dfa.Cache} (hI : Dfa.Inv R cfg c) (start e minStart : Nat) :
    (Dfa.searchReverseC R cfg c h start e).1 = Dfa.searchReverseU R cfg h start e ∧
    (Dfa.isMatchReverseC R cfg c h start e).1 = Dfa.isMatchReverseU R cfg h start e ∧
    ((Dfa.searchReverseLimitedC R cfg c h start e minStart).1 = Dfa.searchReverseLimitedU R cfg h start e minStart ∨
     ((Dfa.searchReverseLimitedC R cfg c h start e minStart).1 = .cutOff ∧ start < minStart ∧
        Dfa.searchReverseLimitedU R cfg h start e minStart = .found (minStart + 1))) ∧
    Dfa.Inv R cfg (Dfa.searchReverseC R cfg c h start e).2 ∧ Dfa.Inv R cfg (Dfa.isMatchReverseC R cfg c h start e).2 ∧
    Dfa.Inv R cfg (Dfa.searchReverseLimitedC R cfg c h start e minStart).2 :=
  ⟨(Dfa.searchReverseC_eq hC hb hI start e).2, (Dfa.isMatchReverseC_eq hC hb hI start e).2,
   (Dfa.searchReverseLimitedC_eq hC hb hI start e minStart).2, (Dfa.searchReverseC_eq hC hb hI start e).1,
   (Dfa.isMatchReverseC_eq hC hb hI start e).1, (Dfa.searchReverseLimitedC_eq hC hb hI start e minStart).1⟩

/-- (b) the uncached reverse search is the longest reverse match: the least accepted start, -1 iff there is none -/
theorem C02_reverse_search_is_longest_reverse_match {R : NFA} {cfg : Dfa.Config} (H : Dfa.RevDfaHyp R cfg) (h : Bytes)
    {start e : Nat} (hse : start < e) (he : e ≤ h.size) :
    ∃ o, Dfa.searchReverseU R cfg h start e = Dfa.ofLast o ∧ Dfa.LeastIn (Dfa.RAcc R h e) start e o :=
  Dfa.searchReverseU_spec H h hse he

/-- (b) with the anti-quadratic bound: -2 exactly when `minStart > start` and the automaton is alive after every byte the
    bounded scan may read (`h[end-1] … h[minStart]`); otherwise the exact answer -/
theorem C02_reverse_search_limited {R : NFA} {cfg : Dfa.Config} (H : Dfa.RevDfaHyp R cfg) (h : Bytes)
    {start e minStart : Nat} (hse : start < e) (he : e ≤ h.size) :
    ((start < minStart ∧ ∀ at_, minStart ≤ at_ → at_ < e → Dfa.RAlive R h e at_) →
        Dfa.searchReverseLimitedU R cfg h start e minStart = .cutOff) ∧
    (¬ (start < minStart ∧ ∀ at_, minStart ≤ at_ → at_ < e → Dfa.RAlive R h e at_) →
        ∃ o, Dfa.searchReverseLimitedU R cfg h start e minStart = Dfa.ofLast o ∧ Dfa.LeastIn (Dfa.RAcc R h e) start e o) :=
  Dfa.reverseWalk_spec H h hse he

/-- (c) on the reverse automaton of `N` (either variant) the reverse search returns the LEFTMOST start of a match of `N`
    that ends at `e`; the reverse automaton is look-free and rune-free by construction -/
theorem C02_reverse_search_leftmost_start {N : NFA} (H : Rev.RevHyp N) (a : Bool) {rcfg : Dfa.Config}
    (hbrk : rcfg.breakAtMatch = false) (h : Bytes) {start e : Nat} (hse : start < e) (he : e ≤ h.size) :
    ∃ o, Dfa.searchReverseU (Rev.reverse N a) rcfg h start e = Dfa.ofLast o ∧
      Dfa.LeastIn (fun s => Rev.AcceptsA N h s e) start e o :=
  RevSuffix.reverse_search_leftmost_start H a hbrk h hse he

/-- **the reverse-suffix strategy over component MODELS only** — forward lazy DFA, reverse lazy DFA
    (`SearchReverseLimited` / `SearchReverse` of `Cx.Model.DfaRev` on `nfa.Reverse(N)` of `Cx.Model.Reverse`, configured
    with `BreakAtMatch = false`), Pike VM, literal search — returns exactly the reference's leftmost-first span -/
theorem C02_revSuffix_find_eq_reference_closed {N : NFA} {cfg rcfg : Dfa.Config} (H : RevSuffix.NfaHyp N cfg)
    (hbrk : rcfg.breakAtMatch = false) {P : RevSuffix.Params} (hL : 0 < P.suffix.size) (hmz : P.matchStartZero = false)
    (hlit : Lit.checkSuffix N [P.suffix.toList] = true)
    (hlb : P.lineBounded = true → ∀ (h : Bytes) s e, s ≤ h.size → Accepts N h s e → ∀ i, s ≤ i → i < e → h.at i ≠ 10)
    {h : Bytes} (hb : Dfa.BytesOK h) {at_ : Nat} (hat : at_ ≤ h.size) :
    RevSuffix.findIndicesAt (RevSuffix.realOracles N cfg P.suffix (RevSuffix.revSearchLimited N rcfg)
      (RevSuffix.revSearchFull N rcfg)) P h at_ = btSearchAt N h at_ :=
  RevSuffix.C14_revSuffix_find_eq_reference_closed H hbrk hL hmz hlit hlb hb hat

/-- the same with the CACHED reverse searches, whatever caches (satisfying the cache invariant) the calls find -/
theorem C02_revSuffix_find_eq_reference_closed_cached {N : NFA} {cfg rcfg : Dfa.Config} (H : RevSuffix.NfaHyp N cfg)
    (hbrk : rcfg.breakAtMatch = false) (hC : Dfa.ClassSound (RevSuffix.revNfa N) rcfg) {P : RevSuffix.Params}
    (hL : 0 < P.suffix.size) (hmz : P.matchStartZero = false) (hlit : Lit.checkSuffix N [P.suffix.toList] = true)
    (hlb : P.lineBounded = true → ∀ (h : Bytes) s e, s ≤ h.size → Accepts N h s e → ∀ i, s ≤ i → i < e → h.at i ≠ 10)
    {h : Bytes} (hb : Dfa.BytesOK h)
    {cl : Bytes → Nat → Nat → Nat → Dfa.Cache} {cf : Bytes → Nat → Nat → Dfa.Cache}
    (hcl : ∀ lo e m, Dfa.Inv (RevSuffix.revNfa N) rcfg (cl h lo e m))
    (hcf : ∀ lo e, Dfa.Inv (RevSuffix.revNfa N) rcfg (cf h lo e)) {at_ : Nat} (hat : at_ ≤ h.size) :
    RevSuffix.findIndicesAt (RevSuffix.realOracles N cfg P.suffix (RevSuffix.revSearchLimitedC N rcfg cl)
      (RevSuffix.revSearchFullC N rcfg cf)) P h at_ = btSearchAt N h at_ :=
  RevSuffix.C14_revSuffix_find_eq_reference_closed_cached H hbrk hC hL hmz hlit hlb hb hcl hcf hat

theorem C02_revSuffix_isMatch_iff_closed {N : NFA} {cfg rcfg : Dfa.Config} (H : RevSuffix.NfaHyp N cfg)
    (hbrk : rcfg.breakAtMatch = false) {P : RevSuffix.Params} (hL : 0 < P.suffix.size)
    (hlit : Lit.checkSuffix N [P.suffix.toList] = true) {h : Bytes} (hb : Dfa.BytesOK h) :
    RevSuffix.isMatch (RevSuffix.realOracles N cfg P.suffix (RevSuffix.revSearchLimited N rcfg)
      (RevSuffix.revSearchFull N rcfg)) P h = true ↔ ∃ i j, i ≤ h.size ∧ Accepts N h i j :=
  RevSuffix.C14_revSuffix_isMatch_iff_closed H hbrk hL hlit hb

/-! #### reverse inner (`meta/reverse_inner.go`)

`Cx.RevInner` transliterates `findCandidate` / `findIndicesAtImpl` / `searchSpan` / `IsMatch` (inner-literal prefilter, reverse
DFA of the PREFIX portion bounded by `minMatchStart`, forward DFA of the whole pattern anchored at the prefix start with the
stop-at guard `minPreStart`, the `exactStart` / `lineBounded` / `.*literal.*` shortcuts, the fallbacks) over component oracles.
The instantiation plugs in the proved models of the forward lazy DFA (unanchored, anchored, earliest) and the Pike VM; the two
reverse DFAs (of the prefix automaton and of the whole automaton) are the contract `RevDfaContract`, as for reverse suffix. -/

/-- under the component contracts and the split hypothesis (the pattern is PREFIX · SUFFIX, SUFFIX starts with an inner
    literal) the strategy returns exactly the reference's leftmost-first span, for every haystack and every start offset,
    whatever the cut-off / give-up / stop-at behaviour of the components -/
theorem C02_revInner_find_eq_reference {N Npre : NFA} {cfg cfgp : Dfa.Config} (H : RevSuffix.NfaHyp N cfg)
    (Hp : RevSuffix.NfaHyp Npre cfgp) {Suf : Bytes → Nat → Nat → Prop} {lits : List Bytes} (SH : RevInner.SplitHyp N Npre Suf lits)
    {P : RevInner.Params} (hd : P.dotStarLiteral = none)
    (hnull : (P.prefixNullable = false → ∀ (h : Bytes) a, ¬ Accepts Npre h a a) ∧
      (P.startAnchored = true → ∀ (h : Bytes) a, 0 < a → ¬ Accepts Npre h a a))
    (hex : P.exactStart = true → ∀ (h : Bytes) s p s' p', s ≤ h.size → Accepts Npre h s p → Accepts Npre h s' p' → s ≤ s' →
      p' ≤ p → Accepts Npre h s p')
    (hlb : P.lineBounded = true → ∀ (h : Bytes) s e, s ≤ h.size → Accepts N h s e → ∀ i, s ≤ i → i < e → h.at i ≠ 10)
    {revL : Bytes → Nat → Nat → Nat → RevSuffix.RevAnswer} {revF : Bytes → Nat → Nat → Option Nat} {stop : Bytes → Nat → Nat}
    {revF' : Bytes → Nat → Nat → Option Nat} {revL' : Bytes → Nat → Nat → Nat → RevSuffix.RevAnswer}
    {h : Bytes} (hb : Dfa.BytesOK h) (Cp : RevSuffix.RevDfaContract Npre revL revF' h) (C : RevSuffix.RevDfaContract N revL' revF h)
    {at_ : Nat} (hat : at_ ≤ h.size) :
    RevInner.findIndicesAt (RevInner.realOracles N cfg lits revL revF stop) P h at_ = btSearchAt N h at_ :=
  RevInner.C14_revInner_find_eq_reference H Hp SH hd hnull hex hlb hb Cp C hat

theorem C02_revInner_isMatch_iff {N Npre : NFA} {cfg cfgp : Dfa.Config} (H : RevSuffix.NfaHyp N cfg)
    (Hp : RevSuffix.NfaHyp Npre cfgp) {Suf : Bytes → Nat → Nat → Prop} {lits : List Bytes} (SH : RevInner.SplitHyp N Npre Suf lits)
    {P : RevInner.Params} (hd : P.dotStarLiteral = none)
    (hnull : (P.prefixNullable = false → ∀ (h : Bytes) a, ¬ Accepts Npre h a a) ∧
      (P.startAnchored = true → ∀ (h : Bytes) a, 0 < a → ¬ Accepts Npre h a a))
    {revL : Bytes → Nat → Nat → Nat → RevSuffix.RevAnswer} {revF : Bytes → Nat → Nat → Option Nat} {stop : Bytes → Nat → Nat}
    {revF' : Bytes → Nat → Nat → Option Nat} {revL' : Bytes → Nat → Nat → Nat → RevSuffix.RevAnswer}
    {h : Bytes} (hb : Dfa.BytesOK h) (Cp : RevSuffix.RevDfaContract Npre revL revF' h) (C : RevSuffix.RevDfaContract N revL' revF h) :
    RevInner.isMatch (RevInner.realOracles N cfg lits revL revF stop) P h = true ↔ ∃ i j, i ≤ h.size ∧ Accepts N h i j :=
  RevInner.C14_revInner_isMatch_iff H Hp SH hd hnull hb Cp C

/-- the `.*literal.*` shortcut (`dotStarLiteral`), relative to what `dotStarLiteralDotStar` must guarantee (`ShapeSpec`) -/
theorem C02_revInner_shape_find_eq_reference {O : RevInner.Oracles} {P : RevInner.Params} {lit : Bytes}
    {Mt : Bytes → Nat → Nat → Prop} {ref : Bytes → Nat → Option (Nat × Nat)} {h : Bytes}
    (D : RevInner.ShapeSpec O P lit Mt ref h) {at_ : Nat} (hat : at_ ≤ h.size) :
    RevInner.findIndicesAt O P h at_ = ref h at_ ∧ RevInner.isMatch O P h = (ref h 0).isSome :=
  ⟨RevInner.shape_find_eq_ref D hat, RevInner.shape_isMatch_eq_ref D⟩

/-- the anti-quadratic guards work: `minMatchStart` keeps the windows of the bounded reverse scans apart and `minPreStart`
    (stop-at) bounds the anchored forward scans: per call at most 2·(|h| - at) bytes in reverse scans, at most 2·(|h| - at)
    bytes in anchored forward scans, at most |h| + 1 - at prefilter calls, at most one unanchored forward scan -/
theorem C02_revInner_linear_work {O : RevInner.Oracles} (P : RevInner.Params) {h : Bytes} (C : RevInner.CostSpec O h)
    {at_ : Nat} (hat : at_ ≤ h.size) :
    (RevInner.findIndicesAtT O P h at_).2.revCost ≤ 2 * (h.size - at_) ∧
    (RevInner.findIndicesAtT O P h at_).2.anchCost ≤ 2 * (h.size - at_) ∧
    (RevInner.findIndicesAtT O P h at_).2.pfCalls ≤ h.size + 1 - at_ ∧
    (∀ a, (RevInner.findIndicesAtT O P h at_).2.fwd = some a → at_ ≤ a) :=
  RevInner.cost_le (P := P) C hat

/-- a concrete instance of all hypotheses: `[a-z]+@[a-z]+` -/
theorem C02_revInner_closed_instance (stop : Bytes → Nat → Nat) {h : Bytes} (hb : Dfa.BytesOK h) {at_ : Nat} (hat : at_ ≤ h.size) :
    RevInner.findIndicesAt (RevInner.realOracles RevInner.exN Dfa.Config.plain [#[64]] (RevSuffix.specRevLimited RevInner.exNpre)
        (RevSuffix.specRevFull RevInner.exN) stop) { innerLen := 1, exactStart := true, lineBounded := true } h at_ =
      btSearchAt RevInner.exN h at_ :=
  RevInner.C14_revInner_closed_instance stop hb hat

/-! #### reverse anchored (`meta/reverse_anchored.go`), reverse suffix set (`meta/reverse_suffix_set.go`), multiline reverse
suffix (`meta/reverse_suffix_multiline.go`)

The three remaining reverse strategies, each transliterated over abstract component oracles and proved equal to the reference
search RELATIVE to the component contracts and to an explicit hypothesis about the pattern (the thing the strategy selection in
`meta/strategy.go` must guarantee).  Every hypothesis has a machine-checked counter-model showing what goes wrong without it
and a concrete instance satisfying all of them (`Cx.Proofs.RevAnchored`, `…RevSuffixSet`, `…MultilineRevSuffix`). -/

/-- a pattern all of whose matches end at the end of the haystack: one reverse scan from the end finds the reference's span -/
theorem C02_revAnchored_find_eq_reference {O : RevAnchored.Oracles} {Mt : Bytes → Nat → Nat → Prop}
    {ref : Bytes → Nat → Option (Nat × Nat)} {h : Bytes} (S : RevAnchored.Spec O Mt ref h) :
    RevAnchored.find O h = ref h 0 ∧ RevAnchored.isMatch O h = (ref h 0).isSome :=
  ⟨RevAnchored.find_eq_ref S, RevAnchored.isMatch_eq_ref S⟩

/-- a pattern every match of which ends with one of several literals: the candidate loop over all literals standing at a
    prefilter position returns the reference's span, whatever the cut-off / give-up behaviour of the reverse scans -/
theorem C02_revSuffixSet_find_eq_reference {O : RevSuffix.Oracles} {P : RevSuffixSet.Params} {Mt : Bytes → Nat → Nat → Prop}
    {ref : Bytes → Nat → Option (Nat × Nat)} {h : Bytes} (S : RevSuffixSet.Spec O P Mt ref h) (hmz : P.matchStartZero = false)
    {at_ : Nat} (hat : at_ ≤ h.size) :
    RevSuffixSet.findIndicesAt O P h at_ = ref h at_ ∧ RevSuffixSet.isMatch O P h = (ref h 0).isSome :=
  ⟨RevSuffixSet.findIndicesAt_eq_ref S hmz hat, RevSuffixSet.isMatch_eq_ref S⟩

/-- the same with the real component models plugged in (forward lazy DFA, Pike VM, literal checker; the reverse DFA is the
    contract `RevDfaContract`), as for the single-suffix strategy -/
theorem C02_revSuffixSet_find_eq_reference_real {N : NFA} {cfg : Dfa.Config} (H : RevSuffix.NfaHyp N cfg) {P : RevSuffixSet.Params}
    (hL : ∀ l, l ∈ P.lits → 0 < l.size) (hmz : P.matchStartZero = false)
    (hlit : Lit.checkSuffix N (P.lits.map Array.toList) = true)
    (hlb : P.lineBounded = true → ∀ (h : Bytes) s e, s ≤ h.size → Accepts N h s e → ∀ i, s ≤ i → i < e → h.at i ≠ 10)
    {revL : Bytes → Nat → Nat → Nat → RevSuffix.RevAnswer} {revF : Bytes → Nat → Nat → Option Nat}
    {h : Bytes} (hb : Dfa.BytesOK h) (C : RevSuffix.RevDfaContract N revL revF h) {at_ : Nat} (hat : at_ ≤ h.size) :
    RevSuffixSet.findIndicesAt (RevSuffixSet.realOracles N cfg P.lits revL revF) P h at_ = btSearchAt N h at_ :=
  RevSuffixSet.C14_revSuffixSet_find_eq_reference H hL hmz hlit hlb hb C hat

/-- the byte-search shortcut for `.*(?:lit1|lit2|…)` (`matchStartZero`), relative to what `isDotStarLiteralSet` must guarantee -/
theorem C02_revSuffixSet_dotStar_eq_reference {O : RevSuffix.Oracles} {P : RevSuffixSet.Params} {Mt : Bytes → Nat → Nat → Prop}
    {ref : Bytes → Nat → Option (Nat × Nat)} {h : Bytes} (D : RevSuffixSet.DotStarSetSpec O P Mt ref h)
    (hmz : P.matchStartZero = true) {at_ : Nat} (hat : at_ ≤ h.size) : RevSuffixSet.findIndicesAt O P h at_ = ref h at_ :=
  RevSuffixSet.dotStar_eq_ref D hmz hat

/-- the anti-quadratic guard with K suffix literals: the bounded reverse scans of one call read at most K·(|h| - at) bytes
    (no hypothesis about the components is needed) -/
theorem C02_revSuffixSet_linear_reverse_work (O : RevSuffix.Oracles) (P : RevSuffixSet.Params) (h : Bytes) (at_ : Nat) :
    RevSuffix.windowsCost (RevSuffixSet.findIndicesAtT O P h at_).2 ≤ P.lits.length * (h.size - at_) :=
  RevSuffixSet.limited_cost_le at_

/-- a pattern that starts with `(?m)^`, cannot match '\n' and always contains a prefilter literal: the line-by-line
    search returns the reference's span (general patterns: verified by the anchored forward DFA) -/
theorem C02_multilineRevSuffix_find_eq_reference {O : MultilineRevSuffix.Oracles} {P : MultilineRevSuffix.Params}
    {Mt : Bytes → Nat → Nat → Prop} {IsLit : Bytes → Nat → Prop} {ref : Bytes → Nat → Option (Nat × Nat)} {h : Bytes}
    (S : MultilineRevSuffix.Spec O P Mt IsLit ref h) {at_ : Nat} (hat : at_ ≤ h.size) :
    MultilineRevSuffix.findIndicesAt O P h at_ = ref h at_ ∧ MultilineRevSuffix.isMatch O P h = (ref h 0).isSome :=
  ⟨MultilineRevSuffix.C_find_eq_ref S hat, MultilineRevSuffix.isMatch_eq_ref S.toCore (MultilineRevSuffix.lineOK_of_spec S)⟩

/-- the literal shape `(?m)^prefix.*suffix` / `.+`: decided by byte comparisons alone -/
theorem C02_multilineRevSuffix_shape_eq_reference {O : MultilineRevSuffix.Oracles} {P : MultilineRevSuffix.Params}
    {Mt : Bytes → Nat → Nat → Prop} {IsLit : Bytes → Nat → Prop} {ref : Bytes → Nat → Option (Nat × Nat)} {h : Bytes}
    (S : MultilineRevSuffix.ShapeSpec O P Mt IsLit ref h) {at_ : Nat} (hat : at_ ≤ h.size) :
    MultilineRevSuffix.findIndicesAt O P h at_ = ref h at_ :=
  MultilineRevSuffix.shape_find_eq_ref S hat

/-- no line is verified twice: the lines handed to `matchLine` by one call are disjoint and have at most |h| - at bytes together -/
theorem C02_multilineRevSuffix_linear_work {O : MultilineRevSuffix.Oracles} (P : MultilineRevSuffix.Params) {h : Bytes}
    (hpf : ∀ st p, O.pfFind h st = some p → st ≤ p ∧ p < h.size) {at_ : Nat} (hat : at_ ≤ h.size) :
    RevSuffix.windowsCost (MultilineRevSuffix.findIndicesAtT O P h at_).2 ≤ h.size - at_ :=
  MultilineRevSuffix.lines_cost_le (P := P) hpf hat

/-! #### the reverse strategies over component MODELS only

The two reverse lazy-DFA oracles of the reverse-inner and reverse-suffix-set strategies instantiated with the model of the real
reverse searches (`Cx.Model.DfaRev`, `BreakAtMatch = false`), whose contract is `RevSuffix.revDfa_contract`: no abstract
component is left. -/

theorem C02_revInner_find_eq_reference_closed {N Npre : NFA} {cfg cfgp rcfg rcfgp : Dfa.Config} (H : RevSuffix.NfaHyp N cfg)
    (Hp : RevSuffix.NfaHyp Npre cfgp) {Suf : Bytes → Nat → Nat → Prop} {lits : List Bytes} (SH : RevInner.SplitHyp N Npre Suf lits)
    {P : RevInner.Params} (hd : P.dotStarLiteral = none)
    (hnull : (P.prefixNullable = false → ∀ (h : Bytes) a, ¬ Accepts Npre h a a) ∧
      (P.startAnchored = true → ∀ (h : Bytes) a, 0 < a → ¬ Accepts Npre h a a))
    (hex : P.exactStart = true → ∀ (h : Bytes) s p s' p', s ≤ h.size → Accepts Npre h s p → Accepts Npre h s' p' → s ≤ s' →
      p' ≤ p → Accepts Npre h s p')
    (hlb : P.lineBounded = true → ∀ (h : Bytes) s e, s ≤ h.size → Accepts N h s e → ∀ i, s ≤ i → i < e → h.at i ≠ 10)
    (hbrk : rcfg.breakAtMatch = false) (hbrkp : rcfgp.breakAtMatch = false) {stop : Bytes → Nat → Nat}
    {h : Bytes} (hb : Dfa.BytesOK h) {at_ : Nat} (hat : at_ ≤ h.size) :
    RevInner.findIndicesAt (RevInner.realOracles N cfg lits (RevSuffix.revSearchLimited Npre rcfgp)
      (RevSuffix.revSearchFull N rcfg) stop) P h at_ = btSearchAt N h at_ :=
  C02_revInner_find_eq_reference H Hp SH hd hnull hex hlb hb (RevSuffix.revDfa_contract Npre hbrkp h)
    (RevSuffix.revDfa_contract N hbrk h) hat

theorem C02_revInner_isMatch_iff_closed {N Npre : NFA} {cfg cfgp rcfg rcfgp : Dfa.Config} (H : RevSuffix.NfaHyp N cfg)
    (Hp : RevSuffix.NfaHyp Npre cfgp) {Suf : Bytes → Nat → Nat → Prop} {lits : List Bytes} (SH : RevInner.SplitHyp N Npre Suf lits)
    {P : RevInner.Params} (hd : P.dotStarLiteral = none)
    (hnull : (P.prefixNullable = false → ∀ (h : Bytes) a, ¬ Accepts Npre h a a) ∧
      (P.startAnchored = true → ∀ (h : Bytes) a, 0 < a → ¬ Accepts Npre h a a))
    (hbrk : rcfg.breakAtMatch = false) (hbrkp : rcfgp.breakAtMatch = false) {stop : Bytes → Nat → Nat}
    {h : Bytes} (hb : Dfa.BytesOK h) :
    RevInner.isMatch (RevInner.realOracles N cfg lits (RevSuffix.revSearchLimited Npre rcfgp)
      (RevSuffix.revSearchFull N rcfg) stop) P h = true ↔ ∃ i j, i ≤ h.size ∧ Accepts N h i j :=
  C02_revInner_isMatch_iff H Hp SH hd hnull hb (RevSuffix.revDfa_contract Npre hbrkp h) (RevSuffix.revDfa_contract N hbrk h)

theorem C02_revSuffixSet_find_eq_reference_closed {N : NFA} {cfg rcfg : Dfa.Config} (H : RevSuffix.NfaHyp N cfg)
    {P : RevSuffixSet.Params} (hL : ∀ l, l ∈ P.lits → 0 < l.size) (hmz : P.matchStartZero = false)
    (hlit : Lit.checkSuffix N (P.lits.map Array.toList) = true)
    (hlb : P.lineBounded = true → ∀ (h : Bytes) s e, s ≤ h.size → Accepts N h s e → ∀ i, s ≤ i → i < e → h.at i ≠ 10)
    (hbrk : rcfg.breakAtMatch = false) {h : Bytes} (hb : Dfa.BytesOK h) {at_ : Nat} (hat : at_ ≤ h.size) :
    RevSuffixSet.findIndicesAt (RevSuffixSet.realOracles N cfg P.lits (RevSuffix.revSearchLimited N rcfg)
      (RevSuffix.revSearchFull N rcfg)) P h at_ = btSearchAt N h at_ :=
  C02_revSuffixSet_find_eq_reference_real H hL hmz hlit hlb hb (RevSuffix.revDfa_contract N hbrk h) hat

/-! #### the core dispatch of the meta engine (`meta/find_indices.go`): UseNFA / UseDFA / UseBoth / UseBoundedBacktracker

`Cx.MetaFind` transliterates `findIndicesNFA*`, `findIndicesDFA*`, `findIndicesBidirectionalDFA(Core|Longest)`,
`findIndicesAdaptive*`, `findIndicesBoundedBacktracker*` and the `FindIndices` / `FindIndicesAt` / `findIndicesAtWithState`
dispatch over component oracles (prefilter, forward / reverse lazy DFA, Pike VM, bounded backtrackers, first-byte set).  The
theorems are RELATIVE to the component contracts `MetaFind.OraclesOK` (prefilter never skips, forward DFA = end of the reference
match, reverse DFA = least start and total, Pike VM / backtracker = reference, …) plus explicit hypotheses on the engine flags;
each hypothesis has a machine-checked counter-model (`MetaFind.cex_*`); the three that reproduced on the real code at commit
83f9184 were repaired there (fffbd3b, ecab302, b09f397), the model follows, and they became `MetaFind.cex_*_fixed` witnesses:
the UseBoundedBacktracker theorems need neither `AsciiTailOK` nor leftmost-first mode any more (see the report of
`Cx.Proofs.MetaFind`).  The `_closed` versions plug in the component MODELS (`Cx.Proofs.MetaFindInst`).  The check
replays the model with the real engine's flags, the real prefilter's answers and brute-force engine oracles against the real
`Engine.FindIndicesAt` on every generated pattern that selects one of the four strategies. -/

/-- **two-pass bidirectional search**: the forward DFA yields the leftmost-first END, the reverse DFA the START — the result is
    the reference's span.  (`s' = s`: the reference start is the leftmost start of ANY match, and `[s, e)` is itself a match
    ending at `e`: `MetaFind.two_pass`.) -/
theorem C02_bidirectional_dfa_eq_reference {O : MetaFind.Oracles} {P : MetaFind.Params} {Mt : Bytes → Nat → Nat → Prop}
    {ref : Bytes → Nat → Option MetaFind.Span} {h : Bytes} (R : MetaFind.RefOK Mt ref h) (B : MetaFind.BiOK O Mt ref h)
    (hanch : P.alwaysAnchored = true → ∀ s e, s ≤ h.size → Mt h s e → s = 0) {at_ : Nat} (hat : at_ ≤ h.size) :
    MetaFind.bidirectional O P h at_ = ref h at_ ∧ MetaFind.bidirectionalCore O P h at_ = ref h at_ ∧
    MetaFind.bidirectionalLongest O h at_ = ref h at_ :=
  ⟨MetaFind.bidirectional_eq_ref R B hanch hat, MetaFind.bidirectionalCore_eq_ref R B hanch hat,
   MetaFind.bidirectionalLongest_eq_ref R B hat⟩

/-- the same over component MODELS only: forward lazy DFA (`SearchAt`), reverse lazy DFA (`SearchReverse` on the model of
    `nfa.ReverseAnchored(N)`, `BreakAtMatch = false`) -/
theorem C02_bidirectional_dfa_eq_reference_closed {N : NFA} {cfg rcfg : Dfa.Config} (H : RevSuffix.NfaHyp N cfg)
    (hbrk : rcfg.breakAtMatch = false) {P : MetaFind.Params} (hP : P.alwaysAnchored = Dfa.alwaysAnchored N)
    (pf : Bytes → Nat → Option Nat) {h : Bytes} (hb : Dfa.BytesOK h) {at_ : Nat} (hat : at_ ≤ h.size) :
    MetaFind.bidirectional (MetaFind.realOracles N cfg rcfg pf) P h at_ = btSearchAt N h at_ :=
  MetaFind.C02_bidirectional_dfa_eq_reference_closed H hbrk hP hb hat

/-- UseNFA: prefilter skip-ahead (only without partial coverage), bounded backtracker iff `CanHandle` and `!canMatchEmpty`,
    else Pike VM -/
theorem C02_findIndicesNFA_eq_reference {O : MetaFind.Oracles} {P : MetaFind.Params} {Mt : Bytes → Nat → Nat → Prop}
    {ref : Bytes → Nat → Option MetaFind.Span} {h : Bytes} (S : MetaFind.OraclesOK O P Mt ref h) {at_ : Nat}
    (hat : at_ ≤ h.size) :
    MetaFind.findIndicesNFA O P h = ref h 0 ∧ MetaFind.findIndicesNFAAt O P h at_ = ref h at_ :=
  ⟨MetaFind.findIndicesNFA_ok S, MetaFind.findIndicesNFAAt_ok S hat⟩

/-- UseDFA (leftmost-first mode; in leftmost-longest mode the functions ARE the Pike VM: `MetaFind.findIndicesDFA_longest`):
    literal fast path, prefilter skip-ahead + two-pass search, `IsMatch` + Pike VM.  The prefilter must not have partial
    coverage (the functions do not read the flag).  The candidate loop of `findIndicesDFA` is unreachable
    (`MetaFind.findIndicesDFA_candLoop_dead`) and correct (`MetaFind.candLoop_eq_ref`). -/
theorem C02_findIndicesDFA_eq_reference {O : MetaFind.Oracles} {P : MetaFind.Params} {Mt : Bytes → Nat → Nat → Prop}
    {ref : Bytes → Nat → Option MetaFind.Span} {h : Bytes} (S : MetaFind.OraclesOK O P Mt ref h) (hl : P.longest = false)
    (D : MetaFind.DfaFlags P) {at_ : Nat} (hat : at_ ≤ h.size) :
    MetaFind.findIndicesDFA O P h = ref h 0 ∧ MetaFind.findIndicesDFAAt O P h at_ = ref h at_ :=
  ⟨MetaFind.findIndicesDFA_ok S hl D, MetaFind.findIndicesDFAAt_ok S hl D hat⟩

/-- UseBoth: prefilter (`FindMatch` / literal fast path / Pike VM from the candidate), DFA existence check, NFA fallback -/
theorem C02_findIndicesAdaptive_eq_reference {O : MetaFind.Oracles} {P : MetaFind.Params} {Mt : Bytes → Nat → Nat → Prop}
    {ref : Bytes → Nat → Option MetaFind.Span} {h : Bytes} (S : MetaFind.OraclesOK O P Mt ref h)
    (hcov : P.hasPrefilter = true → P.prefilterPartialCoverage = false) {at_ : Nat} (hat : at_ ≤ h.size) :
    MetaFind.findIndicesAdaptive O P h = ref h 0 ∧ MetaFind.findIndicesAdaptiveAt O P h at_ = ref h at_ :=
  ⟨MetaFind.findIndicesAdaptive_ok S hcov, MetaFind.findIndicesAdaptiveAt_ok S hcov hat⟩

/-- UseBoundedBacktracker, BOTH modes (in leftmost-longest mode `ref` is the leftmost-longest reference, as for UseNFA):
    first-byte rejection, `CanHandle` fallbacks (two-pass search in leftmost-first mode only — `!e.longest`, ecab302 — else
    Pike VM), ASCII variant (the check reads the whole remaining input — fffbd3b — so no hypothesis about unread bytes; the
    ASCII backtracker honours the mode — b09f397), slices, windows — under `SliceInv` (slicing at `at` keeps the reference)
    and `WindowOK` (the windowed backtracker's hit is the reference's span; only when the two-pass fallback is not taken) -/
theorem C02_findIndicesBoundedBacktracker_eq_reference {O : MetaFind.Oracles} {P : MetaFind.Params}
    {Mt : Bytes → Nat → Nat → Prop} {ref : Bytes → Nat → Option MetaFind.Span} {h : Bytes}
    (S : MetaFind.OraclesOK O P Mt ref h) {at_ : Nat} (hat : at_ ≤ h.size)
    (hsl : P.hasBT = true → MetaFind.SliceInv ref h at_)
    (hw : P.hasBT = true → MetaFind.dfaFallback P = false → MetaFind.WindowOK O ref h at_) :
    MetaFind.findIndicesBT O P h = ref h 0 ∧ MetaFind.findIndicesBTAt O P h at_ = ref h at_ ∧
    MetaFind.findIndicesBTAtWithState O P h at_ = ref h at_ :=
  ⟨MetaFind.findIndicesBT_ok S, MetaFind.findIndicesBTAt_ok S hat hsl, MetaFind.findIndicesBTAtWithState_ok S hat hsl hw⟩

/-- the dispatch: `FindIndices`, `FindIndicesAt`, `findIndicesAtWithState` for the four strategies -/
theorem C02_metaFind_dispatch_eq_reference {O : MetaFind.Oracles} {P : MetaFind.Params} {Mt : Bytes → Nat → Nat → Prop}
    {ref : Bytes → Nat → Option MetaFind.Span} {h : Bytes} (S : MetaFind.OraclesOK O P Mt ref h) (st : MetaFind.Strategy)
    {at_ : Nat} (hat : at_ ≤ h.size) (h0 : MetaFind.StratFlags O P ref h 0 st) (hf : MetaFind.StratFlags O P ref h at_ st) :
    MetaFind.findIndices O P st h = ref h 0 ∧ MetaFind.findIndicesAt O P st h at_ = ref h at_ ∧
    MetaFind.findIndicesAtWithState O P st h at_ = ref h at_ :=
  ⟨MetaFind.findIndices_eq_ref S st h0, MetaFind.findIndicesAt_eq_ref S st hat hf,
   MetaFind.findIndicesAtWithState_eq_ref S st hat hf⟩

/-- the dispatch over component MODELS only (forward / reverse lazy DFA, Pike VM, backtracker), prefilter relative to `PfOK` -/
theorem C02_metaFind_dispatch_eq_reference_closed {N : NFA} {cfg rcfg : Dfa.Config} (H : RevSuffix.NfaHyp N cfg)
    (hbrk : rcfg.breakAtMatch = false) {P : MetaFind.Params} (hP : P.alwaysAnchored = Dfa.alwaysAnchored N)
    (hcomp : P.pfComplete = false) (hfm : P.pfHasFindMatch = false) {pf : Bytes → Nat → Option Nat} {h : Bytes}
    (hb : Dfa.BytesOK h) (hpf : P.hasPrefilter = true → MetaFind.PfOK (MetaFind.realOracles N cfg rcfg pf) (Accepts N) h)
    (st : MetaFind.Strategy) {at_ : Nat} (hat : at_ ≤ h.size)
    (hf : MetaFind.StratFlags (MetaFind.realOracles N cfg rcfg pf) P (btSearchAt N) h at_ st) :
    MetaFind.findIndicesAt (MetaFind.realOracles N cfg rcfg pf) P st h at_ = btSearchAt N h at_ :=
  MetaFind.C02_metaFind_dispatch_closed H hbrk hP hcomp hfm hb hpf st hat hf

/-- a concrete instance of all hypotheses: `[a-z]+z` under UseDFA with the DFA pair -/
theorem C02_metaFind_closed_instance {h : Bytes} (hb : Dfa.BytesOK h) {at_ : Nat} (hat : at_ ≤ h.size) :
    MetaFind.findIndicesAt (MetaFind.realOracles RevSuffix.exAzZ Dfa.Config.plain (RevSuffix.revConfig Dfa.Config.plain)
        (fun _ _ => none)) { hasDFA := true, hasReverseDFA := true } MetaFind.Strategy.dfa h at_ =
      btSearchAt RevSuffix.exAzZ h at_ :=
  MetaFind.C02_metaFind_closed_instance hb hat

end Cx.C02
