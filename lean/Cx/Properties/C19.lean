import Cx.Proofs.Fast
import Cx.Proofs.FastCex
/-
  C19 — specialised fast paths are exact on every pattern they accept.

  For each fast path: the searcher model (transliteration of the Go type and of the applicability predicate) equals a
  leftmost-first specification on a FRAGMENT; "applicability ⇒ fragment" is proved where it holds.

  * CharClassSearcher, CompositeSearcher (and, up to the reading of the anchors, the anchored literal): after the fixes of nfa/charclass_extract.go, nfa/composite.go
    and meta/anchored_literal.go the applicability predicates imply the whole fragment, so the theorems hold for EVERY
    accepted pattern (no `_partial`): the former hypotheses `greedy`, `noZeroMax`, `ascii`, `dotMatchesAll` are now
    derived from acceptance (`isSimpleCharClassPlus_greedy`, `isCompositeCharClassPattern_greedy/_noZeroMax/_ascii`) or
    checked by the matcher (`wildcardOK`).  The composite theorem keeps two hypotheses that are invariants of
    `syntax.Parse` output, not restrictions of the fragment: `RepeatOK` (`n ≤ m` in `{n,m}`) and `ClassSorted` (`Rune`
    ascending — the Go predicate tests only the LAST rune of a class against U+007F).
  * BranchDispatcher, ExtractFirstBytes: the predicate still accepts more than the fragment (case folding, Latin-1 runes
    used as bytes, a trailing concatenation after the dispatched alternation, …); the hypothesis the proof forced is the
    defect, and a `decide`-checked counterexample theorem is kept in `Cx.Proofs.FastCex` (each replayed on the real code
    by the C19 check → known findings).  Hence the `_partial` names there.
  The witnesses of the fixed defects are kept in `Cx.Proofs.FastCex` as `…_fixed` theorems (pattern now rejected, or
  matcher now agrees with the reference).
  `Ref.refFind` is the general leftmost-first reference matcher over the AST (`Cx.Spec.ReRef`), validated against regexp.
-/
namespace Cx.C19
open Cx Cx.Fast Cx.Fast.Spec

/-- CharClassSearcher (`cls+`): exact w.r.t. the reference matcher on EVERY pattern `IsSimpleCharClassPlus` accepts -/
theorem C19_charClassSearcher (re : Re) (hok : isSimpleCharClassPlus re = true) (h : Bytes) (a : Nat) :
    (buildCharClassSearcher re).map (fun s => s.searchAt h a) = some (Ref.refFind re h a) :=
  charClassSearcher_eq_reference re hok h a

/-- its streaming enumeration is stdlib's FindAll loop over its own single search; Count is its length -/
theorem C19_charClass_streaming (s : CharClassSearcher) (hm : 1 ≤ s.minMatch) (h : Bytes) (w : Nat → Nat) :
    s.findAllIndices h = Std.stdFindAll (s.searchAt h) id w h.size (-1) ∧ s.count h = (s.findAllIndices h).length :=
  ⟨CharClassSearcher.findAllIndices_eq_loop s hm h w, CharClassSearcher.count_eq_length s h⟩

/-- CompositeSearcher (`c1{m,n} c2{m,n} …`): exact w.r.t. the reference matcher on EVERY pattern
    `IsCompositeCharClassPattern` accepts (greedy parts, no `{…,0}`, ASCII classes are implied by acceptance).
    `repOK` and `sorted` are parser invariants (`{n,m}` has `n ≤ m`; class `Rune` lists are ascending). -/
theorem C19_compositeSearcher (re : Re) (c : CompositeSearcher) (hok : isCompositeCharClassPattern re = true)
    (hc : newCompositeSearcher re = some c) (repOK : RepeatOK re) (sorted : ClassSorted re)
    (h : Bytes) (a : Nat) : c.searchAt h a = Ref.refFind re h a :=
  compositeSearcher_eq_reference re c hok hc repOK sorted h a

/-- what acceptance by `IsCompositeCharClassPattern` implies (the three former hypotheses) -/
theorem C19_compositeSearcher_fragment (re : Re) (hok : isCompositeCharClassPattern re = true) :
    CompositeFrag re ∧ AllGreedy re ∧ NoZeroMax re ∧ (ClassSorted re → AsciiOnly re) :=
  ⟨isCompositeCharClassPattern_fragment re hok, isCompositeCharClassPattern_greedy re hok,
   isCompositeCharClassPattern_noZeroMax re hok, isCompositeCharClassPattern_ascii re hok⟩

/-- anchored-literal matcher (`^prefix.*[cls]+suffix$`): on EVERY detected pattern and EVERY haystack it equals its
    byte-level specification, `.` excluding `\\n` unless the wildcard is `(?s:.)`; the fragment (`AnchoredFrag`) says
    that all literals are case-sensitive (bytes = UTF-8 of the runes) and that the class bridge passes the ASCII test.
    Still `_partial`: no hypothesis is left, but the specification reads both anchors as TEXT anchors (`\\A`, `\\z`) while
    `DetectAnchoredLiteral` also accepts the line anchors `(?m)^` / `(?m)$` (`anchoredLiteral_multiline_counterexample`;
    meta only selects the strategy for patterns anchored at both ends of the text). -/
theorem C19_anchoredLiteral_partial (re : Re) (info : AnchoredLiteralInfo) (hd : detectAnchoredLiteral re = some info)
    (h : Bytes) :
    AnchoredFrag re info ∧
    (matchAnchoredLiteral h info = true ↔ AnchoredSpec (wildcardDotNL re) info h) ∧
    ∀ a, anchoredFindAt h info a = anchoredFindSpec (wildcardDotNL re) info h a :=
  anchoredLiteral_exact re info hd h

/-- BranchDispatcher (`\A(b1|…|bk)`): first matching branch in order, on the fragment `bdFrag`
    (nothing after the alternation, branches = case-sensitive ASCII literal or greedy ASCII `cls+`) -/
theorem C19_branchDispatcher_partial (re : Re) (d : BranchDispatcher) (hd : metaBranchDispatcher re = some d)
    (frag : bdFrag re = true) :
    d.WF ((bdBranches re).map branchOf) ∧
    (∀ h, d.search h = altFind ((bdBranches re).map branchOf) h) ∧
    (∀ h, d.isMatch h = (altFind ((bdBranches re).map branchOf) h).isSome) :=
  branchDispatcher_exact re d hd frag

/-- first-byte rejection filter: on the fragment `fbFrag` every match of the pattern at offset 0 starts with a byte of the set -/
theorem C19_firstBytes_partial (re : Re) (fb : FirstByteSet) (hx : extractFirstBytes re = some fb)
    (frag : fbFrag 21 re = true) (h : Bytes) (hb : ∀ i, h.at i < 256) (e : Nat)
    (hm : Ref.matchAt re h 0 = some e) : fb.contains (h.at 0) = true ∧ fb.complete = true :=
  firstBytes_filter_sound re fb hx frag h hb e hm

end Cx.C19
