import Cx.Proofs.Fast
import Cx.Proofs.FastCex
/-
  C19 — specialised fast paths are exact on every pattern they accept.

  For each fast path: the searcher model (transliteration of the Go type and of the applicability predicate) equals a
  leftmost-first specification on a FRAGMENT; "applicability ⇒ fragment" is proved where it holds.

  * CharClassSearcher, CompositeSearcher (and, up to the reading of the anchors, the anchored literal): after the fixes of nfa/charclass_extract.go, nfa/composite.go
    and meta/anchored_literal.go the applicability predicates imply the whole fragment, so the theorems hold for EVERY
    accepted pattern (no `_partial`): the former hypotheses `greedy`, `noZeroMax`, `ascii`, `dotMatchesAll` are now
    derived from acceptance (`isSimpleCharClassPlus_greedy`, `isCompositeCharClassPattern_greedy/_noZeroMax/_ascii`) or
    checked by the matcher (`wildcardOK`).  The composite theorem keeps two hypotheses that are invariants of
    `syntax.Parse` output, not restrictions of the fragment: `RepeatOK` (`n ≤ m` in `{n,m}`) and `ClassSorted` (`Rune`
    ascending — the Go predicate tests only the LAST rune of a class against U+007F).
  * BranchDispatcher: after the rewrite of nfa/branch_dispatch.go (and of the `altPart` selection in meta/compile.go) the
    dispatcher is exact on EVERY pattern `IsBranchDispatchPattern` accepts, with respect to the reference semantics of the
    WHOLE pattern `\A(b1|…|bk)` (not merely of a list of branch matchers): no fragment hypothesis is left, hence no
    `_partial`.  The two remaining hypotheses do not restrict the dispatcher: `FoldSound hasFold` is a fact about
    `unicode.SimpleFold` (the model's parameter `hasFold` is `true` at least on the ASCII letters, the only runes the
    reference matcher folds), `RefDepthOK re` is the depth (32) up to which the reference matcher's fuel estimate sees the
    pattern.  Both are shown necessary by `decide` witnesses (`branchDispatch_foldSound_needed`, `branchDispatch_depth_needed`).
  * ExtractFirstBytes: the predicate still accepts more than the fragment (case folding, Latin-1 runes used as bytes,
    …); the hypothesis the proof forced is the defect, and a `decide`-checked counterexample theorem is kept in
    `Cx.Proofs.FastCex` (each replayed on the real code by the C19 check → known findings).  Hence the `_partial` name
    there.
  The witnesses of the fixed defects are kept in `Cx.Proofs.FastCex` as `…_fixed` theorems (pattern now rejected, or
  matcher now agrees with the reference).
  `Ref.refFind` is the general leftmost-first reference matcher over the AST (`Cx.Spec.ReRef`), validated against regexp.
-/
namespace Cx.C19
open Cx Cx.Fast Cx.Fast.Spec

/-- CharClassSearcher (`cls+`): exact w.r.t. the reference matcher on EVERY pattern `IsSimpleCharClassPlus` accepts -/
theorem C19_charClassSearcher (re : Re) (hok : isSimpleCharClassPlus re = true) (h : Bytes) (a : Nat) :
    (buildCharClassSearcher re).map (fun s => s.searchAt h a) = some (Ref.refFind re h a) :=
  charClassSearcher_eq_reference re hok h a

/-- its streaming enumeration is stdlib's FindAll loop over its own single search; Count is its length -/
theorem C19_charClass_streaming (s : CharClassSearcher) (hm : 1 ≤ s.minMatch) (h : Bytes) (w : Nat → Nat) :
    s.findAllIndices h = Std.stdFindAll (s.searchAt h) id w h.size (-1) ∧ s.count h = (s.findAllIndices h).length :=
  ⟨CharClassSearcher.findAllIndices_eq_loop s hm h w, CharClassSearcher.count_eq_length s h⟩

/-- CompositeSearcher (`c1{m,n} c2{m,n} …`): exact w.r.t. the reference matcher on EVERY pattern
    `IsCompositeCharClassPattern` accepts (greedy parts, no `{…,0}`, ASCII classes are implied by acceptance).
    `repOK` and `sorted` are parser invariants (`{n,m}` has `n ≤ m`; class `Rune` lists are ascending). -/
theorem C19_compositeSearcher (re : Re) (c : CompositeSearcher) (hok : isCompositeCharClassPattern re = true)
    (hc : newCompositeSearcher re = some c) (repOK : RepeatOK re) (sorted : ClassSorted re)
    (h : Bytes) (a : Nat) : c.searchAt h a = Ref.refFind re h a :=
  compositeSearcher_eq_reference re c hok hc repOK sorted h a

/-- what acceptance by `IsCompositeCharClassPattern` implies (the three former hypotheses) -/
theorem C19_compositeSearcher_fragment (re : Re) (hok : isCompositeCharClassPattern re = true) :
    CompositeFrag re ∧ AllGreedy re ∧ NoZeroMax re ∧ (ClassSorted re → AsciiOnly re) :=
  ⟨isCompositeCharClassPattern_fragment re hok, isCompositeCharClassPattern_greedy re hok,
   isCompositeCharClassPattern_noZeroMax re hok, isCompositeCharClassPattern_ascii re hok⟩

/-- anchored-literal matcher (`^prefix.*[cls]+suffix$`): on EVERY detected pattern and EVERY haystack it equals its
    byte-level specification, `.` excluding `\\n` unless the wildcard is `(?s:.)`; the fragment (`AnchoredFrag`) says
    that all literals are case-sensitive (bytes = UTF-8 of the runes) and that the class bridge passes the ASCII test.
    Still `_partial`: no hypothesis is left, but the specification reads both anchors as TEXT anchors (`\\A`, `\\z`) while
    `DetectAnchoredLiteral` also accepts the line anchors `(?m)^` / `(?m)$` (`anchoredLiteral_multiline_counterexample`;
    meta only selects the strategy for patterns anchored at both ends of the text). -/
theorem C19_anchoredLiteral_partial (re : Re) (info : AnchoredLiteralInfo) (hd : detectAnchoredLiteral re = some info)
    (h : Bytes) :
    AnchoredFrag re info ∧
    (matchAnchoredLiteral h info = true ↔ AnchoredSpec (wildcardDotNL re) info h) ∧
    ∀ a, anchoredFindAt h info a = anchoredFindSpec (wildcardDotNL re) info h a :=
  anchoredLiteral_exact re info hd h

/-- BranchDispatcher (`\A(b1|…|bk)`, the alternation optionally inside capture groups): on EVERY pattern
    `IsBranchDispatchPattern` accepts, meta builds a dispatcher (it never falls back), and on every haystack that dispatcher
    returns exactly the leftmost-first match of the WHOLE pattern as the general reference matcher computes it — `Search`
    (offset 0), meta's `findIndicesBranchDispatchAt` (any offset), and `IsMatch`.
    `hf`: `hasFold` stands for `unicode.SimpleFold(r) != r` and must be `true` on the ASCII letters (it is; the driver's
    table is checked in `Cx.DriverFast.hasSimpleFold_sound`); `hdepth`: the AST is at most 32 levels deep, the depth to
    which the reference matcher's fuel estimate measures it.  Neither restricts the dispatcher
    (`branchDispatch_foldSound_needed`, `branchDispatch_depth_needed` in Cx.Proofs.FastCex). -/
theorem C19_branchDispatcher (hasFold : Nat → Bool) (hf : FoldSound hasFold) (re : Re)
    (hok : isBranchDispatchPattern hasFold re = true) (hdepth : RefDepthOK re) :
    ∃ d, metaBranchDispatcher hasFold re = some d ∧
      (∀ h, d.search h = Ref.refFind re h 0) ∧
      (∀ h a, d.searchAt h a = Ref.refFind re h a) ∧
      (∀ h, d.isMatch h = (Ref.refFind re h 0).isSome) := by
  rw [isBranchDispatchPattern_eq, Option.isSome_iff_exists] at hok
  obtain ⟨d, hd⟩ := hok
  refine ⟨d, hd, fun h => ?_, fun h a => branchDispatcher_eq_reference hasFold hf re d hd hdepth h a,
    fun h => branchDispatcher_isMatch_eq_reference hasFold hf re d hd hdepth h⟩
  have := branchDispatcher_eq_reference hasFold hf re d hd hdepth h 0
  simpa [BranchDispatcher.searchAt] using this

/-- why the answer cannot depend on branch order or on greedy/lazy preference: the dispatcher's tables describe matchers
    `ms` of the branches (`WF`), at most one of which matches a given haystack at offset 0, and `Search` returns that
    one — equivalently the first one in order. -/
theorem C19_branchDispatcher_unique (hasFold : Nat → Bool) (alt : Re) (d : BranchDispatcher)
    (hd : newBranchDispatcher hasFold alt = some d) :
    ∃ ms, d.WF ms ∧
      (∀ h, d.search h = (ms.findSome? fun m => m.matchFrom h 0).map fun e => (0, e)) ∧
      (∀ (h : Bytes) (i j : Nat) (mi mj : BranchMatcher) (ei ej : Nat), ms[i]? = some mi → ms[j]? = some mj →
        mi.matchFrom h 0 = some ei → mj.matchFrom h 0 = some ej → i = j) := by
  obtain ⟨_, ms, _, wf⟩ := newBranchDispatcher_wf hasFold alt d hd
  exact ⟨ms, wf, fun h => BranchDispatcher.search_eq_first d ms wf h,
    fun h i j mi mj ei ej hi hj h1 h2 => BranchDispatcher.match_unique d ms wf h i j mi mj hi hj ei ej h1 h2⟩

/-- first-byte rejection filter: on the fragment `fbFrag` every match of the pattern at offset 0 starts with a byte of the set -/
theorem C19_firstBytes_partial (re : Re) (fb : FirstByteSet) (hx : extractFirstBytes re = some fb)
    (frag : fbFrag 21 re = true) (h : Bytes) (hb : ∀ i, h.at i < 256) (e : Nat)
    (hm : Ref.matchAt re h 0 = some e) : fb.contains (h.at 0) = true ∧ fb.complete = true :=
  firstBytes_filter_sound re fb hx frag h hb e hm

end Cx.C19
