import Cx.Proofs.Fast
import Cx.Proofs.FastCex
/-
  C19 — specialised fast paths are exact on every pattern they accept.

  For each fast path: the searcher model (transliteration of the Go type and of the applicability predicate) equals a
  leftmost-first specification on a FRAGMENT stated as explicit decidable hypotheses; "applicability ⇒ fragment" is
  proved where it holds.  Where the predicate accepts more than the fragment (lazy quantifiers, case folding, Latin-1
  runes used as bytes, a trailing concatenation after the dispatched alternation, `.` vs newline …) the hypothesis the
  proof forced is the defect, and a `decide`-checked counterexample theorem is kept in `Cx.Proofs.FastCex`
  (each replayed on the real code by the C19 check → known findings).  Hence the `_partial` names.
  `Ref.refFind` is the general leftmost-first reference matcher over the AST (`Cx.Spec.ReRef`), validated against regexp.
-/
namespace Cx.C19
open Cx Cx.Fast Cx.Fast.Spec

/-- CharClassSearcher (`cls+`): exact w.r.t. the reference matcher whenever the quantifier is greedy -/
theorem C19_charClassSearcher_partial (re : Re) (hok : isSimpleCharClassPlus re = true) (greedy : re.nonGreedy = false)
    (h : Bytes) (a : Nat) :
    (buildCharClassSearcher re).map (fun s => s.searchAt h a) = some (Ref.refFind re h a) :=
  charClassSearcher_eq_reference re hok greedy h a

/-- its streaming enumeration is stdlib's FindAll loop over its own single search; Count is its length -/
theorem C19_charClass_streaming (s : CharClassSearcher) (hm : 1 ≤ s.minMatch) (h : Bytes) (w : Nat → Nat) :
    s.findAllIndices h = Std.stdFindAll (s.searchAt h) id w h.size (-1) ∧ s.count h = (s.findAllIndices h).length :=
  ⟨CharClassSearcher.findAllIndices_eq_loop s hm h w, CharClassSearcher.count_eq_length s h⟩

/-- CompositeSearcher (`c1{m,n} c2{m,n} …`): exact for greedy parts, no `{0}` part, ASCII classes -/
theorem C19_compositeSearcher_partial (re : Re) (c : CompositeSearcher) (hc : newCompositeSearcher re = some c)
    (greedy : AllGreedy re) (noZeroMax : NoZeroMax re) (ascii : AsciiOnly re) (repOK : RepeatOK re)
    (h : Bytes) (a : Nat) : c.searchAt h a = Ref.refFind re h a :=
  compositeSearcher_eq_reference re c hc greedy noZeroMax ascii repOK h a

/-- anchored-literal matcher (`^prefix.*[cls]*suffix$`): equals its byte-level specification when `.` may match every byte of
    the haystack (dot-all flag, or no newline in the input) -/
theorem C19_anchoredLiteral_partial (re : Re) (info : AnchoredLiteralInfo) (hd : detectAnchoredLiteral re = some info)
    (h : Bytes) (dotMatchesAll : wildcardDotNL re = true ∨ ∀ i, i < h.size → h.at i ≠ 10) :
    AnchoredFrag re info ∧
    (matchAnchoredLiteral h info = true ↔ AnchoredSpec (wildcardDotNL re) info h) ∧
    ∀ a, anchoredFindAt h info a = anchoredFindSpec (wildcardDotNL re) info h a :=
  anchoredLiteral_exact re info hd h dotMatchesAll

/-- BranchDispatcher (`\A(b1|…|bk)`): first matching branch in order, on the fragment `bdFrag`
    (nothing after the alternation, branches = case-sensitive ASCII literal or greedy ASCII `cls+`) -/
theorem C19_branchDispatcher_partial (re : Re) (d : BranchDispatcher) (hd : metaBranchDispatcher re = some d)
    (frag : bdFrag re = true) :
    d.WF ((bdBranches re).map branchOf) ∧
    (∀ h, d.search h = altFind ((bdBranches re).map branchOf) h) ∧
    (∀ h, d.isMatch h = (altFind ((bdBranches re).map branchOf) h).isSome) :=
  branchDispatcher_exact re d hd frag

/-- first-byte rejection filter: on the fragment `fbFrag` every match of the pattern at offset 0 starts with a byte of the set -/
theorem C19_firstBytes_partial (re : Re) (fb : FirstByteSet) (hx : extractFirstBytes re = some fb)
    (frag : fbFrag 21 re = true) (h : Bytes) (hb : ∀ i, h.at i < 256) (e : Nat)
    (hm : Ref.matchAt re h 0 = some e) : fb.contains (h.at 0) = true ∧ fb.complete = true :=
  firstBytes_filter_sound re fb hx frag h hb e hm

end Cx.C19
