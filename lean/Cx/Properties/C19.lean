import Cx.Proofs.Fast
import Cx.Proofs.FastCex
import Cx.Proofs.CompositeDfa
import Cx.Proofs.CompositeDfaCex
import Cx.Proofs.CompositeSim
/-
  C19 — specialised fast paths are exact on every pattern they accept.

  For each fast path: the searcher model (transliteration of the Go type and of the applicability predicate) equals a
  leftmost-first specification on a FRAGMENT; "applicability ⇒ fragment" is proved where it holds.

  * CharClassSearcher, CompositeSearcher (and, up to the reading of the anchors, the anchored literal): after the fixes of nfa/charclass_extract.go, nfa/composite.go
    and meta/anchored_literal.go the applicability predicates imply the whole fragment, so the theorems hold for EVERY
    accepted pattern (no `_partial`): the former hypotheses `greedy`, `noZeroMax`, `ascii`, `dotMatchesAll` are now
    derived from acceptance (`isSimpleCharClassPlus_greedy`, `isCompositeCharClassPattern_greedy/_noZeroMax/_ascii`) or
    checked by the matcher (`wildcardOK`).  The composite theorem keeps two hypotheses that are invariants of
    `syntax.Parse` output, not restrictions of the fragment: `RepeatOK` (`n ≤ m` in `{n,m}`) and `ClassSorted` (`Rune`
    ascending — the Go predicate tests only the LAST rune of a class against U+007F).
  * BranchDispatcher: after the rewrite of nfa/branch_dispatch.go (and of the `altPart` selection in meta/compile.go) the
    dispatcher is exact on EVERY pattern `IsBranchDispatchPattern` accepts, with respect to the reference semantics of the
    WHOLE pattern `\A(b1|…|bk)` (not merely of a list of branch matchers): no fragment hypothesis is left, hence no
    `_partial`.  The two remaining hypotheses do not restrict the dispatcher: `FoldSound hasFold` is a fact about
    `unicode.SimpleFold` (the model's parameter `hasFold` is `true` at least on the ASCII letters, the only runes the
    reference matcher folds), `RefDepthOK re` is the depth (32) up to which the reference matcher's fuel estimate sees the
    pattern.  Both are shown necessary by `decide` witnesses (`branchDispatch_foldSound_needed`, `branchDispatch_depth_needed`).
  * ExtractFirstBytes (the O(1) first-byte rejection filter of start-anchored patterns): after the fixes of
    nfa/firstbytes.go — (1) whole `unicode.SimpleFold` orbit of a `FoldCase` literal, UTF-8 lead byte of a non-ASCII
    literal, every byte `≥ 0x80` for a class reaching above U+007F (`firstBytes_foldCase_fixed`,
    `firstBytes_latin1_fixed`); (2) a bare assertion (`^`, `$`, `\A`, `\z`) makes the set unusable instead of answering
    `true` without a byte, and a concatenation skips its leading assertion-only elements, grouped ones included
    (`firstBytes_emptyBranch_fixed`, `firstBytes_beginAnchor_fixed`, `firstBytes_endLine_fixed`,
    `firstBytes_captureAnchor_fixed`) — the filter is sound on EVERY pattern for which `ExtractFirstBytes` returns a set:
    `C19_firstBytes` (no `_partial`; the former structural exclusions of `fbFrag` — assertions reached in first
    position — are gone).  Unconditionally (`C19_firstBytes_complete`): a non-nil result has `IsComplete() = true` —
    the flag is vacuous, it is only cleared on paths that return nil — and `Count()` is the number of members.
    Hypotheses of `C19_firstBytes`, none of which is forced by a defect of the Go function:
    `OrbitSound foldOrbit` is a fact about `unicode.SimpleFold` (`firstBytes_orbitSound_needed`; the reference matcher
    folds ASCII letters only, so the non-ASCII fold partners `k`/U+212A, `s`/U+017F, … are covered by
    `C19_firstBytes_orbit` rather than by a `Ref` match); haystack bytes are `< 256`; the haystack is non-empty (every
    caller tests `len(haystack) > 0`); and `fbFrag 21 re`, which now only says, of the nodes in first position, that
    no literal starts with U+FFFD — the reference matcher, like `regexp`, matches that literal against any ill-formed
    byte, coregex's engines never do (`firstBytes_runeError_counterexample`) — and that no `{n,…}` has `n < 0`, an
    invariant of `syntax.Parse` output (`firstBytes_negativeMin_needed`).  `C19_firstBytes_wellformed` trades the
    U+FFFD condition for one on the haystack: with the parser invariant alone (`fbMinOK`), the same two conclusions
    hold on every non-empty haystack that begins with a well-formed rune (`WellFormedAt h 0`).
  * CompositeSequenceDFA (nfa/composite_dfa.go, the table-driven matcher meta prefers over the CompositeSearcher when
    `NewCompositeSequenceDFA` can build it; model Cx.Model.CompositeDfa): `C19_compositeSequenceDFA` — for EVERY pattern
    that `IsCompositeCharClassPattern` accepts (the strategy selection) and for which the constructor returns a DFA,
    `SearchAt` (any offset) and `IsMatch` equal the reference matcher, and the DFA agrees with the backtracking
    searcher.  Proof: byte classes are exact for ASCII parts; each of the three tables is the subset automaton of the
    configuration automaton of the part list (anchored / unanchored / anchored on the reversed list), whose
    configuration sets have a word-level meaning preserved by `computeNextConfigs`; `matchAt` = greatest end = greedy
    end; earliest end + leftmost start for that end + greatest end = leftmost-first match (exchange argument).
    Hypotheses: `repOK`, `sorted` as for the CompositeSearcher (parser invariants).  `IsCompositeSequenceDFAPattern`
    alone would NOT do (it inspects the extracted parts only: non-greedy parts and Latin-1 members pass) —
    `compositeSequenceDFA_predicate_alone_insufficient`; meta never builds the DFA for such patterns.
  * CompositeSearcher after its rewrite (nfa/composite.go: configuration tables, greedy attempt, ordered-list simulation
    of all match attempts; model Cx.Model.CompositeSim): `C19_compositeSearcher_simulation` — the NEW code's model equals
    the reference matcher for `SearchAt` (every offset) and `IsMatch`, and equals the old backtracking model
    (`C19_compositeSearcher`, now a specification) on every haystack and offset WITHOUT any side hypothesis
    (`CompSim.compSim_searchAt_eq`).  Proof: the tables are a priority automaton whose closure lists are tail-determined
    (what follows an id in a closure list depends on the id only), which makes first-occurrence dedup exact; the
    ordered thread list has the value of its first thread with a complete walk; a new attempt appended last = leftmost
    start; the value of a new attempt is the old `matchAt`; `matchGreedy` success is the first alternative of the
    backtracking.  No `_partial`.
  The witnesses of the fixed defects are kept in `Cx.Proofs.FastCex` as `…_fixed` theorems (pattern now rejected, or
  matcher now agrees with the reference).
  `Ref.refFind` is the general leftmost-first reference matcher over the AST (`Cx.Spec.ReRef`), validated against regexp.
-/
namespace Cx.C19
open Cx Cx.Fast Cx.Fast.Spec

/-- CharClassSearcher (`cls+`): exact w.r.t. the reference matcher on EVERY pattern `IsSimpleCharClassPlus` accepts -/
theorem C19_charClassSearcher (re : Re) (hok : isSimpleCharClassPlus re = true) (h : Bytes) (a : Nat) :
    (buildCharClassSearcher re).map (fun s => s.searchAt h a) = some (Ref.refFind re h a) :=
  charClassSearcher_eq_reference re hok h a

/-- its streaming enumeration is stdlib's FindAll loop over its own single search; Count is its length -/
theorem C19_charClass_streaming (s : CharClassSearcher) (hm : 1 ≤ s.minMatch) (h : Bytes) (w : Nat → Nat) :
    s.findAllIndices h = Std.stdFindAll (s.searchAt h) id w h.size (-1) ∧ s.count h = (s.findAllIndices h).length :=
  ⟨CharClassSearcher.findAllIndices_eq_loop s hm h w, CharClassSearcher.count_eq_length s h⟩

/-- CompositeSearcher (`c1{m,n} c2{m,n} …`): exact w.r.t. the reference matcher on EVERY pattern
    `IsCompositeCharClassPattern` accepts (greedy parts, no `{…,0}`, ASCII classes are implied by acceptance).
    `repOK` and `sorted` are parser invariants (`{n,m}` has `n ≤ m`; class `Rune` lists are ascending). -/
theorem C19_compositeSearcher (re : Re) (c : CompositeSearcher) (hok : isCompositeCharClassPattern re = true)
    (hc : newCompositeSearcher re = some c) (repOK : RepeatOK re) (sorted : ClassSorted re)
    (h : Bytes) (a : Nat) : c.searchAt h a = Ref.refFind re h a :=
  compositeSearcher_eq_reference re c hok hc repOK sorted h a

/-- the REWRITTEN CompositeSearcher (tables + greedy attempt + ordered-list simulation, Cx.Model.CompositeSim): on EVERY
    pattern `IsCompositeCharClassPattern` accepts, `SearchAt` (any offset) and `IsMatch` of the searcher
    `NewCompositeSearcher` builds are exact w.r.t. the reference matcher; and — for ANY pattern the constructor accepts,
    with no hypothesis — the new code computes what the old backtracking model computes.  `repOK`, `sorted`: parser
    invariants, as in `C19_compositeSearcher`. -/
theorem C19_compositeSearcher_simulation (re : Re) (s : CompSim.CompositeSim) (hs : CompSim.newCompositeSim re = some s) :
    (isCompositeCharClassPattern re = true → RepeatOK re → ClassSorted re →
      (∀ h a, s.searchAt h a = Ref.refFind re h a) ∧ (∀ h, s.isMatch h = (Ref.refFind re h 0).isSome)) ∧
    (∀ c, newCompositeSearcher re = some c → (∀ h a, s.searchAt h a = c.searchAt h a) ∧ (∀ h, s.isMatch h = c.isMatch h)) :=
  ⟨fun hok repOK sorted =>
    ⟨fun h a => CompSim.compSim_eq_reference re s hok hs repOK sorted h a,
     fun h => CompSim.compSim_isMatch_eq_reference re s hok hs repOK sorted h⟩,
   fun c hc => ⟨fun h a => CompSim.compSim_searchAt_eq re s c hs hc h a, fun h => CompSim.compSim_isMatch_eq re s c hs hc h⟩⟩

/-- CompositeSequenceDFA (`c1{m1,} c2{m2,} …` as tables): on EVERY pattern `IsCompositeCharClassPattern` accepts and
    `NewCompositeSequenceDFA` builds a DFA for (the constructor succeeding implies `IsCompositeSequenceDFAPattern`),
    `SearchAt` and `IsMatch` are exact w.r.t. the reference matcher, and the DFA agrees with the CompositeSearcher that
    meta keeps as its fallback.  `repOK`, `sorted`: parser invariants, as in `C19_compositeSearcher`. -/
theorem C19_compositeSequenceDFA (re : Re) (d : CompDfa.CompositeSequenceDFA)
    (hok : isCompositeCharClassPattern re = true) (hd : CompDfa.newCompositeSequenceDFA re = some d)
    (repOK : RepeatOK re) (sorted : ClassSorted re) :
    CompDfa.isCompositeSequenceDFAPattern re = true ∧
    (∀ h a, d.searchAt h a = Ref.refFind re h a) ∧
    (∀ h, d.isMatch h = (Ref.refFind re h 0).isSome) ∧
    (∀ c, newCompositeSearcher re = some c → ∀ h a, d.searchAt h a = c.searchAt h a) :=
  ⟨CompDfa.newCompositeSequenceDFA_pred re d hd,
   fun h a => CompDfa.compositeSequenceDFA_eq_reference re d hok hd repOK sorted h a,
   fun h => CompDfa.compositeSequenceDFA_isMatch_eq_reference re d hok hd repOK sorted h,
   fun c hc h a => CompDfa.compositeSequenceDFA_eq_compositeSearcher re d c hok hd hc sorted h a⟩

/-- `IsCompositeSequenceDFAPattern` (and the constructor) alone do not imply exactness: they accept a non-greedy part
    (`[ab]+[cd]+?` on "acc": DFA (0,3), reference (0,2)) and a Latin-1 class member (`[a\x{e9}]+[cd]+` on E9 63: DFA
    (0,2), reference none); `IsCompositeCharClassPattern` rejects both patterns.  Confirmed on the Go code. -/
theorem compositeSequenceDFA_predicate_alone_insufficient :
    (CompDfa.isCompositeSequenceDFAPattern CompDfa.reLazyTail = true ∧
      isCompositeCharClassPattern CompDfa.reLazyTail = false ∧
      (CompDfa.newCompositeSequenceDFA CompDfa.reLazyTail).map (fun d => d.searchAt #[97, 99, 99] 0) = some (some (0, 3)) ∧
      Ref.refFind CompDfa.reLazyTail #[97, 99, 99] 0 = some (0, 2)) ∧
    (CompDfa.isCompositeSequenceDFAPattern CompDfa.reLatin1 = true ∧
      isCompositeCharClassPattern CompDfa.reLatin1 = false ∧
      (CompDfa.newCompositeSequenceDFA CompDfa.reLatin1).map (fun d => d.searchAt #[233, 99] 0) = some (some (0, 2)) ∧
      Ref.refFind CompDfa.reLatin1 #[233, 99] 0 = none) :=
  ⟨⟨CompDfa.lazyTail_accepted.1, CompDfa.lazyTail_accepted.2, CompDfa.lazyTail_counterexample.1,
    CompDfa.lazyTail_counterexample.2⟩,
   ⟨CompDfa.latin1_accepted.1, CompDfa.latin1_accepted.2, CompDfa.latin1_counterexample.1,
    CompDfa.latin1_counterexample.2⟩⟩

/-- what acceptance by `IsCompositeCharClassPattern` implies (the three former hypotheses) -/
theorem C19_compositeSearcher_fragment (re : Re) (hok : isCompositeCharClassPattern re = true) :
    CompositeFrag re ∧ AllGreedy re ∧ NoZeroMax re ∧ (ClassSorted re → AsciiOnly re) :=
  ⟨isCompositeCharClassPattern_fragment re hok, isCompositeCharClassPattern_greedy re hok,
   isCompositeCharClassPattern_noZeroMax re hok, isCompositeCharClassPattern_ascii re hok⟩

/-- anchored-literal matcher (`^prefix.*[cls]+suffix$`): on EVERY detected pattern and EVERY haystack it equals its
    byte-level specification `\\A prefix .{w,} cls{c,} suffix \\z`, `.` excluding `\\n` unless the wildcard is `(?s:.)`;
    the fragment (`AnchoredFrag`) says that both anchors are TEXT anchors (since the fix commit the line anchors `(?m)^` /
    `(?m)$` no longer qualify: `anchoredLiteral_multiline_fixed`), that all literals are case-sensitive (bytes = UTF-8 of
    the runes) and that the class bridge passes the ASCII test.  No hypothesis is left. -/
theorem C19_anchoredLiteral (re : Re) (info : AnchoredLiteralInfo) (hd : detectAnchoredLiteral re = some info)
    (h : Bytes) :
    AnchoredFrag re info ∧
    (matchAnchoredLiteral h info = true ↔ AnchoredSpec (wildcardDotNL re) info h) ∧
    ∀ a, anchoredFindAt h info a = anchoredFindSpec (wildcardDotNL re) info h a :=
  anchoredLiteral_exact re info hd h

/-- BranchDispatcher (`\A(b1|…|bk)`, the alternation optionally inside capture groups): on EVERY pattern
    `IsBranchDispatchPattern` accepts, meta builds a dispatcher (it never falls back), and on every haystack that dispatcher
    returns exactly the leftmost-first match of the WHOLE pattern as the general reference matcher computes it — `Search`
    (offset 0), meta's `findIndicesBranchDispatchAt` (any offset), and `IsMatch`.
    `hf`: `hasFold` stands for `unicode.SimpleFold(r) != r` and must be `true` on the ASCII letters (it is; the driver's
    table is checked in `Cx.DriverFast.hasSimpleFold_sound`); `hdepth`: the AST is at most 32 levels deep, the depth to
    which the reference matcher's fuel estimate measures it.  Neither restricts the dispatcher
    (`branchDispatch_foldSound_needed`, `branchDispatch_depth_needed` in Cx.Proofs.FastCex). -/
theorem C19_branchDispatcher (hasFold : Nat → Bool) (hf : FoldSound hasFold) (re : Re)
    (hok : isBranchDispatchPattern hasFold re = true) (hdepth : RefDepthOK re) :
    ∃ d, metaBranchDispatcher hasFold re = some d ∧
      (∀ h, d.search h = Ref.refFind re h 0) ∧
      (∀ h a, d.searchAt h a = Ref.refFind re h a) ∧
      (∀ h, d.isMatch h = (Ref.refFind re h 0).isSome) := by
  rw [isBranchDispatchPattern_eq, Option.isSome_iff_exists] at hok
  obtain ⟨d, hd⟩ := hok
  refine ⟨d, hd, fun h => ?_, fun h a => branchDispatcher_eq_reference hasFold hf re d hd hdepth h a,
    fun h => branchDispatcher_isMatch_eq_reference hasFold hf re d hd hdepth h⟩
  have := branchDispatcher_eq_reference hasFold hf re d hd hdepth h 0
  simpa [BranchDispatcher.searchAt] using this

/-- why the answer cannot depend on branch order or on greedy/lazy preference: the dispatcher's tables describe matchers
    `ms` of the branches (`WF`), at most one of which matches a given haystack at offset 0, and `Search` returns that
    one — equivalently the first one in order. -/
theorem C19_branchDispatcher_unique (hasFold : Nat → Bool) (alt : Re) (d : BranchDispatcher)
    (hd : newBranchDispatcher hasFold alt = some d) :
    ∃ ms, d.WF ms ∧
      (∀ h, d.search h = (ms.findSome? fun m => m.matchFrom h 0).map fun e => (0, e)) ∧
      (∀ (h : Bytes) (i j : Nat) (mi mj : BranchMatcher) (ei ej : Nat), ms[i]? = some mi → ms[j]? = some mj →
        mi.matchFrom h 0 = some ei → mj.matchFrom h 0 = some ej → i = j) := by
  obtain ⟨_, ms, _, wf⟩ := newBranchDispatcher_wf hasFold alt d hd
  exact ⟨ms, wf, fun h => BranchDispatcher.search_eq_first d ms wf h,
    fun h i j mi mj ei ej hi hj h1 h2 => BranchDispatcher.match_unique d ms wf h i j mi mj hi hj ei ej h1 h2⟩

/-- first-byte rejection filter, any pattern and any `foldOrbit`: a non-nil `ExtractFirstBytes` result is complete
    (`IsComplete()` is vacuous), `Count()` is the number of bytes `Contains` accepts, and only bytes are members — so
    `IsUseful()` is exactly "neither empty nor all 256 bytes". -/
theorem C19_firstBytes_complete (foldOrbit : Nat → List Nat) (re : Re) (fb : FirstByteSet)
    (hx : extractFirstBytes foldOrbit re = some fb) :
    fb.complete = true ∧ fb.count = (List.range 256).countP fb.contains ∧ (∀ b, fb.contains b = true → b < 256) :=
  firstBytes_complete foldOrbit re fb hx

/-- first-byte rejection filter, soundness, for EVERY pattern for which `ExtractFirstBytes` returns a set: every match of
    the pattern at offset 0 of a NON-EMPTY haystack — of any length, the empty match included — starts with a byte of
    the set; hence (second part) for a pattern `\A…` a non-empty haystack whose first byte is not in the set has no match
    at all, which is the shortcut meta takes.
    `hfo`: `foldOrbit` stands for the `unicode.SimpleFold` loop and must list at least the ASCII case variants (it does:
    `Cx.DriverFast.simpleFoldOrbit_sound`).  `frag`: among the nodes in first position no literal starts with U+FFFD (a
    discrepancy of the reference semantics, see the header) and no `{n,…}` has a negative `n` (parser invariant); it says
    nothing about assertions, groups, alternatives or repetitions — the former exclusions are theorems now
    (`firstBytes_beginAnchor_fixed`, `firstBytes_emptyBranch_fixed`, `firstBytes_endLine_fixed`,
    `firstBytes_captureAnchor_fixed` in Cx.Proofs.FastCex). -/
theorem C19_firstBytes (foldOrbit : Nat → List Nat) (hfo : OrbitSound foldOrbit) (re : Re) (fb : FirstByteSet)
    (hx : extractFirstBytes foldOrbit re = some fb) (frag : fbFrag 21 re = true) (h : Bytes) (hb : ∀ i, h.at i < 256)
    (hne : 0 < h.size) :
    (∀ e, Ref.matchAt re h 0 = some e → fb.contains (h.at 0) = true) ∧
    (∀ a rest, re.op = .concat → re.sub = a :: rest → a.op = .beginText → fb.contains (h.at 0) = false →
      Ref.refFind re h 0 = none) :=
  ⟨fun e hm => firstBytes_filter_sound foldOrbit hfo re fb hx frag h hb hne e hm,
   fun a rest hop hsub ha hrej => firstBytes_reject_sound foldOrbit hfo re a rest hop hsub ha fb hx frag h hb hne hrej⟩

/-- first-byte rejection filter, soundness with NO condition on the literals of the pattern: `minOK` is the parser
    invariant `Min ≥ 0` alone; instead the haystack begins with a well-formed rune (`hwf`: its first byte is not an
    ill-formed byte, which `utf8.DecodeRune` — hence the reference matcher, and `regexp` — reads as U+FFFD). -/
theorem C19_firstBytes_wellformed (foldOrbit : Nat → List Nat) (hfo : OrbitSound foldOrbit) (re : Re) (fb : FirstByteSet)
    (hx : extractFirstBytes foldOrbit re = some fb) (minOK : fbMinOK 21 re = true) (h : Bytes) (hb : ∀ i, h.at i < 256)
    (hne : 0 < h.size) (hwf : WellFormedAt h 0) :
    (∀ e, Ref.matchAt re h 0 = some e → fb.contains (h.at 0) = true) ∧
    (∀ a rest, re.op = .concat → re.sub = a :: rest → a.op = .beginText → fb.contains (h.at 0) = false →
      Ref.refFind re h 0 = none) :=
  ⟨fun e hm => firstBytes_filter_sound_wellformed foldOrbit hfo re fb hx minOK h hb hne hwf e hm,
   fun a rest hop hsub ha hrej =>
     firstBytes_reject_sound_wellformed foldOrbit hfo re a rest hop hsub ha fb hx minOK h hb hne hwf hrej⟩

/-- a `FoldCase` literal contributes the UTF-8 lead byte of EVERY member of the orbit the `SimpleFold` loop produces
    (any pattern, any `foldOrbit`): this is what admits `K` (E2 84 AA) for `(?i)k` and `ſ` (C5 BF) for `(?i)s`, which
    the ASCII-folding reference matcher cannot witness. -/
theorem C19_firstBytes_orbit (foldOrbit : Nat → List Nat) (re : Re) (fb : FirstByteSet) (r : Nat) (rs : List Nat)
    (hop : re.op = .literal) (hrune : re.rune = r :: rs) (hx : extractFirstBytes foldOrbit re = some fb) :
    fb.contains (encodeFirst r) = true ∧
    (re.foldCase = true → ∀ m ∈ foldOrbit r, fb.contains (encodeFirst m) = true) :=
  firstBytes_literal_orbit foldOrbit re fb r rs hop hrune hx

end Cx.C19
