import Cx.Proofs.Cost
import Cx.Proofs.CompositeSimCost
/-
  C05 — every single search runs in time linear in the haystack (the engines' step counts).

  Cost-instrumented copies of the engine models (same results by the `_erase` lemmas) and bounds on their step counts,
  for EVERY automaton, haystack and offset:
  * backtracker, boolean search (visited set shared by all start positions): ≤ 2·|N|·(|h|+1) + (|h|+1);
  * backtracker, span search with a FRESH visited set per start position (the code before the fix commit): only the
    quadratic bound is provable, and `a*b` on `a^n` attains it: steps = 3(n+1)(n+2)/2 — `C05_bt_fresh_set_not_linear`;
  * backtracker, span search with ONE visited set for all start positions (the code after the fix): same answers
    (`btSearchAtShared_eq`) and a linear bound;
  * Pike VM: ≤ 15·|N|·(|h|-at+1) + 6 under the harness-checked hypotheses.
  * CompositeSearcher after its rewrite (Cx.Model.CompositeSim): ≤ 5·(nConfigs+1)·(|h|-at+1) for `SearchAt` and `IsMatch`
    alike, `nConfigs = Σ (cap+1)` a constant of the pattern — `C05_compositeSearcher_linear`; the OLD backtracking
    searcher is cubic on `[a-c]+[a-c]+[0-9]` / a^n (`C05_compositeSearcher_old_not_linear_test`: an evaluated table, not
    a theorem about every n).
  The real code's work is measured by the C05 check (executed basic blocks via coverage counters, doubling experiments);
  strategies that rescan (candidate loops, reverse searches) are not modelled: partial.
-/
namespace Cx.C05
open Cx Cx.Nfa

theorem C05_bt_isMatch_linear (N : NFA) (h : Bytes) :
    (btIsMatchC N h).2 ≤ 2 * (N.states.size * (h.size + 1)) + 1 * (h.size + 1) := Nfa.C05_bt_isMatch_linear N h

theorem C05_bt_search_shared_linear (N : NFA) (h : Bytes) (at_ : Nat) :
    (btSearchAtSharedC N h at_).1 = btSearchAt N h at_ ∧
    (btSearchAtSharedC N h at_).2 ≤ 2 * (N.states.size * (h.size + 1)) + 1 * (h.size - at_ + 1) :=
  Nfa.C05_bt_searchAt_shared_linear N h at_

theorem C05_bt_fresh_set_quadratic_bound (N : NFA) (h : Bytes) (at_ : Nat) :
    (btSearchAtC N h at_).2 ≤ (h.size - at_ + 1) * (2 * N.states.size * (h.size + 1) + 1) :=
  Nfa.C05_bt_searchAt_quadratic_bound N h at_

/-- no constant K bounds the fresh-set search linearly: the defect the fix commit removed -/
theorem C05_bt_fresh_set_not_linear (K : Nat) :
    ∃ n, K * (abN.states.size * ((aHay n).size + 1)) < (btSearchAtC abN (aHay n) 0).2 := Nfa.C05_bt_searchAt_not_linear K

theorem C05_pike_linear {N : NFA} {h : Bytes} (hd : Pike.SparseDisjoint N) (hR : Pike.RuneOK N h) (at_ : Nat) (longest : Bool)
    (hN : 0 < N.states.size) :
    (Pike.searchAtC N h at_ longest).1 = Pike.searchAt N h at_ longest ∧
    (Pike.searchAtC N h at_ longest).2 ≤ 15 * N.states.size * (h.size - at_ + 1) + 6 :=
  ⟨(Pike.C05_pike_linear hd hR at_ longest).1, Pike.C05_pike_linear' hd hR at_ longest hN⟩

/-- the rewritten CompositeSearcher: instrumented search = plain search, and the step count (bytes skipped, greedy loop
    tests, closure elements examined, threads visited) is linear in the haystack for a fixed pattern -/
theorem C05_compositeSearcher_linear (re : Fast.Re) (s : CompSim.CompositeSim) (hs : CompSim.newCompositeSim re = some s)
    (h : Bytes) (at_ : Nat) (earliest : Bool) :
    (s.searchC h at_ earliest).1 = s.search h at_ earliest ∧
    (s.searchC h at_ earliest).2 ≤ 5 * (s.configs.size + 1) * (h.size - at_ + 1) ∧
    s.configs.size = CompSim.numConfigs s.parts :=
  ⟨(CompSim.compSim_linear re s hs h at_ earliest).1, (CompSim.compSim_linear re s hs h at_ earliest).2,
   CompSim.compSim_nConfigs re s hs⟩

/-- TEST (kernel evaluation, not a theorem about every n): the OLD backtracking CompositeSearcher on
    `[a-c]+[a-c]+[0-9]` / a^n takes 90, 498, 3298 steps for n = 4, 8, 16 (more than ×4 per doubling), already above the
    linear bound of the new search (5·7·17 = 595) at n = 16, where the new search takes 200 steps -/
theorem C05_compositeSearcher_old_not_linear_test :
    ((CompSim.oldSearchAtC CompSim.cubicParts (CompSim.aHay 4) 0).2 = 90 ∧
     (CompSim.oldSearchAtC CompSim.cubicParts (CompSim.aHay 8) 0).2 = 498 ∧
     (CompSim.oldSearchAtC CompSim.cubicParts (CompSim.aHay 16) 0).2 = 3298) ∧
    5 * (6 + 1) * (16 - 0 + 1) < (CompSim.oldSearchAtC CompSim.cubicParts (CompSim.aHay 16) 0).2 ∧
    (((CompSim.buildTables CompSim.cubicParts).searchC (CompSim.aHay 16) 0 false).2 = 200 ∧
     (CompSim.buildTables CompSim.cubicParts).configs.size = 6) :=
  ⟨CompSim.old_steps_table, CompSim.old_exceeds_linear_bound, CompSim.new_steps_16⟩

end Cx.C05
