/-
  Cx.Basic — shared plumbing: byte strings as `Array Nat` (every element < 256 by construction in the
  driver; theorems that need it state it), hex / integer parsing for the line protocol.
  Core-only (no Mathlib) so the driver links as an executable.
-/
namespace Cx

abbrev Bytes := Array Nat

@[inline] def Bytes.at (h : Bytes) (i : Nat) : Nat := h.getD i 0

def hexVal (c : Char) : Option Nat :=
  if '0' ≤ c ∧ c ≤ '9' then some (c.toNat - '0'.toNat)
  else if 'a' ≤ c ∧ c ≤ 'f' then some (c.toNat - 'a'.toNat + 10)
  else if 'A' ≤ c ∧ c ≤ 'F' then some (c.toNat - 'A'.toNat + 10)
  else none

/-- Parse a hex string ("-" or "" = empty) into bytes; `none` on malformed input. -/
def parseHex (s : String) : Option Bytes :=
  if s = "-" ∨ s = "" then some #[] else
  let rec go : List Char → Bytes → Option Bytes
    | [], acc => some acc
    | [_], _ => none
    | a :: b :: rest, acc =>
      match hexVal a, hexVal b with
      | some x, some y => go rest (acc.push (x * 16 + y))
      | _, _ => none
  go s.toList #[]

def hexDigit (n : Nat) : Char :=
  if n < 10 then Char.ofNat (n + '0'.toNat) else Char.ofNat (n - 10 + 'a'.toNat)

def toHex (b : Bytes) : String :=
  if b.size = 0 then "-" else
  String.ofList (b.toList.flatMap fun x => [hexDigit (x / 16 % 16), hexDigit (x % 16)])

/-- Parse a (possibly negative) decimal integer. -/
def parseInt (s : String) : Option Int := s.toInt?

def parseNat (s : String) : Option Nat := s.toNat?

/-- Comma-separated list of integers; "-" or "" is the empty list. -/
def parseIntList (s : String) : Option (List Int) :=
  if s = "-" ∨ s = "" then some [] else
  (s.splitOn ",").mapM parseInt

def parseNatList (s : String) : Option (List Nat) :=
  if s = "-" ∨ s = "" then some [] else
  (s.splitOn ",").mapM parseNat

def showIntList (l : List Int) : String :=
  if l.isEmpty then "-" else ",".intercalate (l.map toString)

def showNatList (l : List Nat) : String :=
  if l.isEmpty then "-" else ",".intercalate (l.map toString)

end Cx
