import Cx.DriverFast
import Cx.Model.CompositeDfa
/-
  Cx.DriverCompDfa — line-protocol requests for the CompositeSequenceDFA model (Cx.Model.CompositeDfa).
  `ast` / `hayhex` as in Cx.DriverFast.

  * `re-cdfa is - ast`              → `true`/`false`: `IsCompositeSequenceDFAPattern(re) && NewCompositeSequenceDFA(re) != nil`
  * `re-cdfa pred - ast`            → `IsCompositeSequenceDFAPattern(re)` alone;  `re-cdfa new - ast` → constructor non-nil alone
  * `re-cdfa search at hayhex ast`  → `s,e` / `nil` (`nil-dfa` when the constructor returns nil)
  * `re-cdfa ismatch hayhex ast`    → `true` / `false` (`nil-dfa` …)
  * `re-cdfa sweep alphahex L ast`  → every haystack over the alphabet up to length `L` (depth-first, prefix before its
                                      extensions, letters in the given order): for each, `IsMatch` as `T`/`F`, then `SearchAt`
                                      for `at = 0 … len` as `s,e` or `n`, all joined by `;` (`nil-dfa` …).  Builds the DFA once.
  * `re-cdfa info - ast`            → `numClasses/anchoredStates/unanchoredStates/reverseStates` (`nil-dfa` …)
-/
namespace Cx.DriverCompDfa
open Cx Cx.Fast Cx.CompDfa

/-- haystacks in the order of gocheck's `hays` -/
partial def sweepHays (alpha : List Nat) (L : Nat) (pre : Bytes) (acc : Array Bytes) : Array Bytes :=
  let acc := acc.push pre
  if L = 0 then acc else alpha.foldl (fun acc b => sweepHays alpha (L - 1) (pre.push b) acc) acc

def showShort (r : Option (Nat × Nat)) : String :=
  match r with
  | some (s, e) => s!"{s},{e}"
  | none => "n"

def sweep (d : CompositeSequenceDFA) (alpha : List Nat) (L : Nat) : String :=
  let hs := sweepHays alpha L #[] #[]
  let parts := hs.foldl (fun (acc : Array String) h =>
    let acc := acc.push (if d.isMatch h then "T" else "F")
    (List.range (h.size + 1)).foldl (fun acc a => acc.push (showShort (d.searchAt h a))) acc) #[]
  ";".intercalate parts.toList

def handle? (toks : List String) : Option String :=
  match toks with
  | ["re-cdfa", "ismatch", hex, ast] => some <|
    match parseHex hex, DriverFast.parseAst ast with
    | some h, some re =>
      match newCompositeSequenceDFA re with
      | none => "nil-dfa"
      | some d => toString (d.isMatch h)
    | _, _ => "bad-op"
  | ["re-cdfa", "sweep", alpha, l, ast] => some <|
    match parseHex alpha, parseNat l, DriverFast.parseAst ast with
    | some al, some l, some re =>
      match newCompositeSequenceDFA re with
      | none => "nil-dfa"
      | some d => sweep d al.toList l
    | _, _, _ => "bad-op"
  | ["re-cdfa", op, a, ast] => some <|
    match DriverFast.parseAst ast with
    | none => "bad-op"
    | some re =>
      match op with
      | "is" => toString (isCompositeSequenceDFAPattern re && (newCompositeSequenceDFA re).isSome)
      | "pred" => toString (isCompositeSequenceDFAPattern re)
      | "new" => toString (newCompositeSequenceDFA re).isSome
      | "info" =>
        match newCompositeSequenceDFA re with
        | none => "nil-dfa"
        | some d => s!"{d.numClasses}/{d.accepting.size}/{d.unanchored.accepting.size}/{d.reverse.accepting.size}"
      | _ => if a = "" then "bad-op" else "bad-op"
  | ["re-cdfa", "search", at_, hex, ast] => some <|
    match parseNat at_, parseHex hex, DriverFast.parseAst ast with
    | some at_, some h, some re =>
      match newCompositeSequenceDFA re with
      | none => "nil-dfa"
      | some d => Driver.showSpan (d.searchAt h at_)
    | _, _, _ => "bad-op"
  | _ => none

end Cx.DriverCompDfa
