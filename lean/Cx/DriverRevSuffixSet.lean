import Cx.Driver
import Cx.DriverRevSuffix
import Cx.DriverRevInner
import Cx.Model.RevSuffixSet
/-
  Cx.DriverRevSuffixSet — line-protocol handler for the reverse-suffix-set strategy model (`Cx.Model.RevSuffixSet`).

    revsfxset run <at|*> <hay hex> <lits> <flags> <mt> <ref>
        at     one start offset, or `*` for every offset 0..len
        lits   the suffix literals in the searcher's order: hex strings, comma separated
        flags  four digits `ZLCG`: Z = matchStartZero, L = lineBounded, C = cutMode (0 exact | 1 always cutOff when allowed |
               2 mixed), G = `SearchReverse` gives up (1) or not (0)
        mt     the match relation of the pattern on this haystack: `s.e,s.e,…` (or `-`)
        ref    the reference's leftmost-first span from every offset 0..len: `s.e` or `x`, comma separated (len+1 entries)
      The oracles are derived from the tables by brute force (`RevSuffixSet.bruteOracles`); the MODEL then runs `isMatch` and
      `findIndicesAt` for every requested offset.  Answer:   im=<true|false> <s.e|none>;<s.e|none>;…
  Malformed arguments answer `bad-op`; any other command is not handled (`none`).
-/
namespace Cx.DriverRevSuffixSet
open Cx Cx.RevSuffixSet
open Cx.DriverRevSuffix (parsePairs parseRefTab showSpan digit)

def run (ats : Option Nat) (h : Bytes) (lits : List Bytes) (flags : List Nat) (mt : List (Nat × Nat))
    (ref : Array (Option (Nat × Nat))) : String :=
  match flags with
  | [z, l, c, g] =>
    let n := h.size + 1
    let O := bruteOracles lits (DriverRevInner.mkTab n mt) (fun a => ref.getD a none) c (g == 1)
    let P : Params := { lits := lits, matchStartZero := z == 1, lineBounded := l == 1 }
    let one := fun a => showSpan (findIndicesAt O P h a)
    let body := match ats with
      | some a => one a
      | none => ";".intercalate ((List.range n).map one)
    s!"im={isMatch O P h} {body}"
  | _ => "bad-op"

def handle? (toks : List String) : Option String :=
  match toks with
  | ["revsfxset", "run", at_, hay, lits, flags, mt, ref] =>
    let ats : Option (Option Nat) := if at_ = "*" then some none else at_.toNat?.map some
    match ats, parseHex hay, DriverRevInner.parseLits lits, flags.toList.mapM digit, parsePairs mt, parseRefTab ref with
    | some a, some h, some ls, some fl, some m, some r => some (run a h ls fl m r)
    | _, _, _, _, _, _ => some "bad-op"
  | "revsfxset" :: _ => some "bad-op"
  | _ => none

end Cx.DriverRevSuffixSet
