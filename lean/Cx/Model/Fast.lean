import Cx.Basic
import Cx.Spec.Utf8
/-
  Cx.Model.Fast — transliteration of coregex's special-purpose "fast path" searchers (core-only, executable).

    §0  byte tables, a miniature `regexp/syntax.Regexp`
    §1  nfa/charclass_searcher.go + nfa/charclass_extract.go   (CharClassSearcher)
    §2  nfa/composite.go                                        (CompositeSearcher)
    §3  meta/anchored_literal.go                                (DetectAnchoredLiteral / MatchAnchoredLiteral)
    §4  nfa/firstbytes.go                                       (ExtractFirstBytes)
    §5  nfa/branch_dispatch.go                                  (BranchDispatcher)

  Conventions
  * every Go `for` loop is a structurally recursive function whose first `Nat` argument is the number of
    iterations still possible (`n - i`); entry points instantiate it, so the `0` fuel case is the loop exit;
  * Go results `(-1, -1, false)` are `none`, `(s, e, true)` is `some (s, e)`;
  * Go `int` quantities that are never negative are `Nat`; `maxMatch` (which can be `-1`, from `{n,}`) is `Int`;
  * questionable behaviour is kept: the SEARCHERS never look at the `NonGreedy` / `FoldCase` flags, `maxMatch = 0`
    means "unbounded" even when it came from `{0}`, Latin-1 runes 0x80–0xFF are used as *bytes*, … — it is the
    applicability predicates (`ExtractCharClassRanges`, `isValidCompositePart`, `DetectAnchoredLiteral`) that now keep
    such patterns away from them (non-greedy, `{…,0}`, last class rune above U+007F, `FoldCase` literal);
    the BranchDispatcher (§5) was rewritten and has no such behaviour left: it is exact on everything it accepts;
  * `CompositeSearcher.matchLengths` (a write-only scratch slice) has no influence on any result and is not modelled.
-/
namespace Cx.Fast
open Cx

/-! ## §0 tables and the AST -/

/-- `[256]bool`. Out-of-range reads (never performed for byte input) give `false`. -/
abbrev Table := Array Bool

@[inline] def Table.mem (t : Table) (b : Nat) : Bool := t.getD b false

/-- `for r := lo; r <= hi; r++ { table[byte(r)] = true }` for every pair (all pairs already known to be `≤ 255`). -/
def tableOfRanges (ranges : List (Nat × Nat)) : Table :=
  Array.ofFn (n := 256) fun i => ranges.any fun r => decide (r.1 ≤ i.val) && decide (i.val ≤ r.2)

/-- same loop but with the "clamp `hi` to 255, skip `lo > 255`" treatment used by `buildCharClassTable`
    (and, before its fix, by `ExtractFirstBytes`). (Equal to `tableOfRanges`: indices are `< 256` anyway.) -/
def tableOfRangesClamped (ranges : List (Nat × Nat)) : Table :=
  tableOfRanges ((ranges.filter fun r => decide (r.1 ≤ 255)).map fun r => (r.1, min r.2 255))

/-- `syntax.Op` -/
inductive Op
  | noMatch | emptyMatch | literal | charClass | anyCharNotNL | anyChar | beginLine | endLine | beginText | endText
  | wordBoundary | noWordBoundary | capture | star | plus | quest | repeat_ | concat | alternate
  deriving DecidableEq, Repr, Inhabited

/-- `syntax.Regexp`: `Op`, the two flags that matter here (`NonGreedy`, `FoldCase`), `Sub`, `Rune`, `Min`, `Max`. -/
inductive Re where
  | mk (op : Op) (nonGreedy foldCase : Bool) (sub : List Re) (rune : List Nat) (min max : Int)
  deriving Repr, Inhabited

namespace Re
def op : Re → Op | mk o _ _ _ _ _ _ => o
def nonGreedy : Re → Bool | mk _ g _ _ _ _ _ => g
def foldCase : Re → Bool | mk _ _ f _ _ _ _ => f
def sub : Re → List Re | mk _ _ _ s _ _ _ => s
def rune : Re → List Nat | mk _ _ _ _ r _ _ => r
def min : Re → Int | mk _ _ _ _ _ m _ => m
def max : Re → Int | mk _ _ _ _ _ _ m => m

/-! constructors for readable examples -/
def cls (r : List Nat) : Re := mk .charClass false false [] r 0 0
def lit (r : List Nat) : Re := mk .literal false false [] r 0 0
def litFold (r : List Nat) : Re := mk .literal false true [] r 0 0
def plusOf (x : Re) (lazy : Bool := false) : Re := mk .plus lazy false [x] [] 0 0
def starOf (x : Re) (lazy : Bool := false) : Re := mk .star lazy false [x] [] 0 0
def questOf (x : Re) (lazy : Bool := false) : Re := mk .quest lazy false [x] [] 0 0
def repOf (x : Re) (lo hi : Int) (lazy : Bool := false) : Re := mk .repeat_ lazy false [x] [] lo hi
def cat (l : List Re) : Re := mk .concat false false l [] 0 0
def alt (l : List Re) : Re := mk .alternate false false l [] 0 0
def cap (x : Re) : Re := mk .capture false false [x] [] 0 0
def leaf (o : Op) : Re := mk o false false [] [] 0 0
end Re

/-- `Rune` as `[lo1, hi1, lo2, hi2, …]` → pairs (a dangling odd element is dropped; callers check evenness or rely on
    the parser, which never produces odd lengths). -/
def pairs : List Nat → List (Nat × Nat)
  | a :: b :: rest => (a, b) :: pairs rest
  | _ => []

/-! ## §1 CharClassSearcher -/

structure CharClassSearcher where
  membership : Table
  /-- Go `int`; only 0 and 1 are ever passed (meta/compile.go always passes 1) -/
  minMatch : Nat
  deriving Repr

namespace CharClassSearcher

@[inline] def mem (s : CharClassSearcher) (b : Nat) : Bool := s.membership.mem b

/-- `NewCharClassSearcher(ranges, minMatch)` -/
def new (ranges : List (Nat × Nat)) (minMatch : Nat) : CharClassSearcher :=
  { membership := tableOfRanges ranges, minMatch := minMatch }

/-- `for i := at; i < n; i++ { if membership[h[i]] { start = i; break } }`, fuel `n - i`. -/
def findStart (mem : Nat → Bool) (h : Bytes) : Nat → Nat → Option Nat
  | 0, _ => none
  | k+1, i => if mem (h.at i) then some i else findStart mem h k (i+1)

/-- `for end < n && membership[h[end]] { end++ }`, fuel `n - end`. -/
def scanEnd (mem : Nat → Bool) (h : Bytes) : Nat → Nat → Nat
  | 0, e => e
  | k+1, e => if mem (h.at e) then scanEnd mem h k (e+1) else e

/-- `SearchAt` (self-recursive in Go on a too-short run); fuel bounds the recursion depth. -/
def searchAtAux (s : CharClassSearcher) (h : Bytes) : Nat → Nat → Option (Nat × Nat)
  | 0, _ => none
  | f+1, at_ =>
    if at_ ≥ h.size then none else
    match findStart s.mem h (h.size - at_) at_ with
    | none => none
    | some start =>
      let e := scanEnd s.mem h (h.size - (start + 1)) (start + 1)
      if e - start < s.minMatch then searchAtAux s h f (start + 1) else some (start, e)

def searchAt (s : CharClassSearcher) (h : Bytes) (at_ : Nat) : Option (Nat × Nat) :=
  searchAtAux s h (h.size + 1) at_

/-- `Search` -/
def search (s : CharClassSearcher) (h : Bytes) : Option (Nat × Nat) := s.searchAt h 0

/-- `IsMatch` loop: fuel `n - i`, state `matchLen`. -/
def isMatchLoop (s : CharClassSearcher) (h : Bytes) : Nat → Nat → Nat → Bool
  | 0, _, _ => false
  | k+1, i, matchLen =>
    if s.mem (h.at i) then
      if matchLen + 1 ≥ s.minMatch then true else isMatchLoop s h k (i+1) (matchLen + 1)
    else isMatchLoop s h k (i+1) 0

def isMatch (s : CharClassSearcher) (h : Bytes) : Bool := isMatchLoop s h h.size 0 0

/-- `FindAllIndices`: the streaming state machine. State = (`matching`, `matchStart`); the emitted spans are returned
    in emission order (Go appends to `results`). The `0` case is the "match at end of input" epilogue. -/
def findAllLoop (s : CharClassSearcher) (h : Bytes) : Nat → Nat → Bool → Nat → List (Nat × Nat)
  | 0, _, matching, matchStart =>
    if matching && decide (h.size - matchStart ≥ s.minMatch) then [(matchStart, h.size)] else []
  | k+1, i, matching, matchStart =>
    let m := s.mem (h.at i)
    if !matching then
      if m then findAllLoop s h k (i+1) true i else findAllLoop s h k (i+1) false matchStart
    else if !m then
      if i - matchStart ≥ s.minMatch then (matchStart, i) :: findAllLoop s h k (i+1) false matchStart
      else findAllLoop s h k (i+1) false matchStart
    else findAllLoop s h k (i+1) true matchStart

def findAllIndices (s : CharClassSearcher) (h : Bytes) : List (Nat × Nat) :=
  if h.size = 0 then [] else findAllLoop s h h.size 0 false 0

/-- `Count`: same machine, counting. -/
def countLoop (s : CharClassSearcher) (h : Bytes) : Nat → Nat → Bool → Nat → Nat
  | 0, _, matching, matchStart =>
    if matching && decide (h.size - matchStart ≥ s.minMatch) then 1 else 0
  | k+1, i, matching, matchStart =>
    let m := s.mem (h.at i)
    if !matching then
      if m then countLoop s h k (i+1) true i else countLoop s h k (i+1) false matchStart
    else if !m then
      if i - matchStart ≥ s.minMatch then countLoop s h k (i+1) false matchStart + 1
      else countLoop s h k (i+1) false matchStart
    else countLoop s h k (i+1) true matchStart

def count (s : CharClassSearcher) (h : Bytes) : Nat :=
  if h.size = 0 then 0 else countLoop s h h.size 0 false 0

end CharClassSearcher

/-- `ExtractCharClassRanges` (nfa/charclass_extract.go). `none` = Go `nil`. -/
def extractCharClassRanges (re : Re) : Option (List (Nat × Nat)) :=
  if re.op ≠ .plus then none else
  -- `if re.Flags&syntax.NonGreedy != 0 { return nil }`
  if re.nonGreedy then none else
  match re.sub with
  | [sub] =>
    if sub.op ≠ .charClass then none else
    if sub.rune.length % 2 ≠ 0 then none else
    let ps := pairs sub.rune
    if ps.any (fun r => decide (r.1 > 127) || decide (r.2 > 127)) then none else
    if ps.isEmpty then none else some ps
  | _ => none

/-- `IsSimpleCharClassPlus` -/
def isSimpleCharClassPlus (re : Re) : Bool := (extractCharClassRanges re).isSome

/-- what meta/compile.go builds for `UseCharClassSearcher` (`minMatch` is 1: `re.Op` is `OpPlus` here). -/
def buildCharClassSearcher (re : Re) : Option CharClassSearcher :=
  (extractCharClassRanges re).map fun ranges =>
    CharClassSearcher.new ranges (if re.op = .star then 0 else 1)

/-! ## §2 CompositeSearcher -/

structure CharClassPart where
  membership : Table
  minMatch : Nat
  /-- `0` (and anything `≤ 0`, e.g. `-1` from `{n,}`) = unlimited -/
  maxMatch : Int
  deriving Repr

namespace CharClassPart
@[inline] def mem (p : CharClassPart) (b : Nat) : Bool := p.membership.mem b
end CharClassPart

structure CompositeSearcher where
  parts : List CharClassPart
  deriving Repr

namespace CompositeSearcher

/-- `for canConsume < maxLen && pos+canConsume < n && membership[h[pos+canConsume]] { canConsume++ }`:
    first argument = `maxLen - canConsume`, second = `pos + canConsume`; the value is the number of further increments. -/
def consume (mem : Nat → Bool) (h : Bytes) : Nat → Nat → Nat
  | 0, _ => 0
  | k+1, i => if i < h.size && mem (h.at i) then consume mem h k (i+1) + 1 else 0

/-- `for tryLen := canConsume; tryLen >= minMatch; tryLen-- { if end, ok := rest(pos+tryLen); ok { return end } }` -/
def tryDown (rest : Nat → Option Nat) (pos minMatch : Nat) : Nat → Option Nat
  | 0 => if 0 ≥ minMatch then rest pos else none
  | t+1 =>
    if t + 1 ≥ minMatch then
      match rest (pos + (t + 1)) with
      | some e => some e
      | none => tryDown rest pos minMatch t
    else none

/-- `maxLen := n - pos; if part.maxMatch > 0 && part.maxMatch < maxLen { maxLen = part.maxMatch }` -/
def maxLen (p : CharClassPart) (n pos : Nat) : Nat :=
  if p.maxMatch > 0 ∧ p.maxMatch < ((n - pos : Nat) : Int) then p.maxMatch.toNat else n - pos

/-- `matchAtWithBacktrack(h, pos, partIdx, _)` with `parts[partIdx:]` as the list argument. -/
def matchFrom (h : Bytes) : List CharClassPart → Nat → Option Nat
  | [], pos => some pos
  | p :: ps, pos =>
    tryDown (matchFrom h ps) pos p.minMatch (consume p.mem h (maxLen p h.size pos) pos)

/-- `matchAt` -/
def matchAt (c : CompositeSearcher) (h : Bytes) (pos : Nat) : Option Nat := matchFrom h c.parts pos

/-- `for pos := at; pos <= n; pos++ { if end, ok := matchAt(h, pos); ok { return pos, end, true } }`, fuel `n+1-pos`. -/
def searchLoop (c : CompositeSearcher) (h : Bytes) : Nat → Nat → Option (Nat × Nat)
  | 0, _ => none
  | k+1, pos =>
    match c.matchAt h pos with
    | some e => some (pos, e)
    | none => searchLoop c h k (pos + 1)

def searchAt (c : CompositeSearcher) (h : Bytes) (at_ : Nat) : Option (Nat × Nat) :=
  if c.parts.length = 0 then some (at_, at_) else searchLoop c h (h.size + 1 - at_) at_

def search (c : CompositeSearcher) (h : Bytes) : Option (Nat × Nat) := c.searchAt h 0

/-- `IsMatch`: `_, _, ok := c.Search(h); return ok` -/
def isMatch (c : CompositeSearcher) (h : Bytes) : Bool := (c.search h).isSome

end CompositeSearcher

/-- `extractSinglePart` -/
def extractSinglePart (re : Re) : Option CharClassPart :=
  let shape : Option (Re × Nat × Int) :=
    match re.op with
    | .plus => match re.sub with | [x] => some (x, 1, 0) | _ => none
    | .star => match re.sub with | [x] => some (x, 0, 0) | _ => none
    | .quest => match re.sub with | [x] => some (x, 0, 1) | _ => none
    | .repeat_ => match re.sub with | [x] => some (x, re.min.toNat, re.max) | _ => none
    | .charClass => some (re, 1, 1)
    | _ => none
  match shape with
  | none => none
  | some (cc, lo, hi) =>
    if cc.op ≠ .charClass then none else
    let ps := pairs cc.rune
    if ps.any (fun r => decide (r.1 > 255) || decide (r.2 > 255)) then none else
    some { membership := tableOfRanges ps, minMatch := lo, maxMatch := hi }

/-- `extractCompositeCharClassParts` (`none` = `nil`) -/
def extractCompositeParts (re : Re) : Option (List CharClassPart) :=
  if re.op ≠ .concat then none else
  match re.sub.mapM extractSinglePart with
  | none => none
  | some parts => if parts.length < 2 then none else some parts

/-- `NewCompositeSearcher` -/
def newCompositeSearcher (re : Re) : Option CompositeSearcher :=
  (extractCompositeParts re).map fun ps => { parts := ps }

/-- `len(rune) > 0 && rune[len(rune)-1] > 0x7F`: the test both `isValidCompositePart` and `DetectAnchoredLiteral` use
    for "the class has a member above U+007F" (the parser keeps `Rune` sorted, so the last rune is the greatest). -/
def lastRuneAbove7F (rune : List Nat) : Bool :=
  match rune.getLast? with
  | some r => decide (r > 0x7F)
  | none => false

/-- `compositePartClass`: the class a composite part repeats (`none` = `nil`) -/
def compositePartClass (re : Re) : Option Re :=
  if re.op = .charClass then some re else
  match re.sub with
  | [x] => if x.op = .charClass then some x else none
  | _ => none

/-- `cc := compositePartClass(re); cc != nil && len(cc.Rune) > 0 && cc.Rune[len(cc.Rune)-1] > 0x7F` -/
def compositePartNonAscii (re : Re) : Bool :=
  match compositePartClass re with
  | some cc => lastRuneAbove7F cc.rune
  | none => false

/-- `isValidCompositePart` -/
def isValidCompositePart (re : Re) : Bool :=
  if re.nonGreedy then false else
  if re.op = .repeat_ ∧ re.max = 0 then false else
  if compositePartNonAscii re then false else
  match re.op with
  | .plus | .star | .quest | .repeat_ =>
    match re.sub with
    | [x] => decide (x.op = .charClass)
    | _ => false
  | .charClass => true
  | _ => false

/-- `IsCompositeCharClassPattern` -/
def isCompositeCharClassPattern (re : Re) : Bool :=
  decide (re.op = .concat) && decide (re.sub.length ≥ 2) && re.sub.all isValidCompositePart

/-! ## §3 anchored literal (`^prefix.*[cls+]suffix$`) -/

structure AnchoredLiteralInfo where
  pfx : Bytes
  sfx : Bytes
  /-- `nil` = no bridge -/
  charClassTable : Option Table
  charClassMin : Nat
  wildcardMin : Nat
  /-- `WildcardMatchesNewline`: the wildcard is `(?s:.)` -/
  wildcardMatchesNewline : Bool
  minLength : Nat
  deriving Repr

def isStartAnchor (re : Re) : Bool := decide (re.op = .beginText)
def isEndAnchor (re : Re) : Bool := decide (re.op = .endText)

def isGreedyWildcard (re : Re) : Bool :=
  if re.op ≠ .star ∧ re.op ≠ .plus then false else
  match re.sub with
  | [x] => decide (x.op = .anyChar) || decide (x.op = .anyCharNotNL)
  | _ => false

def getWildcardMin (re : Re) : Nat := if re.op = .plus then 1 else 0

/-- `sub.Sub[0].Op == syntax.OpAnyChar` (only evaluated after `isGreedyWildcard(sub)`, so `Sub[0]` exists) -/
def wildcardIsDotNL (re : Re) : Bool :=
  match re.sub with
  | x :: _ => decide (x.op = .anyChar)
  | [] => false

def isCharClassPlus (re : Re) : Bool :=
  if re.op ≠ .plus then false else
  match re.sub with
  | [x] => decide (x.op = .charClass)
  | _ => false

/-- `encodeRuneToBytes` -/
def encodeRune (r : Nat) : List Nat :=
  if r < 0x80 then [r]
  else if r < 0x800 then [0xC0 ||| (r >>> 6), 0x80 ||| (r &&& 0x3F)]
  else if r < 0x10000 then [0xE0 ||| (r >>> 12), 0x80 ||| ((r >>> 6) &&& 0x3F), 0x80 ||| (r &&& 0x3F)]
  else [(0xF0 ||| (r >>> 18)) % 256, 0x80 ||| ((r >>> 12) &&& 0x3F), 0x80 ||| ((r >>> 6) &&& 0x3F), 0x80 ||| (r &&& 0x3F)]

/-- `extractLiteral`: `nil` for a `FoldCase` literal; runes `> 0x7F` are UTF-8 encoded. -/
def extractLiteral (re : Re) : Option Bytes :=
  if re.op ≠ .literal then none else
  if re.foldCase then none else
  some (re.rune.flatMap fun r => if r > 0x7F then encodeRune r else [r]).toArray

/-- `buildCharClassTable` -/
def buildCharClassTable (re : Re) : Option Table :=
  if re.op ≠ .charClass then none else some (tableOfRangesClamped (pairs re.rune))

/-- scan state of the `for i := 1; i < suffixIdx; i++` loop in `DetectAnchoredLiteral` -/
structure DetectState where
  pfx : Bytes := #[]
  wildcardSeen : Bool := false
  wildcardMin : Nat := 0
  wildcardNL : Bool := false
  table : Option Table := none
  charClassMin : Nat := 0

/-- the middle loop; `subs` = the elements still to visit, `isLast` is `i == suffixIdx-1`. `none` = `return nil`. -/
def detectLoop : List Re → DetectState → Option DetectState
  | [], st => some st
  | sub :: rest, st =>
    if isGreedyWildcard sub then
      if st.wildcardSeen then none
      else detectLoop rest { st with wildcardSeen := true, wildcardMin := getWildcardMin sub,
                                     wildcardNL := wildcardIsDotNL sub }
    else if !st.wildcardSeen then
      match extractLiteral sub with
      | none => none
      | some lit => detectLoop rest { st with pfx := st.pfx ++ lit }
    else
      if isCharClassPlus sub && rest.isEmpty then
        match sub.sub with
        | [cc] =>
          -- `if cc := sub.Sub[0].Rune; len(cc) > 0 && cc[len(cc)-1] > 0x7F { return nil }`
          if lastRuneAbove7F cc.rune then none
          else detectLoop rest { st with table := buildCharClassTable cc, charClassMin := 1 }
        | _ => none
      else none

/-- `DetectAnchoredLiteral` -/
def detectAnchoredLiteral (re : Re) : Option AnchoredLiteralInfo :=
  if re.op ≠ .concat then none else
  let subs := re.sub
  if subs.length < 3 then none else
  match subs with
  | first :: tail =>
    if !isStartAnchor first then none else
    match tail.getLast? with
    | none => none
    | some last =>
      if !isEndAnchor last then none else
      -- tail = middle ++ [suffix, last]
      let inner := tail.dropLast
      match inner.getLast? with
      | none => none
      | some sfxRe =>
        match extractLiteral sfxRe with
        | none => none
        | some sfx =>
          match detectLoop inner.dropLast {} with
          | none => none
          | some st =>
            if !st.wildcardSeen then none else
            some { pfx := st.pfx, sfx := sfx, charClassTable := st.table, charClassMin := st.charClassMin,
                   wildcardMin := st.wildcardMin, wildcardMatchesNewline := st.wildcardNL,
                   minLength := st.pfx.size + st.wildcardMin + st.charClassMin + sfx.size }
  | [] => none

/-- `for i, b := range lit { if input[off+i] != b { return false } }` -/
def bytesAt (input : Bytes) (off : Nat) : List Nat → Bool
  | [] => true
  | b :: rest => if input.at off ≠ b then false else bytesAt input (off + 1) rest

/-- `for i := charClassEnd-1; i >= charClassStart; i-- { if table[input[i]] { found++ } else { break } }`:
    first argument = number of iterations still possible (`i + 1 - charClassStart`), second = `i + 1`. -/
def countBack (t : Table) (input : Bytes) : Nat → Nat → Nat
  | 0, _ => 0
  | k+1, i1 => if t.mem (input.at (i1 - 1)) then countBack t input k (i1 - 1) + 1 else 0

/-- `bytes.IndexByte(input[lo:hi], c) < 0` (library call, stated over the index range; `lo ≤ hi ≤ len(input)` at both
    call sites, see `matchAnchoredLiteral`) -/
def noByteIn (c : Nat) (input : Bytes) (lo hi : Nat) : Bool :=
  (List.range' lo (hi - lo)).all fun i => decide (input.at i ≠ c)

/-- `info.wildcardOK(input[lo:hi])`: `info.WildcardMatchesNewline || bytes.IndexByte(span, '\n') < 0` -/
def AnchoredLiteralInfo.wildcardOK (info : AnchoredLiteralInfo) (input : Bytes) (lo hi : Nat) : Bool :=
  info.wildcardMatchesNewline || noByteIn 10 input lo hi

/-- `MatchAnchoredLiteral`. (On an `info` whose `minLength` is smaller than `len(prefix)+len(suffix)` the Go code can
    index out of range; `DetectAnchoredLiteral` never produces such an `info`, see `AnchoredLiteralInfo.WF`.) -/
def matchAnchoredLiteral (input : Bytes) (info : AnchoredLiteralInfo) : Bool :=
  if input.size < info.minLength then false else
  if info.pfx.size > 0 ∧ (input.size < info.pfx.size ∨ !bytesAt input 0 info.pfx.toList) then false else
  let suffixStart := input.size - info.sfx.size
  if !bytesAt input suffixStart info.sfx.toList then false else
  match info.charClassTable with
  | none => decide (suffixStart - info.pfx.size ≥ info.wildcardMin) && info.wildcardOK input info.pfx.size suffixStart
  | some t =>
    let charClassStart := info.pfx.size + info.wildcardMin
    let found := countBack t input (suffixStart - charClassStart) suffixStart
    decide (found ≥ info.charClassMin) && info.wildcardOK input info.pfx.size (suffixStart - found)

/-- meta `findIndicesAnchoredLiteral` -/
def anchoredFind (input : Bytes) (info : AnchoredLiteralInfo) : Option (Nat × Nat) :=
  if matchAnchoredLiteral input info then some (0, input.size) else none

/-- meta `findIndicesAnchoredLiteralAt` -/
def anchoredFindAt (input : Bytes) (info : AnchoredLiteralInfo) (at_ : Nat) : Option (Nat × Nat) :=
  if at_ > 0 then none else anchoredFind input info

/-! ## §4 ExtractFirstBytes (nfa/firstbytes.go, after "the first-byte rejection filter must account for case folding
    and multi-byte runes" and "an assertion in first position must not make the first-byte set look complete")

  * `bytes [256]bool` is a `Table`; `count`, `complete` as in Go.  `complete` starts `true` and is only ever cleared
    immediately before a `return false` (`*`, `?`, `{0,…}`), and every `false` propagates to the top (→ `nil`), so a
    non-nil result always has `complete = true` (`firstBytes_complete` in Cx.Proofs.Fast).
  * a bare assertion (`OpBeginLine`, `OpBeginText`, `OpEndLine`, `OpEndText`) now answers `false` (it used to answer
    `true` without adding a byte); `OpWordBoundary`, `OpNoWordBoundary`, `OpEmptyMatch`, `OpNoMatch` have no case and fall
    to `default: return false`, as before.  `OpConcat` skips every leading element for which `isAssertionOnly` holds
    (`^`, `$`, `\A`, `\z`, alone or inside capture groups, `+`, nested concatenations: `(^)a`, `(?:^)+a`, `(?:^$)a`;
    NOT `\b`, `\B`, the empty regexp, `(?:^)*`, `(?:^){2}`, `^|$`) and recurses into the first other element; a
    concatenation of assertion-only elements answers `false`.  `isAssertionOnly` recurses over the AST without a depth
    bound (so does the Go function); `extractFirstBytesRecursive` keeps its bound `maxFirstBytesDepth`.
  * `unicode.SimpleFold` is not transliterated: the loop
        `orbit := []rune{r}; for f := unicode.SimpleFold(r); f != r; f = unicode.SimpleFold(f) { orbit = append(orbit, f) }`
    is the parameter `foldOrbit : Nat → List Nat` = the runes appended by that loop (the OTHER members of the
    case-folding orbit of `r`, in `SimpleFold` order; `[]` for a rune without case variants).  Cx.DriverFast supplies it
    from a table generated from Go's `unicode` package; the soundness theorem needs only that it covers the folding
    the reference matcher implements (`OrbitSound`, Cx.Spec.Fast).
  * `utf8.EncodeRune(buf[:], m); buf[0]` is `encodeFirst m` (`Utf8.encode` writes U+FFFD = EF BF BD for surrogates and
    runes above U+10FFFF, as Go does).
  * the class loop reads `re.Rune[i], re.Rune[i+1]` and would panic on an odd-length `Rune` (the parser never builds
    one); `pairs` drops a dangling element.  Runes are `Nat`: a negative `lo` (impossible for parsed classes) is not
    modelled, so `byte(r)` for `lo ≤ r ≤ min(hi, 0x7F)` is `r` itself. -/

structure FirstByteSet where
  bytes : Table := Array.replicate 256 false
  count : Nat := 0
  complete : Bool := true
  deriving Repr

namespace FirstByteSet
def contains (f : FirstByteSet) (b : Nat) : Bool := f.bytes.mem b
def isUseful (f : FirstByteSet) : Bool := f.complete && decide (f.count > 0) && decide (f.count < 256)

/-- `if !result.bytes[b] { result.bytes[b] = true; result.count++ }` -/
def addNew (f : FirstByteSet) (b : Nat) : FirstByteSet :=
  if f.bytes.mem b then f else { f with bytes := f.bytes.setIfInBounds b true, count := f.count + 1 }
end FirstByteSet

/-- `utf8.EncodeRune(buf[:], m); buf[0]` -/
def encodeFirst (m : Nat) : Nat := (Utf8.encode m).headD 0

/-- the `orbit` slice of the `OpLiteral` case: `r`, then (for a `FoldCase` literal) what the `SimpleFold` loop appends -/
def literalOrbit (foldOrbit : Nat → List Nat) (fold : Bool) (r : Nat) : List Nat :=
  r :: (if fold then foldOrbit r else [])

/-- `for r := lo; r <= hi; r++ { addNew(byte(r)) }`, fuel `hi + 1 - r` -/
def addRange (f : FirstByteSet) : Nat → Nat → FirstByteSet
  | 0, _ => f
  | k+1, r => addRange (f.addNew r) k (r + 1)

/-- the `OpCharClass` loop: a range reaching above U+007F contributes every byte `0x80..0xFF` and is cut at `0x7F` -/
def addClassRanges (f : FirstByteSet) : List (Nat × Nat) → FirstByteSet
  | [] => f
  | (lo, hi) :: rest =>
    if hi > 0x7F then
      -- `for b := 0x80; b <= 0xFF; b++ { addNew(b) }; hi = 0x7F`
      addClassRanges (addRange (addRange f 128 0x80) (0x7F + 1 - lo) lo) rest
    else addClassRanges (addRange f (hi + 1 - lo) lo) rest

/-- `for _, sub := range re.Sub { if !rec(sub, result) { return false } }; return true` -/
def altLoop (rec : Re → FirstByteSet → Bool × FirstByteSet) : List Re → FirstByteSet → Bool × FirstByteSet
  | [], res => (true, res)
  | x :: xs, res =>
    match rec x res with
    | (false, res) => (false, res)
    | (true, res) => altLoop rec xs res

mutual
/-- `isAssertionOnly(re)`: the anchors `^`, `$`, `\A`, `\z` alone, possibly grouped (`OpCapture`), repeated at least once
    (`OpPlus`) or concatenated (a non-empty `OpConcat` of such).  Recursion on the AST, as in Go (no depth bound). -/
def isAssertionOnly : Re → Bool
  | .mk op _ _ sub _ _ _ =>
    match op with
    | .beginLine | .beginText | .endLine | .endText => true
    | .capture | .plus =>
      -- `len(re.Sub) == 1 && isAssertionOnly(re.Sub[0])`
      match sub with
      | [x] => isAssertionOnly x
      | _ => false
    | .concat =>
      -- `for _, sub := range re.Sub { if !isAssertionOnly(sub) { return false } }; return len(re.Sub) > 0`
      allAssertionOnly sub && !sub.isEmpty
    | _ => false
/-- the loop of the `OpConcat` case of `isAssertionOnly` -/
def allAssertionOnly : List Re → Bool
  | [] => true
  | x :: xs => isAssertionOnly x && allAssertionOnly xs
end

/-- `extractFirstBytesRecursive(re, result, depth)` with fuel `maxFirstBytesDepth + 1 - depth` (so fuel `0` is
    `depth > maxFirstBytesDepth`). Returns the Go `bool` and the mutated `*result`. -/
def extractFirstBytesRec (foldOrbit : Nat → List Nat) : Nat → Re → FirstByteSet → Bool × FirstByteSet
  | 0, _, res => (false, res)
  | fuel+1, re, res =>
    match re.op with
    | .literal =>
      match re.rune with
      | [] => (false, res)
      | r :: _ =>
        -- `for _, m := range orbit { EncodeRune(buf, m); addNew(buf[0]) }`
        (true, ((literalOrbit foldOrbit re.foldCase r).map encodeFirst).foldl FirstByteSet.addNew res)
    | .charClass =>
      let res := addClassRanges res (pairs re.rune)
      (decide (res.count > 0), res)
    | .anyCharNotNL => (true, ((List.range 256).filter (· ≠ 10)).foldl FirstByteSet.addNew res)
    | .anyChar => (true, (List.range 256).foldl FirstByteSet.addNew res)
    | .beginLine | .beginText | .endLine | .endText => (false, res)
    | .capture =>
      match re.sub with
      | [x] => extractFirstBytesRec foldOrbit fuel x res
      | _ => (false, res)
    | .concat =>
      -- `for _, sub := range re.Sub { if isAssertionOnly(sub) { continue }; return rec(sub) }; return false`
      match re.sub.find? (fun s => !isAssertionOnly s) with
      | some x => extractFirstBytesRec foldOrbit fuel x res
      | none => (false, res)
    | .alternate =>
      altLoop (extractFirstBytesRec foldOrbit fuel) re.sub res
    | .star | .quest => (false, { res with complete := false })
    | .plus =>
      match re.sub with
      | [x] => extractFirstBytesRec foldOrbit fuel x res
      | _ => (false, res)
    | .repeat_ =>
      if re.min = 0 then (false, { res with complete := false }) else
      match re.sub with
      | [x] => extractFirstBytesRec foldOrbit fuel x res
      | _ => (false, res)
    | _ => (false, res)

/-- `ExtractFirstBytes` (`none` = `nil`) -/
def extractFirstBytes (foldOrbit : Nat → List Nat) (re : Re) : Option FirstByteSet :=
  match extractFirstBytesRec foldOrbit 21 re {} with
  | (true, res) => some res
  | (false, _) => none

/-! ## §5 BranchDispatcher (nfa/branch_dispatch.go, the "exact on everything it accepts" rewrite)

  * `byteSet` (`[4]uint64`, a 256-bit set) is ONE natural number whose bit `b` says whether byte `b` is a member
    (`ByteSet.bits`; word `b>>6`, bit `b&63` of the Go array is bit `b` of the number): `add` is `||| 1 <<< b`, `has` is
    `testBit`, `intersects` is `&&& ≠ 0`.  (Not a `Table` as in §1–§4: the kernel evaluates these by GMP arithmetic, which
    keeps the `decide` witnesses of Cx.Proofs.FastCex cheap.)
  * `steps []byteSet` is a `List ByteSet` (Go appends at the end: `steps ++ [s]`).
  * `m.add` mutates the receiver and returns a `bool`; on `false` every caller discards the matcher, so the model is
    `Option BranchMatcher` (`none` = `false`).  Fuel = `maxFirstBytesDepth + 1 - depth` as in §4.
  * `unicode.SimpleFold(r) != r` is the parameter `hasFold : Nat → Bool` ("the rune has a case variant").  The model
    and the theorems are parametric in it; Cx.DriverFast instantiates it with a table generated from Go's `unicode`
    package, the exactness theorem needs only that it is `true` on the ASCII letters (`FoldSound`, Cx.Spec.Fast).
  * rune values are `Nat`, so the test `lo < 0` of `asciiClassSet` cannot fire; `tailMin` is never negative
    (`minCount < 0` is rejected) and is a `Nat`; `tailMax` keeps Go's `-1 = unbounded` (any negative `Max` of a
    hand-built `OpRepeat` behaves the same way in the Go code) and is an `Int`.
  * the field `branches []*syntax.Regexp` is never read by `Search`/`IsMatch` and is not modelled. -/

/-- `byteSet`; the zero value `var s byteSet` is `{}` -/
structure ByteSet where
  bits : Nat := 0
  deriving Repr

namespace ByteSet
/-- `s.add(b)`: `s[b>>6] |= 1 << (b & 63)` -/
def add (s : ByteSet) (b : Nat) : ByteSet := ⟨s.bits ||| (1 <<< b)⟩
/-- `s.has(b)`: `s[b>>6] & (1 << (b & 63)) != 0` -/
def has (s : ByteSet) (b : Nat) : Bool := s.bits.testBit b
/-- `s.intersects(&o)`: some word of `s & o` is non-zero -/
def intersects (s o : ByteSet) : Bool := decide (s.bits &&& o.bits ≠ 0)
/-- `for r := lo; r <= hi; r++ { s.add(byte(r)) }`, fuel `hi + 1 - r` -/
def addRange (s : ByteSet) : Nat → Nat → ByteSet
  | 0, _ => s
  | k+1, r => addRange (s.add r) k (r + 1)
end ByteSet

/-- `var s byteSet; s.add(b)` -/
def byteSetSingle (b : Nat) : ByteSet := ({} : ByteSet).add b

/-- `const maxBranchSteps = 4096` -/
def maxBranchSteps : Nat := 4096

/-- `branchMatcher`: `steps[0] … steps[n-1] tail{tailMin,tailMax}` -/
structure BranchMatcher where
  steps : List ByteSet := []
  hasTail : Bool := false
  tail : ByteSet := {}
  tailMin : Nat := 0
  /-- `-1` (any negative value) = unbounded -/
  tailMax : Int := 0
  deriving Repr

namespace BranchMatcher

/-- `minLen` -/
def minLen (m : BranchMatcher) : Nat := if m.hasTail then m.steps.length + m.tailMin else m.steps.length

/-- `firstSet` -/
def firstSet (m : BranchMatcher) : ByteSet :=
  match m.steps with
  | s :: _ => s
  | [] => m.tail

/-- `for i := range m.steps { if !m.steps[i].has(haystack[i]) { return -1, false } }` (second argument: `m.steps[i:]`) -/
def stepsAt (h : Bytes) : List ByteSet → Nat → Bool
  | [], _ => true
  | s :: ss, i => if !s.has (h.at i) then false else stepsAt h ss (i + 1)

/-- `for end < limit && m.tail.has(haystack[end]) { end++ }`, fuel `limit - end` -/
def tailScan (t : ByteSet) (h : Bytes) : Nat → Nat → Nat
  | 0, e => e
  | k+1, e => if t.has (h.at e) then tailScan t h k (e + 1) else e

/-- `match`: the end of the unique match of the branch at offset 0 (`none` = `(-1, false)`) -/
def match_ (m : BranchMatcher) (h : Bytes) : Option Nat :=
  let n := m.steps.length
  if h.size < n then none else
  if !stepsAt h m.steps 0 then none else
  if !m.hasTail then some n else
  let limit := if m.tailMax ≥ 0 ∧ (n : Int) + m.tailMax < (h.size : Int) then n + m.tailMax.toNat else h.size
  let e := tailScan m.tail h (limit - n) n
  if e - n < m.tailMin then none else some e

/-- `addStep` -/
def addStep (m : BranchMatcher) (s : ByteSet) : Option BranchMatcher :=
  if m.hasTail ∨ m.steps.length ≥ maxBranchSteps then none else some { m with steps := m.steps ++ [s] }

/-- `for _, b := range buf[:n] { var s byteSet; s.add(b); if !m.addStep(s) { return false } }` -/
def addBytes (m : BranchMatcher) : List Nat → Option BranchMatcher
  | [] => some m
  | b :: bs =>
    match m.addStep (byteSetSingle b) with
    | none => none
    | some m' => addBytes m' bs

/-- the `OpLiteral` loop over `re.Rune` (`fold` = the `FoldCase` flag; `utf8.ValidRune` = `Utf8.isScalar`) -/
def addLiteral (hasFold : Nat → Bool) (fold : Bool) (m : BranchMatcher) : List Nat → Option BranchMatcher
  | [] => some m
  | r :: rs =>
    if fold && hasFold r then none else
    if r = Utf8.runeError ∨ ¬ Utf8.isScalar r then none else
    match m.addBytes (Utf8.encode r) with
    | none => none
    | some m' => addLiteral hasFold fold m' rs

/-- `for i := 0; i < minCount; i++ { if !m.addStep(elem.steps[0]) { return false } }` -/
def addStepN (m : BranchMatcher) (s : ByteSet) : Nat → Option BranchMatcher
  | 0 => some m
  | n+1 =>
    match m.addStep s with
    | none => none
    | some m' => addStepN m' s n

/-- `for _, sub := range re.Sub { if !m.add(sub, depth+1) { return false } }; return true` -/
def addList (rec : BranchMatcher → Re → Option BranchMatcher) : List Re → BranchMatcher → Option BranchMatcher
  | [], m => some m
  | x :: xs, m =>
    match rec m x with
    | none => none
    | some m' => addList rec xs m'

end BranchMatcher

/-- the loop of `asciiClassSet` over the `(lo, hi)` pairs (`lo < 0` cannot happen: runes are `Nat`) -/
def asciiClassLoop (s : ByteSet) : List (Nat × Nat) → Option ByteSet
  | [] => some s
  | (lo, hi) :: rest => if hi > 0x7F ∨ lo > hi then none else asciiClassLoop (s.addRange (hi + 1 - lo) lo) rest

/-- `asciiClassSet` (`none` = `ok == false`) -/
def asciiClassSet (re : Re) : Option ByteSet :=
  if re.rune.length = 0 ∨ re.rune.length % 2 ≠ 0 then none else asciiClassLoop {} (pairs re.rune)

/-- `minCount, maxCount` of the four repetition operators -/
def repBounds (re : Re) : Int × Int :=
  match re.op with
  | .plus => (1, -1)
  | .quest => (0, 1)
  | .repeat_ => (re.min, re.max)
  | _ => (0, -1)

/-- `(*branchMatcher).add(re, depth)`, fuel `maxFirstBytesDepth + 1 - depth` -/
def BranchMatcher.add (hasFold : Nat → Bool) : Nat → BranchMatcher → Re → Option BranchMatcher
  | 0, _, _ => none
  | fuel+1, m, re =>
    match re.op with
    | .emptyMatch => some m
    | .capture =>
      match re.sub with
      | [x] => BranchMatcher.add hasFold fuel m x
      | _ => none
    | .concat => BranchMatcher.addList (BranchMatcher.add hasFold fuel) re.sub m
    | .literal => m.addLiteral hasFold re.foldCase re.rune
    | .charClass =>
      match asciiClassSet re with
      | none => none
      | some s => m.addStep s
    | .plus | .star | .quest | .repeat_ =>
      match re.sub with
      | [x] =>
        let minCount := (repBounds re).1
        let maxCount := (repBounds re).2
        if minCount < 0 ∨ (maxCount ≥ 0 ∧ maxCount < minCount) then none else
        if maxCount = 0 then some m else
        -- `var elem branchMatcher; elem.add(re.Sub[0], depth+1)`: exactly one single-byte step
        match BranchMatcher.add hasFold fuel {} x with
        | none => none
        | some elem =>
          match elem.hasTail, elem.steps with
          | false, [s] =>
            if minCount = maxCount then m.addStepN s minCount.toNat
            else if re.nonGreedy ∨ m.hasTail then none
            else some { m with hasTail := true, tail := s, tailMin := minCount.toNat, tailMax := maxCount }
          | _, _ => none
      | _ => none
    | _ => none

/-- `buildBranchMatcher` (`none` = `ok == false`) -/
def buildBranchMatcher (hasFold : Nat → Bool) (re : Re) : Option BranchMatcher :=
  match BranchMatcher.add hasFold 21 {} re with
  | none => none
  | some m => if m.minLen = 0 then none else some m

/-- `unwrapCaptures`: `for re.Op == OpCapture && len(re.Sub) == 1 { re = re.Sub[0] }` -/
def unwrapCaptures : Re → Re
  | .mk .capture _ _ [x] _ _ _ => unwrapCaptures x
  | re => re

structure BranchDispatcher where
  /-- `[256]int8`, `-1` = no branch -/
  dispatch : Array Int
  branchMatchers : List BranchMatcher
  deriving Repr

/-- loop state of `NewBranchDispatcher` (`branchMatchers[i] = m` on a pre-sized slice = append) -/
structure BDState where
  dispatch : Array Int := Array.replicate 256 (-1)
  matchers : List BranchMatcher := []
  seen : ByteSet := {}

/-- `for b := 0; b < 256; b++ { if first.has(byte(b)) { seen.add(byte(b)); dispatch[b] = int8(i) } }` -/
def claimBytes (first : ByteSet) (i : Nat) : List Nat → ByteSet → Array Int → ByteSet × Array Int
  | [], seen, d => (seen, d)
  | b :: bs, seen, d =>
    if first.has b then claimBytes first i bs (seen.add b) (d.setIfInBounds b (i : Int))
    else claimBytes first i bs seen d

/-- the `for i, branch := range branches` loop -/
def newBranchLoop (hasFold : Nat → Bool) : List Re → Nat → BDState → Option BDState
  | [], _, st => some st
  | branch :: rest, i, st =>
    match buildBranchMatcher hasFold branch with
    | none => none
    | some m =>
      if m.firstSet.intersects st.seen then none else
      let (seen, d) := claimBytes m.firstSet i (List.range 256) st.seen st.dispatch
      newBranchLoop hasFold rest (i + 1) { dispatch := d, matchers := st.matchers ++ [m], seen := seen }

/-- `NewBranchDispatcher` (`none` = `nil`) -/
def newBranchDispatcher (hasFold : Nat → Bool) (re : Re) : Option BranchDispatcher :=
  let inner := unwrapCaptures re
  if inner.op ≠ .alternate then none else
  let branches := inner.sub
  if branches.length < 2 ∨ branches.length > 127 then none else
  (newBranchLoop hasFold branches 0 {}).map fun st => { dispatch := st.dispatch, branchMatchers := st.matchers }

namespace BranchDispatcher

/-- `Search` -/
def search (d : BranchDispatcher) (h : Bytes) : Option (Nat × Nat) :=
  if h.size = 0 then none else
  let idx := d.dispatch.getD (h.at 0) (-1)
  if idx < 0 then none else
  match (d.branchMatchers.getD idx.toNat {}).match_ h with
  | none => none
  | some e => some (0, e)

/-- `IsMatch`: `_, _, found := d.Search(haystack); return found` -/
def isMatch (d : BranchDispatcher) (h : Bytes) : Bool := (d.search h).isSome

/-- meta `findIndicesBranchDispatchAt` -/
def searchAt (d : BranchDispatcher) (h : Bytes) (at_ : Nat) : Option (Nat × Nat) :=
  if at_ ≠ 0 then none else d.search h

end BranchDispatcher

/-- `branchDispatchAlternation` (`none` = `nil`): the alternation part of `\A(alternation)` -/
def branchDispatchAlternation (re : Re) : Option Re :=
  if re.op ≠ .concat then none else
  match re.sub with
  | [a, alt] =>
    if a.op ≠ .beginText then none else
    if (unwrapCaptures alt).op ≠ .alternate then none else some alt
  | _ => none

/-- `IsBranchDispatchPattern` -/
def isBranchDispatchPattern (hasFold : Nat → Bool) (re : Re) : Bool :=
  match branchDispatchAlternation re with
  | some alt => (newBranchDispatcher hasFold alt).isSome
  | none => false

/-- what meta/compile.go `buildCharClassSearchers` builds for `UseBranchDispatch`: `altPart = re.Sub[1]` when
    `re` is a two-element concatenation starting with `OpBeginText` (else `nil`, and `NewBranchDispatcher(nil) = nil`);
    `IsExact()` is `d != nil`. -/
def metaBranchDispatcher (hasFold : Nat → Bool) (re : Re) : Option BranchDispatcher :=
  if re.op ≠ .concat then none else
  match re.sub with
  | [a, alt] => if a.op ≠ .beginText then none else newBranchDispatcher hasFold alt
  | _ => none

end Cx.Fast
