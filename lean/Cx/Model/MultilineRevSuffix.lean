import Cx.Model.RevSuffix
/-
  Cx.Model.MultilineRevSuffix — the STRATEGY layer `UseMultilineReverseSuffix` of the meta engine
  (`meta/reverse_suffix_multiline.go`): patterns `(?m)^…suffix` that cannot match '\n'.  A prefilter finds the suffix literal,
  the candidate's line start is the only place on that line where a match can start; the forward lazy DFA anchored there (or,
  for the exact shape `(?m)^prefix.*suffix`, byte comparisons) decides.  Over ABSTRACT component oracles.

  Go (meta/reverse_suffix_multiline.go)                                    Lean (namespace Cx.MultilineRevSuffix)
  ------------------------------------------------------------------------------------------------------------------
  s.prefilter.Find(haystack, pos)                                  (l.296) Oracles.pfFind h pos          (-1 = none)
  s.forwardDFA.SearchAtAnchored(fwdCache, haystack, lineStart)     (l.244) Oracles.fwdAnchored h lineStart (-1 = none)
  s.prefixBytes (nil/empty = none known), s.suffixBytes, s.suffixLen (= len(suffixBytes)),
      s.literalShape, s.minGap                                             Params.*
  findLineStart(haystack, pos)                                 (l.194-204) RevSuffix.lineStartBefore h 0 pos
  `lineEnd = suffixPos + IndexByte(h[suffixPos:], '\n')` or len(h) (l.303-306)  RevSuffix.lineEndAt h suffixPos
  verifyPrefix(haystack, at)                                   (l.208-216) verifyPrefix
  bytes.LastIndex(haystack[from:lineEnd], s.suffixBytes)           (l.233) RevSuffix.lastIndexIn h suffix from lineEnd (relative)
  matchLine                                                    (l.220-246) matchLine
  findIndicesAtImpl: the `for` loop                            (l.294-323) findLoop
  findIndicesAtImpl = FindIndicesAt = FindIndicesAtWithCaches = FindAt     findIndicesAt
  IsMatch = found of FindIndicesAt(h, 0)                       (l.330-333) isMatch

  Left out: the cache pool, `*Match` wrappers, the constructor and `SetPrefixLiterals` / `SetLiteralShape` /
  `multilineLiteralShape` (they compute the `Params`; the theorems state what the parameters must guarantee).
-/
namespace Cx.MultilineRevSuffix
open Cx
open Cx.RevSuffix (findFirst findLast occursAt lineStartBefore lineEndAt lastIndexIn)

structure Oracles where
  /-- `prefilter.Find(haystack, start)` -/
  pfFind : Bytes → Nat → Option Nat
  /-- `forwardDFA.SearchAtAnchored(cache, haystack, at)` -/
  fwdAnchored : Bytes → Nat → Option Nat

/-- the fields of `MultilineReverseSuffixSearcher` the search reads -/
structure Params where
  prefixBytes : Bytes := #[]
  suffixBytes : Bytes
  literalShape : Bool := false
  minGap : Nat := 0
  deriving Repr, Inhabited

/-- `verifyPrefix(haystack, at)` -/
def verifyPrefix (P : Params) (h : Bytes) (at_ : Nat) : Bool :=
  if P.prefixBytes.size = 0 then true
  else if at_ + P.prefixBytes.size > h.size then false
  else occursAt h P.prefixBytes at_

/-- `matchLine(haystack, lineStart, lineEnd, fwdCache)` = (end, found) -/
def matchLine (O : Oracles) (P : Params) (h : Bytes) (lineStart lineEnd : Nat) : Option Nat :=
  if !verifyPrefix P h lineStart then none
  else if P.literalShape then
    let from_ := lineStart + P.prefixBytes.size + P.minGap
    if from_ > lineEnd then none
    else
      match lastIndexIn h P.suffixBytes from_ lineEnd with
      | none => none
      | some last => some (from_ + last + P.suffixBytes.size)
  else O.fwdAnchored h lineStart

/-- the loop of `findIndicesAtImpl`; state `pos` -/
def findLoop (O : Oracles) (P : Params) (h : Bytes) (at_ : Nat) : Nat → Nat → Option (Nat × Nat)
  | 0, _ => none
  | fuel+1, pos =>
    match O.pfFind h pos with
    | none => none
    | some suffixPos =>
      let lineStart := lineStartBefore h 0 suffixPos
      let lineEnd := lineEndAt h suffixPos
      match (if lineStart ≥ at_ then matchLine O P h lineStart lineEnd else none) with
      | some e => some (lineStart, e)
      | none =>
        -- pos = lineEnd + 1
        if lineEnd + 1 ≥ h.size then none else findLoop O P h at_ fuel (lineEnd + 1)

/-- `findIndicesAtImpl(haystack, at, fwdCache)` -/
def findIndicesAt (O : Oracles) (P : Params) (h : Bytes) (at_ : Nat) : Option (Nat × Nat) :=
  if at_ ≥ h.size then none else findLoop O P h at_ (h.size - at_) at_

/-- `IsMatch(haystack)` -/
def isMatch (O : Oracles) (P : Params) (h : Bytes) : Bool := (findIndicesAt O P h 0).isSome

/-- number of lines examined (calls of `matchLine` or skipped lines) — for the linearity statement -/
def findLoopT (O : Oracles) (P : Params) (h : Bytes) (at_ : Nat) : Nat → Nat → List (Nat × Nat) → Option (Nat × Nat) × List (Nat × Nat)
  | 0, _, t => (none, t)
  | fuel+1, pos, t =>
    match O.pfFind h pos with
    | none => (none, t)
    | some suffixPos =>
      let lineStart := lineStartBefore h 0 suffixPos
      let lineEnd := lineEndAt h suffixPos
      let t := if lineStart ≥ at_ then t ++ [(lineStart, lineEnd)] else t
      match (if lineStart ≥ at_ then matchLine O P h lineStart lineEnd else none) with
      | some e => (some (lineStart, e), t)
      | none => if lineEnd + 1 ≥ h.size then (none, t) else findLoopT O P h at_ fuel (lineEnd + 1) t

/-- the lines `[lineStart, lineEnd)` handed to `matchLine` by one `FindIndicesAt` -/
def findIndicesAtT (O : Oracles) (P : Params) (h : Bytes) (at_ : Nat) : Option (Nat × Nat) × List (Nat × Nat) :=
  if at_ ≥ h.size then (none, []) else findLoopT O P h at_ (h.size - at_) at_ []

/-- oracles computed from tables for ONE haystack: the prefilter over the literal set, `anch s` = the end of the
    leftmost-first match starting exactly at `s` -/
def bruteOracles (lits : List Bytes) (anch : Nat → Option Nat) : Oracles where
  pfFind := fun h st => findFirst (fun p => lits.any fun l => occursAt h l p) st (h.size + 1 - st)
  fwdAnchored := fun _ a => anch a

end Cx.MultilineRevSuffix
