import Cx.Model.RevSuffix
/-
  Cx.Model.MetaFind — the CORE DISPATCH of the meta engine for the strategies UseNFA / UseDFA / UseBoth / UseBoundedBacktracker
  (`meta/find_indices.go`; line numbers of commit 83f9184, the UseBoundedBacktracker functions as of HEAD a92eaaa, i.e. after the
  fixes fffbd3b / ecab302 / b09f397, which moved no function by more than two lines), transliterated branch by branch over ABSTRACT component oracles, in the style of
  `Cx.Model.RevSuffix` / `Cx.Model.RevInner`.  The components have their own models and theorems (`Cx.Model.Dfa`,
  `Cx.Model.DfaRev`, `Cx.Model.Pike`, `Cx.Model.Nfa`); this file is about the way they are combined: prefilter skip-ahead, the
  two-pass bidirectional DFA search (forward DFA → end, reverse DFA → start), literal fast paths, engine choice by `CanHandle`.

  Go (meta/find_indices.go)                                                    Lean (namespace Cx.MetaFind)
  ------------------------------------------------------------------------------------------------------------------------
  e.prefilter.Find(haystack, start)                (l.137,186,226,…; -1 = none) Oracles.pfFind h start
  e.prefilter.(FindMatch).FindMatch(haystack, start)   (l.280, 449; -1 = none)  Oracles.pfFindMatch h start
  e.prefilter != nil / .IsComplete() / .LiteralLen() / implements FindMatch     Params.hasPrefilter / .pfComplete / .literalLen / .pfHasFindMatch
  e.dfa.SearchAt(cache, h, at)                     (l.693, 725; -1 = none)      Oracles.fwdSearchAt h at
  e.dfa.SearchAtAnchored(cache, h, at)             (l.288)                      Oracles.fwdSearchAtAnchored h at
  e.dfa.IsMatchAt(cache, h, at), e.dfa.IsMatch(cache, h) = IsMatchAt(…, 0)
      (l.319, 356, 393; lazy.go:496-520: the same function at 0)                Oracles.fwdIsMatchAt h at
  e.dfa.FindAt(cache, h, at), e.dfa.Find(cache, h) = FindAt(…, 0)  (l.429,484,528)  Oracles.fwdFindAt h at
  e.reverseDFA.SearchReverse(cache, h, start, end)  (l.705, 732; < 0 = none)    Oracles.revSearch h start end
  e.pikevm.SearchAt(h, at) = state.pikevm.SearchWithSlotTableAt(h, at, SearchModeFind) (span only),
      e.pikevm.Search(h) = SearchAt(h, 0), …SearchWithSlotTable(h, …) = …At(h, 0, …)   Oracles.pike h at
  e.boundedBacktracker.CanHandle(n)                                             Oracles.btCanHandle n
  e.boundedBacktracker.SearchAtWithState(h, at, st); SearchWithState(h, st) = …(h, 0, st)   Oracles.bt h at
  e.boundedBacktracker.SearchWithState(haystack[lo:hi], st)
      (l.829, 1349, 1357: `remaining`, `window`; offsets RELATIVE to lo)        Oracles.btSlice h lo hi
  e.boundedBacktracker.MaxInputSize()                                           Oracles.btMaxInput
  e.asciiBoundedBacktracker.CanHandle(n) / .Search(haystack[lo:hi]) / .MaxInputSize()
                                                                                Oracles.asciiCanHandle / .asciiSlice h lo hi / .asciiMaxInput
  e.anchoredFirstBytes.Contains(b)                                              Oracles.firstByteOK b
  simd.IsASCII(haystack[lo:hi])                                                 isASCIIIn h lo hi     (computed, not an oracle)
  e.longest, e.prefilterPartialCoverage, e.dfa != nil, e.reverseDFA != nil, e.nfaStateCount, e.canMatchEmpty,
      e.boundedBacktracker != nil, e.asciiBoundedBacktracker != nil, e.anchoredFirstBytes != nil,
      e.nfa.IsAlwaysAnchored(), e.isStartAnchored                                                       Params.*
  !e.longest && e.dfa != nil && e.reverseDFA != nil   (the guard of all five calls of
      findIndicesBidirectionalDFALongest, since ecab302)                          dfaFallback P
  findIndicesBidirectionalDFACore = findIndicesBidirectionalDFA           (l.681-710)   bidirectionalCore (= bidirectional)
  findIndicesBidirectionalDFALongest                                      (l.716-737)   bidirectionalLongest
  findIndicesNFA                                                          (l.110-163)   findIndicesNFA
  findIndicesNFAAt = findIndicesNFAAtWithState                    (l.169-212, 1234-1274) findIndicesNFAAt
  findIndicesDFA: the `for pos < len(haystack)` candidate loop            (l.266-300)   candLoop  (fuel = iterations left)
  findIndicesDFA                                                          (l.215-327)   findIndicesDFA
  findIndicesDFAAt = findIndicesDFAAtWithState                    (l.330-364, 368-400)  findIndicesDFAAt
  findIndicesAdaptive                                                     (l.445-499)   findIndicesAdaptive
  findIndicesAdaptiveAt = findIndicesAdaptiveAtWithState          (l.502-543, 404-442)  findIndicesAdaptiveAt
  findIndicesBoundedBacktracker                                      (HEAD l.743-776)   findIndicesBT
  findIndicesBoundedBacktrackerAt                                    (HEAD l.788-834)   findIndicesBTAt
  findIndicesBoundedBacktrackerAtWithState                           (HEAD l.1287-1360) findIndicesBTAtWithState
  isMatchNFA / isMatchDFA / isMatchAdaptive (meta/ismatch.go l.81-181); pikevm.IsMatch, boundedBacktracker.IsMatchWithState,
      `size >= capacity*9/10` of CacheStats                  isMatchNFA / isMatchDFA / isMatchAdaptive; Oracles.pikeIsMatch / .btIsMatch / .dfaCacheNearlyFull
  FindIndices / FindIndicesAt = findIndicesAtWithState, restricted to the four strategies
      (l.20-57, 61-101, 1189-1229; `searchStrategy()` of engine.go:263 maps no one of the four to another) findIndices / findIndicesAt(WithState)

  The `…WithState` variants of NFA / DFA / Adaptive differ from the `…At` variants only in which pooled object they call
  (`state.pikevm` / `e.pikevm`, the caller's `SearchState` / a pooled one): the same model function.
  Left out: statistics counters (`atomic.AddUint64`), the `SearchState` pools and caches (the DFA cache is invisible:
  `Cx.Proofs.DfaCache`), `CacheStats` (its result only feeds a counter), the `*Match` wrappers of find.go.
  `-1` answers are `none`; a span is `(start, end)`.  Offsets of `btSlice`/`asciiSlice` are relative to `lo` as in the code; the
  model adds `at` back (`shift`).  `haystack[at:]` panics for `at > len`; the model then slices the empty range.

  Changes since 83f9184 that the model follows:
    fffbd3b  the ASCII check of `findIndicesBoundedBacktrackerAt(WithState)` is `simd.IsASCII(remaining)`: the WHOLE remaining
             input, no 4096-byte prefix for start-anchored patterns (`Params.asciiCheckLimit` and `asciiCheckEnd` are gone;
             `e.isStartAnchored` is no longer read by any modelled function — the field stays for the driver's flag `S`);
    ecab302  every call of `findIndicesBidirectionalDFALongest` is guarded by `!e.longest` (`dfaFallback`): in leftmost-longest
             mode the `CanHandle` fallback is the Pike VM (or the windowed backtracker + Pike VM);
    b09f397  `Engine.SetLongest` configures the ASCII backtracker too — a change of the COMPONENT behind `Oracles.asciiSlice`
             (it now honours the mode like `bt` / `btSlice` / `pike`), not of the dispatch.
-/
namespace Cx.MetaFind
open Cx
open Cx.RevSuffix (findFirst)

abbrev Span := Nat × Nat

/-- the components the dispatch calls -/
structure Oracles where
  /-- `prefilter.Find(haystack, start)` -/
  pfFind : Bytes → Nat → Option Nat
  /-- `prefilter.FindMatch(haystack, start)` (Teddy / FatTeddy only) -/
  pfFindMatch : Bytes → Nat → Option Span
  /-- `dfa.SearchAt(cache, haystack, at)`: end of the leftmost-first match from `at` -/
  fwdSearchAt : Bytes → Nat → Option Nat
  /-- `dfa.SearchAtAnchored(cache, haystack, at)`: end of the match that starts exactly at `at` -/
  fwdSearchAtAnchored : Bytes → Nat → Option Nat
  /-- `dfa.IsMatchAt(cache, haystack, at)` (`IsMatch` = at 0) -/
  fwdIsMatchAt : Bytes → Nat → Bool
  /-- `dfa.FindAt(cache, haystack, at)` (`Find` = at 0); only `!= -1` is read -/
  fwdFindAt : Bytes → Nat → Option Nat
  /-- `reverseDFA.SearchReverse(cache, haystack, start, end)` -/
  revSearch : Bytes → Nat → Nat → Option Nat
  /-- `pikevm.SearchAt(haystack, at)` / `SearchWithSlotTableAt(haystack, at, SearchModeFind)` -/
  pike : Bytes → Nat → Option Span
  /-- `boundedBacktracker.CanHandle(n)` -/
  btCanHandle : Nat → Bool
  /-- `boundedBacktracker.SearchAtWithState(haystack, at, st)` -/
  bt : Bytes → Nat → Option Span
  /-- `boundedBacktracker.SearchWithState(haystack[lo:hi], st)`, offsets relative to `lo` -/
  btSlice : Bytes → Nat → Nat → Option Span
  /-- `boundedBacktracker.MaxInputSize()` -/
  btMaxInput : Nat
  /-- `asciiBoundedBacktracker.CanHandle(n)` -/
  asciiCanHandle : Nat → Bool
  /-- `asciiBoundedBacktracker.Search(haystack[lo:hi])`, offsets relative to `lo` -/
  asciiSlice : Bytes → Nat → Nat → Option Span
  /-- `asciiBoundedBacktracker.MaxInputSize()` -/
  asciiMaxInput : Nat
  /-- `anchoredFirstBytes.Contains(b)` -/
  firstByteOK : Nat → Bool
  /-- `pikevm.IsMatch(haystack)` (ismatch.go) -/
  pikeIsMatch : Bytes → Bool
  /-- `boundedBacktracker.IsMatchWithState(haystack, st)` (ismatch.go) -/
  btIsMatch : Bytes → Bool
  /-- `size >= int(capacity)*9/10` of `dfa.CacheStats(cache)` after a failed `dfa.IsMatch` (ismatch.go l.171-173) -/
  dfaCacheNearlyFull : Bytes → Bool

/-- the fields of `Engine` the dispatch reads -/
structure Params where
  longest : Bool := false
  hasPrefilter : Bool := false
  pfComplete : Bool := false
  literalLen : Nat := 0
  pfHasFindMatch : Bool := false
  prefilterPartialCoverage : Bool := false
  hasDFA : Bool := false
  hasReverseDFA : Bool := false
  nfaStateCount : Nat := 0
  canMatchEmpty : Bool := false
  hasBT : Bool := false
  hasAsciiBT : Bool := false
  hasFirstBytes : Bool := false
  alwaysAnchored : Bool := false
  /-- `e.isStartAnchored`: read by no modelled function any more (until fffbd3b it limited the ASCII check to 4096 bytes) -/
  isStartAnchored : Bool := false
  deriving Repr, Inhabited

/-- the four strategies whose dispatch is modelled -/
inductive Strategy where
  | nfa | dfa | both | bt
  deriving Repr, DecidableEq, Inhabited

/-- `at + start, at + end` -/
def shift (at_ : Nat) (r : Option Span) : Option Span := r.map fun p => (at_ + p.1, at_ + p.2)

/-- `simd.IsASCII(haystack[lo:hi])` -/
def isASCIIIn (h : Bytes) (lo hi : Nat) : Bool := (List.range (hi - lo)).all fun k => decide (h.at (lo + k) < 128)

/-! ### the two-pass bidirectional DFA search -/

/-- `findIndicesBidirectionalDFACore(haystack, at, state)` = `findIndicesBidirectionalDFA(haystack, at)` -/
def bidirectionalCore (O : Oracles) (P : Params) (h : Bytes) (at_ : Nat) : Option Span :=
  match O.fwdSearchAt h at_ with                       -- end := e.dfa.SearchAt(…, at)
  | none => none                                       -- end == -1
  | some e =>
    if e = at_ then some (at_, at_)                    -- end == at: empty match
    else if P.alwaysAnchored then some (at_, e)        -- e.nfa.IsAlwaysAnchored(): skip the reverse search
    else
      match O.revSearch h at_ e with                   -- start := e.reverseDFA.SearchReverse(…, at, end)
      | none => none                                   -- start < 0
      | some s => some (s, e)

/-- `findIndicesBidirectionalDFA(haystack, at)`: the pooled-state wrapper of the core -/
def bidirectional (O : Oracles) (P : Params) (h : Bytes) (at_ : Nat) : Option Span := bidirectionalCore O P h at_

/-- `findIndicesBidirectionalDFALongest(haystack, at, state…)` -/
def bidirectionalLongest (O : Oracles) (h : Bytes) (at_ : Nat) : Option Span :=
  match O.fwdSearchAt h at_ with
  | none => none
  | some e =>
    if e = at_ then some (at_, at_)
    else
      match O.revSearch h at_ e with
      | none => none                                   -- "Reverse DFA failed (cache full)"
      | some s => some (s, e)

/-! ### UseNFA -/

/-- `useBT := e.boundedBacktracker != nil && !e.canMatchEmpty` -/
def useBT (P : Params) : Bool := P.hasBT && !P.canMatchEmpty

/-- the engine choice after the prefilter: `if useBT && CanHandle(len(haystack)-pos) { BT } else { PikeVM }` -/
def nfaFrom (O : Oracles) (P : Params) (h : Bytes) (pos : Nat) : Option Span :=
  if useBT P && O.btCanHandle (h.size - pos) then O.bt h pos else O.pike h pos

/-- `findIndicesNFA(haystack)` -/
def findIndicesNFA (O : Oracles) (P : Params) (h : Bytes) : Option Span :=
  if P.hasPrefilter && !P.prefilterPartialCoverage then
    match O.pfFind h 0 with
    | none => none                                     -- no candidates
    | some pos => nfaFrom O P h pos
  else nfaFrom O P h 0                                 -- CanHandle(len(haystack)); SearchWithState / SearchWithSlotTable

/-- `findIndicesNFAAt(haystack, at)` = `findIndicesNFAAtWithState(haystack, at, state)` -/
def findIndicesNFAAt (O : Oracles) (P : Params) (h : Bytes) (at_ : Nat) : Option Span :=
  if P.hasPrefilter && !P.prefilterPartialCoverage then
    if at_ ≥ h.size then none
    else
      match O.pfFind h at_ with
      | none => none
      | some pos => nfaFrom O P h pos
  else nfaFrom O P h at_

/-! ### UseDFA -/

/-- the candidate loop of `findIndicesDFA` (l.266-300); state `pos` -/
def candLoop (O : Oracles) (P : Params) (h : Bytes) : Nat → Nat → Option Span
  | 0, _ => none
  | fuel+1, pos =>
    if pos < h.size then
      match O.pfFind h pos with
      | none => none
      | some cand =>
        -- "Complete prefilter: candidate IS the match"
        let early : Option Span :=
          if P.pfComplete then
            if P.literalLen > 0 then some (cand, cand + P.literalLen)
            else if P.pfHasFindMatch then O.pfFindMatch h pos      -- `s >= 0`: return; else fall through
            else none
          else none
        match early with
        | some r => some r
        | none =>
          if P.hasDFA then
            match O.fwdSearchAtAnchored h cand with
            | some e => some (cand, e)
            | none => candLoop O P h fuel (cand + 1)
          else
            match O.pike h cand with
            | some (s, e) => if s = cand then some (s, e) else candLoop O P h fuel (cand + 1)
            | none => candLoop O P h fuel (cand + 1)
    else none

/-- `findIndicesDFA(haystack)` -/
def findIndicesDFA (O : Oracles) (P : Params) (h : Bytes) : Option Span :=
  if P.longest then O.pike h 0                                              -- l.220
  else if P.hasPrefilter && P.pfComplete then                               -- l.225: literal fast path
    match O.pfFind h 0 with
    | none => none
    | some pos => if P.literalLen > 0 then some (pos, pos + P.literalLen) else O.pike h 0
  else if P.hasPrefilter && !P.pfComplete then                              -- l.240: skip-ahead
    match O.pfFind h 0 with
    | none => none
    | some pos => if P.hasReverseDFA then bidirectional O P h pos else O.pike h pos
  else if P.hasPrefilter && P.hasReverseDFA && decide (P.nfaStateCount > 100) then   -- l.261
    candLoop O P h (h.size + 1) 0
  else if P.hasPrefilter && !P.prefilterPartialCoverage then                -- l.305
    match O.pfFind h 0 with
    | none => none
    | some pos => O.pike h pos
  else if P.hasReverseDFA then bidirectional O P h 0                        -- l.315
  else if !O.fwdIsMatchAt h 0 then none                                     -- l.319: e.dfa.IsMatch
  else O.pike h 0                                                           -- l.326

/-- `findIndicesDFAAt(haystack, at)` = `findIndicesDFAAtWithState(haystack, at, state)` -/
def findIndicesDFAAt (O : Oracles) (P : Params) (h : Bytes) (at_ : Nat) : Option Span :=
  if P.longest then O.pike h at_
  else if P.hasPrefilter then
    match O.pfFind h at_ with
    | none => none
    | some pos => if P.hasReverseDFA then bidirectional O P h pos else O.pike h pos
  else if P.hasReverseDFA then bidirectional O P h at_
  else if !O.fwdIsMatchAt h at_ then none
  else O.pike h at_

/-! ### UseBoth -/

/-- the literal fast path + PikeVM of the adaptive functions, after `pos := prefilter.Find(…)` -/
def adaptiveFrom (O : Oracles) (P : Params) (h : Bytes) (pos : Nat) : Option Span :=
  if P.pfComplete && decide (P.literalLen > 0) then some (pos, pos + P.literalLen) else O.pike h pos

/-- `findIndicesAdaptive(haystack)` -/
def findIndicesAdaptive (O : Oracles) (P : Params) (h : Bytes) : Option Span :=
  if P.hasPrefilter && P.hasDFA then
    if P.pfHasFindMatch then O.pfFindMatch h 0                              -- l.449: (start, end) or not found
    else
      match O.pfFind h 0 with
      | none => none
      | some pos => adaptiveFrom O P h pos
  else if P.hasDFA && (O.fwdFindAt h 0).isSome then O.pike h 0              -- l.481-491
  else findIndicesNFA O P h                                                 -- l.498

/-- `findIndicesAdaptiveAt(haystack, at)` = `findIndicesAdaptiveAtWithState(haystack, at, state)` -/
def findIndicesAdaptiveAt (O : Oracles) (P : Params) (h : Bytes) (at_ : Nat) : Option Span :=
  if P.hasPrefilter && P.hasDFA then
    match O.pfFind h at_ with
    | none => none
    | some pos => adaptiveFrom O P h pos
  else if P.hasDFA && (O.fwdFindAt h at_).isSome then O.pike h at_
  else findIndicesNFAAt O P h at_

/-! ### UseBoundedBacktracker -/

/-- `anchoredFirstBytes != nil && len(haystack) > 0 && !anchoredFirstBytes.Contains(haystack[0])` -/
def firstByteRejects (O : Oracles) (P : Params) (h : Bytes) : Bool :=
  P.hasFirstBytes && decide (h.size > 0) && !O.firstByteOK (h.at 0)

/-- `!e.longest && e.dfa != nil && e.reverseDFA != nil`: the guard of every call of `findIndicesBidirectionalDFALongest`
    (the forward DFA reports the end of the leftmost-FIRST match, so the two-pass search is not used in `Longest()` mode) -/
def dfaFallback (P : Params) : Bool := !P.longest && P.hasDFA && P.hasReverseDFA

/-- `findIndicesBoundedBacktracker(haystack)` -/
def findIndicesBT (O : Oracles) (P : Params) (h : Bytes) : Option Span :=
  if !P.hasBT then findIndicesNFA O P h
  else if firstByteRejects O P h then none
  else if P.alwaysAnchored && !O.btCanHandle h.size then O.pike h 0                     -- l.758
  else if !O.btCanHandle h.size then
    if dfaFallback P then bidirectionalLongest O h 0 else O.pike h 0                    -- l.764-771
  else O.bt h 0                                                                         -- l.775

/-- `findIndicesBoundedBacktrackerAt(haystack, at)` -/
def findIndicesBTAt (O : Oracles) (P : Params) (h : Bytes) (at_ : Nat) : Option Span :=
  if !P.hasBT then findIndicesNFAAt O P h at_
  else
    let n := h.size - at_                                                               -- len(remaining)
    if P.hasAsciiBT && isASCIIIn h at_ h.size then                                      -- simd.IsASCII(remaining)
      if !O.asciiCanHandle n then
        if dfaFallback P then bidirectionalLongest O h at_ else O.pike h at_
      else shift at_ (O.asciiSlice h at_ h.size)
    else if !O.btCanHandle n then
      if dfaFallback P then bidirectionalLongest O h at_ else findIndicesNFAAt O P h at_
    else shift at_ (O.btSlice h at_ h.size)

/-- `findIndicesBoundedBacktrackerAtWithState(haystack, at, state)`: adds the first-byte rejection at `at == 0` and the
    "V12 windowed" searches -/
def findIndicesBTAtWithState (O : Oracles) (P : Params) (h : Bytes) (at_ : Nat) : Option Span :=
  if !P.hasBT then findIndicesNFAAt O P h at_
  else if decide (at_ = 0) && firstByteRejects O P h then none
  else
    let n := h.size - at_
    if P.hasAsciiBT && isASCIIIn h at_ h.size then                                      -- simd.IsASCII(remaining)
      if !O.asciiCanHandle n then
        if dfaFallback P then bidirectionalLongest O h at_
        else
          let w := if decide (O.asciiMaxInput > 0) && decide (n > O.asciiMaxInput)
                   then shift at_ (O.asciiSlice h at_ (at_ + O.asciiMaxInput)) else none    -- window := remaining[:maxInput]
          match w with
          | some r => some r
          | none => O.pike h at_
      else shift at_ (O.asciiSlice h at_ h.size)
    else if !O.btCanHandle n then
      if dfaFallback P then bidirectionalLongest O h at_
      else
        let w := if decide (O.btMaxInput > 0) && decide (n > O.btMaxInput)
                 then shift at_ (O.btSlice h at_ (at_ + O.btMaxInput)) else none
        match w with
        | some r => some r
        | none => O.pike h at_
    else shift at_ (O.btSlice h at_ h.size)

/-! ### the dispatch -/

/-- `FindIndices(haystack)` for the four strategies -/
def findIndices (O : Oracles) (P : Params) (st : Strategy) (h : Bytes) : Option Span :=
  match st with
  | .nfa => findIndicesNFA O P h
  | .dfa => findIndicesDFA O P h
  | .both => findIndicesAdaptive O P h
  | .bt => findIndicesBT O P h

/-- `FindIndicesAt(haystack, at)` -/
def findIndicesAt (O : Oracles) (P : Params) (st : Strategy) (h : Bytes) (at_ : Nat) : Option Span :=
  if decide (at_ > 0) && P.alwaysAnchored then none                -- "anchored pattern can only match at position 0"
  else
    match st with
    | .nfa => findIndicesNFAAt O P h at_
    | .dfa => findIndicesDFAAt O P h at_
    | .both => findIndicesAdaptiveAt O P h at_
    | .bt => findIndicesBTAt O P h at_

/-- `findIndicesAtWithState(haystack, at, state)` -/
def findIndicesAtWithState (O : Oracles) (P : Params) (st : Strategy) (h : Bytes) (at_ : Nat) : Option Span :=
  if decide (at_ > 0) && P.alwaysAnchored then none
  else
    match st with
    | .nfa => findIndicesNFAAt O P h at_
    | .dfa => findIndicesDFAAt O P h at_
    | .both => findIndicesAdaptiveAt O P h at_
    | .bt => findIndicesBTAtWithState O P h at_

/-! ### `IsMatch` for UseNFA / UseDFA / UseBoth (`meta/ismatch.go`) -/

/-- `isMatchNFA(haystack)` (l.81-125): here `useBT := e.boundedBacktracker != nil` (no `canMatchEmpty` guard), and the prefilter
    is used whatever `prefilterPartialCoverage` says -/
def isMatchNFA (O : Oracles) (P : Params) (h : Bytes) : Bool :=
  if P.hasPrefilter then
    match O.pfFind h 0 with
    | none => false
    | some pos => if P.hasBT && O.btCanHandle (h.size - pos) then (O.bt h pos).isSome else (O.pike h pos).isSome
  else if P.hasBT && O.btCanHandle h.size then O.btIsMatch h
  else O.pikeIsMatch h

/-- `isMatchDFA(haystack)` (l.133-142) -/
def isMatchDFA (O : Oracles) (h : Bytes) : Bool := O.fwdIsMatchAt h 0

/-- `isMatchAdaptive(haystack)` (l.145-181) -/
def isMatchAdaptive (O : Oracles) (P : Params) (h : Bytes) : Bool :=
  if P.hasPrefilter then
    match O.pfFind h 0 with
    | none => false
    | some _ => if P.pfComplete then true else isMatchNFA O P h
  else if P.hasDFA then
    if O.fwdIsMatchAt h 0 then true
    else if O.dfaCacheNearlyFull h then isMatchNFA O P h       -- "Cache nearly full, fall back to NFA"
    else false
  else isMatchNFA O P h

/-- `IsMatch(haystack)` for the three strategies (UseBoundedBacktracker: `isMatchBoundedBacktracker` is not modelled) -/
def isMatch (O : Oracles) (P : Params) (st : Strategy) (h : Bytes) : Option Bool :=
  match st with
  | .nfa => some (isMatchNFA O P h)
  | .dfa => some (isMatchDFA O h)
  | .both => some (isMatchAdaptive O P h)
  | .bt => none

/-! ### brute-force oracles (driver, non-vacuity of the contracts) -/

/-- tables for ONE haystack (the haystack argument of the oracles is ignored), one per component, so that a table may also be
    WRONG (counter-models, seeded defects): `mt s e` = the pattern matches `h[s:e)` (the reverse DFA answers the least start
    in this table); `pike a`, `bt a` = the spans the Pike VM / the backtracker report from `a`; `fwd a` = `SearchAt`;
    `anch a` = `SearchAtAnchored`; `im a` = `IsMatchAt`; `find a` = `FindAt`; `pf a` = `prefilter.Find`; `pfm a` = `FindMatch`;
    `sl lo hi` / `asl lo hi` = the backtrackers on the slice `h[lo:hi)` (relative offsets); `fb b` = first-byte set;
    `CanHandle(k)` = `k ≤ btLimit` / `asciiLimit`; `revGiveUp`: `SearchReverse` always answers -1. -/
structure Tables where
  mt : Nat → Nat → Bool
  pike : Nat → Option Span
  fwd : Nat → Option Nat
  anch : Nat → Option Nat := fun _ => none
  im : Nat → Bool := fun _ => true
  find : Nat → Option Nat := fun _ => none
  pf : Nat → Option Nat := fun _ => none
  pfm : Nat → Option Span := fun _ => none
  bt : Nat → Option Span := fun _ => none
  sl : Nat → Nat → Option Span := fun _ _ => none
  asl : Nat → Nat → Option Span := fun _ _ => none
  fb : Nat → Bool := fun _ => true
  btMax : Nat := 0
  asciiMax : Nat := 0
  btLimit : Nat := 0
  asciiLimit : Nat := 0
  revGiveUp : Bool := false
  nearlyFull : Bool := false

def bruteOracles (T : Tables) : Oracles where
  pfFind := fun _ a => T.pf a
  pfFindMatch := fun _ a => T.pfm a
  fwdSearchAt := fun _ a => T.fwd a
  fwdSearchAtAnchored := fun _ a => T.anch a
  fwdIsMatchAt := fun _ a => T.im a
  fwdFindAt := fun _ a => T.find a
  revSearch := fun _ lo e => if T.revGiveUp || decide (e ≤ lo) then none else findFirst (fun s => T.mt s e) lo (e + 1 - lo)
  pike := fun _ a => T.pike a
  btCanHandle := fun k => decide (k ≤ T.btLimit)
  bt := fun _ a => T.bt a
  btSlice := fun _ lo hi => T.sl lo hi
  btMaxInput := T.btMax
  asciiCanHandle := fun k => decide (k ≤ T.asciiLimit)
  asciiSlice := fun _ lo hi => T.asl lo hi
  asciiMaxInput := T.asciiMax
  firstByteOK := T.fb
  pikeIsMatch := fun _ => (T.pike 0).isSome
  btIsMatch := fun _ => (T.bt 0).isSome
  dfaCacheNearlyFull := fun _ => T.nearlyFull

end Cx.MetaFind
