import Cx.Model.Fast
/-
  Cx.Model.CompositeSim — transliteration of the REWRITTEN nfa/composite.go (`CompositeSearcher` as a linear-time
  simulation of all match attempts; core-only, executable).  The older greedy backtracking searcher stays in
  Cx.Model.Fast §2 (`Cx.Fast.CompositeSearcher`): it is now the SPECIFICATION of this model
  (Cx.Proofs.CompositeSim: `compSim_searchAt_eq`).  The part extraction did not change and is reused
  (`CharClassPart`, `extractCompositeParts`, `Table`).

  Go (nfa/composite.go, line)                                   Lean (namespace Cx.CompSim)
  ------------------------------------------------------------  ----------------------------------------------------
  type CompositeSearcher            58–85  (parts, configs,      structure CompositeSim
        closures, startClosure, startMatches, startBytes)
        localScratch / scratch      83–84                        not modelled (pure function of the inputs)
  type compositeConfig              88–96                        structure Config (class pointer = the table itself)
  type compositeThread             100–103                       structure Thread
  type compositeScratch            106–111 (cur, next, mark,     arguments of `simLoop` / `stepLoop`: `cur`, `next` are
        gen)                                                     `List Thread` (Go: arrays used up to numCur / numNext),
                                                                 `mark : Array Bool` = `mark[id] == gen`; `gen++` is a
                                                                 fresh all-false array (`freshMark`)
  NewCompositeSearcher             130–141                       newCompositeSim
  (*charClassPart).bounded         145–147                       bounded
  (*charClassPart).countCap        150–155                       countCap
  buildTables: offset loop         159–163                       the running sum `o` carried by `buildConfigs` /
                                                                 `closureLoop` (`offset[i]` of the part at the head of the
                                                                 remaining part list); `numConfigs` 163 = `numConfigs`
  buildTables: closureOf           166–183                       closureLoop (appends to the flat `closures` array;
                                                                 `from`/`to` are the sizes before/after) ; canConsume 170
  buildTables: config loops        185–198                       buildConfigs (range over parts) / countLoop (count loop);
                                                                 `configs[offset[i]+count]` are written in index order
                                                                 0,1,2,… : `push`
  buildTables: start closure       200–209                       buildTables (`startClosure`, `startMatches`, `startBytes`)
  extractCompositeCharClassParts   222–326                       Cx.Fast.extractCompositeParts (unchanged)
  IsMatch                          329–332                       isMatch
  Search                           336–338                       searchFirst
  SearchAt                         342–344                       searchAt
  search                           348–376                       search   (skip loop 361–363 = skip)
  matchGreedy                      381–397                       matchGreedy / greedyLoop (inner loop 389–391 = scanRun)
  simulate                         402–500                       simulate / simLoop (one iteration of `for {` 422–489 per
                                                                 unit of fuel; lines 453–488 = simConsume)
     new attempt                   434–451                       addClosure over `startClosure` (third component = `blocked`)
     `threads:` loop               461–482                       stepLoop (inner closure loop 467–474 = addClosure, third
                                                                 component = "hit a marked id" = `continue threads`)
     scratch hand-back             491–494                       not modelled

  Conventions as in Cx.Model.Fast: loops are structural recursions whose first `Nat` argument is the number of
  iterations still possible; `(-1,-1,false)` is `none`; `int32` ids and counts are `Nat` (no overflow: the number of
  configurations is at most `Σ (max(min,max)+1)`, and `regexp/syntax` limits repeat counts to 1000).
  The cost-instrumented copies (`…C`, §3) return the same result together with a step count; Cx.Proofs.CompositeSimCost
  proves the erasure lemmas and the linear bound.
-/
namespace Cx.CompSim
open Cx Cx.Fast

/-! ## §1 tables -/

/-- `bounded`: `p.maxMatch > 0` -/
def bounded (p : CharClassPart) : Bool := decide (p.maxMatch > 0)

/-- `countCap` -/
def countCap (p : CharClassPart) : Nat := if bounded p then p.maxMatch.toNat else p.minMatch

/-- `!part.bounded() || count < part.maxMatch` -/
def canConsume (p : CharClassPart) (count : Nat) : Bool := !bounded p || decide ((count : Int) < p.maxMatch)

/-- `compositeConfig` -/
structure Config where
  cls : Table := #[]
  next : Nat := 0
  nextEnd : Nat := 0
  nextMatches : Bool := false
  deriving Repr, Inhabited

/-- `compositeThread` -/
structure Thread where
  cfg : Nat
  start : Nat
  deriving Repr, Inhabited, DecidableEq

structure CompositeSim where
  parts : List CharClassPart
  configs : Array Config
  closures : Array Nat
  startClosure : List Nat
  startMatches : Bool
  startBytes : Table
  deriving Repr

/-- `numConfigs = offset[len(parts)]` -/
def numConfigs : List CharClassPart → Nat
  | [] => 0
  | p :: ps => countCap p + 1 + numConfigs ps

/-- `closureOf(i, count)`: the `for { … }` loop.  First argument: `parts[i:]` (non-empty inside the loop), `o = offset[i]`;
    `clo` is `c.closures`.  Returns the extended `c.closures` and `matches`. -/
def closureLoop : List CharClassPart → Nat → Nat → Array Nat → Array Nat × Bool
  | [], _, _, clo => (clo, true)   -- `i == len(c.parts)`: `matches = true; break`
  | part :: rest, o, count, clo =>
    -- `if !part.bounded() || count < part.maxMatch { closures = append(closures, offset[i]+count) }`
    let clo := if canConsume part count then clo.push (o + count) else clo
    -- `if count < part.minMatch { break }`
    if count < part.minMatch then (clo, false) else
    -- `i, count = i+1, 0; if i == len(c.parts) { matches = true; break }`
    closureLoop rest (o + countCap part + 1) 0 clo

/-- `for count := 0; count <= limit; count++ { … }` for the part at the head of `ps` (fuel `limit + 1 - count`). -/
def countLoop (ps : List CharClassPart) (part : CharClassPart) (o : Nat) :
    Nat → Nat → Array Config → Array Nat → Array Config × Array Nat
  | 0, _, cf, cl => (cf, cl)
  | k+1, count, cf, cl =>
    let limit := countCap part
    -- `entered := count + 1; if entered > limit { entered = limit }`
    let entered := if count + 1 > limit then limit else count + 1
    let r := closureLoop ps o entered cl
    countLoop ps part o k (count + 1)
      (cf.push { cls := part.membership, next := cl.size, nextEnd := r.1.size, nextMatches := r.2 }) r.1

/-- `for i, p := range c.parts { … }` (argument: `parts[i:]`, `o = offset[i]`) -/
def buildConfigs : List CharClassPart → Nat → Array Config → Array Nat → Array Config × Array Nat
  | [], _, cf, cl => (cf, cl)
  | part :: rest, o, cf, cl =>
    let r := countLoop (part :: rest) part o (countCap part + 1) 0 cf cl
    buildConfigs rest (o + countCap part + 1) r.1 r.2

/-- `buildTables` (on a non-empty part list; `NewCompositeSearcher` returns nil for an empty one) -/
def buildTables (parts : List CharClassPart) : CompositeSim :=
  let r := buildConfigs parts 0 #[] #[]
  let configs := r.1
  -- `from, to, matches := closureOf(0, 0)`
  let sc := closureLoop parts 0 0 r.2
  let startClosure := (sc.1.extract r.2.size sc.1.size).toList
  { parts := parts, configs := configs, closures := sc.1, startClosure := startClosure, startMatches := sc.2,
    -- `for _, id := range startClosure { for b, ok := range configs[id].class { if ok { startBytes[b] = true } } }`
    startBytes := Array.ofFn (n := 256) fun b => startClosure.any fun id => (configs.getD id default).cls.mem b.val }

/-- `NewCompositeSearcher` (`none` = `nil`) -/
def newCompositeSim (re : Re) : Option CompositeSim :=
  (extractCompositeParts re).map buildTables

namespace CompositeSim

/-- `&configs[id]` -/
@[inline] def cfgAt (s : CompositeSim) (id : Nat) : Config := s.configs.getD id default

/-- `closures[cfg.next:cfg.nextEnd]` -/
def nxOf (s : CompositeSim) (id : Nat) : List Nat :=
  (s.closures.extract (s.cfgAt id).next (s.cfgAt id).nextEnd).toList

/-- `cfg.class[b]` -/
@[inline] def clsOf (s : CompositeSim) (id b : Nat) : Bool := (s.cfgAt id).cls.mem b

/-- `cfg.nextMatches` -/
@[inline] def nmOf (s : CompositeSim) (id : Nat) : Bool := (s.cfgAt id).nextMatches

/-! ## §2 search -/

/-- `gen++`: no configuration is marked -/
def freshMark (s : CompositeSim) : Array Bool := Array.replicate s.configs.size false

/-- `for pos < n && !c.startBytes[haystack[pos]] { pos++ }`, fuel `n - pos` -/
def skip (s : CompositeSim) (h : Bytes) : Nat → Nat → Nat
  | 0, pos => pos
  | k+1, pos => if !s.startBytes.mem (h.at pos) then skip s h k (pos + 1) else pos

/-- `for pos < limit && part.membership[haystack[pos]] { pos++ }`, fuel `limit - pos` -/
def scanRun (mem : Nat → Bool) (h : Bytes) : Nat → Nat → Nat
  | 0, pos => pos
  | k+1, pos => if mem (h.at pos) then scanRun mem h k (pos + 1) else pos

/-- `matchGreedy`: the `for _, part := range c.parts` loop -/
def greedyLoop (h : Bytes) : List CharClassPart → Nat → Option Nat
  | [], pos => some pos
  | part :: rest, pos =>
    let n := h.size
    -- `limit := n; if part.bounded() && part.maxMatch < n-pos { limit = pos + part.maxMatch }`
    let limit := if bounded part ∧ part.maxMatch < ((n - pos : Nat) : Int) then pos + part.maxMatch.toNat else n
    let pos' := scanRun part.mem h (limit - pos) pos
    -- `if pos-from < part.minMatch { return -1, false }`
    if pos' - pos < part.minMatch then none else greedyLoop h rest pos'

def matchGreedy (s : CompositeSim) (h : Bytes) (pos : Nat) : Option Nat := greedyLoop h s.parts pos

/-- the loop `for _, id := range ids { if mark[id] == gen { <leave>; } mark[id] = gen; list[num] = {id, start}; num++ }`
    shared by the new-attempt code (434–445, `<leave>` = `blocked = true; break`) and the `threads:` loop (467–474,
    `<leave>` = `continue threads`).  Third component: the loop was left at a marked id. -/
def addClosure (start : Nat) : List Nat → List Thread → Array Bool → List Thread × Array Bool × Bool
  | [], l, m => (l, m, false)
  | id :: ids, l, m =>
    if m.getD id false then (l, m, true)
    else addClosure start ids (l ++ [{ cfg := id, start := start }]) (m.setIfInBounds id true)

/-- `threads: for _, t := range cur[:numCur] { … }`; `pos1 = pos + 1`.  Returns `next`, its marks, and the match recorded
    by this step (`some` = the loop was left by `break`). -/
def stepLoop (s : CompositeSim) (b pos1 : Nat) : List Thread → List Thread → Array Bool →
    List Thread × Array Bool × Option (Nat × Nat)
  | [], next, m => (next, m, none)
  | t :: ts, next, m =>
    -- `if !cfg.class[b] { continue }`
    if !s.clsOf t.cfg b then stepLoop s b pos1 ts next m else
    let r := addClosure t.start (s.nxOf t.cfg) next m
    -- `continue threads`
    if r.2.2 then stepLoop s b pos1 ts r.1 r.2.1 else
    -- `if cfg.nextMatches { matched, matchStart, matchEnd = true, t.start, pos+1; break }`
    if s.nmOf t.cfg then (r.1, r.2.1, some (t.start, pos1)) else stepLoop s b pos1 ts r.1 r.2.1

/-- lines 453–488 of the `for { … }` loop of `simulate`, entered with the `pos`, `cur`, `rec` that lines 423–452 leave;
    `k` is the next iteration of the loop. -/
def simConsume (s : CompositeSim) (h : Bytes) (earliest : Bool)
    (k : Nat → List Thread → Array Bool → Option (Nat × Nat) → Option (Nat × Nat))
    (pos : Nat) (cur : List Thread) (rec : Option (Nat × Nat)) : Option (Nat × Nat) :=
  -- `if numCur == 0 || pos >= n { break }`
  if cur.isEmpty || decide (pos ≥ h.size) then rec else
  let r := stepLoop s (h.at pos) (pos + 1) cur [] s.freshMark
  let rec' := match r.2.2 with
    | some m => some m
    | none => rec
  -- `if matched && earliest { break }`
  if rec'.isSome && earliest then rec' else k (pos + 1) r.1 r.2.1 rec'

/-- the `for { … }` loop of `simulate` (422–489).  `cur` with its marks `mark`, `rec` = `matched, matchStart, matchEnd`.
    Every iteration but the last advances `pos` (which stays `≤ n`), so `n + 1 - pos` units of fuel suffice
    (the fuel-0 case is never reached: `simLoop_spec` in Cx.Proofs.CompositeSimRun). -/
def simLoop (s : CompositeSim) (h : Bytes) (earliest : Bool) :
    Nat → Nat → List Thread → Array Bool → Option (Nat × Nat) → Option (Nat × Nat)
  | 0, _, _, _, rec => rec
  | f+1, pos, cur, mark, rec =>
    let n := h.size
    match rec with
    | some _ => simConsume s h earliest (simLoop s h earliest f) pos cur rec
    | none =>
      -- `if numCur == 0 && !c.startMatches { skip; if pos >= n { break } }`
      let idle := cur.isEmpty && !s.startMatches
      let pos := if idle then s.skip h (n - pos) pos else pos
      if idle && decide (pos ≥ n) then none else
      -- a new attempt begins at pos
      let a := addClosure pos s.startClosure cur mark
      -- `if c.startMatches && !blocked { matched, matchStart, matchEnd = true, pos, pos; if earliest { break } }`
      if s.startMatches && !a.2.2 then
        if earliest then some (pos, pos) else simConsume s h earliest (simLoop s h earliest f) pos a.1 (some (pos, pos))
      else simConsume s h earliest (simLoop s h earliest f) pos a.1 none

/-- `simulate` -/
def simulate (s : CompositeSim) (h : Bytes) (at_ : Nat) (earliest : Bool) : Option (Nat × Nat) :=
  simLoop s h earliest (h.size + 1 - at_) at_ [] s.freshMark none

/-- `search` -/
def search (s : CompositeSim) (h : Bytes) (at_ : Nat) (earliest : Bool) : Option (Nat × Nat) :=
  if s.parts.length = 0 then some (at_, at_) else
  let n := h.size
  if at_ > n then none else
  -- 1. `if !c.startMatches { skip; if pos >= n { return -1, -1, false } }`
  let pos := if !s.startMatches then s.skip h (n - at_) at_ else at_
  if !s.startMatches && decide (pos ≥ n) then none else
  -- 2. greedy attempt
  match s.matchGreedy h pos with
  | some e => some (pos, e)
  -- 3. all attempts from pos on
  | none => s.simulate h pos earliest

/-- `SearchAt` -/
def searchAt (s : CompositeSim) (h : Bytes) (at_ : Nat) : Option (Nat × Nat) := s.search h at_ false

/-- `Search` -/
def searchFirst (s : CompositeSim) (h : Bytes) : Option (Nat × Nat) := s.searchAt h 0

/-- `IsMatch`: `_, _, ok := c.search(haystack, 0, true); return ok` -/
def isMatch (s : CompositeSim) (h : Bytes) : Bool := (s.search h 0 true).isSome

/-! ## §3 cost-instrumented copies

  Same functions, returning the result together with a step count:
  * one step per haystack byte skipped by a `skip` loop (`pos++` of 361–363 / 426–428);
  * `matchGreedy`: one step per evaluation of the loop condition 389 (every byte taken, plus the failing test), i.e.
    `(pos' - pos) + 1` per part;
  * one step per closure element examined by a closure loop (435–445, 467–474; the marked one included);
  * one step per thread visited by the `threads:` loop (462).
  `search_erase` (Cx.Proofs.CompositeSimCost): first components = the plain functions. -/

def skipC (s : CompositeSim) (h : Bytes) : Nat → Nat → Nat × Nat
  | 0, pos => (pos, 0)
  | k+1, pos =>
    if !s.startBytes.mem (h.at pos) then
      let r := skipC s h k (pos + 1)
      (r.1, r.2 + 1)
    else (pos, 0)

def greedyLoopC (h : Bytes) : List CharClassPart → Nat → Option Nat × Nat
  | [], pos => (some pos, 0)
  | part :: rest, pos =>
    let n := h.size
    let limit := if bounded part ∧ part.maxMatch < ((n - pos : Nat) : Int) then pos + part.maxMatch.toNat else n
    let pos' := scanRun part.mem h (limit - pos) pos
    let c := (pos' - pos) + 1
    if pos' - pos < part.minMatch then (none, c) else
      let r := greedyLoopC h rest pos'
      (r.1, r.2 + c)

def addClosureC (start : Nat) : List Nat → List Thread → Array Bool → (List Thread × Array Bool × Bool) × Nat
  | [], l, m => ((l, m, false), 0)
  | id :: ids, l, m =>
    if m.getD id false then ((l, m, true), 1)
    else
      let r := addClosureC start ids (l ++ [{ cfg := id, start := start }]) (m.setIfInBounds id true)
      (r.1, r.2 + 1)

def stepLoopC (s : CompositeSim) (b pos1 : Nat) : List Thread → List Thread → Array Bool →
    (List Thread × Array Bool × Option (Nat × Nat)) × Nat
  | [], next, m => ((next, m, none), 0)
  | t :: ts, next, m =>
    if !s.clsOf t.cfg b then
      let q := stepLoopC s b pos1 ts next m
      (q.1, q.2 + 1)
    else
    let r := addClosureC t.start (s.nxOf t.cfg) next m
    if r.1.2.2 then
      let q := stepLoopC s b pos1 ts r.1.1 r.1.2.1
      (q.1, q.2 + r.2 + 1)
    else
    if s.nmOf t.cfg then ((r.1.1, r.1.2.1, some (t.start, pos1)), r.2 + 1) else
      let q := stepLoopC s b pos1 ts r.1.1 r.1.2.1
      (q.1, q.2 + r.2 + 1)

def simConsumeC (s : CompositeSim) (h : Bytes) (earliest : Bool)
    (k : Nat → List Thread → Array Bool → Option (Nat × Nat) → Option (Nat × Nat) × Nat)
    (pos : Nat) (cur : List Thread) (rec : Option (Nat × Nat)) : Option (Nat × Nat) × Nat :=
  if cur.isEmpty || decide (pos ≥ h.size) then (rec, 0) else
  let r := stepLoopC s (h.at pos) (pos + 1) cur [] s.freshMark
  let rec' := match r.1.2.2 with
    | some m => some m
    | none => rec
  if rec'.isSome && earliest then (rec', r.2) else
    let q := k (pos + 1) r.1.1 r.1.2.1 rec'
    (q.1, q.2 + r.2)

def simLoopC (s : CompositeSim) (h : Bytes) (earliest : Bool) :
    Nat → Nat → List Thread → Array Bool → Option (Nat × Nat) → Option (Nat × Nat) × Nat
  | 0, _, _, _, rec => (rec, 0)
  | f+1, pos, cur, mark, rec =>
    let n := h.size
    match rec with
    | some _ => simConsumeC s h earliest (simLoopC s h earliest f) pos cur rec
    | none =>
      let idle := cur.isEmpty && !s.startMatches
      let sk := if idle then s.skipC h (n - pos) pos else (pos, 0)
      let pos := sk.1
      if idle && decide (pos ≥ n) then (none, sk.2) else
      let a := addClosureC pos s.startClosure cur mark
      if s.startMatches && !a.1.2.2 then
        if earliest then (some (pos, pos), sk.2 + a.2) else
          let q := simConsumeC s h earliest (simLoopC s h earliest f) pos a.1.1 (some (pos, pos))
          (q.1, q.2 + (sk.2 + a.2))
      else
        let q := simConsumeC s h earliest (simLoopC s h earliest f) pos a.1.1 none
        (q.1, q.2 + (sk.2 + a.2))

def simulateC (s : CompositeSim) (h : Bytes) (at_ : Nat) (earliest : Bool) : Option (Nat × Nat) × Nat :=
  simLoopC s h earliest (h.size + 1 - at_) at_ [] s.freshMark none

def searchC (s : CompositeSim) (h : Bytes) (at_ : Nat) (earliest : Bool) : Option (Nat × Nat) × Nat :=
  if s.parts.length = 0 then (some (at_, at_), 0) else
  let n := h.size
  if at_ > n then (none, 0) else
  let sk := if !s.startMatches then s.skipC h (n - at_) at_ else (at_, 0)
  let pos := sk.1
  if !s.startMatches && decide (pos ≥ n) then (none, sk.2) else
  let g := greedyLoopC h s.parts pos
  match g.1 with
  | some e => (some (pos, e), sk.2 + g.2)
  | none =>
    let q := s.simulateC h pos earliest
    (q.1, q.2 + (sk.2 + g.2))

end CompositeSim

/-! ## §4 step count of the OLD backtracking model (Cx.Fast.CompositeSearcher), for the superlinearity witness

  One step per byte examined by `consume` (the failing test included) and one per `tryLen` tried by `tryDown`. -/

def tryDownC (rest : Nat → Option Nat × Nat) (pos minMatch : Nat) : Nat → Option Nat × Nat
  | 0 => if 0 ≥ minMatch then let r := rest pos; (r.1, r.2 + 1) else (none, 1)
  | t+1 =>
    if t + 1 ≥ minMatch then
      let r := rest (pos + (t + 1))
      match r.1 with
      | some e => (some e, r.2 + 1)
      | none => let q := tryDownC rest pos minMatch t; (q.1, q.2 + r.2 + 1)
    else (none, 1)

def oldMatchFromC (h : Bytes) : List CharClassPart → Nat → Option Nat × Nat
  | [], pos => (some pos, 0)
  | p :: ps, pos =>
    let t := CompositeSearcher.consume p.mem h (CompositeSearcher.maxLen p h.size pos) pos
    let r := tryDownC (oldMatchFromC h ps) pos p.minMatch t
    (r.1, r.2 + t + 1)

def oldSearchLoopC (parts : List CharClassPart) (h : Bytes) : Nat → Nat → Option (Nat × Nat) × Nat
  | 0, _ => (none, 0)
  | k+1, pos =>
    let r := oldMatchFromC h parts pos
    match r.1 with
    | some e => (some (pos, e), r.2)
    | none => let q := oldSearchLoopC parts h k (pos + 1); (q.1, q.2 + r.2)

/-- the old `SearchAt` with its step count -/
def oldSearchAtC (parts : List CharClassPart) (h : Bytes) (at_ : Nat) : Option (Nat × Nat) × Nat :=
  if parts.length = 0 then (some (at_, at_), 0) else oldSearchLoopC parts h (h.size + 1 - at_) at_

end Cx.CompSim
