import Cx.Basic
/-
  Cx.Model.Nfa — the Thompson NFA of `nfa/nfa.go` (ten state kinds, two start states) as the harness dumps it
  through the exported accessors, the look-around predicate (`nfa/pikevm.go:checkLookAssertion`), the rune-width
  helper (`nfa/backtrack.go:runeWidth`), the path relation every engine is compared with (`Step`, `Accepts`),
  and the bounded backtracker (`nfa/backtrack.go`: backtrackWithState / backtrackFindWithState /
  backtrackFindLongestWithState and their unanchored drivers) over a functional visited set.
-/
namespace Cx.Nfa
open Cx

inductive Look where
  | startText | endText | startLine | endLine | wordB | noWordB
  deriving Repr, DecidableEq, Inhabited

inductive NState where
  | mtch
  | byteRange (lo hi next : Nat)
  | sparse (ts : List (Nat × Nat × Nat))       -- (lo, hi, next), first matching transition wins
  | split (left right : Nat)
  | eps (next : Nat)
  | cap (idx : Nat) (isStart : Bool) (next : Nat)
  | fail
  | look (k : Look) (next : Nat)
  | runeAny (next : Nat)
  | runeAnyNotNL (next : Nat)
  deriving Repr, Inhabited

structure NFA where
  states : Array NState
  startAnchored : Nat
  startUnanchored : Nat
  deriving Repr, Inhabited

def NFA.get (N : NFA) (q : Nat) : NState := N.states.getD q NState.fail

def isWordByte (b : Nat) : Bool :=
  (48 ≤ b && b ≤ 57) || (65 ≤ b && b ≤ 90) || (97 ≤ b && b ≤ 122) || b = 95

/-- `checkLookAssertion(look, haystack, pos)` -/
def lookOK (k : Look) (h : Bytes) (pos : Nat) : Bool :=
  match k with
  | .startText => pos = 0
  | .endText => pos = h.size
  | .startLine => pos = 0 || (pos > 0 && h.at (pos-1) = 10)
  | .endLine => pos = h.size || (pos < h.size && h.at pos = 10)
  | .wordB => (pos > 0 && isWordByte (h.at (pos-1))) != (pos < h.size && isWordByte (h.at pos))
  | .noWordB => (pos > 0 && isWordByte (h.at (pos-1))) == (pos < h.size && isWordByte (h.at pos))

/-- `runeWidth(haystack[pos:])`: lead-byte based, no continuation check; 0 at the end -/
def runeWidth (h : Bytes) (pos : Nat) : Nat :=
  if pos ≥ h.size then 0 else
  let b := h.at pos
  let rem := h.size - pos
  if b < 0x80 then 1
  else if b / 32 = 6 ∧ rem ≥ 2 then 2        -- b & 0xE0 == 0xC0
  else if b / 16 = 14 ∧ rem ≥ 3 then 3       -- b & 0xF0 == 0xE0
  else if b / 8 = 30 ∧ rem ≥ 4 then 4        -- b & 0xF8 == 0xF0
  else 1

def firstTrans (c : Nat) : List (Nat × Nat × Nat) → Option Nat
  | [] => none
  | (lo, hi, nx) :: t => if lo ≤ c ∧ c ≤ hi then some nx else firstTrans c t

/-- One step of the automaton: the reference relation. `(q,i) → (q',i')` on haystack `h`. -/
inductive Step (N : NFA) (h : Bytes) : Nat × Nat → Nat × Nat → Prop where
  | byteRange {q i lo hi nx} : N.get q = .byteRange lo hi nx → i < h.size → lo ≤ h.at i → h.at i ≤ hi → Step N h (q, i) (nx, i+1)
  | sparse {q i ts nx} : N.get q = .sparse ts → i < h.size → firstTrans (h.at i) ts = some nx → Step N h (q, i) (nx, i+1)
  | splitL {q i l r} : N.get q = .split l r → Step N h (q, i) (l, i)
  | splitR {q i l r} : N.get q = .split l r → Step N h (q, i) (r, i)
  | eps {q i nx} : N.get q = .eps nx → Step N h (q, i) (nx, i)
  | cap {q i idx st nx} : N.get q = .cap idx st nx → Step N h (q, i) (nx, i)
  | look {q i k nx} : N.get q = .look k nx → lookOK k h i = true → Step N h (q, i) (nx, i)
  | runeAny {q i nx} : N.get q = .runeAny nx → i < h.size → 0 < runeWidth h i → Step N h (q, i) (nx, i + runeWidth h i)
  | runeAnyNotNL {q i nx} : N.get q = .runeAnyNotNL nx → i < h.size → h.at i ≠ 10 → 0 < runeWidth h i →
      Step N h (q, i) (nx, i + runeWidth h i)

/-- reflexive-transitive closure -/
inductive Steps (N : NFA) (h : Bytes) : Nat × Nat → Nat × Nat → Prop where
  | refl (c) : Steps N h c c
  | cons {a b c} : Step N h a b → Steps N h b c → Steps N h a c

/-- the automaton, started in state `q` at offset `i`, can reach a match state at offset `j` -/
def Reaches (N : NFA) (h : Bytes) (q i j : Nat) : Prop :=
  ∃ m, Steps N h (q, i) (m, j) ∧ N.get m = .mtch ∧ m < N.states.size

/-- `h[i:j]` is matched (anchored start state, full haystack as context) -/
def Accepts (N : NFA) (h : Bytes) (i j : Nat) : Prop := Reaches N h N.startAnchored i j

/-! ### Bounded backtracker (functional visited set indexed `(pos - spanStart) * numStates + q`) -/

structure BTCtx where
  N : NFA
  h : Bytes
  spanStart : Nat

def BTCtx.idx (c : BTCtx) (q pos : Nat) : Nat := (pos - c.spanStart) * c.N.states.size + q

/-- `backtrackWithState`: does a match exist from `(pos, q)`?  Threads the visited set. -/
def btMatch (c : BTCtx) : Nat → Nat → Nat → Array Bool → Bool × Array Bool
  | 0, _, _, vis => (false, vis)
  | fuel+1, pos, q, vis =>
    if q ≥ c.N.states.size then (false, vis) else
    if vis.getD (c.idx q pos) true then (false, vis) else
    let vis := vis.setIfInBounds (c.idx q pos) true
    match c.N.get q with
    | .mtch => (true, vis)
    | .byteRange lo hi nx =>
      if pos < c.h.size ∧ lo ≤ c.h.at pos ∧ c.h.at pos ≤ hi then btMatch c fuel (pos+1) nx vis else (false, vis)
    | .sparse ts =>
      if pos ≥ c.h.size then (false, vis) else
      match firstTrans (c.h.at pos) ts with
      | some nx => btMatch c fuel (pos+1) nx vis
      | none => (false, vis)
    | .split l r =>
      let (ok, vis) := btMatch c fuel pos l vis
      if ok then (true, vis) else btMatch c fuel pos r vis
    | .eps nx => btMatch c fuel pos nx vis
    | .cap _ _ nx => btMatch c fuel pos nx vis
    | .look k nx => if lookOK k c.h pos then btMatch c fuel pos nx vis else (false, vis)
    | .runeAny nx =>
      if pos < c.h.size ∧ runeWidth c.h pos > 0 then btMatch c fuel (pos + runeWidth c.h pos) nx vis else (false, vis)
    | .runeAnyNotNL nx =>
      if pos < c.h.size ∧ c.h.at pos ≠ 10 ∧ runeWidth c.h pos > 0 then btMatch c fuel (pos + runeWidth c.h pos) nx vis
      else (false, vis)
    | .fail => (false, vis)

/-- like `btMatch`, but a match state only counts at offset `e`: is `h[pos:e]` accepted from state `q`? -/
def btSpan (c : BTCtx) (e : Nat) : Nat → Nat → Nat → Array Bool → Bool × Array Bool
  | 0, _, _, vis => (false, vis)
  | fuel+1, pos, q, vis =>
    if q ≥ c.N.states.size then (false, vis) else
    if vis.getD (c.idx q pos) true then (false, vis) else
    let vis := vis.setIfInBounds (c.idx q pos) true
    match c.N.get q with
    | .mtch => (pos = e, vis)
    | .byteRange lo hi nx =>
      if pos < c.h.size ∧ lo ≤ c.h.at pos ∧ c.h.at pos ≤ hi then btSpan c e fuel (pos+1) nx vis else (false, vis)
    | .sparse ts =>
      if pos ≥ c.h.size then (false, vis) else
      match firstTrans (c.h.at pos) ts with
      | some nx => btSpan c e fuel (pos+1) nx vis
      | none => (false, vis)
    | .split l r =>
      let (ok, vis) := btSpan c e fuel pos l vis
      if ok then (true, vis) else btSpan c e fuel pos r vis
    | .eps nx => btSpan c e fuel pos nx vis
    | .cap _ _ nx => btSpan c e fuel pos nx vis
    | .look k nx => if lookOK k c.h pos then btSpan c e fuel pos nx vis else (false, vis)
    | .runeAny nx =>
      if pos < c.h.size ∧ runeWidth c.h pos > 0 then btSpan c e fuel (pos + runeWidth c.h pos) nx vis else (false, vis)
    | .runeAnyNotNL nx =>
      if pos < c.h.size ∧ c.h.at pos ≠ 10 ∧ runeWidth c.h pos > 0 then btSpan c e fuel (pos + runeWidth c.h pos) nx vis
      else (false, vis)
    | .fail => (false, vis)

def btFuel (N : NFA) (h : Bytes) : Nat := N.states.size * (h.size + 2) + 2

def freshVis (N : NFA) (h : Bytes) : Array Bool := Array.replicate (N.states.size * (h.size + 1)) false

/-- `IsMatchWithState`: unanchored, the visited set is shared by all start positions. -/
def btIsMatchFrom (c : BTCtx) : Nat → Nat → Array Bool → Bool
  | 0, _, _ => false
  | fuel+1, start, vis =>
    if start > c.h.size then false else
    let (ok, vis) := btMatch c (btFuel c.N c.h) start c.N.startAnchored vis
    if ok then true else btIsMatchFrom c fuel (start+1) vis

def btIsMatch (N : NFA) (h : Bytes) : Bool :=
  btIsMatchFrom { N := N, h := h, spanStart := 0 } (h.size + 1) 0 (freshVis N h)

/-- `backtrackFindWithState`: end of the first (priority-order) match from `(pos,q)`, or none. -/
def btFind (c : BTCtx) : Nat → Nat → Nat → Array Bool → Option Nat × Array Bool
  | 0, _, _, vis => (none, vis)
  | fuel+1, pos, q, vis =>
    if q ≥ c.N.states.size then (none, vis) else
    if vis.getD (c.idx q pos) true then (none, vis) else
    let vis := vis.setIfInBounds (c.idx q pos) true
    match c.N.get q with
    | .mtch => (some pos, vis)
    | .byteRange lo hi nx =>
      if pos < c.h.size ∧ lo ≤ c.h.at pos ∧ c.h.at pos ≤ hi then btFind c fuel (pos+1) nx vis else (none, vis)
    | .sparse ts =>
      if pos ≥ c.h.size then (none, vis) else
      match firstTrans (c.h.at pos) ts with
      | some nx => btFind c fuel (pos+1) nx vis
      | none => (none, vis)
    | .split l r =>
      match btFind c fuel pos l vis with
      | (some e, vis) => (some e, vis)
      | (none, vis) => btFind c fuel pos r vis
    | .eps nx => btFind c fuel pos nx vis
    | .cap _ _ nx => btFind c fuel pos nx vis
    | .look k nx => if lookOK k c.h pos then btFind c fuel pos nx vis else (none, vis)
    | .runeAny nx =>
      if pos < c.h.size ∧ runeWidth c.h pos > 0 then btFind c fuel (pos + runeWidth c.h pos) nx vis else (none, vis)
    | .runeAnyNotNL nx =>
      if pos < c.h.size ∧ c.h.at pos ≠ 10 ∧ runeWidth c.h pos > 0 then btFind c fuel (pos + runeWidth c.h pos) nx vis
      else (none, vis)
    | .fail => (none, vis)

/-- `SearchAtWithState` (leftmost-first): a fresh visited set per start position (the code bumps the generation). -/
def btSearchFrom (N : NFA) (h : Bytes) (at_ : Nat) : Nat → Nat → Option (Nat × Nat)
  | 0, _ => none
  | fuel+1, start =>
    if start > h.size then none else
    let c : BTCtx := { N := N, h := h, spanStart := at_ }
    match (btFind c (btFuel N h) start N.startAnchored (freshVis N h)).1 with
    | some e => some (start, e)
    | none => btSearchFrom N h at_ fuel (start+1)

def btSearchAt (N : NFA) (h : Bytes) (at_ : Nat) : Option (Nat × Nat) :=
  btSearchFrom N h at_ (h.size + 2 - at_) at_

/-- `btSpan` without a visited set: depth-bounded plain DFS (exact on acyclic fragments such as compiled classes, where it is
    much cheaper; `none` when the depth bound is hit, then the caller falls back to `acceptsSpan`) -/
def walkSpan (N : NFA) (h : Bytes) (e : Nat) : Nat → Nat → Nat → Option Bool
  | 0, _, _ => none
  | fuel+1, pos, q =>
    match N.get q with
    | .mtch => some (decide (pos = e) && decide (q < N.states.size))
    | .byteRange lo hi nx =>
      if pos < h.size ∧ lo ≤ h.at pos ∧ h.at pos ≤ hi then walkSpan N h e fuel (pos+1) nx else some false
    | .sparse ts =>
      if pos ≥ h.size then some false else
      match firstTrans (h.at pos) ts with
      | some nx => walkSpan N h e fuel (pos+1) nx
      | none => some false
    | .split l r =>
      match walkSpan N h e fuel pos l with
      | some true => some true
      | some false => walkSpan N h e fuel pos r
      | none => none
    | .eps nx => walkSpan N h e fuel pos nx
    | .cap _ _ nx => walkSpan N h e fuel pos nx
    | .look k nx => if lookOK k h pos then walkSpan N h e fuel pos nx else some false
    | .runeAny nx =>
      if pos < h.size ∧ runeWidth h pos > 0 then walkSpan N h e fuel (pos + runeWidth h pos) nx else some false
    | .runeAnyNotNL nx =>
      if pos < h.size ∧ h.at pos ≠ 10 ∧ runeWidth h pos > 0 then walkSpan N h e fuel (pos + runeWidth h pos) nx else some false
    | .fail => some false

/-- decision procedure for `Accepts N h s e` -/
def acceptsSpan (N : NFA) (h : Bytes) (s e : Nat) : Bool :=
  (btSpan { N := N, h := h, spanStart := 0 } e (btFuel N h) s N.startAnchored (freshVis N h)).1

end Cx.Nfa
