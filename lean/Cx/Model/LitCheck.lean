import Cx.Model.Nfa
/-
  Cx.Model.LitCheck — a checker for the "necessity" of extracted literals.

  Given a dumped Thompson NFA `N` and a finite set of byte-string literals `lits`, decide whether
    prefix : every accepted span starts with one of the literals,
    suffix : every accepted span ends with one of the literals,
    inner  : every accepted span contains one of the literals,
  for ALL haystacks and ALL matches (soundness: `Cx.Proofs.LitCheck`).

  Method: each property is a small deterministic automaton over bytes whose state is the list of
  "residuals" (what is still missing of every literal occurrence that is under way) plus a sticky flag.
  The checker explores the product of the NFA with that automaton from `(N.startAnchored, init)`; it fails as
  soon as it pops a product state `(match state, not good)`, and then returns the bytes of the path that led there.

  The byte alphabet is abstracted: only the bytes occurring in some literal are distinguished (`alpha`), all
  other values (including values ≥ 256, the model's `Bytes` are `Array Nat`) are represented by one symbol
  `fresh ∉ alpha`.  Over-approximations (all keep "check = true" sound): `look` states are epsilon; a
  `runeAny`/`runeAnyNotNL` consumes the lead byte and then `w-1` arbitrary bytes where `w` ranges over the widths
  the lead byte's class allows; `sparse` ignores first-match priority for the `fresh` class.

  The checks run over the indexed automata (`prefixAutoI` …: a residual is a pair (literal index, bytes matched)),
  which `Cx.Proofs.LitCheck` shows to be images of the residual automata (`prefixAuto` …) the characterisation
  lemmas are about.

  Core-only and executable; everything is structurally recursive (the examples are checked by `decide +kernel`).
-/
namespace Cx.Lit
open Cx Cx.Nfa

abbrev Lit := List Nat

/-- the bytes `h.at i … h.at (j-1)` -/
def slice (h : Bytes) (i j : Nat) : List Nat := (List.range' i (j - i)).map h.at

/-! ### Property automata -/

structure Auto (σ : Type) where
  init : σ
  step : σ → Nat → σ
  good : σ → Bool
  hash : σ → Nat

def Auto.run {σ : Type} (A : Auto σ) (d : σ) (w : List Nat) : σ := w.foldl A.step d

/-- advance a residual over byte `b` -/
def adv (b : Nat) : Lit → Option Lit
  | [] => none
  | c :: t => if c = b then some t else none

def advAll (b : Nat) (R : List Lit) : List Lit := R.filterMap (adv b)

/-- some residual is complete -/
def hasNil (R : List Lit) : Bool := R.any List.isEmpty

/-- `items`: residuals of the literal occurrences under way; `flag`: sticky "property established". -/
structure DState where
  flag : Bool
  items : List Lit
  deriving DecidableEq, Repr

def mix (a b : Nat) : Nat := (a * 16777619 + b + 1) % 4294967296

def hashLit (l : Lit) : Nat := l.foldl mix 7

def hashD (d : DState) : Nat := d.items.foldl (fun a l => mix a (hashLit l)) (if d.flag then 1 else 0)

/-- prefix: the candidates all started at the first byte; `⟨true, []⟩` = accepted, `⟨false, []⟩` = dead. -/
def mkP (R : List Lit) : DState := if hasNil R then ⟨true, []⟩ else ⟨false, R⟩

def stepP (d : DState) (b : Nat) : DState := if d.flag then d else mkP (advAll b d.items)

def prefixAuto (lits : List Lit) : Auto DState :=
  { init := mkP lits, step := stepP, good := fun d => d.flag, hash := hashD }

/-- inner: Aho-Corasick like, a new occurrence may start at every byte; `flag` = some literal was seen. -/
def mkI (lits R : List Lit) : DState := if hasNil R || hasNil lits then ⟨true, []⟩ else ⟨false, R⟩

def stepI (lits : List Lit) (d : DState) (b : Nat) : DState :=
  if d.flag then d else mkI lits (advAll b d.items ++ advAll b lits)

def innerAuto (lits : List Lit) : Auto DState :=
  { init := mkI lits [], step := stepI lits, good := fun d => d.flag, hash := hashD }

/-- suffix: good iff some occurrence completes exactly here; `flag` = the empty literal is in the set. -/
def stepS (lits : List Lit) (d : DState) (b : Nat) : DState :=
  if d.flag then d else ⟨false, advAll b d.items ++ advAll b lits⟩

def suffixAuto (lits : List Lit) : Auto DState :=
  { init := ⟨hasNil lits, []⟩, step := stepS lits, good := fun d => d.flag || hasNil d.items, hash := hashD }

/-! ### Product exploration -/

/-- product state: NFA state `q`, `r` = arbitrary bytes still to be consumed inside the rune state `q`
    (0 = at `q` proper), property-automaton state `d` -/
structure PState (σ : Type) where
  q : Nat
  r : Nat
  d : σ
  deriving DecidableEq

/-- visited set: hash buckets -/
structure VSet (σ : Type) where
  buckets : Array (List (PState σ))
  pos : 0 < buckets.size

def VSet.empty {σ : Type} (n : Nat) : VSet σ := ⟨Array.replicate (n+1) [], by simp⟩

def VSet.contains {σ : Type} [DecidableEq σ] (v : VSet σ) (k : Nat) (s : PState σ) : Bool :=
  (v.buckets.getD (k % v.buckets.size) []).contains s

def VSet.insert {σ : Type} (v : VSet σ) (k : Nat) (s : PState σ) : VSet σ :=
  ⟨v.buckets.setIfInBounds (k % v.buckets.size) (s :: v.buckets.getD (k % v.buckets.size) []), by
    simp only [Array.size_setIfInBounds]; exact v.pos⟩

structure Ctx (σ : Type) where
  N : NFA
  A : Auto σ
  /-- the bytes that occur in some literal -/
  alpha : List Nat
  /-- the symbol standing for every value outside `alpha` -/
  fresh : Nat
  /-- witness bytes for the `fresh` class: lead byte of a rune of width 1..4, continuation byte -/
  rep1 : Nat
  rep2 : Nat
  rep3 : Nat
  rep4 : Nat
  repC : Nat

def maxOf : List Nat → Nat
  | [] => 0
  | x :: t => max x (maxOf t)

/-- first candidate outside `alpha` -/
def pickRep (alpha : List Nat) (cands : List Nat) (dflt : Nat) : Nat :=
  match cands.find? (fun b => !alpha.contains b) with
  | some b => b
  | none => dflt

def mkCtx {σ : Type} (N : NFA) (A : Auto σ) (lits : List Lit) : Ctx σ :=
  let alpha := lits.flatten.eraseDups
  let fresh := maxOf alpha + 1
  { N := N, A := A, alpha := alpha, fresh := fresh,
    rep1 := pickRep alpha (List.range' 97 26 ++ List.range' 32 95 ++ List.range 10 ++ List.range' 11 21 ++ List.range' 127 65) fresh,
    rep2 := pickRep alpha (List.range' 194 30) fresh,
    rep3 := pickRep alpha (List.range' 224 16) fresh,
    rep4 := pickRep alpha (List.range' 240 5) fresh,
    repC := pickRep alpha (List.range' 128 64 ++ List.range' 97 26 ++ List.range 256) fresh }

def Ctx.cls {σ : Type} (c : Ctx σ) (b : Nat) : Nat := if c.alpha.contains b then b else c.fresh

/-- a witness byte if `[lo, hi]` contains (or, for absurdly wide ranges, may contain) a value outside `alpha` -/
def otherRep (alpha : List Nat) (fresh lo hi : Nat) : Option Nat :=
  match (List.range' lo (min (hi + 1 - lo) 256)).find? (fun b => !alpha.contains b) with
  | some b => some b
  | none => if hi + 1 - lo > 256 then some fresh else none

/-- (symbol, witness byte) pairs a `[lo, hi]` transition can read -/
def rangeSyms {σ : Type} (c : Ctx σ) (lo hi : Nat) : List (Nat × Nat) :=
  (c.alpha.filter (fun s => decide (lo ≤ s ∧ s ≤ hi))).map (fun s => (s, s)) ++
    (match otherRep c.alpha c.fresh lo hi with
     | some rp => [(c.fresh, rp)]
     | none => [])

/-- (symbol, witness byte, target) -/
def sparseEdges {σ : Type} (c : Ctx σ) (ts : List (Nat × Nat × Nat)) : List (Nat × Nat × Nat) :=
  (c.alpha.filterMap (fun s => (firstTrans s ts).map fun nx => (s, s, nx))) ++
    ts.flatMap (fun t =>
      match otherRep c.alpha c.fresh t.1 t.2.1 with
      | some rp => [(c.fresh, rp, t.2.2)]
      | none => [])

/-- every symbol (symbol, witness byte) -/
def anySyms {σ : Type} (c : Ctx σ) : List (Nat × Nat) :=
  c.alpha.map (fun s => (s, s)) ++ [(c.fresh, c.repC)]

/-- the widths `runeWidth` can return for lead byte `b` -/
def widthsOf (b : Nat) : List Nat :=
  if b < 128 then [1]
  else if b / 32 = 6 then [1, 2]
  else if b / 16 = 14 then [1, 3]
  else if b / 8 = 30 then [1, 4]
  else [1]

def leadRep {σ : Type} (c : Ctx σ) (w : Nat) : Nat :=
  match w with
  | 1 => c.rep1
  | 2 => c.rep2
  | 3 => c.rep3
  | _ => c.rep4

/-- (symbol, witness byte, rune width) for the lead byte of a rune state -/
def runeFirst {σ : Type} (c : Ctx σ) (notNL : Bool) : List (Nat × Nat × Nat) :=
  (c.alpha.filter (fun s => !(notNL && s == 10))).flatMap (fun s => (widthsOf s).map fun w => (s, s, w)) ++
    [1, 2, 3, 4].map (fun w => (c.fresh, leadRep c w, w))

/-- where a rune state `q` (target `nx`) is with `rem` bytes still to consume -/
def after {σ : Type} (q nx rem : Nat) (d : σ) : PState σ := if rem = 0 then ⟨nx, 0, d⟩ else ⟨q, rem, d⟩

/-- product successors, labelled with the witness byte consumed (none = epsilon) -/
def succs {σ : Type} (c : Ctx σ) (s : PState σ) : List (Option Nat × PState σ) :=
  match s.r with
  | r + 1 =>
    match c.N.get s.q with
    | .runeAny nx => (anySyms c).map fun e => (some e.2, after s.q nx r (c.A.step s.d e.1))
    | .runeAnyNotNL nx => (anySyms c).map fun e => (some e.2, after s.q nx r (c.A.step s.d e.1))
    | _ => []
  | 0 =>
    match c.N.get s.q with
    | .mtch => []
    | .fail => []
    | .byteRange lo hi nx => (rangeSyms c lo hi).map fun e => (some e.2, ⟨nx, 0, c.A.step s.d e.1⟩)
    | .sparse ts => (sparseEdges c ts).map fun e => (some e.2.1, ⟨e.2.2, 0, c.A.step s.d e.1⟩)
    | .split l r => [(none, ⟨l, 0, s.d⟩), (none, ⟨r, 0, s.d⟩)]
    | .eps nx => [(none, ⟨nx, 0, s.d⟩)]
    | .cap _ _ nx => [(none, ⟨nx, 0, s.d⟩)]
    | .look _ nx => [(none, ⟨nx, 0, s.d⟩)]
    | .runeAny nx => (runeFirst c false).map fun e => (some e.2.1, after s.q nx (e.2.2 - 1) (c.A.step s.d e.1))
    | .runeAnyNotNL nx => (runeFirst c true).map fun e => (some e.2.1, after s.q nx (e.2.2 - 1) (c.A.step s.d e.1))

/-- a reachable match state whose span does not have the property -/
def isBad {σ : Type} (c : Ctx σ) (s : PState σ) : Bool :=
  match c.N.get s.q with
  | .mtch => s.r == 0 && decide (s.q < c.N.states.size) && !c.A.good s.d
  | _ => false

def hashP {σ : Type} (c : Ctx σ) (s : PState σ) : Nat := mix (mix s.q s.r) (c.A.hash s.d)

abbrev Work (σ : Type) := List (PState σ × List Nat)

def extend (path : List Nat) : Option Nat → List Nat
  | some b => b :: path
  | none => path

/-- push the successors that were not seen yet -/
def pushAll {σ : Type} [DecidableEq σ] (c : Ctx σ) (path : List Nat) :
    List (Option Nat × PState σ) → Work σ → VSet σ → Work σ × VSet σ
  | [], back, vis => (back, vis)
  | e :: es, back, vis =>
    let k := hashP c e.2
    if vis.contains k e.2 then pushAll c path es back vis
    else pushAll c path es ((e.2, extend path e.1) :: back) (vis.insert k e.2)

inductive Res (σ : Type) where
  | ok (vis : VSet σ)
  | bad (witness : List Nat)
  | fuel

/-- breadth-first worklist loop (queue = `front ++ back.reverse`); every queued state is already in `vis`.
    Paths are kept reversed. -/
def explore {σ : Type} [DecidableEq σ] (c : Ctx σ) : Nat → Work σ → Work σ → VSet σ → Res σ
  | 0, _, _, _ => .fuel
  | _+1, [], [], vis => .ok vis
  | f+1, [], b :: back, vis => explore c f (b :: back).reverse [] vis
  | f+1, (s, path) :: front, back, vis =>
    if isBad c s then .bad path.reverse
    else
      let r := pushAll c path (succs c s) back vis
      explore c f front r.1 r.2

def defaultFuel : Nat := 4000000

def startState {σ : Type} (c : Ctx σ) : PState σ := ⟨c.N.startAnchored, 0, c.A.init⟩

def runCtx {σ : Type} [DecidableEq σ] (c : Ctx σ) (fuel : Nat) : Res σ :=
  let s0 := startState c
  let k := hashP c s0
  explore c fuel [(s0, [])] [] ((VSet.empty (32 * (c.N.states.size + 1))).insert k s0)

def runCheck {σ : Type} [DecidableEq σ] (N : NFA) (A : Auto σ) (lits : List Lit) (fuel : Nat) : Res σ :=
  runCtx (mkCtx N A lits) fuel

def Res.passed {σ : Type} : Res σ → Bool
  | .ok _ => true
  | _ => false

def Res.witness {σ : Type} : Res σ → Option (List Nat)
  | .bad w => some w
  | _ => none

def Res.outOfFuel {σ : Type} : Res σ → Bool
  | .fuel => true
  | _ => false

/-! ### Indexed property automata

  The same three automata with a residual represented by (literal index, bytes matched) into a table of the
  literals, so that hashing and comparing a state costs one step per item instead of one per residual byte.
  `Cx.Proofs.LitCheck` shows that they are images of the residual automata above (`absI`). -/

abbrev LitTab := Array (Array Nat)

def mkTab (lits : List Lit) : LitTab := (lits.map List.toArray).toArray

/-- (literal index, bytes matched) -/
abbrev Item := Nat × Nat

def advI (T : LitTab) (b : Nat) (it : Item) : Option Item :=
  match (T.getD it.1 #[])[it.2]? with
  | some c => if c = b then some (it.1, it.2 + 1) else none
  | none => none

def advAllI (T : LitTab) (b : Nat) (R : List Item) : List Item := R.filterMap (advI T b)

def doneI (T : LitTab) (it : Item) : Bool := decide ((T.getD it.1 #[]).size ≤ it.2)

def hasDone (T : LitTab) (R : List Item) : Bool := R.any (doneI T)

/-- one fresh occurrence of every literal -/
def seeds (T : LitTab) : List Item := (List.range T.size).map (fun l => (l, 0))

structure IState where
  flag : Bool
  items : List Item
  deriving DecidableEq, Repr

def hashI (d : IState) : Nat := d.items.foldl (fun a it => mix (mix a it.1) it.2) (if d.flag then 1 else 0)

def mkPI (T : LitTab) (R : List Item) : IState := if hasDone T R then ⟨true, []⟩ else ⟨false, R⟩

def stepPI (T : LitTab) (d : IState) (b : Nat) : IState := if d.flag then d else mkPI T (advAllI T b d.items)

def prefixAutoI (T : LitTab) : Auto IState :=
  { init := mkPI T (seeds T), step := stepPI T, good := fun d => d.flag, hash := hashI }

def mkII (T : LitTab) (sd R : List Item) : IState := if hasDone T R || hasDone T sd then ⟨true, []⟩ else ⟨false, R⟩

def stepII (T : LitTab) (sd : List Item) (d : IState) (b : Nat) : IState :=
  if d.flag then d else mkII T sd (advAllI T b d.items ++ advAllI T b sd)

def innerAutoI (T : LitTab) : Auto IState :=
  let sd := seeds T
  { init := mkII T sd [], step := stepII T sd, good := fun d => d.flag, hash := hashI }

def stepSI (T : LitTab) (sd : List Item) (d : IState) (b : Nat) : IState :=
  if d.flag then d else ⟨false, advAllI T b d.items ++ advAllI T b sd⟩

def suffixAutoI (T : LitTab) : Auto IState :=
  let sd := seeds T
  { init := ⟨hasDone T sd, []⟩, step := stepSI T sd, good := fun d => d.flag || hasDone T d.items, hash := hashI }

/-! ### The three checks -/

def checkPrefixF (fuel : Nat) (N : NFA) (lits : List Lit) : Res IState := runCheck N (prefixAutoI (mkTab lits)) lits fuel
def checkSuffixF (fuel : Nat) (N : NFA) (lits : List Lit) : Res IState := runCheck N (suffixAutoI (mkTab lits)) lits fuel
def checkInnerF (fuel : Nat) (N : NFA) (lits : List Lit) : Res IState := runCheck N (innerAutoI (mkTab lits)) lits fuel

/-- the same checks over the residual automata (reference; slower on large literal sets) -/
def checkPrefixR (fuel : Nat) (N : NFA) (lits : List Lit) : Res DState := runCheck N (prefixAuto lits) lits fuel
def checkSuffixR (fuel : Nat) (N : NFA) (lits : List Lit) : Res DState := runCheck N (suffixAuto lits) lits fuel
def checkInnerR (fuel : Nat) (N : NFA) (lits : List Lit) : Res DState := runCheck N (innerAuto lits) lits fuel

/-- every accepted span starts with one of `lits` -/
def checkPrefix (N : NFA) (lits : List Lit) : Bool := (checkPrefixF defaultFuel N lits).passed
/-- every accepted span ends with one of `lits` -/
def checkSuffix (N : NFA) (lits : List Lit) : Bool := (checkSuffixF defaultFuel N lits).passed
/-- every accepted span contains one of `lits` -/
def checkInner (N : NFA) (lits : List Lit) : Bool := (checkInnerF defaultFuel N lits).passed

/-- when the check fails: the bytes of a path from the start state to a match state violating the property
    (`none` if the check passed or ran out of fuel) -/
def checkPrefixWitness (N : NFA) (lits : List Lit) : Option (List Nat) := (checkPrefixF defaultFuel N lits).witness
def checkSuffixWitness (N : NFA) (lits : List Lit) : Option (List Nat) := (checkSuffixF defaultFuel N lits).witness
def checkInnerWitness (N : NFA) (lits : List Lit) : Option (List Nat) := (checkInnerF defaultFuel N lits).witness

end Cx.Lit
