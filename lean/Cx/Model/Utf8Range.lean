import Cx.Spec.Utf8
/-
  Cx.Model.Utf8Range — transliteration of the part of nfa/compile.go that turns a character class (rune ranges)
  into a byte-level automaton:

    compileCharClass → (all ASCII: one ByteRange / one Sparse state)
                     → compileUnicodeClass → (≤ 256 runes: alternation of literals, each through `encodeRune`; surrogate
                                              members are skipped, no member left: `compileNoMatch`)
                                           → compileUnicodeClassLarge → compileUTF8Range → compileUTF8{1,2,3,4}ByteRange
                                                                      → buildUTF8NonASCIIBranches (+ 0x80–0xFF)

  Every Go function emits ByteRange chains ending in the shared end state and returns the list of chain starts; the
  callers join the starts with a Split chain (`buildSplitChain`, left-first) or a Sparse state.  The model returns,
  in the same order, the list of *byte-range sequences* `[(lo₁,hi₁),…,(loₖ,hiₖ)]` of those chains; the automaton
  accepts a byte string iff it matches one of the sequences position-wise (`accepts`).

  Go `rune` is int32 and `byte` is uint8; here both are `Nat`, `byte x` is the truncating conversion, `>>>`, `&&&`,
  `|||` are the Go operators, `bitClear` is `&^`.
-/
namespace Cx.Utf8Range

/-- one ByteRange state: (Lo, Hi) -/
abbrev BR := Nat × Nat
/-- one chain of ByteRange states from a start to the end state -/
abbrev Seq := List BR

/-- does the byte string walk the chain to its end, consuming every byte? -/
def matchesSeq : List Nat → Seq → Bool
  | [], [] => true
  | b :: bs, r :: rest => (decide (r.1 ≤ b) && decide (b ≤ r.2)) && matchesSeq bs rest
  | _, _ => false

/-- alternation of chains -/
def accepts (seqs : List Seq) (bs : List Nat) : Bool := seqs.any (fun s => matchesSeq bs s)

/-- Go `byte(x)` -/
def byte (x : Nat) : Nat := x % 256

/-- Go `x &^ m` (bit clear): remove from `x` the bits it shares with `m` -/
def bitClear (x m : Nat) : Nat := x - (x &&& m)

/-- Go `for v := a; v <= b; v++ { out = append(out, f(v)...) }` -/
def forRange (a b : Nat) (f : Nat → List Seq) : List Seq := (List.range' a (b + 1 - a)).flatMap f

/-! ### helper bound functions (compile.go, "UTF-8 continuation byte helper functions") -/

def utf8Cont2Lo (cont1Val loCont1 loCont2 : Nat) : Nat := if cont1Val = loCont1 then loCont2 else 0x80
def utf8Cont2Hi (cont1Val hiCont1 hiCont2 : Nat) : Nat := if cont1Val = hiCont1 then hiCont2 else 0xBF

def utf8Cont1Lo3Byte (leadVal loLead loCont1 : Nat) : Nat :=
  if leadVal = loLead then loCont1 else if leadVal = 0xE0 then 0xA0 else 0x80

def utf8Cont1Hi3Byte (leadVal hiLead hiCont1 : Nat) : Nat :=
  if leadVal = hiLead then hiCont1 else if leadVal = 0xED then 0x9F else 0xBF

def utf8Cont2LoFull (leadVal cont1Val loLead loCont1 loCont2 : Nat) : Nat :=
  if leadVal = loLead ∧ cont1Val = loCont1 then loCont2 else 0x80

def utf8Cont2HiFull (leadVal cont1Val hiLead hiCont1 hiCont2 : Nat) : Nat :=
  if leadVal = hiLead ∧ cont1Val = hiCont1 then hiCont2 else 0xBF

/-- compile.go `encodeRune` (NOT utf8.EncodeRune: no surrogate / range check) -/
def encodeRune (r : Nat) : List Nat :=
  if r < 0x80 then [byte r]
  else if r < 0x800 then [byte (0xC0 ||| (r >>> 6)), byte (0x80 ||| (r &&& 0x3F))]
  else if r < 0x10000 then
    [byte (0xE0 ||| (r >>> 12)), byte (0x80 ||| ((r >>> 6) &&& 0x3F)), byte (0x80 ||| (r &&& 0x3F))]
  else
    [byte (0xF0 ||| (r >>> 18)), byte (0x80 ||| ((r >>> 12) &&& 0x3F)), byte (0x80 ||| ((r >>> 6) &&& 0x3F)),
     byte (0x80 ||| (r &&& 0x3F))]

/-! ### per-length range compilers -/

/-- `compileUTF81ByteRange` -/
def compileUTF81ByteRange (lo hi : Nat) : List Seq := [[(byte lo, byte hi)]]

/-- `compileUTF82ByteRange` -/
def compileUTF82ByteRange (lo hi : Nat) : List Seq :=
  let loLead := byte (0xC0 ||| (lo >>> 6))
  let loCont := byte (0x80 ||| (lo &&& 0x3F))
  let hiLead := byte (0xC0 ||| (hi >>> 6))
  let hiCont := byte (0x80 ||| (hi &&& 0x3F))
  if loLead = hiLead then
    [[(loLead, loLead), (loCont, hiCont)]]
  else
    [[(loLead, loLead), (loCont, 0xBF)]]
    ++ (if hiLead > byte (loLead + 1) then [[(byte (loLead + 1), hiLead - 1), (0x80, 0xBF)]] else [])
    ++ [[(hiLead, hiLead), (0x80, hiCont)]]

/-- `compileUTF83ByteRangeSimple` -/
def compileUTF83ByteRangeSimple (lo hi : Nat) : List Seq :=
  let loLead := byte (0xE0 ||| (lo >>> 12))
  let loCont1 := byte (0x80 ||| ((lo >>> 6) &&& 0x3F))
  let loCont2 := byte (0x80 ||| (lo &&& 0x3F))
  let hiLead := byte (0xE0 ||| (hi >>> 12))
  let hiCont1 := byte (0x80 ||| ((hi >>> 6) &&& 0x3F))
  let hiCont2 := byte (0x80 ||| (hi &&& 0x3F))
  if loLead = hiLead ∧ loCont1 = hiCont1 then
    [[(loLead, loLead), (loCont1, loCont1), (loCont2, hiCont2)]]
  else if loLead = hiLead then
    forRange loCont1 hiCont1 fun cont1Val =>
      let c2Lo := utf8Cont2Lo cont1Val loCont1 loCont2
      let c2Hi := utf8Cont2Hi cont1Val hiCont1 hiCont2
      [[(loLead, loLead), (cont1Val, cont1Val), (c2Lo, c2Hi)]]
  else
    forRange loLead hiLead fun leadVal =>
      let c1Lo := utf8Cont1Lo3Byte leadVal loLead loCont1
      let c1Hi := utf8Cont1Hi3Byte leadVal hiLead hiCont1
      forRange c1Lo c1Hi fun cont1Val =>
        let c2Lo := utf8Cont2LoFull leadVal cont1Val loLead loCont1 loCont2
        let c2Hi := utf8Cont2HiFull leadVal cont1Val hiLead hiCont1 hiCont2
        [[(leadVal, leadVal), (cont1Val, cont1Val), (c2Lo, c2Hi)]]

/-- `compileUTF83ByteRange`: surrogate gap handling around the simple compiler -/
def compileUTF83ByteRange (lo hi : Nat) : List Seq :=
  if lo ≤ 0xD7FF ∧ hi ≥ 0xE000 then
    compileUTF83ByteRangeSimple lo 0xD7FF ++ compileUTF83ByteRangeSimple 0xE000 hi
  else if lo ≥ 0xD800 ∧ hi ≤ 0xDFFF then []
  else
    let lo := if lo ≥ 0xD800 ∧ lo ≤ 0xDFFF then 0xE000 else lo
    let hi := if hi ≥ 0xD800 ∧ hi ≤ 0xDFFF then 0xD7FF else hi
    if lo > hi then [] else compileUTF83ByteRangeSimple lo hi

/-- the closure `byteAt` inside `utf84Split` -/
def byteAt (n x : Nat) : Nat :=
  if n = 3 then byte (0xF0 ||| (x >>> 18)) else byte (0x80 ||| ((x >>> (6 * n)) &&& 0x3F))

/-- `utf84Split` (recursive in Go; `fuel` bounds the recursion depth, 7 calls deep at most) -/
def utf84Split : (fuel : Nat) → (lo hi n : Nat) → List Seq
  | 0, _, _, _ => []
  | fuel + 1, lo, hi, n =>
    if n = 0 then [[(byteAt n lo, byteAt n hi)]] else
    let m := (1 <<< (6 * n)) - 1
    if bitClear lo m = bitClear hi m then
      (utf84Split fuel lo hi (n - 1)).map fun sub => (byteAt n lo, byteAt n lo) :: sub
    else
      let starts := if lo &&& m ≠ 0 then utf84Split fuel lo (lo ||| m) n else []
      let lo1 := if lo &&& m ≠ 0 then (lo ||| m) + 1 else lo
      let tail := if hi &&& m ≠ m then utf84Split fuel (bitClear hi m) hi n else []
      let hi1 := if hi &&& m ≠ m then bitClear hi m - 1 else hi
      let mid := if lo1 ≤ hi1 then [(byteAt n lo1, byteAt n hi1) :: List.replicate n (0x80, 0xBF)] else []
      starts ++ mid ++ tail

def splitFuel : Nat := 8

/-- `compileUTF84ByteRange` -/
def compileUTF84ByteRange (lo hi : Nat) : List Seq :=
  let hi := if hi > 0x10FFFF then 0x10FFFF else hi
  let lo := if lo < 0x10000 then 0x10000 else lo
  if lo > hi then [] else utf84Split splitFuel lo hi 3

/-- `compileUTF8Range` -/
def compileUTF8Range (lo hi : Nat) : List Seq :=
  let s1 := if lo ≤ 0x7F then compileUTF81ByteRange lo (if hi > 0x7F then 0x7F else hi) else []
  let lo1 := if lo ≤ 0x7F then 0x80 else lo
  if lo1 > hi then s1 else
  let s2 := if lo1 ≤ 0x7FF then s1 ++ compileUTF82ByteRange lo1 (if hi > 0x7FF then 0x7FF else hi) else s1
  let lo2 := if lo1 ≤ 0x7FF then 0x800 else lo1
  if lo2 > hi then s2 else
  let s3 := if lo2 ≤ 0xFFFF then s2 ++ compileUTF83ByteRange lo2 (if hi > 0xFFFF then 0xFFFF else hi) else s2
  let lo3 := if lo2 ≤ 0xFFFF then 0x10000 else lo2
  if lo3 > hi then s3 else
  s3 ++ compileUTF84ByteRange lo3 hi

/-- the byte-range sequences the compiler emits for the rune range `[lo, hi]` -/
def utf8RangeSeqs (lo hi : Nat) : List Seq := compileUTF8Range lo hi

/-! ### class level -/

/-- `buildUTF8NonASCIIBranches` -/
def buildUTF8NonASCIIBranches : List Seq :=
  [ [(0xC2, 0xDF), (0x80, 0xBF)],
    [(0xE0, 0xE0), (0xA0, 0xBF), (0x80, 0xBF)],
    [(0xE1, 0xEC), (0x80, 0xBF), (0x80, 0xBF)],
    [(0xED, 0xED), (0x80, 0x9F), (0x80, 0xBF)],
    [(0xEE, 0xEF), (0x80, 0xBF), (0x80, 0xBF)],
    [(0xF0, 0xF0), (0x90, 0xBF), (0x80, 0xBF), (0x80, 0xBF)],
    [(0xF1, 0xF3), (0x80, 0xBF), (0x80, 0xBF), (0x80, 0xBF)],
    [(0xF4, 0xF4), (0x80, 0x8F), (0x80, 0xBF), (0x80, 0xBF)] ]

/-- first loop of `compileUnicodeClassLarge`: the ASCII transitions -/
def asciiPart : List (Nat × Nat) → List BR
  | [] => []
  | (lo, hi) :: t =>
    if hi < 0x80 then (byte lo, byte hi) :: asciiPart t
    else if lo ≥ 0x80 then asciiPart t
    else (byte lo, 0x7F) :: asciiPart t

/-- first loop of `compileUnicodeClassLarge`: the non-ASCII rune ranges -/
def nonAsciiPart : List (Nat × Nat) → List (Nat × Nat)
  | [] => []
  | (lo, hi) :: t =>
    if hi < 0x80 then nonAsciiPart t
    else if lo ≥ 0x80 then (lo, hi) :: nonAsciiPart t
    else (0x80, hi) :: nonAsciiPart t

/-- `coversAllNonASCII` -/
def coversAllNonASCII (non : List (Nat × Nat)) : Bool :=
  match non with
  | [(lo, hi)] => decide (lo ≤ 0x80) && decide (hi ≥ 0x10FFFF)
  | _ => false

/-- `compileUnicodeClassLarge`: ASCII alternative (ByteRange or Sparse: one path per transition), then either the
"any valid multi-byte UTF-8 + any byte 0x80–0xFF" branches or the precise per-range automata -/
def compileUnicodeClassLarge (ranges : List (Nat × Nat)) : List Seq :=
  let non := nonAsciiPart ranges
  (asciiPart ranges).map (fun t => [t])
  ++ (if coversAllNonASCII non then buildUTF8NonASCIIBranches ++ [[(0x80, 0xFF)]]
      else non.flatMap fun rng => compileUTF8Range rng.1 rng.2)

/-- compile.go `isSurrogate` -/
def isSurrogate (r : Nat) : Bool := decide (r ≥ 0xD800) && decide (r ≤ 0xDFFF)

/-- the `totalChars` loop of `compileUnicodeClass` with its early exit -/
def exceeds256 : List (Nat × Nat) → Nat → Bool
  | [], _ => false
  | (lo, hi) :: t, total =>
    let total := total + (hi - lo + 1)
    if total > 256 then true else exceeds256 t total

/-- `compileUnicodeClass` -/
def compileUnicodeClass (ranges : List (Nat × Nat)) : List Seq :=
  if ranges = [] then [] else
  if exceeds256 ranges 0 then compileUnicodeClassLarge ranges else
  -- alternation of one literal per rune, surrogates skipped (`if isSurrogate(r) { continue }`); a literal is a chain of
  -- single-byte ranges (compileCaseSensitiveRune).  No alternative left (`len(alts) == 0`): `compileNoMatch`, a Fail
  -- state, i.e. no sequence at all — which is what the empty `flatMap` is.
  ranges.flatMap fun rng => forRange rng.1 rng.2 fun r =>
    if isSurrogate r then [] else [(encodeRune r).map fun b => (b, b)]

/-- `compileCharClass` -/
def compileCharClass (ranges : List (Nat × Nat)) : List Seq :=
  if ranges = [] then [] else
  if ranges.all (fun rng => decide (rng.1 ≤ 127) && decide (rng.2 ≤ 127)) then
    ranges.map fun rng => [(byte rng.1, byte rng.2)]
  else compileUnicodeClass ranges

/-- the byte-range sequences the compiler emits for a class given as rune ranges -/
def classSeqs (ranges : List (Nat × Nat)) : List Seq := compileCharClass ranges

/-! ### sanity examples -/
example : bitClear 0x12345 0xFFF = 0x12000 := by decide
example : classSeqs [(0xD800, 0xD80F)] = [] := by decide
example : classSeqs [(0xD7FF, 0xD800)] = [[(0xED, 0xED), (0x9F, 0x9F), (0xBF, 0xBF)]] := by decide
example : utf8RangeSeqs 0xE9 0xE9 = [[(0xC3, 0xC3), (0xA9, 0xA9)]] := by decide
example : utf8RangeSeqs 0x10000 0x10FFFF =
    [[(0xF0, 0xF0), (0x90, 0xBF), (0x80, 0xBF), (0x80, 0xBF)], [(0xF1, 0xF3), (0x80, 0xBF), (0x80, 0xBF), (0x80, 0xBF)],
     [(0xF4, 0xF4), (0x80, 0x8F), (0x80, 0xBF), (0x80, 0xBF)]] := by decide

end Cx.Utf8Range
