import Cx.Spec.Expand
/-
  Cx.Model.Expand — coregex `regex.go`: `expand` (the port, `bytes.IndexByte` based, `extractTemplateName` is a
  verbatim copy of stdlib's `extract` and shares its transliteration) and `QuoteMeta` (count, then build).
-/
namespace Cx.Model
open Cx Cx.Std

/-- `bytes.IndexByte(template, '$')` on the remaining template `t[i:]` (relative index) -/
def indexDollar (t : Bytes) : Nat → Nat → Nat → Option Nat
  | 0, _, _ => none
  | fuel+1, i, k => if i + k ≥ t.size then none else if t.at (i + k) = 36 then some k else indexDollar t fuel i (k+1)

def cxExpandLoop (isNameRune : Nat → Bool) (t : Bytes) (src : Bytes) (m : List Int) (names : List (List Nat)) :
    Nat → Nat → List Nat → List Nat
  | 0, i, acc => acc ++ slice t i t.size
  | fuel+1, i, acc =>
    if i ≥ t.size then acc ++ slice t i t.size else      -- `for len(template) > 0`
    match indexDollar t (t.size + 1) i 0 with
    | none => acc ++ slice t i t.size
    | some k =>
      let acc := acc ++ slice t i (i + k)
      let j := i + k + 1
      if j < t.size ∧ t.at j = 36 then cxExpandLoop isNameRune t src m names fuel (j+1) (acc ++ [36])
      else
        match extract isNameRune t j with
        | none => cxExpandLoop isNameRune t src m names fuel j (acc ++ [36])
        | some (a, b, num, rest) =>
          let txt := if num ≥ 0 then groupText src m num.toNat else namedText src m names (slice t a b)
          cxExpandLoop isNameRune t src m names fuel rest (acc ++ txt)

def cxExpand (isNameRune : Nat → Bool) (t src : Bytes) (m : List Int) (names : List (List Nat)) : List Nat :=
  cxExpandLoop isNameRune t src m names (t.size + 1) 0 []

/-- coregex `QuoteMeta`: count the special bytes; none → the input itself; else escape each -/
def cxQuoteMeta (s : List Nat) : List Nat :=
  let n := (s.filter special).length
  if n = 0 then s else s.flatMap fun c => if special c then [92, c] else [c]

end Cx.Model
