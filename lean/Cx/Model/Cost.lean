import Cx.Model.Nfa
import Cx.Model.Pike
/-
  Cx.Model.Cost — step-counting copies of the engine models (C05: "every single search runs in time linear in
  the haystack").  Every function below returns what the original returns PLUS counters; erasing the counters
  gives the original function (`Cx.Proofs.Cost`: `btFindC_erase`, `btMatchC_erase`, `btIsMatchC_erase`,
  `btSearchAtC_erase`, `Pike.searchAtC_erase`, …).

  Units of cost.
   * Bounded backtracker (`nfa/backtrack.go`):
       `steps` = number of `shouldVisit` evaluations = number of calls of `backtrack*WithState` that pass the
                 bounds check `int(nfaState) < numStates` (a call with an out-of-range state id returns at once and
                 is not counted; it is made by an expansion, so counting it would add at most 2 per expansion);
       `exps`  = number of calls for which `shouldVisit` answers true ("expansions": the `switch` is executed and
                 at most two recursive calls are made).
     The per-state work of an expansion is O(1) except for the transition scan of a sparse state, which is not
     counted (it is bounded by the size of that state, not by the haystack).
   * Pike VM (`nfa/pikevm.go`, SlotTable family): the sum of
       - closure stack pops (iterations of the `for len(captureStack) > 0` loop of `addSearchThread[ToNext]`),
       - thread-list insertions (appends to `SearchQueue` / `SearchNextQueue`, including the re-queue of a rune
         thread on a continuation byte),
       - queue threads examined by the combined match-check/step loop (one per `IsMatch(t.state)` test, which is
         followed by one `stepSearchThread` evaluation unless the thread is a match), by the end-of-input loop and
         by `hasLeftmostCandidate`,
       - stack pops and `Visited` probes of `matchesEmptyAt`.
     Again the transition scan of a sparse state is not counted, only the closures it starts.

  Core-only and executable.
-/
namespace Cx.Nfa
open Cx

/-- a result, the visited set afterwards, and the two counters -/
structure BtC (α : Type) where
  val : α
  vis : Array Bool
  steps : Nat
  exps : Nat

/-- the expansion that made the single recursive call `r` -/
@[inline] def BtC.tick {α : Type} (r : BtC α) : BtC α := { r with steps := r.steps + 1, exps := r.exps + 1 }

/-- `btFind` with counters -/
def btFindC (c : BTCtx) : Nat → Nat → Nat → Array Bool → BtC (Option Nat)
  | 0, _, _, vis => ⟨none, vis, 0, 0⟩
  | fuel+1, pos, q, vis =>
    if q ≥ c.N.states.size then ⟨none, vis, 0, 0⟩ else
    if vis.getD (c.idx q pos) true then ⟨none, vis, 1, 0⟩ else
    let vis := vis.setIfInBounds (c.idx q pos) true
    match c.N.get q with
    | .mtch => ⟨some pos, vis, 1, 1⟩
    | .byteRange lo hi nx =>
      if pos < c.h.size ∧ lo ≤ c.h.at pos ∧ c.h.at pos ≤ hi then (btFindC c fuel (pos+1) nx vis).tick
      else ⟨none, vis, 1, 1⟩
    | .sparse ts =>
      if pos ≥ c.h.size then ⟨none, vis, 1, 1⟩ else
      match firstTrans (c.h.at pos) ts with
      | some nx => (btFindC c fuel (pos+1) nx vis).tick
      | none => ⟨none, vis, 1, 1⟩
    | .split l r =>
      let r1 := btFindC c fuel pos l vis
      match r1.val with
      | some e => ⟨some e, r1.vis, r1.steps + 1, r1.exps + 1⟩
      | none =>
        let r2 := btFindC c fuel pos r r1.vis
        ⟨r2.val, r2.vis, r1.steps + r2.steps + 1, r1.exps + r2.exps + 1⟩
    | .eps nx => (btFindC c fuel pos nx vis).tick
    | .cap _ _ nx => (btFindC c fuel pos nx vis).tick
    | .look k nx => if lookOK k c.h pos then (btFindC c fuel pos nx vis).tick else ⟨none, vis, 1, 1⟩
    | .runeAny nx =>
      if pos < c.h.size ∧ runeWidth c.h pos > 0 then (btFindC c fuel (pos + runeWidth c.h pos) nx vis).tick
      else ⟨none, vis, 1, 1⟩
    | .runeAnyNotNL nx =>
      if pos < c.h.size ∧ c.h.at pos ≠ 10 ∧ runeWidth c.h pos > 0 then
        (btFindC c fuel (pos + runeWidth c.h pos) nx vis).tick
      else ⟨none, vis, 1, 1⟩
    | .fail => ⟨none, vis, 1, 1⟩

/-- `btMatch` with counters -/
def btMatchC (c : BTCtx) : Nat → Nat → Nat → Array Bool → BtC Bool
  | 0, _, _, vis => ⟨false, vis, 0, 0⟩
  | fuel+1, pos, q, vis =>
    if q ≥ c.N.states.size then ⟨false, vis, 0, 0⟩ else
    if vis.getD (c.idx q pos) true then ⟨false, vis, 1, 0⟩ else
    let vis := vis.setIfInBounds (c.idx q pos) true
    match c.N.get q with
    | .mtch => ⟨true, vis, 1, 1⟩
    | .byteRange lo hi nx =>
      if pos < c.h.size ∧ lo ≤ c.h.at pos ∧ c.h.at pos ≤ hi then (btMatchC c fuel (pos+1) nx vis).tick
      else ⟨false, vis, 1, 1⟩
    | .sparse ts =>
      if pos ≥ c.h.size then ⟨false, vis, 1, 1⟩ else
      match firstTrans (c.h.at pos) ts with
      | some nx => (btMatchC c fuel (pos+1) nx vis).tick
      | none => ⟨false, vis, 1, 1⟩
    | .split l r =>
      let r1 := btMatchC c fuel pos l vis
      if r1.val then ⟨true, r1.vis, r1.steps + 1, r1.exps + 1⟩
      else
        let r2 := btMatchC c fuel pos r r1.vis
        ⟨r2.val, r2.vis, r1.steps + r2.steps + 1, r1.exps + r2.exps + 1⟩
    | .eps nx => (btMatchC c fuel pos nx vis).tick
    | .cap _ _ nx => (btMatchC c fuel pos nx vis).tick
    | .look k nx => if lookOK k c.h pos then (btMatchC c fuel pos nx vis).tick else ⟨false, vis, 1, 1⟩
    | .runeAny nx =>
      if pos < c.h.size ∧ runeWidth c.h pos > 0 then (btMatchC c fuel (pos + runeWidth c.h pos) nx vis).tick
      else ⟨false, vis, 1, 1⟩
    | .runeAnyNotNL nx =>
      if pos < c.h.size ∧ c.h.at pos ≠ 10 ∧ runeWidth c.h pos > 0 then
        (btMatchC c fuel (pos + runeWidth c.h pos) nx vis).tick
      else ⟨false, vis, 1, 1⟩
    | .fail => ⟨false, vis, 1, 1⟩

/-- `btIsMatchFrom` with the total number of steps over all start positions (ONE visited set) -/
def btIsMatchFromC (c : BTCtx) : Nat → Nat → Array Bool → Bool × Nat
  | 0, _, _ => (false, 0)
  | fuel+1, start, vis =>
    if start > c.h.size then (false, 0) else
    let r := btMatchC c (btFuel c.N c.h) start c.N.startAnchored vis
    if r.val then (true, r.steps) else
    let rest := btIsMatchFromC c fuel (start+1) r.vis
    (rest.1, r.steps + rest.2)

/-- `IsMatchWithState` with its total step count -/
def btIsMatchC (N : NFA) (h : Bytes) : Bool × Nat :=
  btIsMatchFromC { N := N, h := h, spanStart := 0 } (h.size + 1) 0 (freshVis N h)

/-- `btSearchFrom` with the total number of steps over all start positions (a FRESH visited set per start) -/
def btSearchFromC (N : NFA) (h : Bytes) (at_ : Nat) : Nat → Nat → Option (Nat × Nat) × Nat
  | 0, _ => (none, 0)
  | fuel+1, start =>
    if start > h.size then (none, 0) else
    let c : BTCtx := { N := N, h := h, spanStart := at_ }
    let r := btFindC c (btFuel N h) start N.startAnchored (freshVis N h)
    match r.val with
    | some e => (some (start, e), r.steps)
    | none =>
      let rest := btSearchFromC N h at_ fuel (start+1)
      (rest.1, r.steps + rest.2)

/-- `SearchAtWithState` (leftmost-first) with its total step count -/
def btSearchAtC (N : NFA) (h : Bytes) (at_ : Nat) : Option (Nat × Nat) × Nat :=
  btSearchFromC N h at_ (h.size + 2 - at_) at_

/-! ### the variant the code could use: ONE visited set for all start positions of a span search

  `btFind` leaves marked only configurations from which no match state can be reached (a call that finds a match
  returns at once, and the search loop stops), so the marks of a failed start position remain valid for the next
  one.  `Cx.Proofs.Cost.btSearchAtShared_eq` proves the result is the same; `C05_bt_searchAt_shared_linear` proves
  the linear bound. -/

def btSearchSharedFrom (N : NFA) (h : Bytes) (at_ : Nat) : Nat → Nat → Array Bool → Option (Nat × Nat)
  | 0, _, _ => none
  | fuel+1, start, vis =>
    if start > h.size then none else
    let c : BTCtx := { N := N, h := h, spanStart := at_ }
    let r := btFind c (btFuel N h) start N.startAnchored vis
    match r.1 with
    | some e => some (start, e)
    | none => btSearchSharedFrom N h at_ fuel (start+1) r.2

def btSearchAtShared (N : NFA) (h : Bytes) (at_ : Nat) : Option (Nat × Nat) :=
  btSearchSharedFrom N h at_ (h.size + 2 - at_) at_ (freshVis N h)

def btSearchSharedFromC (N : NFA) (h : Bytes) (at_ : Nat) : Nat → Nat → Array Bool → Option (Nat × Nat) × Nat
  | 0, _, _ => (none, 0)
  | fuel+1, start, vis =>
    if start > h.size then (none, 0) else
    let c : BTCtx := { N := N, h := h, spanStart := at_ }
    let r := btFindC c (btFuel N h) start N.startAnchored vis
    match r.val with
    | some e => (some (start, e), r.steps)
    | none =>
      let rest := btSearchSharedFromC N h at_ fuel (start+1) r.vis
      (rest.1, r.steps + rest.2)

def btSearchAtSharedC (N : NFA) (h : Bytes) (at_ : Nat) : Option (Nat × Nat) × Nat :=
  btSearchSharedFromC N h at_ (h.size + 2 - at_) at_ (freshVis N h)

/-! ### the witness family for the quadratic behaviour of the span search as it is: `a*b` on `a^n` -/

/-- `a*b`: 0 = split(1,2), 1 = 'a' → 0, 2 = 'b' → 3, 3 = match -/
def abN : NFA :=
  { states := #[.split 1 2, .byteRange 97 97 0, .byteRange 98 98 3, .mtch], startAnchored := 0, startUnanchored := 0 }

def aHay (n : Nat) : Bytes := Array.replicate n 97

/-- steps of the span search as it is, on `a^n` -/
def abSteps (n : Nat) : Nat := (btSearchAtC abN (aHay n) 0).2

/-- steps of the span search with a shared visited set, on `a^n` -/
def abStepsShared (n : Nat) : Nat := (btSearchAtSharedC abN (aHay n) 0).2

end Cx.Nfa

/-! ### Pike VM with a step counter (unit: see the header) -/
namespace Cx.Pike
open Cx Cx.Nfa

/-- `closure` + (stack pops + queue insertions) -/
def closureC (N : NFA) (h : Bytes) (pos : Nat) :
    Nat → List Thread → Vis → List Thread → (Vis × List Thread) × Nat
  | 0, _, vis, out => ((vis, out), 0)
  | _+1, [], vis, out => ((vis, out), 0)
  | fuel+1, fr :: st, vis, out =>
    if vis.getD fr.state true then
      let r := closureC N h pos fuel st vis out
      (r.1, r.2 + 1)
    else
      let e := expand N h pos fr
      let r := closureC N h pos fuel (e.1 ++ st) (vis.setIfInBounds fr.state true) (if e.2 then out ++ [fr] else out)
      (r.1, r.2 + 1 + (if e.2 then 1 else 0))

def addThreadC (N : NFA) (h : Bytes) (pos : Nat) (t : Thread) (vq : Vis × List Thread) : (Vis × List Thread) × Nat :=
  closureC N h pos (closureFuel N) [t] vq.1 vq.2

def stepSparseC (N : NFA) (h : Bytes) (pos : Nat) (b : Nat) (start : Nat) :
    List (Nat × Nat × Nat) → Vis × List Thread → (Vis × List Thread) × Nat
  | [], vq => (vq, 0)
  | (lo, hi, nx) :: ts, vq =>
    if lo ≤ b ∧ b ≤ hi then
      let r1 := addThreadC N h (pos+1) ⟨nx, start⟩ vq
      let r2 := stepSparseC N h pos b start ts r1.1
      (r2.1, r1.2 + r2.2)
    else stepSparseC N h pos b start ts vq

/-- `stepThread` + cost of the closures it starts (+1 for a re-queued rune thread); the evaluation itself is
    counted by the queue loop -/
def stepThreadC (N : NFA) (h : Bytes) (pos : Nat) (t : Thread) (vq : Vis × List Thread) :
    (Vis × List Thread) × Nat :=
  let b := h.at pos
  match N.get t.state with
  | .byteRange lo hi nx => if lo ≤ b ∧ b ≤ hi then addThreadC N h (pos+1) ⟨nx, t.start⟩ vq else (vq, 0)
  | .sparse ts => stepSparseC N h pos b t.start ts vq
  | .runeAny nx =>
    if 0x80 ≤ b ∧ b ≤ 0xBF then ((vq.1, vq.2 ++ [t]), 1) else
    if pos < h.size then
      let rw := Utf8.decodeAt h pos
      if rw.1 ≠ Utf8.runeError ∨ rw.2 = 1 then addThreadC N h (pos + rw.2) ⟨nx, t.start⟩ vq else (vq, 0)
    else (vq, 0)
  | .runeAnyNotNL nx =>
    if 0x80 ≤ b ∧ b ≤ 0xBF then ((vq.1, vq.2 ++ [t]), 1) else
    if pos < h.size then
      let rw := Utf8.decodeAt h pos
      if (rw.1 ≠ Utf8.runeError ∨ rw.2 = 1) ∧ rw.1 ≠ 10 then addThreadC N h (pos + rw.2) ⟨nx, t.start⟩ vq
      else (vq, 0)
    else (vq, 0)
  | _ => (vq, 0)

/-- `stepQueue` + (1 per thread examined + the cost of its step) -/
def stepQueueC (N : NFA) (h : Bytes) (longest : Bool) (pos : Nat) :
    List Thread → Option (Nat × Nat) → Vis × List Thread → (Option (Nat × Nat) × (Vis × List Thread)) × Nat
  | [], best, vq => ((best, vq), 0)
  | t :: ts, best, vq =>
    if isMatchState N t.state then
      let best := record best t.start pos
      if !longest then ((best, vq), 1)
      else
        let r := stepQueueC N h longest pos ts best vq
        (r.1, r.2 + 1)
    else
      let s := stepThreadC N h pos t vq
      let r := stepQueueC N h longest pos ts best s.1
      (r.1, r.2 + 1 + s.2)

/-- `endQueue` + threads examined -/
def endQueueC (N : NFA) (pos : Nat) : List Thread → Option (Nat × Nat) → Option (Nat × Nat) × Nat
  | [], best => (best, 0)
  | t :: ts, best =>
    if isMatchState N t.state then (record best t.start pos, 1)
    else
      let r := endQueueC N pos ts best
      (r.1, r.2 + 1)

/-- `hasLeftmost` + threads examined -/
def hasLeftmostC : List Thread → Nat → Bool × Nat
  | [], _ => (false, 0)
  | t :: ts, bs =>
    if t.start ≤ bs then (true, 1)
    else
      let r := hasLeftmostC ts bs
      (r.1, r.2 + 1)

def loopUC (N : NFA) (h : Bytes) (longest : Bool) :
    Nat → Nat → List Thread → Option (Nat × Nat) → Option (Nat × Nat) × Nat
  | 0, _, _, best => (best, 0)
  | fuel+1, pos, queue, best =>
    let inj := if best.isNone then addThreadC N h pos ⟨N.startAnchored, pos⟩ (clearVis N, queue) else ((clearVis N, queue), 0)
    let queue := inj.1.2
    if pos < h.size then
      let r := stepQueueC N h longest pos queue best (clearVis N, [])
      let best := r.1.1
      let next := r.1.2.2
      match best with
      | some (bs, _) =>
        let hl := hasLeftmostC next bs
        if hl.1 then
          let rest := loopUC N h longest fuel (pos+1) next best
          (rest.1, inj.2 + r.2 + hl.2 + rest.2)
        else (best, inj.2 + r.2 + hl.2)
      | none =>
        let rest := loopUC N h longest fuel (pos+1) next best
        (rest.1, inj.2 + r.2 + rest.2)
    else
      let e := endQueueC N pos queue best
      (e.1, inj.2 + e.2)

def searchUnanchoredC (N : NFA) (h : Bytes) (at_ : Nat) (longest : Bool) : Option (Nat × Nat) × Nat :=
  loopUC N h longest (h.size + 1 - at_) at_ [] none

def stepQueueAC (N : NFA) (h : Bytes) (longest : Bool) (pos : Nat) :
    List Thread → Option Nat → Vis × List Thread → (Option Nat × (Vis × List Thread)) × Nat
  | [], last, vq => ((last, vq), 0)
  | t :: ts, last, vq =>
    if isMatchState N t.state then
      let last := match last with
        | none => some pos
        | some l => if pos > l then some pos else some l
      if !longest then ((last, vq), 1)
      else
        let r := stepQueueAC N h longest pos ts last vq
        (r.1, r.2 + 1)
    else
      let s := stepThreadC N h pos t vq
      let r := stepQueueAC N h longest pos ts last s.1
      (r.1, r.2 + 1 + s.2)

def endQueueAC (N : NFA) (pos : Nat) : List Thread → Option Nat → Option Nat × Nat
  | [], last => (last, 0)
  | t :: ts, last =>
    if isMatchState N t.state then
      ((match last with
        | none => some pos
        | some l => if pos > l then some pos else some l), 1)
    else
      let r := endQueueAC N pos ts last
      (r.1, r.2 + 1)

def loopAC (N : NFA) (h : Bytes) (longest : Bool) : Nat → Nat → List Thread → Option Nat → Option Nat × Nat
  | 0, _, _, last => (last, 0)
  | fuel+1, pos, queue, last =>
    if pos < h.size then
      let r := stepQueueAC N h longest pos queue last (clearVis N, [])
      let last := r.1.1
      let next := r.1.2.2
      if next.isEmpty ∧ last.isSome then (last, r.2)
      else
        let rest := loopAC N h longest fuel (pos+1) next last
        (rest.1, r.2 + rest.2)
    else endQueueAC N pos queue last

def searchAnchoredC (N : NFA) (h : Bytes) (at_ : Nat) (longest : Bool) : Option (Nat × Nat) × Nat :=
  let inj := addThreadC N h at_ ⟨N.startAnchored, at_⟩ (clearVis N, [])
  let r := loopAC N h longest (h.size + 1 - at_) at_ inj.1.2 none
  match r.1 with
  | some e => (some (at_, e), inj.2 + r.2)
  | none => (none, inj.2 + r.2)

/-- `emptyLoop` + (1 per pop + 1 per `Visited` probe) -/
def emptyLoopC (N : NFA) (h : Bytes) (pos : Nat) : Nat → List Nat → Vis → Bool × Nat
  | 0, _, _ => (false, 0)
  | _+1, [], _ => (false, 0)
  | fuel+1, q :: st, vis =>
    if isMatchState N q then (true, 1) else
    let sv := ((expand N h pos ⟨q, 0⟩).1.map (·.state)).foldl pushNew (st, vis)
    let r := emptyLoopC N h pos fuel sv.1 sv.2
    (r.1, r.2 + 1 + (expand N h pos ⟨q, 0⟩).1.length)

def matchesEmptyAtC (N : NFA) (h : Bytes) (pos : Nat) : Bool × Nat :=
  emptyLoopC N h pos (N.states.size + 2) [N.startAnchored] ((clearVis N).setIfInBounds N.startAnchored true)

/-- `SearchWithSlotTableAt(haystack, at, SearchModeFind)` with its total cost -/
def searchAtC (N : NFA) (h : Bytes) (at_ : Nat) (longest : Bool) : Option (Nat × Nat) × Nat :=
  if at_ > h.size then (none, 0)
  else if at_ = h.size then
    let r := matchesEmptyAtC N h at_
    (if r.1 then some (at_, at_) else none, r.2)
  else if anchored N then searchAnchoredC N h at_ longest
  else searchUnanchoredC N h at_ longest

end Cx.Pike
