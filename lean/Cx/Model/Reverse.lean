import Cx.Model.Nfa
import Cx.Model.Dfa
/-
  Cx.Model.Reverse — the reverse-automaton construction of `nfa/reverse.go`, transliterated.

      Go (nfa/reverse.go)                          here
      -------------------------------------------  ------------------------------------------------------------
      ReverseAnchored / Reverse                    `reverseAnchored` / `reverseUnanchored` (= `reverse N true/false`)
      reverseWithOptions                           `reverse` (= `build` of `alloc`'s result)
      reverseEdge, edgeKind                        `Edge` (`eps = true` is edgeEpsilon; edgeByteRange and edgeSparse are
                                                   never told apart by the code — countEdgeTypes, fillReverseState and
                                                   `edge.kind != edgeEpsilon` treat them alike — so one flag is kept)
      collectEdgesFromState                        `outEdges` (targets equal to InvalidState are dropped)
      collectReverseEdges                          `allEdges` + `edgesTo` (`reverseEdges[t]` = the edges into `t`, in the
                                                   order the states are iterated and, inside a state, in transition order),
                                                   tabulated once by `edgeTable`
      mapStartStates / mapSingleStartState         `mapStart`
      findUnanchoredPrefixStates / findLoopStates  `prefixStates` / `loopStates`
      allocatePlaceholders / allocatePlaceholder   `allocOne` folded over the state ids / `placeholderS`
      countEdgeTypes                               the two `filter`s in `placeholderS` / `fillReverseState`
      fillAllTransitions                           `fillOne` folded over the state ids
      fillReverseState                             `fillReverseState`
      fillStartStateWithIncoming                   `fillStart`
      fillEpsilonState / fillSparseState /         `fillEpsilonState` / `fillSparseState` / `fillMixedState`
        fillMixedState
      updateByteRangeState / updateSparseState     `updByteRangeS` / `updSparseS` applied through `upd`
      Builder.Patch / Builder.PatchSplit           `patchS` / `patchSplitS` applied through `upd` (the error results are
                                                   discarded by the callers: a state of the wrong kind stays as it is)
      Builder.AddMatch/AddEpsilon/AddSplit/...     `Array.push`; the id is the size before the push
      buildSplitChain                              `buildSplitChain` (the two-target case of the code is the general case
                                                   with a one-target tail, which allocates nothing; it is not repeated.
                                                   For the same reason the `len(targets) == 2` case of fillEpsilonState, the
                                                   `case 1` of fillMixedState and the `len(loopTargets) == 1` case of
                                                   fillStartStateWithIncoming are the general case: a chain over one target
                                                   is that target)
      collectMatchStates                           `matchStates`
      buildReverseStarts                           `buildStarts`
      buildFinalNFA                                the last line of `build`

  Representation.  The builder is the array of states built so far (`Bld`); a builder state is an `NState` — the
  Go `State` keeps the fields of its former kind when its kind is changed in place, but every conversion in
  reverse.go (epsilon → byte range / sparse / split, byte range → sparse) writes all fields of the new kind, so the
  stale ones are never read.  `revStateMap` is an array of optional ids indexed by forward state (`RMap`); lookups
  without the `ok` test yield the zero value 0, as in Go (`look0`).  `reverseEdges` and `skipStates` are only ever
  indexed, never ranged over, so no map iteration order enters the result; all loops run over `forward.Iter()`,
  i.e. in state-id order.  `InvalidState` is `invalid` = 0xFFFFFFFF.

  Left out: the byte-class set of the builder (`byteClassSet.SetRange`), the flags of the result (`anchored`, `utf8`,
  pattern and capture counts) — none of them is part of the dumped NFA — and the fallback of `buildFinalNFA` when
  `Builder.Validate` fails (every id written by the construction is an id that exists in the builder, 0 or
  `InvalidState`, which `Validate` accepts; `validB` is the check, the driver reports it).
  Forward ids ≥ the number of states (or start ids out of range) are not entered in `RMap`; the Go maps would keep
  them.  Such automata do not pass `Builder.Validate`.

  `revHypB` (end of the file) is the decidable hypothesis of the reversal theorem (`Cx.Proofs.Reverse`).
  `acceptsWholeA` is a plain set simulation used by the driver to compare languages; it is not part of the construction.

  Core-only and executable.
-/
namespace Cx.Rev
open Cx Cx.Nfa

/-- `InvalidState` -/
def invalid : Nat := 4294967295

structure Edge where
  from_ : Nat
  eps : Bool
  lo : Nat
  hi : Nat
  deriving Repr, DecidableEq, Inhabited

abbrev Bld := Array NState
abbrev RMap := Array (Option Nat)

/-- `revStateMap[q]` with the `ok` result -/
def RMap.look (rm : RMap) (q : Nat) : Option Nat := rm.getD q none

/-- `revStateMap[q]` without it: 0 when absent -/
def RMap.look0 (rm : RMap) (q : Nat) : Nat := (rm.look q).getD 0

/-- `collectEdgesFromState`: (target, edge) pairs -/
def outEdges (q : Nat) : NState → List (Nat × Edge)
  | .byteRange lo hi nx => if nx = invalid then [] else [(nx, ⟨q, false, lo, hi⟩)]
  | .sparse ts => ts.filterMap fun t => if t.2.2 = invalid then none else some (t.2.2, ⟨q, false, t.1, t.2.1⟩)
  | .split l r =>
    (if l = invalid then [] else [(l, ⟨q, true, 0, 0⟩)]) ++ (if r = invalid then [] else [(r, ⟨q, true, 0, 0⟩)])
  | .eps nx => if nx = invalid then [] else [(nx, ⟨q, true, 0, 0⟩)]
  | .cap _ _ nx => if nx = invalid then [] else [(nx, ⟨q, true, 0, 0⟩)]
  | .look _ nx => if nx = invalid then [] else [(nx, ⟨q, true, 0, 0⟩)]
  | _ => []

/-- `collectReverseEdges`, as one list in the order the edges are appended -/
def allEdges (N : NFA) : List (Nat × Edge) :=
  (List.range N.states.size).flatMap fun q => outEdges q (N.get q)

/-- `reverseEdges[t]` -/
def edgesTo (es : List (Nat × Edge)) (t : Nat) : List Edge :=
  es.filterMap fun p => if p.1 = t then some p.2 else none

def edgeTable (N : NFA) : Array (List Edge) :=
  ((List.range N.states.size).map (edgesTo (allEdges N))).toArray

/-- `reverseEdges[t]` read from the table -/
def ein (tbl : Array (List Edge)) (t : Nat) : List Edge := tbl.getD t []

/-! ### builder primitives -/

/-- modify state `id` in place (no-op when `id` is out of range) -/
def upd (b : Bld) (id : Nat) (f : NState → NState) : Bld := b.setIfInBounds id (f (b.getD id .fail))

/-- `Builder.Patch` -/
def patchS (t : Nat) : NState → NState
  | .byteRange lo hi _ => .byteRange lo hi t
  | .eps _ => .eps t
  | .cap i s _ => .cap i s t
  | .look k _ => .look k t
  | .runeAny _ => .runeAny t
  | .runeAnyNotNL _ => .runeAnyNotNL t
  | s => s

/-- `Builder.PatchSplit` -/
def patchSplitS (l r : Nat) : NState → NState
  | .split _ _ => .split l r
  | s => s

/-- `updateByteRangeState` -/
def updByteRangeS (lo hi nx : Nat) : NState → NState
  | .byteRange _ _ _ => .byteRange lo hi nx
  | .eps _ => .byteRange lo hi nx
  | s => s

/-- `updateSparseState` -/
def updSparseS (ts : List (Nat × Nat × Nat)) : NState → NState
  | .sparse _ => .sparse ts
  | .byteRange _ _ _ => .sparse ts
  | .eps _ => .sparse ts
  | s => s

/-- `allocatePlaceholder`: the state that is appended -/
def placeholderS (es : List Edge) : NState :=
  if es.isEmpty then .fail else
  let bc := (es.filter fun e => !e.eps).length
  let ec := (es.filter fun e => e.eps).length
  if bc = 0 ∧ ec > 0 then (if ec = 1 then .eps invalid else .split invalid invalid)
  else if bc = 1 ∧ ec = 0 then .byteRange 0 0 invalid
  else if bc > 0 ∧ ec > 0 then .split invalid invalid
  else .sparse [(0, 0, invalid)]

/-- `buildSplitChain` -/
def buildSplitChain (b : Bld) : List Nat → Nat × Bld
  | [] => (b.size, b.push .fail)
  | [t] => (t, b)
  | t0 :: t1 :: ts =>
    let r := buildSplitChain b (t1 :: ts)
    (r.2.size, r.2.push (.split t0 r.1))

/-! ### filling -/

def sparseOf (rm : RMap) (bes : List Edge) : List (Nat × Nat × Nat) :=
  bes.map fun e => (e.lo, e.hi, rm.look0 e.from_)

/-- `fillSparseState` -/
def fillSparseState (b : Bld) (id : Nat) (bes : List Edge) (rm : RMap) : Bld :=
  upd b id (updSparseS (sparseOf rm bes))

/-- `fillEpsilonState` -/
def fillEpsilonState (b : Bld) (id : Nat) (ees : List Edge) (rm : RMap) : Bld :=
  match ees with
  | [e] => upd b id (patchS (rm.look0 e.from_))
  | _ =>
    match ees.filterMap (fun e => rm.look e.from_) with
    | [] => b
    | [t] => upd b id (patchS t)
    | t0 :: ts =>
      let r := buildSplitChain b ts
      upd r.2 id (patchSplitS t0 r.1)

/-- `fillMixedState` -/
def fillMixedState (b : Bld) (id : Nat) (bes ees : List Edge) (rm : RMap) : Bld :=
  let sparseID := b.size
  let b1 := b.push (.sparse [(0, 0, invalid)])
  let b2 := fillSparseState b1 sparseID bes rm
  match ees.filterMap (fun e => rm.look e.from_) with
  | [] => fillSparseState (upd b2 id (updSparseS [])) id bes rm
  | ts =>
    let r := buildSplitChain b2 ts
    upd r.2 id (patchSplitS sparseID r.1)

/-- `fillReverseState` -/
def fillReverseState (b : Bld) (id : Nat) (es : List Edge) (rm : RMap) : Bld :=
  if es.isEmpty then b else
  let bes := es.filter fun e => !e.eps
  let ees := es.filter fun e => e.eps
  match bes with
  | [] => fillEpsilonState b id ees rm
  | e :: rest =>
    if rest.isEmpty ∧ ees.isEmpty then upd b id (updByteRangeS e.lo e.hi (rm.look0 e.from_))
    else if !ees.isEmpty then fillMixedState b id bes ees rm
    else fillSparseState b id bes rm

/-- `fillStartStateWithIncoming` (the match state is state 0) -/
def fillStart (b : Bld) (proxy : Nat) (es : List Edge) (rm : RMap) (consume : Bool) : Bld :=
  let loopEdges := es.filter fun e => (rm.look e.from_).isSome
  let loopTargets := loopEdges.filterMap fun e => rm.look e.from_
  if loopTargets.isEmpty then b else
  let hasByte := loopEdges.any fun e => !e.eps
  let r : List Nat × Bld :=
    if consume && hasByte then
      let entry := b.size
      ([entry], fillReverseState (b.push (placeholderS loopEdges)) entry loopEdges rm)
    else (loopTargets, b)
  let c := buildSplitChain r.2 r.1
  upd c.2 proxy (fun _ => .split c.1 0)

/-! ### the unanchored prefix -/

/-- `findLoopStates` -/
def loopStates (N : NFA) (start target : Nat) (res : List Nat) : List Nat :=
  if start = invalid ∨ res.contains start then res else
  match N.get start with
  | .byteRange _ _ nx => if nx = target then start :: res else res
  | .split l r => if l = target ∨ r = target then start :: res else res
  | .eps nx => if nx = target then start :: res else res
  | _ => res

/-- `findUnanchoredPrefixStates` -/
def prefixStates (N : NFA) (su : Nat) : List Nat :=
  match N.get su with
  | .split _ r => loopStates N r su [su]
  | _ => [su]

/-- `unanchoredPrefixStates` of `reverseWithOptions` -/
def skipOf (N : NFA) (anchored : Bool) : List Nat :=
  if anchored ∧ N.startUnanchored ≠ N.startAnchored then prefixStates N N.startUnanchored else []

/-! ### pass 1: ids -/

/-- `mapSingleStartState` + the map update -/
def mapOne (ei : Nat → List Edge) (st : Bld × RMap) (q : Nat) : Bld × RMap :=
  if (ei q).isEmpty then (st.1, st.2.setIfInBounds q (some 0))
  else (st.1.push (.eps 0), st.2.setIfInBounds q (some st.1.size))

/-- `mapStartStates` -/
def mapStart (ei : Nat → List Edge) (st : Bld × RMap) (sa su : Nat) (anchored : Bool) : Bld × RMap :=
  let st1 := mapOne ei st sa
  if !anchored ∧ su ≠ sa then mapOne ei st1 su else st1

/-- one round of the loop of `allocatePlaceholders` -/
def allocOne (ei : Nat → List Edge) (skip : List Nat) (st : Bld × RMap) (q : Nat) : Bld × RMap :=
  if skip.contains q then st else
  match st.2.look q with
  | some _ => st
  | none => (st.1.push (placeholderS (ei q)), st.2.setIfInBounds q (some st.1.size))

/-- builder and `revStateMap` after pass 1 -/
def alloc (N : NFA) (anchored : Bool) : Bld × RMap :=
  let ei := ein (edgeTable N)
  let st0 : Bld × RMap := (#[.mtch], Array.replicate N.states.size none)
  let st1 := mapStart ei st0 N.startAnchored N.startUnanchored anchored
  (List.range N.states.size).foldl (allocOne ei (skipOf N anchored)) st1

/-! ### pass 2: transitions -/

/-- one round of the loop of `fillAllTransitions` -/
def fillOne (ei : Nat → List Edge) (skip : List Nat) (sa su : Nat) (anchored : Bool) (rm : RMap) (b : Bld) (q : Nat) : Bld :=
  if skip.contains q then b else
  let isStart := decide (q = sa) || (!anchored && decide (q = su))
  let es := ei q
  if isStart && es.isEmpty then b else
  match rm.look q with
  | none => b
  | some rid =>
    if isStart then fillStart b rid es rm (!(decide (q = su) && decide (su ≠ sa)))
    else fillReverseState b rid es rm

/-- `collectMatchStates` -/
def matchStates (N : NFA) : List Nat :=
  (List.range N.states.size).filter fun q => match N.get q with
    | .mtch => true
    | _ => false

/-- `buildReverseStarts`: the start state (anchored = unanchored) -/
def buildStarts (b : Bld) (ms : List Nat) (rm : RMap) : Nat × Bld :=
  match ms with
  | [] => (b.size, b.push .fail)
  | [m] => (rm.look0 m, b)
  | _ => buildSplitChain b (ms.filterMap fun m => rm.look m)

/-- passes 2 and 3 of `reverseWithOptions` on the result of pass 1 -/
def build (N : NFA) (anchored : Bool) (st : Bld × RMap) : NFA :=
  let ei := ein (edgeTable N)
  let b := (List.range N.states.size).foldl
    (fillOne ei (skipOf N anchored) N.startAnchored N.startUnanchored anchored st.2) st.1
  let r := buildStarts b (matchStates N) st.2
  { states := r.2, startAnchored := r.1, startUnanchored := r.1 }

/-- `reverseWithOptions(forward, anchored)` -/
def reverse (N : NFA) (anchored : Bool) : NFA := build N anchored (alloc N anchored)

/-- `nfa.ReverseAnchored` -/
def reverseAnchored (N : NFA) : NFA := reverse N true

/-- `nfa.Reverse` -/
def reverseUnanchored (N : NFA) : NFA := reverse N false

/-! ### `Builder.Validate` on the result -/

def targetsOf : NState → List Nat
  | .byteRange _ _ nx => [nx]
  | .sparse ts => ts.map (·.2.2)
  | .split l r => [l, r]
  | .eps nx => [nx]
  | .cap _ _ nx => [nx]
  | .look _ nx => [nx]
  | .runeAny nx => [nx]
  | .runeAnyNotNL nx => [nx]
  | _ => []

/-- `Builder.Validate`: start ids are states, every target is a state or `InvalidState` -/
def validB (N : NFA) : Bool :=
  decide (N.startAnchored < N.states.size) && decide (N.startUnanchored < N.states.size) &&
    N.states.toList.all fun s => (targetsOf s).all fun t => decide (t = invalid) || decide (t < N.states.size)

/-! ### what the reversal theorem asks of the forward automaton (`Cx.Proofs.Reverse`: `RevHyp`) -/

/-- ids in range, no look-around states, no rune states, fewer than 2^32-1 states, and the unanchored start is the anchored
    start or the `(?s:.)*?` loop of the compiler -/
def revHypB (N : NFA) : Bool :=
  Dfa.wfB N && Dfa.lookFreeB N && Dfa.noRuneB N && decide (N.states.size ≤ invalid) &&
    (decide (N.startUnanchored = N.startAnchored) || Dfa.prefixOKB N)

/-! ### whole-string acceptance with EVERY matching transition of a sparse state followed (what the Pike VM and the
    lazy DFA do); used by the driver to compare languages.  Rune states are not followed. -/

def closeA (N : NFA) (h : Bytes) (pos : Nat) : Nat → List Nat → Array Bool → Array Bool
  | 0, _, vis => vis
  | _, [], vis => vis
  | f+1, q :: st, vis =>
    if vis.getD q true then closeA N h pos f st vis else
    let vis := vis.setIfInBounds q true
    match N.get q with
    | .eps nx => closeA N h pos f (nx :: st) vis
    | .cap _ _ nx => closeA N h pos f (nx :: st) vis
    | .split l r => closeA N h pos f (l :: r :: st) vis
    | .look k nx => if lookOK k h pos then closeA N h pos f (nx :: st) vis else closeA N h pos f st vis
    | _ => closeA N h pos f st vis

def byteTargets (N : NFA) (c : Nat) (cur : Array Bool) : List Nat :=
  (List.range N.states.size).flatMap fun q =>
    if cur.getD q false then
      match N.get q with
      | .byteRange lo hi nx => if lo ≤ c ∧ c ≤ hi then [nx] else []
      | .sparse ts => ts.filterMap fun t => if t.1 ≤ c ∧ c ≤ t.2.1 then some t.2.2 else none
      | _ => []
    else []

def closeFrom (N : NFA) (h : Bytes) (pos : Nat) (seeds : List Nat) : Array Bool :=
  closeA N h pos (3 * N.states.size + seeds.length + 2) seeds (Array.replicate N.states.size false)

def runA (N : NFA) (h : Bytes) : Nat → Nat → Array Bool → Array Bool
  | 0, _, cur => cur
  | f+1, pos, cur =>
    if pos ≥ h.size then cur else
    runA N h f (pos + 1) (closeFrom N h (pos + 1) (byteTargets N (h.at pos) cur))

/-- is the whole of `h` accepted from the anchored start state? -/
def acceptsWholeA (N : NFA) (h : Bytes) : Bool :=
  let fin := runA N h h.size 0 (closeFrom N h 0 [N.startAnchored])
  (List.range N.states.size).any fun q => fin.getD q false && (match N.get q with | .mtch => true | _ => false)

end Cx.Rev
