/-
  Cx.Model.SeqOps — executable model of the set reductions on literal sequences, `literal/seq.go`
  (github.com/coregx/coregex).  Core-only.

  A literal is `Lit` (bytes + the `Complete` flag), a sequence is `List Lit` (Go: `Seq.literals`).  None of the six
  operations reads or writes `Seq.partialCoverage` (they mutate `s.literals` in place, the flag stays what it was; only
  `Clone`, l.227-244, copies it) — `Seq` below carries the flag and the `Seq.*` wrappers make "unchanged" explicit.

  Go ↔ Lean (line numbers of /repo/literal/seq.go)

    Go                                   lines      Lean
    -----------------------------------  ---------  ---------------------------------------------------------------
    type Literal {Bytes, Complete}       27-35      `Lit`
    type Seq {literals, partialCoverage} 93-96      `Seq` (the operations work on `List Lit`)
    (*Seq).IsEmpty                       171-173    `List.isEmpty`
    (*Seq).Clone                         227-244    `Seq.clone`
    (*Seq).Minimize                      278-310    `minimize` = `minLoop [] (sortByLen s)`
        sort.Slice(.., len<len)          284-286    `sortByLen` / `insertByLen`  (STABLE insertion sort; Go's sort.Slice
                                                    is not stable — see the note below)
        for i … { for j … isPrefix … }   291-307    `minLoop` (outer loop, accumulator `kept`), `isRedundant` (inner
                                                    loop with `break` = `List.any`, same left-to-right order)
    (*Seq).LongestCommonPrefix           343-364    `lcp` / `lcpLoop` (fold from the first literal, early exit on empty)
    (*Seq).LongestCommonSuffix           394-415    `lcs` / `lcsLoop`
    (*Seq).CrossForward                  433-456    `crossForward` / `crossOne` (inexact left literal kept as it is;
                                                    flag of a product = `right.Complete`)
    (*Seq).KeepFirstBytes                470-480    `keepFirstBytes` / `keepLit` (`n : Int`; `n ≤ 0` = unchanged)
    (*Seq).Dedup                         491-505    `dedup` / `dedupLoop` (`seen` = the key set of the Go map, `kept`)
    isPrefix                             510-515    `isPrefix`
    commonPrefix                         518-531    `commonPrefix` / `commonPrefixGo` (index loop, fuel = minLen - i)
    commonSuffix                         534-552    `commonSuffix` / `commonSuffixGo`

  Note on `Minimize`.  `sort.Slice` is not stable, so the relative order of equal-length literals after l.284-286 is not
  specified by Go (in practice pdqsort falls back to a — stable — insertion sort below 12 elements).  The model sorts
  with a stable insertion sort.  What does NOT depend on the choice is proved in `Cx.Proofs.SeqOps` for EVERY
  length-sorted permutation of the input (`minLoop_*`, `minimize_bytes_any_sort`): the set of byte strings kept is the
  set of prefix-minimal byte strings of the input.  What DOES depend on it: when the same byte string occurs twice with
  different `Complete` flags, the flag that survives is the one the sort happened to put first
  (`minimize_flag_depends_on_tie_order`).  The driver canonicalises the order of the `minimize` answer.

  Aliasing: the Go functions return sub-slices (`commonPrefix` returns `a[:i]`, `KeepFirstBytes` reslices in place);
  `LongestCommonPrefix/Suffix` copy the result (l.361-363, 412-414).  The model has value semantics.
-/
namespace Cx.SeqOps

/-- `literal.Literal` (seq.go l.27-35) -/
structure Lit where
  bytes : List Nat
  complete : Bool
deriving DecidableEq, Repr

/-- `literal.Seq` (seq.go l.93-96) -/
structure Seq where
  literals : List Lit
  partialCoverage : Bool
deriving DecidableEq, Repr

/-! ## helpers (seq.go l.507-552) -/

/-- `isPrefix(prefix, s)` l.510-515: `len(prefix) > len(s)` → false, else `bytes.Equal(prefix, s[:len(prefix)])` -/
def isPrefix (p s : List Nat) : Bool :=
  if p.length > s.length then false else p == s.take p.length

/-- the loop of `commonPrefix` l.524-528; `fuel` = `minLen - i`.  Exit of the loop (fuel 0) = l.530 `a[:minLen]`. -/
def commonPrefixGo (a b : List Nat) (minLen : Nat) : Nat → Nat → List Nat
  | 0, _ => a.take minLen
  | f + 1, i => if a.getD i 0 != b.getD i 0 then a.take i else commonPrefixGo a b minLen f (i + 1)

/-- `commonPrefix(a, b)` l.518-531 -/
def commonPrefix (a b : List Nat) : List Nat :=
  let minLen := if b.length < a.length then b.length else a.length
  commonPrefixGo a b minLen minLen 0

/-- the loop of `commonSuffix` l.542-549; `fuel` = `minLen - i`.  Exit of the loop = l.551 `a[aLen-minLen:]`. -/
def commonSuffixGo (a b : List Nat) (minLen : Nat) : Nat → Nat → List Nat
  | 0, _ => a.drop (a.length - minLen)
  | f + 1, i =>
    if a.getD (a.length - 1 - i) 0 != b.getD (b.length - 1 - i) 0 then
      (if i = 0 then [] else a.drop (a.length - i))
    else commonSuffixGo a b minLen f (i + 1)

/-- `commonSuffix(a, b)` l.534-552 -/
def commonSuffix (a b : List Nat) : List Nat :=
  let minLen := if b.length < a.length then b.length else a.length
  commonSuffixGo a b minLen minLen 0

/-! ## LongestCommonPrefix / LongestCommonSuffix (l.343-415) -/

/-- l.352-358: `prefix = commonPrefix(prefix, lit)`, early exit with `[]byte{}` when it becomes empty -/
def lcpLoop : List Nat → List Lit → List Nat
  | p, [] => p
  | p, l :: ls =>
    let p' := commonPrefix p l.bytes
    if p'.length = 0 then [] else lcpLoop p' ls

/-- `(*Seq).LongestCommonPrefix` l.343-364 -/
def lcp : List Lit → List Nat
  | [] => []
  | l :: ls => lcpLoop l.bytes ls

/-- l.403-409 -/
def lcsLoop : List Nat → List Lit → List Nat
  | p, [] => p
  | p, l :: ls =>
    let p' := commonSuffix p l.bytes
    if p'.length = 0 then [] else lcsLoop p' ls

/-- `(*Seq).LongestCommonSuffix` l.394-415 -/
def lcs : List Lit → List Nat
  | [] => []
  | l :: ls => lcsLoop l.bytes ls

/-! ## Minimize (l.278-310) -/

/-- stable insertion by length: `x` (which preceded every element of the list in the input) goes before the first
    element that is not strictly shorter -/
def insertByLen (x : Lit) : List Lit → List Lit
  | [] => [x]
  | y :: ys => if x.bytes.length ≤ y.bytes.length then x :: y :: ys else y :: insertByLen x ys

/-- model of `sort.Slice(s.literals, len(i) < len(j))` l.284-286 (stable; see the header) -/
def sortByLen : List Lit → List Lit
  | [] => []
  | x :: xs => insertByLen x (sortByLen xs)

/-- inner loop l.296-302: is some already kept literal a prefix of `cur`? -/
def isRedundant (kept : List Lit) (cur : Lit) : Bool :=
  kept.any fun k => isPrefix k.bytes cur.bytes

/-- outer loop l.291-307 over the (sorted) literals, `kept` grows at the end -/
def minLoop : List Lit → List Lit → List Lit
  | kept, [] => kept
  | kept, c :: rest => if isRedundant kept c then minLoop kept rest else minLoop (kept ++ [c]) rest

/-- `(*Seq).Minimize` l.278-310 -/
def minimize (s : List Lit) : List Lit :=
  if s.isEmpty then s else minLoop [] (sortByLen s)

/-! ## CrossForward (l.433-456) -/

/-- body of the outer loop l.439-454 for one `left` -/
def crossOne (left : Lit) (other : List Lit) : List Lit :=
  if !left.complete then [left]
  else other.map fun right => { bytes := left.bytes ++ right.bytes, complete := right.complete }

/-- `(*Seq).CrossForward(other)` l.433-456 -/
def crossForward (s other : List Lit) : List Lit :=
  if s.isEmpty || other.isEmpty then s else s.flatMap fun left => crossOne left other

/-! ## KeepFirstBytes (l.470-480) -/

/-- loop body l.475-478 (`n > 0`) -/
def keepLit (n : Nat) (l : Lit) : Lit :=
  if l.bytes.length > n then { bytes := l.bytes.take n, complete := false } else l

/-- `(*Seq).KeepFirstBytes(n)` l.470-480 -/
def keepFirstBytes (s : List Lit) (n : Int) : List Lit :=
  if s.isEmpty || n ≤ 0 then s else s.map (keepLit n.toNat)

/-! ## Dedup (l.491-505) -/

/-- l.497-503: `seen` = keys of the Go map, `kept` grows at the end -/
def dedupLoop : List (List Nat) → List Lit → List Lit → List Lit
  | _, kept, [] => kept
  | seen, kept, l :: rest =>
    if seen.contains l.bytes then dedupLoop seen kept rest
    else dedupLoop (l.bytes :: seen) (kept ++ [l]) rest

/-- `(*Seq).Dedup` l.491-505 -/
def dedup (s : List Lit) : List Lit :=
  if s.isEmpty then s else dedupLoop [] [] s

/-! ## `Seq` wrappers: the operations mutate `literals` only -/

/-- `(*Seq).Clone` l.227-244 (value semantics: the identity) -/
def Seq.clone (s : Seq) : Seq := { literals := s.literals, partialCoverage := s.partialCoverage }
def Seq.minimize (s : Seq) : Seq := { s with literals := SeqOps.minimize s.literals }
def Seq.crossForward (s other : Seq) : Seq := { s with literals := SeqOps.crossForward s.literals other.literals }
def Seq.keepFirstBytes (s : Seq) (n : Int) : Seq := { s with literals := SeqOps.keepFirstBytes s.literals n }
def Seq.dedup (s : Seq) : Seq := { s with literals := SeqOps.dedup s.literals }
def Seq.lcp (s : Seq) : List Nat := SeqOps.lcp s.literals
def Seq.lcs (s : Seq) : List Nat := SeqOps.lcs s.literals

end Cx.SeqOps
