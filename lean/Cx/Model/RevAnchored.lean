import Cx.Model.RevSuffix
/-
  Cx.Model.RevAnchored — the STRATEGY layer `UseReverseAnchored` of the meta engine (`meta/reverse_anchored.go`): for a
  pattern that ends with `$` / `\z` (and has no start anchor and no word boundary: `meta/strategy.go` l.1596-1613) one
  reverse scan from the END of the haystack finds the match start; the match end is `len(haystack)`.  Over ABSTRACT component
  oracles.

  Go (meta/reverse_anchored.go)                                            Lean (namespace Cx.RevAnchored)
  ------------------------------------------------------------------------------------------------------------------
  s.forwardPikevm.Search(haystack)                     (l.102, 133)        Oracles.fwdPike h
  s.reverseDFA.SearchReverse(cache, h, 0, len(h))      (l.112; lazy.go:1736; reverse DFA of
      nfa.ReverseAnchored(forwardNFA), BreakAtMatch = false)               Oracles.revFull h 0 h.size     (< 0 = none)
  s.reverseDFA.IsMatchReverse(cache, h, 0, len(h))     (l.140; lazy.go:1990)   Oracles.revIsMatch h 0 h.size
  Find                                                 (l.98-120)          find    (`NewMatch(start, end, h)` = the span)
  IsMatch                                              (l.129-143)         isMatch

  The searcher has no parameters.  `SearchReverse` answering -1 is taken as "no match" here (the caller does not fall back),
  so its contract is two-sided, unlike in the reverse-suffix strategy.  Left out: the cache pool, the `*Match` wrapper, the
  constructor, the (unused) field `pikevm`.  `Engine.FindIndicesAt(h, at)` does not call this searcher (it runs the NFA:
  `meta/find_indices.go` l.60-100, default branch).
-/
namespace Cx.RevAnchored
open Cx

structure Oracles where
  /-- `forwardPikevm.Search(haystack)` (only called on the empty haystack) -/
  fwdPike : Bytes → Option (Nat × Nat)
  /-- `reverseDFA.SearchReverse(cache, haystack, start, end)` -/
  revFull : Bytes → Nat → Nat → Option Nat
  /-- `reverseDFA.IsMatchReverse(cache, haystack, start, end)` -/
  revIsMatch : Bytes → Nat → Nat → Bool

/-- `Find(haystack)` -/
def find (O : Oracles) (h : Bytes) : Option (Nat × Nat) :=
  if h.size = 0 then O.fwdPike h
  else
    match O.revFull h 0 h.size with
    | none => none                         -- matchStart < 0
    | some s => some (s, h.size)

/-- `IsMatch(haystack)` -/
def isMatch (O : Oracles) (h : Bytes) : Bool :=
  if h.size = 0 then (O.fwdPike h).isSome else O.revIsMatch h 0 h.size

/-- oracles computed from a table for ONE haystack: `mt s e` = the pattern matches `h[s:e)`, `ref0` = the reference's answer
    from offset 0 -/
def bruteOracles (mt : Nat → Nat → Bool) (ref0 : Option (Nat × Nat)) : Oracles where
  fwdPike := fun _ => ref0
  revFull := fun _ lo e => RevSuffix.findFirst (fun s => mt s e) lo (e + 1 - lo)
  revIsMatch := fun _ lo e => (RevSuffix.findFirst (fun s => mt s e) lo (e + 1 - lo)).isSome

end Cx.RevAnchored
