import Cx.Model.RevSuffix
/-
  Cx.Model.RevSuffixSet — the STRATEGY layer `UseReverseSuffixSet` of the meta engine (`meta/reverse_suffix_set.go`): like
  reverse suffix, but the pattern ends with one of SEVERAL literals (no common suffix): a multi-literal (Teddy) prefilter finds
  the positions where one of them occurs, the reverse lazy DFA decides for EVERY literal occurring there whether a match ends
  at its end.  Over the same ABSTRACT component oracles as `Cx.Model.RevSuffix` (`RevSuffix.Oracles`), whose `searchSpan` and
  byte-search helpers are reused.

  Go (meta/reverse_suffix_set.go)                                          Lean (namespace Cx.RevSuffixSet)
  ------------------------------------------------------------------------------------------------------------------
  s.prefilter.Find(haystack, start)                      (l.220, 288, 338) O.pfFind h start
  s.reverseDFA.SearchReverseLimited(c, h, start, end, minStart) (l.242, 353)   O.revLimited h start end minStart
  s.forwardDFA.SearchAt / s.reverseDFA.SearchReverse / s.pikevm.SearchAt (in searchSpan, l.308-322)
                                                                           RevSuffix.searchSpan O h from knownStart
  s.pikevm.Search(haystack)                              (l.359)           O.pike h 0
  s.suffixLiterals (Len, Get(i).Bytes), s.matchStartZero, s.lineBounded    Params.lits / .matchStartZero / .lineBounded
  getSuffixLen(haystack, pos)                            (l.379-400)       getSuffixLen
  bytes.HasPrefix(haystack[pos:], lit)                   (l.236, 347)      RevSuffix.occursAt h lit pos
  the loop over the literals at one candidate            (l.233-261, 344-365)  litLoop  (`LitsOut`: return-found / return-cutOff / maxEnd)
  dotStarMatch: the scan loop                            (l.287-296)       scanLoop
  dotStarMatch                                           (l.280-298)       dotStarMatch
  findIndicesAtImpl: the `for` loop                      (l.218-270)       findLoop
  findIndicesAtImpl = FindIndicesAt = FindIndicesAtWithCaches = FindAt     findIndicesAt
  IsMatch: the `for` loop / IsMatch                      (l.326-375)       isMatchLoop / isMatch

  Left out: caches and pools, the `*Match` wrappers, the constructor (`isDotStarLiteralSet`, `canMatchNewline` decide the
  flags; the theorems state what the flags must guarantee).
-/
namespace Cx.RevSuffixSet
open Cx
open Cx.RevSuffix (RevAnswer Oracles findFirst findLast occursAt lineStartBefore lineEndAt searchSpan)

/-- the fields of `ReverseSuffixSetSearcher` the search reads -/
structure Params where
  lits : List Bytes
  matchStartZero : Bool := false
  lineBounded : Bool := false
  deriving Repr, Inhabited

/-- `getSuffixLen(haystack, pos)`: the length of the first literal (in list order) that stands at `pos`, 0 if none -/
def getSuffixLen (P : Params) (h : Bytes) (pos : Nat) : Nat :=
  match P.lits.find? (fun l => occursAt h l pos) with
  | some l => l.size
  | none => 0

/-- how the loop over the literals at one candidate ends: `return` with a match start, `return` through the cut-off branch,
    or fall through with the new `maxEnd` -/
inductive LitsOut where
  | found (matchStart : Nat)
  | cutOff
  | none (maxEnd : Nat)
  deriving Repr, DecidableEq, Inhabited

/-- `for i := 0; i < s.suffixLiterals.Len(); i++ { … }` at candidate `pos` (`lo` = `at` in Find, 0 in IsMatch) -/
def litLoop (O : Oracles) (h : Bytes) (lo pos minStart : Nat) : List Bytes → Nat → LitsOut
  | [], maxEnd => .none maxEnd
  | lit :: rest, maxEnd =>
    if occursAt h lit pos then
      match O.revLimited h lo (pos + lit.size) minStart with
      | .cutOff => .cutOff
      | .found ms => .found ms
      | .none => litLoop O h lo pos minStart rest (if pos + lit.size > maxEnd then pos + lit.size else maxEnd)
    else litLoop O h lo pos minStart rest maxEnd

/-- the scan loop of `dotStarMatch`; state `scan`, `end` -/
def scanLoop (O : Oracles) (P : Params) (h : Bytes) (lineEnd : Nat) : Nat → Nat → Nat → Nat
  | 0, _, end_ => end_
  | fuel+1, scan, end_ =>
    if scan < lineEnd then
      match O.pfFind h scan with
      | none => end_
      | some nextPos =>
        if nextPos ≥ lineEnd then end_
        else
          let end' := if getSuffixLen P h nextPos > 0 then nextPos + getSuffixLen P h nextPos else end_
          scanLoop O P h lineEnd fuel (nextPos + 1) end'
    else end_

/-- `dotStarMatch(haystack, at, pos, suffixEnd)` -/
def dotStarMatch (O : Oracles) (P : Params) (h : Bytes) (at_ pos suffixEnd : Nat) : Nat × Nat :=
  (lineStartBefore h at_ pos, scanLoop O P h (lineEndAt h pos) h.size (pos + 1) suffixEnd)

/-- the loop of `findIndicesAtImpl`; state `searchStart`, `minStart` -/
def findLoop (O : Oracles) (P : Params) (h : Bytes) (at_ : Nat) : Nat → Nat → Nat → Option (Nat × Nat)
  | 0, _, _ => none
  | fuel+1, searchStart, minStart =>
    match O.pfFind h searchStart with
    | none => none
    | some pos =>
      if P.matchStartZero && decide (getSuffixLen P h pos > 0) then
        some (dotStarMatch O P h at_ pos (pos + getSuffixLen P h pos))
      else
        -- `for i := 0; i < Len() && !s.matchStartZero; i++`
        match (if P.matchStartZero then LitsOut.none minStart else litLoop O h at_ pos minStart P.lits minStart) with
        | .cutOff => searchSpan O h at_ none
        | .found matchStart =>
          let from_ := if P.lineBounded then lineStartBefore h at_ pos else at_
          searchSpan O h from_ (some matchStart)
        | .none maxEnd =>
          -- minStart = maxEnd; searchStart = pos + 1
          if pos + 1 ≥ h.size then none else findLoop O P h at_ fuel (pos + 1) maxEnd

/-- `findIndicesAtImpl(haystack, at, …)` -/
def findIndicesAt (O : Oracles) (P : Params) (h : Bytes) (at_ : Nat) : Option (Nat × Nat) :=
  if at_ ≥ h.size then none else findLoop O P h at_ (h.size - at_) at_ at_

/-- the loop of `IsMatch`; state `start`, `minStart` -/
def isMatchLoop (O : Oracles) (P : Params) (h : Bytes) : Nat → Nat → Nat → Bool
  | 0, _, _ => false
  | fuel+1, start, minStart =>
    match O.pfFind h start with
    | none => false
    | some pos =>
      match litLoop O h 0 pos minStart P.lits minStart with
      | .found _ => true
      | .cutOff => (O.pike h 0).isSome
      | .none maxEnd => if pos + 1 ≥ h.size then false else isMatchLoop O P h fuel (pos + 1) maxEnd

/-- `IsMatch(haystack)` -/
def isMatch (O : Oracles) (P : Params) (h : Bytes) : Bool :=
  if h.size = 0 then false else isMatchLoop O P h h.size 0 0

/-! ### the same, instrumented: which windows `[max(start, minStart), end)` may the bounded reverse scans read? -/

def litLoopT (O : Oracles) (h : Bytes) (lo pos minStart : Nat) : List Bytes → Nat → List (Nat × Nat) → LitsOut × List (Nat × Nat)
  | [], maxEnd, t => (.none maxEnd, t)
  | lit :: rest, maxEnd, t =>
    if occursAt h lit pos then
      let t := t ++ [(max lo minStart, pos + lit.size)]
      match O.revLimited h lo (pos + lit.size) minStart with
      | .cutOff => (.cutOff, t)
      | .found ms => (.found ms, t)
      | .none => litLoopT O h lo pos minStart rest (if pos + lit.size > maxEnd then pos + lit.size else maxEnd) t
    else litLoopT O h lo pos minStart rest maxEnd t

/-- `findLoop` with the list of windows of the `SearchReverseLimited` calls (the answer of `searchSpan` is not traced: it makes
    one forward and at most one full reverse scan, see `RevSuffix.searchSpanT`) -/
def findLoopT (O : Oracles) (P : Params) (h : Bytes) (at_ : Nat) : Nat → Nat → Nat → List (Nat × Nat) → Option (Nat × Nat) × List (Nat × Nat)
  | 0, _, _, t => (none, t)
  | fuel+1, searchStart, minStart, t =>
    match O.pfFind h searchStart with
    | none => (none, t)
    | some pos =>
      if P.matchStartZero && decide (getSuffixLen P h pos > 0) then
        (some (dotStarMatch O P h at_ pos (pos + getSuffixLen P h pos)), t)
      else
        match (if P.matchStartZero then (LitsOut.none minStart, t) else litLoopT O h at_ pos minStart P.lits minStart t) with
        | (.cutOff, t) => (searchSpan O h at_ none, t)
        | (.found matchStart, t) =>
          let from_ := if P.lineBounded then lineStartBefore h at_ pos else at_
          (searchSpan O h from_ (some matchStart), t)
        | (.none maxEnd, t) =>
          if pos + 1 ≥ h.size then (none, t) else findLoopT O P h at_ fuel (pos + 1) maxEnd t

def findIndicesAtT (O : Oracles) (P : Params) (h : Bytes) (at_ : Nat) : Option (Nat × Nat) × List (Nat × Nat) :=
  if at_ ≥ h.size then (none, []) else findLoopT O P h at_ (h.size - at_) at_ at_ []

/-- a prefilter that meets the contract of `prefilter.Find` for the literal set (used by the driver) -/
def refPfFindSet (lits : List Bytes) (h : Bytes) (start : Nat) : Option Nat :=
  findFirst (fun p => lits.any fun l => occursAt h l p) start (h.size + 1 - start)

/-- oracles computed from a table for ONE haystack, as `RevSuffix.bruteOracles`, with the multi-literal prefilter -/
def bruteOracles (lits : List Bytes) (mt : Nat → Nat → Bool) (ref : Nat → Option (Nat × Nat)) (cutMode : Nat) (giveUp : Bool) :
    Oracles :=
  { RevSuffix.bruteOracles #[] mt ref cutMode giveUp with pfFind := refPfFindSet lits }

end Cx.RevSuffixSet
