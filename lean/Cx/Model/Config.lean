import Cx.Basic
/-
  Cx.Model.Config — meta/config.go: Config, DefaultConfig, Validate (transliteration; MaxDFAStates is uint32 in Go, a Nat
  here — the harness only supplies values in [0, 2^32)).
-/
namespace Cx.Config

structure Config where
  enableDFA : Bool
  enablePrefilter : Bool
  maxDFAStates : Nat
  determinizationLimit : Int
  minLiteralLen : Int
  maxLiterals : Int
  maxRecursionDepth : Int
  enableASCIIOptimization : Bool
deriving Repr, DecidableEq

def default : Config :=
  { enableDFA := true, enablePrefilter := true, maxDFAStates := 10000, determinizationLimit := 1000, minLiteralLen := 1,
    maxLiterals := 256, maxRecursionDepth := 100, enableASCIIOptimization := true }

/-- `Validate`: `none` = nil error, `some field` = ConfigError{Field: field}; checks in the order of the Go code -/
def validate (c : Config) : Option String :=
  if c.enableDFA && (c.maxDFAStates < 1 || c.maxDFAStates > 1000000) then some "MaxDFAStates"
  else if c.enableDFA && (c.determinizationLimit < 10 || c.determinizationLimit > 100000) then some "DeterminizationLimit"
  else if c.enablePrefilter && (c.minLiteralLen < 1 || c.minLiteralLen > 64) then some "MinLiteralLen"
  else if c.enablePrefilter && (c.maxLiterals < 1 || c.maxLiterals > 1000) then some "MaxLiterals"
  else if c.maxRecursionDepth < 10 || c.maxRecursionDepth > 1000 then some "MaxRecursionDepth"
  else none

end Cx.Config
