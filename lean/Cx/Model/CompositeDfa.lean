import Cx.Model.Fast
/-
  Cx.Model.CompositeDfa — transliteration of nfa/composite_dfa.go (`CompositeSequenceDFA`, after "the composite sequence
  DFA must count {n,} parts and must not skip start positions after a failed attempt"); core-only, executable.

    Go                                             Lean (namespace Cx.CompDfa)
    ---------------------------------------------  ------------------------------------------------------------
    charClassPart, extractCompositeCharClassParts   Cx.Fast.CharClassPart, Cx.Fast.extractCompositeParts (Cx.Model.Fast §2)
    maxCompositeConfigs / maxCompositeStates        maxCompositeConfigs / maxCompositeStates
    IsCompositeSequenceDFAPattern                   isCompositeSequenceDFAPattern   (shared loop: `partsOK`)
    NewCompositeSequenceDFA                         newCompositeSequenceDFA         (`none` = nil)
    (*).buildByteClasses                            buildByteClasses  (`signature`, `classStep`)
    configSet (uint64 bitmask)                      Nat bitmask (bit positions < 64 whenever the constructor goes on: `numConfigs ≤ 64`)
    configBit                                       configBit
    (*).buildDFASubsetConstruction(parts, restart)  buildDFASubsetConstruction  (`Build`, `transLoop`, `buildLoop`, `setRow`, `flatten`)
    (*).computeNextConfigs                          computeNextConfigs  (`nextStep` = body of the inner loop)
    (*).classMatchesPart                            classMatchesPart
    compositeTable                                  CompositeTable
    (*).IsMatch / Search / SearchAt                 isMatch / search / searchAt
    (*).searchAfterFailure                          searchAfterFailure  (`pass1`, `pass2`)
    (*).matchAt                                     matchAt  (`matchLoop`)
    (*).firstPartClasses                            firstPartMem

  Conventions (as in Cx.Model.Fast): every `for` loop is a structurally recursive function on a fuel / list argument;
  `(-1, -1, false)` is `none`; `(s, e, true)` is `some (s, e)`.

  Modelling decisions
  * Go maps whose values are sequentially assigned ids are the LIST of their keys in insertion order, the value being
    the position: `configToState[c]` is `idOf states c` (`states` is the Go slice `states`; map and slice are extended
    together), `signatureToClass` is an association list `(signature, class)` searched with `List.lookup`.
  * `classCount` is a Go `byte`: the increment wraps at 256 (`% 256`).  (It can only wrap when 255 distinct non-zero
    signatures occur — 8 parts over Latin-1 classes; the tables then have `numClasses = 0` columns and the Go `matchAt`
    panics with an index out of range.  Impossible when the classes are ASCII, which `IsCompositeCharClassPattern`
    demands before meta builds the DFA.)  `signatures[b]` is a `uint16` with at most 8 bits used: a `Nat`.
  * `trans := make([]uint16, numClasses); trans[class] = id` for `class = 0, 1, …` is a list built by appending;
    `transitionList[currentID] = trans` after the padding loop is `setRow`; the final flattening loop
    `table.transitions[stateID*numClasses+class] = nextID` over a zeroed slice of length `len(states)*numClasses` is
    `flatten` (entry `k` = `transitionList[k / numClasses][k % numClasses]`, 0 where no such entry exists).
    State ids are `uint16` in Go; they are bounded by `maxCompositeStates + numClasses ≤ 1280` and never wrap.
  * `buildLoop` has a fuel argument (`maxCompositeStates + 2`): the Go loop runs at most once per state id and gives up
    when more than `maxCompositeStates` states exist; `buildLoop_fuel_irrelevant` (Cx.Proofs.CompositeDfa) shows the fuel never runs out.
  * `matchAt`: the 4×-unrolled loop is four copies of the body of the remainder loop and is modelled by that loop alone.
    Its result (`lastAcceptEnd`, `-1` = none) is an `Int`.  `searchAfterFailure` returns `(start, matchAt(...), true)`
    without looking at the end; the model's span is a pair of `Nat`, so the end is `Int.toNat` of it — the difference
    would show only if `matchAt` failed there, which cannot happen (`searchAfterFailure_end`, Cx.Proofs.CompositeDfa).
  * array reads use `getD`: out-of-range reads (Go would panic) give `0` / `false`.  None occurs on byte haystacks
    when `numClasses ≠ 0`.
  * `at` is a `Nat`: a negative `at` (Go would panic on `haystack[start]`) is not modelled.
  Left out: nothing else; `numStates` is kept although no method reads it.
-/
namespace Cx.CompDfa
open Cx Cx.Fast

instance : Inhabited CharClassPart := ⟨{ membership := #[], minMatch := 0, maxMatch := 0 }⟩

/-- `maxCompositeConfigs`: number of configurations a `configSet` (`uint64`) can hold -/
def maxCompositeConfigs : Nat := 64
/-- `maxCompositeStates` -/
def maxCompositeStates : Nat := 1024

/-- `compositeTable` -/
structure CompositeTable where
  transitions : Array Nat
  accepting : Array Bool
  deriving Repr

/-- `CompositeSequenceDFA` -/
structure CompositeSequenceDFA where
  byteToClass : Array Nat
  numClasses : Nat
  transitions : Array Nat
  accepting : Array Bool
  numStates : Nat
  unanchored : CompositeTable
  reverse : CompositeTable
  parts : List CharClassPart
  deriving Repr

/-! ## byte classes -/

/-- `signatures[b]` after the first loop of `buildByteClasses`: bit `i` = `parts[i].membership[b]`
    (`i` = index of the next part, `sig` = bits collected so far) -/
def signatureFrom (b : Nat) : List CharClassPart → Nat → Nat → Nat
  | [], _, sig => sig
  | p :: ps, i, sig => signatureFrom b ps (i + 1) (if p.mem b then sig ||| (1 <<< i) else sig)

def signature (parts : List CharClassPart) (b : Nat) : Nat := signatureFrom b parts 0 0

/-- state of the second loop of `buildByteClasses` -/
structure ClassState where
  /-- `signatureToClass` in insertion order -/
  sigMap : List (Nat × Nat) := []
  /-- `d.byteToClass[0 .. b)` -/
  table : Array Nat := #[]
  /-- `classCount` (a `byte`) -/
  classCount : Nat := 1
  deriving Repr

/-- body of `for b := 0; b < 256; b++` -/
def classStep (parts : List CharClassPart) (st : ClassState) (b : Nat) : ClassState :=
  let sig := signature parts b
  if sig = 0 then { st with table := st.table.push 0 }
  else match st.sigMap.lookup sig with
    | some cls => { st with table := st.table.push cls }
    | none => { sigMap := st.sigMap ++ [(sig, st.classCount)], table := st.table.push st.classCount,
                classCount := (st.classCount + 1) % 256 }

/-- `buildByteClasses`: (`byteToClass`, `numClasses`) -/
def buildByteClasses (parts : List CharClassPart) : Array Nat × Nat :=
  let st := (List.range 256).foldl (classStep parts) {}
  (st.table, st.classCount)

/-- `classMatchesPart`: membership of the first byte of the class -/
def classMatchesPart (byteToClass : Array Nat) (cls : Nat) (part : CharClassPart) : Bool :=
  match (List.range 256).find? (fun b => byteToClass.getD b 0 == cls) with
  | some b => part.mem b
  | none => false

/-! ## configurations -/

/-- `configBit(parts, part, seen)`: `1 << (offset + seen - 1)`, `offset` = sum of the minimums of `parts[:part]` -/
def configBit (parts : List CharClassPart) (part seen : Nat) : Nat :=
  1 <<< (((parts.take part).map (·.minMatch)).sum + seen - 1)

/-- body of the `seen` loop of `computeNextConfigs` (`cm p` = `d.classMatchesPart(class, p)`) -/
def nextStep (cm : CharClassPart → Bool) (parts : List CharClassPart) (current part : Nat) (next seen : Nat) : Nat :=
  let p := parts.getD part default
  let minMatch := p.minMatch
  if current &&& configBit parts part seen = 0 then next else
  let next :=
    if cm p then
      (if seen < minMatch then next ||| configBit parts part (seen + 1) else next ||| configBit parts part minMatch)
    else next
  if seen = minMatch ∧ part + 1 < parts.length ∧ cm (parts.getD (part + 1) default) then
    next ||| configBit parts (part + 1) 1
  else next

/-- `computeNextConfigs(current, class, parts)` -/
def computeNextConfigs (cm : CharClassPart → Bool) (parts : List CharClassPart) (current : Nat) : Nat :=
  (List.range parts.length).foldl
    (fun next part => (List.range' 1 (parts.getD part default).minMatch).foldl (nextStep cm parts current part) next) 0

/-! ## subset construction -/

/-- `configToState[c]` (`none` = not a key): the position of `c` in `states` -/
def idOf (states : List Nat) (c : Nat) : Option Nat :=
  let i := states.idxOf c
  if i < states.length then some i else none

/-- `states` and `queue` of `buildDFASubsetConstruction` (`configToState` is `idOf states`) -/
structure Build where
  states : List Nat
  queue : List Nat
  deriving Repr

/-- `for class := 0; class < numClasses; class++ { next := …; get or create the state of next; trans[class] = id }`
    (`next cls` = the configuration set reached with class `cls`) -/
def transLoop (next : Nat → Nat) : List Nat → Build → List Nat → Build × List Nat
  | [], st, trans => (st, trans)
  | cls :: rest, st, trans =>
    let nx := next cls
    match idOf st.states nx with
    | some id => transLoop next rest st (trans ++ [id])
    | none =>
      transLoop next rest { states := st.states ++ [nx], queue := st.queue ++ [nx] } (trans ++ [st.states.length])

/-- `for len(transitionList) <= currentID { append nil }; transitionList[currentID] = trans` -/
def setRow (rows : List (List Nat)) (id : Nat) (trans : List Nat) : List (List Nat) :=
  (rows ++ List.replicate (id + 1 - rows.length) []).set id trans

/-- `for len(queue) > 0 { … }`; `none` = `return compositeTable{}, false` (or fuel exhausted, which does not happen) -/
def buildLoop (nc : Nat) (next : Nat → Nat → Nat) : Nat → Build → List (List Nat) → Option (Build × List (List Nat))
  | 0, _, _ => none
  | f+1, st, rows =>
    match st.queue with
    | [] => some (st, rows)
    | current :: q =>
      if st.states.length > maxCompositeStates then none else
      let currentID := (idOf st.states current).getD 0
      let r := transLoop (next current) (List.range nc) { st with queue := q } []
      buildLoop nc next f r.1 (setRow rows currentID r.2)

/-- the flattening loop -/
def flatten (nc nstates : Nat) (rows : List (List Nat)) : Array Nat :=
  ((List.range (nstates * nc)).map fun k => ((rows.getD (k / nc) []).getD (k % nc) 0)).toArray

/-- `buildDFASubsetConstruction(parts, restart)` (`none` = `ok == false`) -/
def buildDFASubsetConstruction (byteToClass : Array Nat) (nc : Nat) (parts : List CharClassPart) (restart : Bool) :
    Option CompositeTable :=
  let cm := fun (cls : Nat) (p : CharClassPart) => classMatchesPart byteToClass cls p
  let part0 := parts.getD 0 default
  let firstCharState := configBit parts 0 1
  -- `configToState[0] = 0; states = [0]; if firstCharState is no key { add it, queue it }`
  let st0 : Build :=
    match idOf [0] firstCharState with
    | some _ => { states := [0], queue := [] }
    | none => { states := [0, firstCharState], queue := [firstCharState] }
  let firstID := (idOf st0.states firstCharState).getD 0
  let deadTrans := (List.range nc).map fun cls => if cm cls part0 then firstID else 0
  let next := fun (current cls : Nat) =>
    let nx := computeNextConfigs (cm cls) parts current
    if restart && cm cls part0 then nx ||| firstCharState else nx
  match buildLoop nc next (maxCompositeStates + 2) st0 [deadTrans] with
  | none => none
  | some (st, rows) =>
    let lastMet := configBit parts (parts.length - 1) (parts.getD (parts.length - 1) default).minMatch
    some { transitions := flatten nc st.states.length rows,
           accepting := (st.states.map fun configs => decide (configs &&& lastMet ≠ 0)).toArray }

/-- the loop `numConfigs := 0; for _, p := range parts { if p.minMatch == 0 … ; if p.maxMatch > 0 … ; numConfigs += p.minMatch }`
    shared by the predicate and the constructor: `none` = an early `return`, `some numConfigs` otherwise -/
def partsOK : List CharClassPart → Nat → Option Nat
  | [], n => some n
  | p :: ps, n => if p.minMatch = 0 then none else if p.maxMatch > 0 then none else partsOK ps (n + p.minMatch)

/-- `IsCompositeSequenceDFAPattern` -/
def isCompositeSequenceDFAPattern (re : Re) : Bool :=
  match extractCompositeParts re with
  | none => false
  | some parts =>
    if parts.length = 0 ∨ parts.length > 8 then false else
    match partsOK parts 0 with
    | none => false
    | some numConfigs => decide (numConfigs ≤ maxCompositeConfigs)

/-- `NewCompositeSequenceDFA` (`none` = nil) -/
def newCompositeSequenceDFA (re : Re) : Option CompositeSequenceDFA :=
  match extractCompositeParts re with
  | none => none
  | some parts =>
    if parts.length = 0 ∨ parts.length > 8 then none else
    match partsOK parts 0 with
    | none => none
    | some numConfigs =>
      if numConfigs > maxCompositeConfigs then none else
      let bc := buildByteClasses parts
      let reversed := parts.reverse
      match buildDFASubsetConstruction bc.1 bc.2 parts false,
            buildDFASubsetConstruction bc.1 bc.2 parts true,
            buildDFASubsetConstruction bc.1 bc.2 reversed false with
      | some anchored, some unanchored, some reverse =>
        some { byteToClass := bc.1, numClasses := bc.2, transitions := anchored.transitions,
               accepting := anchored.accepting, numStates := anchored.accepting.size,
               unanchored := unanchored, reverse := reverse, parts := parts }
      | _, _, _ => none

/-! ## searching -/

namespace CompositeSequenceDFA

/-- `int(byteToClass[haystack[pos]])` -/
@[inline] def classAt (d : CompositeSequenceDFA) (h : Bytes) (pos : Nat) : Nat := d.byteToClass.getD (h.at pos) 0

/-- `int(transitions[state*numClasses+class])` -/
@[inline] def step (nc : Nat) (transitions : Array Nat) (state cls : Nat) : Nat := transitions.getD (state * nc + cls) 0

/-- `for pos < n { state = …; if state == 0 { break }; if accepting[state] { lastAcceptEnd = pos+1 }; pos++ }`, fuel `n - pos` -/
def matchLoop (d : CompositeSequenceDFA) (h : Bytes) : Nat → Nat → Nat → Int → Int
  | 0, _, _, last => last
  | k+1, pos, state, last =>
    let state := step d.numClasses d.transitions state (d.classAt h pos)
    if state = 0 then last else
    matchLoop d h k (pos + 1) state (if d.accepting.getD state false then ((pos + 1 : Nat) : Int) else last)

/-- `matchAt(haystack, start)`: end of the longest match that starts at `start`, or `-1` -/
def matchAt (d : CompositeSequenceDFA) (h : Bytes) (start : Nat) : Int :=
  let state := step d.numClasses d.transitions 0 (d.classAt h start)   -- `transitions[class]`: from the dead state
  let last : Int := if d.accepting.getD state false then ((start + 1 : Nat) : Int) else -1
  matchLoop d h (h.size - (start + 1)) (start + 1) state last

/-- pass 1: `for pos := from; pos < n; pos++ { state = …; if accepting[state] { earliestEnd = pos+1; break } }`, fuel `n - pos` -/
def pass1 (d : CompositeSequenceDFA) (h : Bytes) : Nat → Nat → Nat → Option Nat
  | 0, _, _ => none
  | k+1, pos, state =>
    let state := step d.numClasses d.unanchored.transitions state (d.classAt h pos)
    if d.unanchored.accepting.getD state false then some (pos + 1) else pass1 d h k (pos + 1) state

/-- pass 2: `for pos := earliestEnd-1; pos >= from; pos-- { state = …; if state == 0 { break }; if accepting[state] { start = pos } }`;
    fuel `pos + 1 - from`, second argument `pos + 1` -/
def pass2 (d : CompositeSequenceDFA) (h : Bytes) : Nat → Nat → Nat → Option Nat → Option Nat
  | 0, _, _, start => start
  | k+1, pos1, state, start =>
    let pos := pos1 - 1
    let state := step d.numClasses d.reverse.transitions state (d.classAt h pos)
    if state = 0 then start else
    pass2 d h k pos state (if d.reverse.accepting.getD state false then some pos else start)

/-- `searchAfterFailure(haystack, from)` -/
def searchAfterFailure (d : CompositeSequenceDFA) (h : Bytes) (from_ : Nat) : Option (Nat × Nat) :=
  match pass1 d h (h.size - from_) from_ 0 with
  | none => none
  | some earliestEnd =>
    match pass2 d h (earliestEnd - from_) earliestEnd 0 none with
    | none => none
    | some start => some (start, (d.matchAt h start).toNat)

/-- `firstPartClasses()`: membership of the first part (all `false` without parts) -/
def firstPartMem (d : CompositeSequenceDFA) (b : Nat) : Bool :=
  match d.parts with
  | [] => false
  | p :: _ => p.mem b

/-- `for start < n && !firstPartClass[haystack[start]] { start++ }`, fuel `n - start` -/
def skipLoop (d : CompositeSequenceDFA) (h : Bytes) : Nat → Nat → Nat
  | 0, start => start
  | k+1, start => if d.firstPartMem (h.at start) then start else skipLoop d h k (start + 1)

/-- `SearchAt` -/
def searchAt (d : CompositeSequenceDFA) (h : Bytes) (at_ : Nat) : Option (Nat × Nat) :=
  if h.size = 0 then none else
  let start := skipLoop d h (h.size - at_) at_
  if start ≥ h.size then none else
  let e := d.matchAt h start
  if e > 0 then some (start, e.toNat) else d.searchAfterFailure h (start + 1)

/-- `Search` -/
def search (d : CompositeSequenceDFA) (h : Bytes) : Option (Nat × Nat) := d.searchAt h 0

/-- `IsMatch`: `_, _, ok := d.Search(haystack); return ok` -/
def isMatch (d : CompositeSequenceDFA) (h : Bytes) : Bool := (d.search h).isSome

end CompositeSequenceDFA

end Cx.CompDfa
