import Cx.Basic
import Cx.Spec.Utf8
import Cx.Spec.GoRef
import Cx.Model.Nfa
/-
  Cx.Model.ClassCheck — the C15 class checker run by `cxdrv classcheck`, as total pure functions (no `Id.run do`):
  for the NFA dumped from the compiler for ONE character class
    (1) every scalar value r in [lo, hi]: the automaton accepts exactly the whole of `encode r` ⇔ r is in the class;
    (2) if hi ≥ 128: every byte string of length 1 and 2 and every length-3 string over `boundaryBytes`:
        accepted ⇔ Go decodes it as ONE rune, of full width, that is in the class.
  The verdict is a structured value (`Verdict`), rendered into the line-protocol answer by `Verdict.render`.
  `Cx/Proofs/ClassCheck.lean` proves what the answer `ok` means in terms of `Nfa.Accepts`.
-/
namespace Cx.Nfa
open Cx

/-- acceptance of the whole byte string from the anchored start: cheap depth-bounded walk, exact fallback -/
def accWhole (N : NFA) (bs : Bytes) : Bool :=
  match walkSpan N bs bs.size (N.states.size + 8) 0 N.startAnchored with
  | some b => b
  | none => acceptsSpan N bs 0 bs.size

end Cx.Nfa

namespace Cx.ClassCheck
open Cx

def boundaryBytes : List Nat :=
  [0x00, 0x0A, 0x41, 0x7F, 0x80, 0x8F, 0x90, 0x9F, 0xA0, 0xBF, 0xC0, 0xC1, 0xC2, 0xDF, 0xE0, 0xED, 0xEF, 0xF0, 0xF4, 0xF5, 0xFF]

inductive Verdict where
  | ok
  | failRune (r : Nat) (acc : Bool)      -- first rune of the sweep on which automaton and class differ; what the automaton said
  | failBytes (bs : Bytes)               -- first byte string on which automaton and Go's decoding rule differ
  deriving Repr, DecidableEq, Inhabited

/-- the line-protocol answer: `ok` | `fail:rune:<r>:<acc>` | `fail:bytes:<hex>` -/
def Verdict.render : Verdict → String
  | .ok => "ok"
  | .failRune r acc => "fail:rune:" ++ toString r ++ ":" ++ toString acc
  | .failBytes bs => "fail:bytes:" ++ toHex bs

/-- the rune sweep over `[r, r + fuel)`: the first scalar value whose encoding the automaton treats differently from
    the class, with the automaton's answer (tail recursive; nothing is materialised) -/
def sweepRunes (N : Nfa.NFA) (ranges : List (Nat × Nat)) : Nat → Nat → Option (Nat × Bool)
  | 0, _ => none
  | fuel+1, r =>
    if Utf8.isScalar r then
      let acc := Nfa.accWhole N (Utf8.encode r).toArray
      if acc != GoRef.inRanges r ranges then some (r, acc) else sweepRunes N ranges fuel (r + 1)
    else sweepRunes N ranges fuel (r + 1)

/-- Go's rule for a whole byte string: it decodes as ONE rune of full width and that rune is in the class -/
def expect (ranges : List (Nat × Nat)) (bs : Bytes) : Bool :=
  let d := Utf8.decodeAt bs 0
  d.2 == bs.size && GoRef.inRanges d.1 ranges

def badString (N : Nfa.NFA) (ranges : List (Nat × Nat)) (bs : Bytes) : Option Bytes :=
  if Nfa.accWhole N bs != expect ranges bs then some bs else none

def check1 (N : Nfa.NFA) (ranges : List (Nat × Nat)) : Option Bytes :=
  (List.range 256).findSome? fun a => badString N ranges #[a]

def check2 (N : Nfa.NFA) (ranges : List (Nat × Nat)) : Option Bytes :=
  (List.range 256).findSome? fun a => (List.range 256).findSome? fun b => badString N ranges #[a, b]

def check3 (N : Nfa.NFA) (ranges : List (Nat × Nat)) : Option Bytes :=
  boundaryBytes.findSome? fun a => boundaryBytes.findSome? fun b => boundaryBytes.findSome? fun c =>
    badString N ranges #[a, b, c]

/-- all strings of length 1, then of length 2, then of length 3 over `boundaryBytes`, in lexicographic order: the first bad one -/
def checkStrings (N : Nfa.NFA) (ranges : List (Nat × Nat)) : Option Bytes :=
  match check1 N ranges with
  | some bs => some bs
  | none =>
    match check2 N ranges with
    | some bs => some bs
    | none => check3 N ranges

def classCheckV (N : Nfa.NFA) (ranges : List (Nat × Nat)) (lo hi : Nat) : Verdict :=
  match sweepRunes N ranges (hi + 1 - lo) lo with
  | some (r, acc) => .failRune r acc
  | none =>
    if hi < 128 then .ok else
    match checkStrings N ranges with
    | some bs => .failBytes bs
    | none => .ok

def classCheck (N : Nfa.NFA) (ranges : List (Nat × Nat)) (lo hi : Nat) : String :=
  (classCheckV N ranges lo hi).render

end Cx.ClassCheck
