import Cx.Model.MetaFind
/-
  Cx.Model.MetaFind2 — the REMAINING strategy loops of the meta engine: UseDigitPrefilter, UseTeddy, UseAhoCorasick and the
  boolean entry point of UseBoundedBacktracker (`meta/find_indices.go`, `meta/ismatch.go`, `meta/find.go`, `meta/engine.go`;
  line numbers of the snapshot `repo_head`), transliterated branch by branch over ABSTRACT component oracles, in the style of
  `Cx.Model.MetaFind` (whose `Oracles` / `Params` / NFA functions are reused: `Oracles2` / `Params2` extend them).

  Go                                                                              Lean (namespace Cx.MetaFind2)
  ------------------------------------------------------------------------------------------------------------------------
  e.digitPrefilter.Find(haystack, pos) = simd.MemchrDigitAt(haystack, pos)
      (find_indices.go l.1024,1075,1120; ismatch.go l.296; prefilter/digit.go l.73; -1 = none)  Oracles2.digitFind h pos
                                                                                   (a computed instance: `memchrDigit`)
  e.dfa.SearchAtAnchoredStopAt(cache, haystack, digitPos) = (endPos, stop)
      (find_indices.go l.1033,1084,1128; ismatch.go l.308; dfa/lazy/lazy.go l.224-305)           Oracles2.anchStop h d = (end?, stop)
  e.dfa.IsMatchAt(cache, haystack, at)            (find_indices.go l.1002; ismatch.go l.313)     Oracles.fwdIsMatchAt h at
  state.pikevm.SearchAt(haystack, at)             (find_indices.go l.1006,1043,1094,1138; ismatch.go l.318)   Oracles.pike h at
  e.digitPrefilter != nil / e.digitRunSkipSafe / e.dfa != nil                                    Params2.hasDigitPrefilter / .digitRunSkipSafe / Params.hasDFA
  candidateBudgetFactor = 32, candidateBudgetAllowance = 4096          (find_indices.go l.975-983)   Params2.budgetFactor / .budgetAllowance
      (parameters, so that small counter-models and tests exist; the defaults are the constants)
  candidateBudget{origin, spent}; (b *candidateBudget) charge(pos, stop)      (l.970-991)        the loop state `spent`, the argument `origin`; `budgetOK`
  findIndicesAfterBudget(haystack, at, state)                                 (l.998-1007)       afterBudget
  `for pos < len(haystack) && haystack[pos] >= '0' && haystack[pos] <= '9' { pos++ }`
      (l.1050-1054, 1098-1102, 1142-1146; ismatch.go l.324-328)                                  skipDigits / nextPos
  the `for pos < len(haystack)` loop of findIndicesDigitPrefilter / …At / …AtWithState
      (l.1023-1055, 1074-1103, 1119-1147: three copies of the same text)                         digitLoop   (fuel = iterations left)
  findIndicesDigitPrefilter                                                   (l.1010-1058)      findIndicesDigitPrefilter
  findIndicesDigitPrefilterAt                                                 (l.1061-1106)      findIndicesDigitPrefilterAt
  findIndicesDigitPrefilterAtWithState                                        (l.1110-1150)      findIndicesDigitPrefilterAtWithState
  isMatchDigitPrefilter: the loop, the function                       (ismatch.go l.295-329, 282-332)   isMatchDigitLoop, isMatchDigitPrefilter
  findFromFirstDigit / findDigitPrefilter / findDigitPrefilterAt (find.go l.686-711, 673-683, 714-721; span of the *Match)
                                                                                                 findFromFirstDigit / findDigitPrefilter / findDigitPrefilterAt
  findNFA(haystack) = pikevm.Search, findNFAAt(haystack, at) = pikevm.SearchAt (find.go l.159-171, 293-300)   Oracles.pike h 0 / h at
  e.dfa.FindAt(cache, haystack, digitPos) (find.go l.699; only `== -1` is read)                   Oracles.fwdFindAt h d

  e.prefilter.(FindMatch).FindMatch(haystack, at)   (find_indices.go l.909-914, 938-943)         Oracles.pfFindMatch h at
  e.prefilter.Find(haystack, at), .LiteralLen()     (l.918-926, 947-955)                         Oracles.pfFind h at, Params.literalLen
  findIndicesTeddy / findIndicesTeddyAt                                       (l.901-927, 930-956)   findIndicesTeddy / findIndicesTeddyAt
  e.fatTeddyFallback != nil, fatTeddySmallHaystackThreshold = 64 (find.go l.571)                 Params2.hasFatFallback / .fatThreshold
      (compile.go l.609-625: built only for a Fat Teddy prefilter whose literal set has no nesting)   fatFallbackBuilt
  e.fatTeddyFallback.Find(haystack, 0) / .Find(haystack, at) / .IsMatch(haystack)
      (find.go l.585, 626; ismatch.go l.273)                                                     Oracles2.fatFind h 0 / .fatFind h at / .fatIsMatch h
  findTeddy / findTeddyAt (find.go l.576-614, 617-654; span of the *Match)                        findTeddy / findTeddyAt
      (as of a92eaaa `findTeddyAt` called the ANCHORED `fatTeddyFallback.FindAt`: kept as the wrong variant
       `findTeddyAtAnchored` over `Oracles2.fatFindAt`, `cex_fat_findAt_anchored`)
  isMatchTeddy                                                                (ismatch.go l.265-278)   isMatchTeddy
  e.ahoCorasick != nil; e.ahoCorasick.Find(haystack, at); .IsMatch(haystack)
      (find_indices.go l.1172; ismatch.go l.341)                                                 Params2.hasAho; Oracles2.ahoFind h at; .ahoIsMatch h
  e.ahoCorasickNested, e.ahoCorasickMaxLen (engine.go l.99-100; compile.go l.136-145)            Params2.acNested / .acMaxLen
  ahoCorasickSpan(haystack, at)                                      (find_indices.go l.1171-1186)   ahoCorasickSpan
      `lo := m.End - e.ahoCorasickMaxLen; if lo < at { lo = at }` (Go ints)                      `max at (e - acMaxLen)` (Nat: truncated, same value)
      `state.pikevm.SearchWithSlotTableAt(haystack, lo, nfa.SearchModeFind)`                     Oracles.pike h lo  (as in findIndicesNFAAt)
  findIndicesAhoCorasick / findIndicesAhoCorasickAt                  (find_indices.go l.1153-1160, 1189-1196)   findIndicesAhoCorasick / …At
  isMatchAhoCorasick                                                          (ismatch.go l.336-342)   isMatchAhoCorasick
  findAhoCorasick / findAhoCorasickAt (find.go l.727-738, 741-752; span of the *Match)             findAhoCorasick / findAhoCorasickAt
  prefilter.HasNestedLiteral(lits)                                   (prefilter/ahocorasick.go l.68-77)   hasNestedLiteral  (`bytes.Contains` = containsSub)
  the `maxLen` loops of compile.go l.136-138 / newACPrefilter l.41-43                            litMaxLen
  (p *AhoCorasickPrefilter) Find(haystack, start)                    (prefilter/ahocorasick.go l.80-106)  ahoPrefilterFind (over the automaton's
      p.ac.Find / p.ac.FindAt, p.nested, p.maxLen)                                                 `Find` / `FindAt` as function arguments)
  Find / FindAt / findAtZero / findAtNonZero restricted to the three strategies (find.go l.29-155)   engineFindAt

  e.anchoredSuffix, bytes.HasSuffix(haystack, e.anchoredSuffix)               (ismatch.go l.204)   Params2.anchoredSuffix, hasSuffix
  e.asciiBoundedBacktracker.IsMatch(haystack)                                 (ismatch.go l.218)   Oracles2.asciiIsMatch h
  e.pikevm.IsMatch(haystack) (l.215, 223), e.boundedBacktracker.IsMatchWithState (l.229)         Oracles.pikeIsMatch h, Oracles.btIsMatch h
  isMatchBoundedBacktracker                                                   (ismatch.go l.189-230)   isMatchBoundedBacktracker

  searchStrategy()  (engine.go l.266-277: in leftmost-longest mode UseDigitPrefilter / UseTeddy / UseAhoCorasick are
      searched by the NFA functions)                                                             searchesWithNFA (= `P.longest`)
  FindIndices / FindIndicesAt / findIndicesAtWithState restricted to the three strategies
      (find_indices.go l.20-57, 61-101, 1189-1229)                                               findIndices / findIndicesAt / findIndicesAtWithState
  IsMatch restricted to UseDigitPrefilter / UseTeddy / UseAhoCorasick / UseBoundedBacktracker
      (ismatch.go l.27-64: switches on `e.strategy`, NOT on `searchStrategy()`)                  isMatch

  Left out: statistics counters, the `SearchState` pool (the DFA cache is invisible: `Cx.Proofs.DfaCache`), the `*Match`
  wrappers.  `-1` answers are `none`; a span is `(start, end)`.
  `b.spent += stop - pos` and `pos - b.origin` are Go `int`s; the model subtracts in `Nat`.  The two agree when `pos ≤ stop`
  and `origin ≤ pos`, which `SearchAtAnchoredStopAt` (stop = the index after the last byte read, or `len(haystack)`) and
  `MemchrDigitAt` (result ≥ start) guarantee — the correctness theorems do not depend on `stop` at all; the cost theorem
  assumes `stop ≤ len(haystack)`.

  `digitLoopT` / `findIndicesDigitPrefilterAtT` / `isMatchDigitPrefilterT` are the same functions instrumented with the list
  of windows `[digitPos, stop)` the anchored scans read and the start offsets of the fallback searches (erasure:
  `Cx.MetaFind2.digitLoopT_fst` …), for the linear-work bound.
-/
namespace Cx.MetaFind2
open Cx
open Cx.MetaFind (Span)
open Cx.RevSuffix (findFirst occursAt)

/-- the components the three strategies call, on top of those of the core dispatch -/
structure Oracles2 extends MetaFind.Oracles where
  /-- `digitPrefilter.Find(haystack, pos)` -/
  digitFind : Bytes → Nat → Option Nat
  /-- `dfa.SearchAtAnchoredStopAt(cache, haystack, at)` = (end of the match starting exactly at `at`, how far the scan read) -/
  anchStop : Bytes → Nat → Option Nat × Nat
  /-- `ahoCorasick.Find(haystack, at)` -/
  ahoFind : Bytes → Nat → Option Span
  /-- `ahoCorasick.IsMatch(haystack)` -/
  ahoIsMatch : Bytes → Bool
  /-- `fatTeddyFallback.Find(haystack, start)` -/
  fatFind : Bytes → Nat → Option Span
  /-- `fatTeddyFallback.FindAt(haystack, at)`, the ANCHORED match at `at` — no longer called (HEAD: `findTeddyAt` calls `Find`);
      kept for the wrong variant `findTeddyAtAnchored` and the driver protocol -/
  fatFindAt : Bytes → Nat → Option Span
  /-- `fatTeddyFallback.IsMatch(haystack)` -/
  fatIsMatch : Bytes → Bool
  /-- `asciiBoundedBacktracker.IsMatch(haystack)` -/
  asciiIsMatch : Bytes → Bool

/-- the fields of `Engine` the three strategies read, on top of those of the core dispatch -/
structure Params2 extends MetaFind.Params where
  hasDigitPrefilter : Bool := false
  digitRunSkipSafe : Bool := false
  hasAho : Bool := false
  /-- `e.ahoCorasickNested`: a literal of the Aho-Corasick set occurs inside another one -/
  acNested : Bool := false
  /-- `e.ahoCorasickMaxLen`: the length of the longest literal of the Aho-Corasick set -/
  acMaxLen : Nat := 0
  /-- `e.fatTeddyFallback != nil` (built only for literal sets without nesting: `fatFallbackBuilt`) -/
  hasFatFallback : Bool := false
  /-- `fatTeddySmallHaystackThreshold` -/
  fatThreshold : Nat := 64
  anchoredSuffix : Bytes := #[]
  /-- `candidateBudgetFactor` -/
  budgetFactor : Nat := 32
  /-- `candidateBudgetAllowance` -/
  budgetAllowance : Nat := 4096
  deriving Repr, Inhabited

/-- the strategies modelled here -/
inductive Strategy2 where
  | digit | teddy | aho
  deriving Repr, DecidableEq, Inhabited

/-! ### UseDigitPrefilter -/

/-- `'0' <= b && b <= '9'` -/
def isDigit (b : Nat) : Bool := decide (48 ≤ b) && decide (b ≤ 57)

/-- `simd.MemchrDigitAt(haystack, at)`: the least index `≥ at` holding an ASCII digit -/
def memchrDigit (h : Bytes) (at_ : Nat) : Option Nat := findFirst (fun i => isDigit (h.at i)) at_ (h.size - at_)

/-- `for pos < len(haystack) && haystack[pos] >= '0' && haystack[pos] <= '9' { pos++ }` (fuel = iterations left) -/
def skipDigits (h : Bytes) : Nat → Nat → Nat
  | 0, pos => pos
  | fuel+1, pos => if decide (pos < h.size) && isDigit (h.at pos) then skipDigits h fuel (pos + 1) else pos

/-- `pos = digitPos + 1`, then the run skip `if e.digitRunSkipSafe` -/
def nextPos (P : Params2) (h : Bytes) (d : Nat) : Nat :=
  if P.digitRunSkipSafe then skipDigits h (h.size - (d + 1)) (d + 1) else d + 1

/-- `b.spent <= candidateBudgetFactor*(pos-b.origin)+candidateBudgetAllowance` (after `b.spent += stop - pos`) -/
def budgetOK (P : Params2) (origin spent d : Nat) : Bool := decide (spent ≤ P.budgetFactor * (d - origin) + P.budgetAllowance)

/-- `findIndicesAfterBudget(haystack, at, state)` -/
def afterBudget (O : Oracles2) (P : Params2) (h : Bytes) (at_ : Nat) : Option Span :=
  if at_ > h.size then none
  else if P.hasDFA && !O.fwdIsMatchAt h at_ then none
  else O.pike h at_

/-- the candidate loop of `findIndicesDigitPrefilter` / `…At` / `…AtWithState`; state `pos`, `budget.spent` -/
def digitLoop (O : Oracles2) (P : Params2) (h : Bytes) (origin : Nat) : Nat → Nat → Nat → Option Span
  | 0, _, _ => none
  | fuel+1, pos, spent =>
    if pos < h.size then
      match O.digitFind h pos with
      | none => none                                           -- digitPos < 0
      | some d =>
        if P.hasDFA then
          match (O.anchStop h d).1 with
          | some e => some (d, e)                              -- endPos != -1
          | none =>
            let spent' := spent + ((O.anchStop h d).2 - d)     -- budget.charge(digitPos, stop)
            if budgetOK P origin spent' d then digitLoop O P h origin fuel (nextPos P h d) spent'
            else afterBudget O P h (d + 1)
        else O.pike h d                                        -- "PikeVM searches unanchored from digitPos: its answer is final."
    else none

/-- `findIndicesDigitPrefilter(haystack)` -/
def findIndicesDigitPrefilter (O : Oracles2) (P : Params2) (h : Bytes) : Option Span :=
  if !P.hasDigitPrefilter then MetaFind.findIndicesNFA O.toOracles P.toParams h
  else digitLoop O P h 0 h.size 0 0

/-- `findIndicesDigitPrefilterAt(haystack, at)` -/
def findIndicesDigitPrefilterAt (O : Oracles2) (P : Params2) (h : Bytes) (at_ : Nat) : Option Span :=
  if !P.hasDigitPrefilter || decide (at_ ≥ h.size) then MetaFind.findIndicesNFAAt O.toOracles P.toParams h at_
  else digitLoop O P h at_ (h.size - at_) at_ 0

/-- `findIndicesDigitPrefilterAtWithState(haystack, at, state)`: the same text with the caller's `SearchState`
    (`findIndicesNFAAtWithState` = `findIndicesNFAAt` in the model) -/
def findIndicesDigitPrefilterAtWithState (O : Oracles2) (P : Params2) (h : Bytes) (at_ : Nat) : Option Span :=
  findIndicesDigitPrefilterAt O P h at_

/-- the loop of `isMatchDigitPrefilter` -/
def isMatchDigitLoop (O : Oracles2) (P : Params2) (h : Bytes) (origin : Nat) : Nat → Nat → Nat → Bool
  | 0, _, _ => false
  | fuel+1, pos, spent =>
    if pos < h.size then
      match O.digitFind h pos with
      | none => false
      | some d =>
        if P.hasDFA then
          match (O.anchStop h d).1 with
          | some _ => true
          | none =>
            let spent' := spent + ((O.anchStop h d).2 - d)
            if budgetOK P origin spent' d then isMatchDigitLoop O P h origin fuel (nextPos P h d) spent'
            else O.fwdIsMatchAt h (d + 1)                      -- e.dfa.IsMatchAt(state.dfaCache, haystack, digitPos+1)
        else (O.pike h d).isSome
    else false

/-- `isMatchDigitPrefilter(haystack)` -/
def isMatchDigitPrefilter (O : Oracles2) (P : Params2) (h : Bytes) : Bool :=
  if !P.hasDigitPrefilter then MetaFind.isMatchNFA O.toOracles P.toParams h
  else isMatchDigitLoop O P h 0 h.size 0 0

/-- `findFromFirstDigit(haystack, at)` (find.go): no candidate loop — one unanchored search from the first digit -/
def findFromFirstDigit (O : Oracles2) (P : Params2) (h : Bytes) (at_ : Nat) : Option Span :=
  match O.digitFind h at_ with
  | none => none
  | some d =>
    if P.hasDFA && (O.fwdFindAt h d).isNone then none
    else O.pike h d

/-- `findDigitPrefilter(haystack)` (find.go), span of the `*Match`; `findNFA(haystack)` (find.go l.159-171) is
    `pikevm.Search(haystack)`, `findNFAAt(haystack, at)` (l.293-300) is `pikevm.SearchAt(haystack, at)` -/
def findDigitPrefilter (O : Oracles2) (P : Params2) (h : Bytes) : Option Span :=
  if !P.hasDigitPrefilter then O.pike h 0
  else if h.size = 0 then none
  else findFromFirstDigit O P h 0

/-- `findDigitPrefilterAt(haystack, at)` (find.go) -/
def findDigitPrefilterAt (O : Oracles2) (P : Params2) (h : Bytes) (at_ : Nat) : Option Span :=
  if !P.hasDigitPrefilter || decide (at_ ≥ h.size) then O.pike h at_
  else findFromFirstDigit O P h at_

/-! ### the same, instrumented: which bytes may the anchored scans and the fallback searches read?

`SearchAtAnchoredStopAt(h, d)` reads `h[d:stop]`; `IsMatchAt(h, a)` and `pikevm.SearchAt(h, a)` read `h[a:]` at most. -/

structure Trace where
  /-- `(digitPos, stop)` of the `SearchAtAnchoredStopAt` calls, in call order -/
  scans : List (Nat × Nat) := []
  /-- start offset of the `IsMatchAt` call of the fallback, if it is made -/
  fbIsMatch : Option Nat := none
  /-- start offset of the `pikevm.SearchAt` call, if it is made -/
  fbPike : Option Nat := none
  /-- number of `digitPrefilter.Find` calls -/
  digitCalls : Nat := 0
  deriving Repr, Inhabited, DecidableEq

def afterBudgetT (O : Oracles2) (P : Params2) (h : Bytes) (at_ : Nat) (t : Trace) : Option Span × Trace :=
  if at_ > h.size then (none, t)
  else if P.hasDFA then
    let t := { t with fbIsMatch := some at_ }
    if !O.fwdIsMatchAt h at_ then (none, t) else (O.pike h at_, { t with fbPike := some at_ })
  else (O.pike h at_, { t with fbPike := some at_ })

def digitLoopT (O : Oracles2) (P : Params2) (h : Bytes) (origin : Nat) : Nat → Nat → Nat → Trace → Option Span × Trace
  | 0, _, _, t => (none, t)
  | fuel+1, pos, spent, t =>
    if pos < h.size then
      let t := { t with digitCalls := t.digitCalls + 1 }
      match O.digitFind h pos with
      | none => (none, t)
      | some d =>
        if P.hasDFA then
          let t := { t with scans := t.scans ++ [(d, (O.anchStop h d).2)] }
          match (O.anchStop h d).1 with
          | some e => (some (d, e), t)
          | none =>
            let spent' := spent + ((O.anchStop h d).2 - d)
            if budgetOK P origin spent' d then digitLoopT O P h origin fuel (nextPos P h d) spent' t
            else afterBudgetT O P h (d + 1) t
        else (O.pike h d, { t with fbPike := some d })
    else (none, t)

/-- `findIndicesDigitPrefilterAt`, instrumented (the NFA branch — `digitPrefilter == nil`, or `at >= len(haystack)`: nothing
    left to read — is not instrumented) -/
def findIndicesDigitPrefilterAtT (O : Oracles2) (P : Params2) (h : Bytes) (at_ : Nat) : Option Span × Trace :=
  if !P.hasDigitPrefilter || decide (at_ ≥ h.size) then (MetaFind.findIndicesNFAAt O.toOracles P.toParams h at_, {})
  else digitLoopT O P h at_ (h.size - at_) at_ 0 {}

def findIndicesDigitPrefilterT (O : Oracles2) (P : Params2) (h : Bytes) : Option Span × Trace :=
  if !P.hasDigitPrefilter then (MetaFind.findIndicesNFA O.toOracles P.toParams h, {})
  else digitLoopT O P h 0 h.size 0 0 {}

def isMatchDigitLoopT (O : Oracles2) (P : Params2) (h : Bytes) (origin : Nat) : Nat → Nat → Nat → Trace → Bool × Trace
  | 0, _, _, t => (false, t)
  | fuel+1, pos, spent, t =>
    if pos < h.size then
      let t := { t with digitCalls := t.digitCalls + 1 }
      match O.digitFind h pos with
      | none => (false, t)
      | some d =>
        if P.hasDFA then
          let t := { t with scans := t.scans ++ [(d, (O.anchStop h d).2)] }
          match (O.anchStop h d).1 with
          | some _ => (true, t)
          | none =>
            let spent' := spent + ((O.anchStop h d).2 - d)
            if budgetOK P origin spent' d then isMatchDigitLoopT O P h origin fuel (nextPos P h d) spent' t
            else (O.fwdIsMatchAt h (d + 1), { t with fbIsMatch := some (d + 1) })
        else ((O.pike h d).isSome, { t with fbPike := some d })
    else (false, t)

def isMatchDigitPrefilterT (O : Oracles2) (P : Params2) (h : Bytes) : Bool × Trace :=
  if !P.hasDigitPrefilter then (MetaFind.isMatchNFA O.toOracles P.toParams h, {})
  else isMatchDigitLoopT O P h 0 h.size 0 0 {}

/-- bytes the anchored scans read -/
def scanCost (ws : List (Nat × Nat)) : Nat := (ws.map fun w => w.2 - w.1).sum

/-- upper bound on the bytes read by the anchored scans and the fallback searches of one call -/
def Trace.cost (t : Trace) (h : Bytes) : Nat :=
  scanCost t.scans + (match t.fbIsMatch with | some a => h.size - a | none => 0)
    + (match t.fbPike with | some a => h.size - a | none => 0)

/-! ### variants of the loop that are WRONG (counter-models of the design, `Cx.Proofs.MetaFind2`) -/

/-- the fallback restarted at `stop` (where the failed scan ended) instead of `digitPos + 1` -/
def digitLoopStopRestart (O : Oracles2) (P : Params2) (h : Bytes) (origin : Nat) : Nat → Nat → Nat → Option Span
  | 0, _, _ => none
  | fuel+1, pos, spent =>
    if pos < h.size then
      match O.digitFind h pos with
      | none => none
      | some d =>
        if P.hasDFA then
          match (O.anchStop h d).1 with
          | some e => some (d, e)
          | none =>
            let spent' := spent + ((O.anchStop h d).2 - d)
            if budgetOK P origin spent' d then digitLoopStopRestart O P h origin fuel (nextPos P h d) spent'
            else afterBudget O P h (O.anchStop h d).2
        else O.pike h d
    else none

/-- the budget charged PER SCAN (each scan is compared with the allowance on its own; nothing accumulates), instrumented -/
def digitLoopPerScanT (O : Oracles2) (P : Params2) (h : Bytes) (origin : Nat) : Nat → Nat → Trace → Option Span × Trace
  | 0, _, t => (none, t)
  | fuel+1, pos, t =>
    if pos < h.size then
      let t := { t with digitCalls := t.digitCalls + 1 }
      match O.digitFind h pos with
      | none => (none, t)
      | some d =>
        if P.hasDFA then
          let t := { t with scans := t.scans ++ [(d, (O.anchStop h d).2)] }
          match (O.anchStop h d).1 with
          | some e => (some (d, e), t)
          | none =>
            if budgetOK P origin ((O.anchStop h d).2 - d) d then digitLoopPerScanT O P h origin fuel (nextPos P h d) t
            else afterBudgetT O P h (d + 1) t
        else (O.pike h d, { t with fbPike := some d })
    else (none, t)

/-! ### UseTeddy -/

/-- the part of `findIndicesTeddy(At)` / `findTeddy(At)` after the guards: `FindMatch`, or `Find` + `LiteralLen`;
    `nfaAt` = `findIndicesNFAAt` (find_indices.go) / `findNFAAt` (find.go) -/
def teddyFrom (nfaAt : Nat → Option Span) (O : Oracles2) (P : Params2) (h : Bytes) (at_ : Nat) : Option Span :=
  if P.pfHasFindMatch then O.pfFindMatch h at_                                  -- (start, end) or not found
  else
    match O.pfFind h at_ with
    | none => none
    | some pos =>
      if P.literalLen > 0 then some (pos, pos + P.literalLen)
      else nfaAt pos

/-- `findIndicesTeddy(haystack)` -/
def findIndicesTeddy (O : Oracles2) (P : Params2) (h : Bytes) : Option Span :=
  if !P.hasPrefilter then MetaFind.findIndicesNFA O.toOracles P.toParams h
  else teddyFrom (MetaFind.findIndicesNFAAt O.toOracles P.toParams h) O P h 0

/-- `findIndicesTeddyAt(haystack, at)` -/
def findIndicesTeddyAt (O : Oracles2) (P : Params2) (h : Bytes) (at_ : Nat) : Option Span :=
  if !P.hasPrefilter || decide (at_ ≥ h.size) then MetaFind.findIndicesNFAAt O.toOracles P.toParams h at_
  else teddyFrom (MetaFind.findIndicesNFAAt O.toOracles P.toParams h) O P h at_

/-- `e.fatTeddyFallback != nil && len(haystack) < fatTeddySmallHaystackThreshold` -/
def useFatFallback (P : Params2) (h : Bytes) : Bool := P.hasFatFallback && decide (h.size < P.fatThreshold)

/-- `findTeddy(haystack)` (find.go), span of the `*Match` -/
def findTeddy (O : Oracles2) (P : Params2) (h : Bytes) : Option Span :=
  if !P.hasPrefilter then O.pike h 0
  else if useFatFallback P h then O.fatFind h 0
  else teddyFrom (O.pike h) O P h 0

/-- `findTeddyAt(haystack, at)` (find.go): the small-haystack fallback SEARCHES from `at` (`fatTeddyFallback.Find(haystack, at)`) -/
def findTeddyAt (O : Oracles2) (P : Params2) (h : Bytes) (at_ : Nat) : Option Span :=
  if !P.hasPrefilter || decide (at_ ≥ h.size) then O.pike h at_
  else if useFatFallback P h then O.fatFind h at_
  else teddyFrom (O.pike h) O P h at_

/-- WRONG variant (the code as of a92eaaa): the small-haystack fallback calls the anchored `FindAt` as if it were a search -/
def findTeddyAtAnchored (O : Oracles2) (P : Params2) (h : Bytes) (at_ : Nat) : Option Span :=
  if !P.hasPrefilter || decide (at_ ≥ h.size) then O.pike h at_
  else if useFatFallback P h then O.fatFindAt h at_
  else teddyFrom (O.pike h) O P h at_

/-- `isMatchTeddy(haystack)` -/
def isMatchTeddy (O : Oracles2) (P : Params2) (h : Bytes) : Bool :=
  if !P.hasPrefilter then MetaFind.isMatchNFA O.toOracles P.toParams h
  else if useFatFallback P h then O.fatIsMatch h
  else (O.pfFind h 0).isSome

/-! ### UseAhoCorasick -/

/-- `ahoCorasickSpan(haystack, at)`: the automaton reports the occurrence that ENDS first; it is returned as it is only when no
    literal occurs inside another one, otherwise the Pike VM decides from `lo = max(at, end − ahoCorasickMaxLen)` -/
def ahoCorasickSpan (O : Oracles2) (P : Params2) (h : Bytes) (at_ : Nat) : Option Span :=
  match O.ahoFind h at_ with
  | none => none                                                   -- !found
  | some (s, e) =>
    if !P.acNested then some (s, e)                                -- return m.Start, m.End, true
    else O.pike h (max at_ (e - P.acMaxLen))                       -- lo := m.End - maxLen; if lo < at { lo = at }

/-- WRONG variant (the code as of a92eaaa, before the fix commits): the automaton's answer returned as it is, whatever the literal set -/
def ahoCorasickSpanDirect (O : Oracles2) (_P : Params2) (h : Bytes) (at_ : Nat) : Option Span := O.ahoFind h at_

/-- `findIndicesAhoCorasick(haystack)` -/
def findIndicesAhoCorasick (O : Oracles2) (P : Params2) (h : Bytes) : Option Span :=
  if !P.hasAho then MetaFind.findIndicesNFA O.toOracles P.toParams h
  else ahoCorasickSpan O P h 0

/-- `findIndicesAhoCorasickAt(haystack, at)` -/
def findIndicesAhoCorasickAt (O : Oracles2) (P : Params2) (h : Bytes) (at_ : Nat) : Option Span :=
  if !P.hasAho || decide (at_ ≥ h.size) then MetaFind.findIndicesNFAAt O.toOracles P.toParams h at_
  else ahoCorasickSpan O P h at_

/-- `findAhoCorasick(haystack)` (find.go), span of the `*Match` -/
def findAhoCorasick (O : Oracles2) (P : Params2) (h : Bytes) : Option Span :=
  if !P.hasAho then O.pike h 0
  else ahoCorasickSpan O P h 0

/-- `findAhoCorasickAt(haystack, at)` (find.go) -/
def findAhoCorasickAt (O : Oracles2) (P : Params2) (h : Bytes) (at_ : Nat) : Option Span :=
  if !P.hasAho || decide (at_ ≥ h.size) then O.pike h at_
  else ahoCorasickSpan O P h at_

/-- `isMatchAhoCorasick(haystack)` -/
def isMatchAhoCorasick (O : Oracles2) (P : Params2) (h : Bytes) : Bool :=
  if !P.hasAho then MetaFind.isMatchNFA O.toOracles P.toParams h
  else O.ahoIsMatch h

/-! ### literal sets: `HasNestedLiteral`, the longest literal, the leftmost-first reference of an alternation of literals -/

/-- `bytes.Contains(b, a)` -/
def containsSub (b a : Bytes) : Bool := (List.range (b.size + 1)).any fun p => occursAt b a p

/-- `prefilter.HasNestedLiteral(lits)`: `for i, a := range lits { for j, b := range lits {
    if i != j && len(a) <= len(b) && bytes.Contains(b, a) { return true } } }` -/
def hasNestedLiteral (lits : List Bytes) : Bool :=
  (List.range lits.length).any fun i => (List.range lits.length).any fun j =>
    decide (i ≠ j) && decide ((lits.getD i #[]).size ≤ (lits.getD j #[]).size) && containsSub (lits.getD j #[]) (lits.getD i #[])

/-- the `maxLen` loop of compile.go / `newACPrefilter`: the length of the longest literal -/
def litMaxLen (lits : List Bytes) : Nat := lits.foldl (fun m l => max m l.size) 0

/-- compile.go l.609-625: the small-haystack automaton is built only for a Fat Teddy prefilter whose literals are not nested -/
def fatFallbackBuilt (isFatTeddy : Bool) (lits : List Bytes) : Bool := isFatTeddy && !hasNestedLiteral lits

/-- some literal of the set occurs at `p` -/
def anyLitAt (lits : List Bytes) (h : Bytes) (p : Nat) : Bool := lits.any fun l => occursAt h l p

/-- **the reference search of an alternation of literals** `l₀|l₁|…` (leftmost-first): the leftmost position `≥ a` where some
    literal occurs, and there the FIRST literal in list order that occurs -/
def refLit (lits : List Bytes) (h : Bytes) (a : Nat) : Option Span :=
  match findFirst (anyLitAt lits h) a (h.size + 1 - a) with
  | none => none
  | some p => (lits.find? fun l => occursAt h l p).map fun l => (p, p + l.size)

/-- what an Aho-Corasick automaton that stops at its first accepting state computes (brute force; the driver, the counter-models
    and the non-vacuity instance): the least END `e` of an occurrence starting at or after `a`, and the LONGEST literal that ends
    there (github.com/coregx/ahocorasick v0.3.0: `matches[0]` of the state = its own pattern, then those of the failure chain) -/
def endsFirst (lits : List Bytes) (h : Bytes) (a : Nat) : Option Span :=
  match findFirst (fun e => (List.range (e + 1 - a)).any fun k => lits.any fun l => decide (a + k + l.size = e) && occursAt h l (a + k))
      a (h.size + 1 - a) with
  | none => none
  | some e =>
    (findFirst (fun s => lits.any fun l => decide (s + l.size = e) && occursAt h l s) a (e + 1 - a)).map fun s => (s, e)

/-! ### `prefilter.AhoCorasickPrefilter.Find` -/

/-- `(p *AhoCorasickPrefilter) Find(haystack, start)`; `find` / `findAt` = `p.ac.Find` / `p.ac.FindAt` (the search and the anchored
    match of the dependency's automaton), `nested` / `maxLen` = `p.nested` / `p.maxLen` -/
def ahoPrefilterFind (find findAt : Bytes → Nat → Option Span) (nested : Bool) (maxLen : Nat) (h : Bytes) (start : Nat) :
    Option Nat :=
  if start ≥ h.size then none                                       -- start < 0 || start >= len(haystack)
  else
    match find h start with
    | none => none                                                  -- !found
    | some (s, e) =>
      if !nested then some s                                        -- return m.Start
      else
        let lo := max start (e - maxLen)                            -- lo := m.End - p.maxLen; if lo < start { lo = start }
        -- for pos := lo; pos < m.Start; pos++ { if _, ok := p.ac.FindAt(haystack, pos); ok { return pos } }
        match findFirst (fun pos => (findAt h pos).isSome) lo (s - lo) with
        | some pos => some pos
        | none => some s                                            -- return m.Start

/-- WRONG variant (the code before the fix): `m.Start` returned whatever the literal set -/
def ahoPrefilterFindDirect (find : Bytes → Nat → Option Span) (h : Bytes) (start : Nat) : Option Nat :=
  if start ≥ h.size then none else (find h start).map (·.1)

/-! ### `isMatchBoundedBacktracker` -/

/-- `bytes.HasSuffix(haystack, suffix)` -/
def hasSuffix (h suf : Bytes) : Bool := decide (suf.size ≤ h.size) && occursAt h suf (h.size - suf.size)

/-- `len(e.anchoredSuffix) > 0 && !bytes.HasSuffix(haystack, e.anchoredSuffix)` -/
def suffixRejects (P : Params2) (h : Bytes) : Bool := decide (P.anchoredSuffix.size > 0) && !hasSuffix h P.anchoredSuffix

/-- `isMatchBoundedBacktracker(haystack)` -/
def isMatchBoundedBacktracker (O : Oracles2) (P : Params2) (h : Bytes) : Bool :=
  if !P.hasBT then MetaFind.isMatchNFA O.toOracles P.toParams h
  else if MetaFind.firstByteRejects O.toOracles P.toParams h then false           -- l.196-200
  else if suffixRejects P h then false                                            -- l.204-206
  else if P.hasAsciiBT && MetaFind.isASCIIIn h 0 h.size then                      -- l.213
    if !O.asciiCanHandle h.size then O.pikeIsMatch h                              -- l.214-216
    else O.asciiIsMatch h                                                         -- l.218
  else if !O.btCanHandle h.size then O.pikeIsMatch h                              -- l.221-224
  else O.btIsMatch h                                                              -- l.229

/-! ### the dispatch -/

/-- `searchStrategy()` answers `UseNFA` for these strategies in leftmost-longest mode -/
def searchesWithNFA (P : Params2) : Bool := P.longest

/-- `FindIndices(haystack)` for UseDigitPrefilter / UseTeddy / UseAhoCorasick -/
def findIndices (O : Oracles2) (P : Params2) (st : Strategy2) (h : Bytes) : Option Span :=
  if searchesWithNFA P then MetaFind.findIndicesNFA O.toOracles P.toParams h
  else
    match st with
    | .digit => findIndicesDigitPrefilter O P h
    | .teddy => findIndicesTeddy O P h
    | .aho => findIndicesAhoCorasick O P h

/-- `FindIndicesAt(haystack, at)` -/
def findIndicesAt (O : Oracles2) (P : Params2) (st : Strategy2) (h : Bytes) (at_ : Nat) : Option Span :=
  if decide (at_ > 0) && P.alwaysAnchored then none                -- "anchored pattern can only match at position 0"
  else if searchesWithNFA P then MetaFind.findIndicesNFAAt O.toOracles P.toParams h at_
  else
    match st with
    | .digit => findIndicesDigitPrefilterAt O P h at_
    | .teddy => findIndicesTeddyAt O P h at_
    | .aho => findIndicesAhoCorasickAt O P h at_

/-- `findIndicesAtWithState(haystack, at, state)` -/
def findIndicesAtWithState (O : Oracles2) (P : Params2) (st : Strategy2) (h : Bytes) (at_ : Nat) : Option Span :=
  if decide (at_ > 0) && P.alwaysAnchored then none
  else if searchesWithNFA P then MetaFind.findIndicesNFAAt O.toOracles P.toParams h at_
  else
    match st with
    | .digit => findIndicesDigitPrefilterAtWithState O P h at_
    | .teddy => findIndicesTeddyAt O P h at_
    | .aho => findIndicesAhoCorasickAt O P h at_

/-- `IsMatch(haystack)` for the three strategies: the switch is on `e.strategy` whatever the matching mode
    (UseBoundedBacktracker: `isMatchBoundedBacktracker`) -/
def isMatch (O : Oracles2) (P : Params2) (st : Strategy2) (h : Bytes) : Bool :=
  match st with
  | .digit => isMatchDigitPrefilter O P h
  | .teddy => isMatchTeddy O P h
  | .aho => isMatchAhoCorasick O P h

/-- `Find(haystack)` = `FindAt(haystack, 0)`, `FindAt(haystack, at)` (find.go l.29-62, findAtZero l.66-103, findAtNonZero
    l.120-157) for the three strategies, span of the `*Match` -/
def engineFindAt (O : Oracles2) (P : Params2) (st : Strategy2) (h : Bytes) (at_ : Nat) : Option Span :=
  if at_ > h.size then none
  else if decide (at_ > 0) && P.alwaysAnchored then none
  else if at_ = 0 then
    if searchesWithNFA P then O.pike h 0                            -- findNFA
    else
      match st with
      | .digit => findDigitPrefilter O P h
      | .teddy => findTeddy O P h
      | .aho => findAhoCorasick O P h
  else
    if searchesWithNFA P then O.pike h at_                          -- findNFAAt
    else
      match st with
      | .digit => findDigitPrefilterAt O P h at_
      | .teddy => findTeddyAt O P h at_
      | .aho => findAhoCorasickAt O P h at_

/-! ### brute-force oracles (driver, counter-models, non-vacuity of the contracts) -/

/-- tables for ONE haystack (the haystack argument of the oracles is ignored), on top of `MetaFind.Tables`:
    `dig p` = the digit scan from `p`; `anch d` = `SearchAtAnchoredStopAt` at `d`; `aho a` = `ahoCorasick.Find`;
    `fat a` / `fatAt a` = the fallback automaton's `Find` / `FindAt`; the boolean entry points one by one, so that a table may
    also be WRONG -/
structure Tables2 extends MetaFind.Tables where
  dig : Nat → Option Nat := fun _ => none
  anchS : Nat → Option Nat × Nat := fun _ => (none, 0)
  aho : Nat → Option Span := fun _ => none
  fat : Nat → Option Span := fun _ => none
  fatAt : Nat → Option Span := fun _ => none
  pikeIs : Bool := false
  btIs : Bool := false
  asciiIs : Bool := false
  ahoIs : Bool := false
  fatIs : Bool := false

def bruteOracles2 (T : Tables2) : Oracles2 where
  toOracles := { MetaFind.bruteOracles T.toTables with pikeIsMatch := fun _ => T.pikeIs, btIsMatch := fun _ => T.btIs }
  digitFind := fun _ p => T.dig p
  anchStop := fun _ d => T.anchS d
  ahoFind := fun _ a => T.aho a
  ahoIsMatch := fun _ => T.ahoIs
  fatFind := fun _ a => T.fat a
  fatFindAt := fun _ a => T.fatAt a
  fatIsMatch := fun _ => T.fatIs
  asciiIsMatch := fun _ => T.asciiIs

end Cx.MetaFind2
