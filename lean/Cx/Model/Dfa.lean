import Cx.Model.Nfa
import Cx.Model.Pike
/-
  Cx.Model.Dfa — the lazy DFA of `dfa/lazy` (forward searches), transliterated.

  Correspondence (Go function → definition here)

  look.go / start.go
    LookSet, LookSet.Contains                         → `LookSet`, `LookSet.contains`
    LookSetFromStartKind, LookSetForEOI               → `lookOfKind`, (`lookEOI` inside `eoiLook`)
    StartKind, initByteMap, GetKind, isWordByte       → `StartKind`, `kindOfByte`, `kindAt`, `Nfa.isWordByte`
    ComputeStartStateWithStride + computeStartState   → `startState`
  builder.go
    epsilonClosureInto                                → `closureInto` (explicit stack, add-on-pop, `Contains` on pop)
    epsilonClosure                                    → `epsilonClosure`
    resolveLookAhead                                  → `resolveLookAhead` (look set: `aheadLook`)
    step (the move on the resolved thread list)       → `moveLoop` (`sparseInto`)
    containsMatchState / containsNFAMatch             → `containsMatch`
    checkEOIMatchLook / (*DFA).checkEOIMatch          → `checkEOI` (look set: `eoiLook`)
    checkHasWordBoundary / checkHasEndLine            → `hasWB`, `hasEndLine`
    lookBehindMask                                    → `hasStartText`, `hasStartLine`
    detectAccelExact                                  → `detectAccelExact`
  state.go
    StateID + tag bits                                → `Sid` (row index = offset / stride, four tag bits)
    State{id,isMatch,isFromWord,lookHave,nfaStates}   → `DState` (+ `CState` = state with its id and acceleration fields)
    computeStateKey / hashStateKey                    → `DState.key` (the tuple itself; FNV-64 collisions are not modelled)
  cache.go
    DFACache{states,stateList,flatTrans,startTable,nextID,clearCount}
                                                      → `Cache` (`list` is `stateList`; the `states` map holds exactly the
                                                        states registered in `stateList`, so lookup by key = `findKey`)
    MemoryUsage                                       → `memUsage`
    Insert (new state) + registerState                → `insertNew`
    SetFlatTransition / flat lookup with bounds guard → `setTrans`, `lookupT`
    getState                                          → `Cache.getState`
    ClearKeepMemory + tryClearCache's rebuild         → `clearRebuild`
  lazy.go
    determinize (pure part)                           → `step`          (state × byte → dead | limit | next state)
    determinize (cache part) + tryClearCache          → `determinize`   (after a clear: re-insert the successor)
    getStartState + startStateAfterClear              → `getStart`
    tryDetectAccelerationWithCache, accelerate        → `tryDetect`, `accelFind`
    searchAt                                          → `searchAtC`  (loop: `searchLoopC`),  uncached `searchAtU`
    searchEarliestMatch                               → `earliestC`  (loop: `earliestLoopC`), uncached `earliestU`
    SearchAtAnchoredStopAt (loop part, `end` result)  → `anchoredC`  (loop: `anchoredLoopC`), uncached `anchoredU`
    matchesEmptyAt                                    → `matchesEmptyAt` (look set: `emptyLook`)
    SearchAt / FindAt (prefilter == nil)              → `apiSearchAt`
    SearchAtAnchored                                  → `apiSearchAtAnchored`
    IsMatch / IsMatchAt                               → `apiIsMatch`, `apiIsMatchAt`
    nfaFallback / nfaFallbackAnchored / pikevm.SearchAt fallbacks
                                                      → outcome `Outcome.gaveUp` (the caller runs the Pike VM: unanchored
                                                        for SearchAt / IsMatch*, ANCHORED for SearchAtAnchored)

  "Uncached" (`…U`) is the same search with every transition recomputed by `step` on DFA-state VALUES and no ids;
  `Cx.Proofs.DfaCache` proves the cached searches equal to it (or `gaveUp`).

  Kept exactly as the code has it
    * a DFA state is the ORDERED list of all NFA states popped by the closure (epsilon/split/look/capture states
      included), `isMatch` is the 1-byte-delayed flag (source state contained a match state), `isFromWord`, and
      `lookHave` = the look-behind assertions that hold at its position, masked to the kinds occurring in the NFA
      (`lookBehindMask` ⊆ {StartText, StartLine}: the two booleans `lhText`, `lhLine`); all four are the cache key;
    * look-around is resolved inside `determinize`: if the NFA has `\b`/`\B`, or has `$` and the byte is `\n`, the
      thread list is RE-CLOSED IN ORDER (`resolveLookAhead`) with look set = lookHave + EndLine (byte is `\n`) +
      WordBoundary / NoWordBoundary (isFromWord vs isWord(byte)); source-has-match, break-at-match and the move are
      computed on that resolved list; targets are closed with `LookStartLine` after `\n`;
    * leftmost-first: `moveLoop` stops at the first match state when the source contains one (`breakAtMatch`);
    * every sparse transition containing the byte is followed (no first-wins);
    * end of input: ONE closure with lookHave ∪ {EndText, EndLine} ∪ {WordBoundary | NoWordBoundary};
    * `matchesEmptyAt(haystack, at)`: one closure from the ANCHORED start with the real look set of the position
      (no cache, no Pike VM);
    * the cache: ids are handed out sequentially from 1 (row 0 is used only by the StartText start state rebuilt after
      a clear), capacity is checked against `memUsage` before an insert; a failed insert triggers `clearRebuild`
      (if `clearCount < maxClears`, else give up) after which the NEW state is looked up / inserted in the cleared
      cache and returned like any successor (the transition from the vanished source row is not recorded); a start
      state that does not fit is inserted after a clear in the same way (counted against the clear limit) or the
      search gives up — no `InvalidState` id reaches the loops;
    * transitions are stored per byte CLASS (`cfg.cls`), the start tag is set on the state object when it is first
      used as a start state (ids stored in the table before that stay untagged);
    * the start-state fast transition of `searchAt`/`searchEarliestMatch`;
    * the 4x unrolled block (`fastStep` with a phase counter: the entry conditions `!hasWordBoundary`, `pos+3 < len`,
      state not accelerable, row exists are checked for transition 1 only);
    * state acceleration in `searchAt` / `searchEarliestMatch`: `tryDetect` (once per state object, on its first
      slow-path visit): accelerable iff ALL `stride` entries of the row are known, exit classes = dead or different
      row, exit bytes = ALL bytes of all exit classes, 1..3 of them; the use site skips to the next exit byte, and if
      there is none runs to the end of input and does the EOI check with the state unchanged; in `searchAt` the
      skipped bytes of a match-tagged state set `lastMatch = nextPos - 1`.  `SearchAtAnchored` never detects.
  Left out
    * prefilters (`findWithPrefilterAt`, start-state skip-ahead, `earliestPreSkip`): `Builder.buildPrefilter`
      returns nil, so a DFA built by `CompileWithConfig` has none;
    * the second result of `SearchAtAnchoredStopAt` (where the scan stopped), `searchFirstAt`,
      `searchEarliestMatchAnchored` (not called by `meta`), SIMD, statistics; the reverse searches
      (`SearchReverse`, `SearchReverseLimited`, `IsMatchReverse`, `reverseWalk`) are in `Cx.Model.DfaRev`;
    * `nfa.InvalidState` successor ids (never pushed by the code; dumped NFAs do not contain them);
    * rune states are not byte transitions for the DFA (the code ignores them as well);
    * byte classes `≥ stride` (the real `ByteClasses` never produce them; the flat table would alias the next row).

  Core-only and executable.
-/
namespace Cx.Dfa
open Cx Cx.Nfa

/-! ### look sets and start kinds (look.go, start.go) -/

structure LookSet where
  startText : Bool := false
  endText : Bool := false
  startLine : Bool := false
  endLine : Bool := false
  wordB : Bool := false
  noWordB : Bool := false
  deriving DecidableEq, Repr, Inhabited

def LookSet.contains (s : LookSet) : Look → Bool
  | .startText => s.startText
  | .endText => s.endText
  | .startLine => s.startLine
  | .endLine => s.endLine
  | .wordB => s.wordB
  | .noWordB => s.noWordB

inductive StartKind where
  | nonWord | word | text | lineLF | lineCR
  deriving DecidableEq, Repr, Inhabited

/-- `LookSetFromStartKind` -/
def lookOfKind : StartKind → LookSet
  | .text => { startText := true, startLine := true }
  | .lineLF => { startLine := true }
  | _ => {}

/-- `initByteMap` -/
def kindOfByte (b : Nat) : StartKind :=
  if b = 10 then .lineLF else if b = 13 then .lineCR else if isWordByte b then .word else .nonWord

/-- the kind `getStartState` selects for position `pos` -/
def kindAt (h : Bytes) (pos : Nat) : StartKind := if pos = 0 then .text else kindOfByte (h.at (pos - 1))

/-! ### static facts about the NFA (builder.go) -/

def hasLookWhere (N : NFA) (p : Look → Bool) : Bool :=
  N.states.toList.any fun s => match s with
    | .look k _ => p k
    | _ => false

/-- `checkHasWordBoundary` -/
def hasWB (N : NFA) : Bool := hasLookWhere N fun k => k == .wordB || k == .noWordB

/-- `checkHasEndLine` -/
def hasEndLine (N : NFA) : Bool := hasLookWhere N fun k => k == .endLine

/-- `lookBehindMask & LookStartText` -/
def hasStartText (N : NFA) : Bool := hasLookWhere N fun k => k == .startText

/-- `lookBehindMask & LookStartLine` -/
def hasStartLine (N : NFA) : Bool := hasLookWhere N fun k => k == .startLine

/-- `nfa.IsAlwaysAnchored()` -/
def alwaysAnchored (N : NFA) : Bool := N.startAnchored == N.startUnanchored

/-! ### epsilon closure (builder.go) -/

def closureFuel (N : NFA) : Nat := 2 * N.states.size + 2

/-- what `epsilonClosureInto` pushes for a popped state, top of the stack first (split pushes right, then left) -/
def succs (N : NFA) (lk : LookSet) (q : Nat) : List Nat :=
  match N.get q with
  | .eps nx => [nx]
  | .split l r => [l, r]
  | .look k nx => if lk.contains k then [nx] else []
  | .cap _ _ nx => [nx]
  | _ => []

/-- the `for len(stack) > 0` loop of `epsilonClosureInto`; `res` is the StateSet in insertion order -/
def closureInto (N : NFA) (lk : LookSet) : Nat → List Nat → List Nat → List Nat
  | 0, _, res => res
  | _+1, [], res => res
  | fuel+1, q :: st, res =>
    if res.contains q then closureInto N lk fuel st res
    else closureInto N lk fuel (succs N lk q ++ st) (res ++ [q])

/-- `epsilonClosureInto(result, seed, lookHave)` -/
def closeSeed (N : NFA) (lk : LookSet) (res : List Nat) (seed : Nat) : List Nat :=
  closureInto N lk (closureFuel N) [seed] res

/-- `epsilonClosure(states, lookHave)` -/
def epsilonClosure (N : NFA) (states : List Nat) (lk : LookSet) : List Nat :=
  states.foldl (closeSeed N lk) []

/-- `containsMatchState` / `containsNFAMatch` -/
def containsMatch (N : NFA) (states : List Nat) : Bool := states.any (Pike.isMatchState N)

/-! ### the move (builder.go: step) -/

/-- the `for _, tr := range state.Transitions()` loop -/
def sparseInto (N : NFA) (lk : LookSet) (b : Nat) : List (Nat × Nat × Nat) → List Nat → List Nat
  | [], res => res
  | (lo, hi, nx) :: ts, res =>
    if lo ≤ b ∧ b ≤ hi then sparseInto N lk b ts (closeSeed N lk res nx) else sparseInto N lk b ts res

/-- the loop of `step` over the resolved states; `brk` = breakAtMatch -/
def moveLoop (N : NFA) (lk : LookSet) (b : Nat) (brk : Bool) : List Nat → List Nat → List Nat
  | [], res => res
  | q :: qs, res =>
    match N.get q with
    | .mtch => if brk then res else moveLoop N lk b brk qs res
    | .byteRange lo hi nx =>
      if lo ≤ b ∧ b ≤ hi then moveLoop N lk b brk qs (closeSeed N lk res nx) else moveLoop N lk b brk qs res
    | .sparse ts => moveLoop N lk b brk qs (sparseInto N lk b ts res)
    | _ => moveLoop N lk b brk qs res

/-- look assertions satisfied after consuming `b` (`lookAfter` in `step`) -/
def lookAfter (b : Nat) : LookSet := if b = 10 then { startLine := true } else {}

/-! ### DFA states (state.go) and the pure part of `determinize` -/

structure DState where
  nfa : List Nat
  isMatch : Bool
  fromWord : Bool
  lhText : Bool := false      -- lookHave & LookStartText
  lhLine : Bool := false      -- lookHave & LookStartLine
  deriving DecidableEq, Repr, Inhabited

/-- `computeStateKey(nfaStates, isFromWord, isMatch, lookHave)` -/
def DState.key (s : DState) : List Nat × Bool × Bool × Bool × Bool := (s.nfa, s.fromWord, s.isMatch, s.lhText, s.lhLine)

/-- the state's `lookHave` as a look set -/
def DState.behind (s : DState) : LookSet := { startText := s.lhText, startLine := s.lhLine }

structure Config where
  capacity : Nat               -- effectiveCapacityBytes()
  maxClears : Nat              -- MaxCacheClears
  stride : Nat                 -- AlphabetLen()
  cls : Nat → Nat              -- byteToClass
  detLimit : Nat := 1000       -- DeterminizationLimit
  breakAtMatch : Bool := true  -- BreakAtMatch (false only for reverse DFAs)

/-- `ComputeStartStateWithStride(builder, nfa, {kind, anchored})` + `computeStartState` (lookHave) -/
def startState (N : NFA) (kind : StartKind) (anchored : Bool) : DState :=
  { nfa := epsilonClosure N [if anchored then N.startAnchored else N.startUnanchored] (lookOfKind kind),
    isMatch := false, fromWord := kind == .word,
    lhText := (lookOfKind kind).startText && hasStartText N,
    lhLine := (lookOfKind kind).startLine && hasStartLine N }

/-- the look set of `resolveLookAhead(states, lookBehind, isFromWord, input)` -/
def aheadLook (S : DState) (b : Nat) : LookSet :=
  { startText := S.lhText, startLine := S.lhLine, endLine := b == 10,
    wordB := S.fromWord != isWordByte b, noWordB := S.fromWord == isWordByte b }

/-- `resolveLookAhead(current.NFAStates(), current.lookHave, current.IsFromWord(), b)` -/
def resolveLookAhead (N : NFA) (S : DState) (b : Nat) : List Nat := epsilonClosure N S.nfa (aheadLook S b)

/-- the look set of `checkEOIMatchLook(states, isFromWord, lookBehind)` -/
def eoiLook (S : DState) : LookSet :=
  { startText := S.lhText, startLine := S.lhLine, endText := true, endLine := true,
    wordB := S.fromWord, noWordB := !S.fromWord }

inductive StepR where
  | dead
  | limit
  | next (T : DState)
  deriving DecidableEq, Repr, Inhabited

/-- the thread list `determinize` works on: re-closed when the byte decides an assertion -/
def resolved (N : NFA) (S : DState) (b : Nat) : List Nat :=
  if hasWB N || (hasEndLine N && b == 10) then resolveLookAhead N S b else S.nfa

/-- the cache-independent part of `determinize(cache, current, b)`: the target state as a value -/
def step (N : NFA) (cfg : Config) (S : DState) (b : Nat) : StepR :=
  let cur := resolved N S b
  let srcMatch := containsMatch N cur
  let next := moveLoop N (lookAfter b) b (srcMatch && cfg.breakAtMatch) cur []
  if next.isEmpty ∧ srcMatch = false then .dead
  else if next.length > cfg.detLimit then .limit
  else .next { nfa := next, isMatch := srcMatch, fromWord := isWordByte b,
               lhText := false, lhLine := b == 10 && hasStartLine N }

/-- `checkEOIMatch(state)` -/
def checkEOI (N : NFA) (S : DState) : Bool := containsMatch N (epsilonClosure N S.nfa (eoiLook S))

inductive Outcome (α : Type) where
  | gaveUp            -- the code runs the Pike VM instead (nfaFallback / nfaFallbackAnchored / pikevm.SearchAt)
  | ok (r : α)
  deriving DecidableEq, Repr, Inhabited

/-- the look set `matchesEmptyAt(haystack, at)` builds for `at = len(haystack)` -/
def emptyLook (h : Bytes) (at_ : Nat) : LookSet :=
  let prevIsWord := decide (at_ ≠ 0) && isWordByte (h.at (at_ - 1))
  { endText := true, endLine := true,
    startText := at_ == 0,
    startLine := at_ == 0 || h.at (at_ - 1) == 10,
    wordB := prevIsWord, noWordB := !prevIsWord }

/-- `matchesEmptyAt(haystack, at)` (called with `at = len(haystack)` only) -/
def matchesEmptyAt (N : NFA) (h : Bytes) (at_ : Nat) : Bool :=
  containsMatch N (epsilonClosure N [N.startAnchored] (emptyLook h at_))

/-! ### the searches without a cache: every transition is `step` on state values -/

/-- `searchAt`, loop -/
def searchLoopU (N : NFA) (cfg : Config) (h : Bytes) : Nat → Nat → DState → Option Nat → Outcome (Option Nat)
  | 0, _, _, last => .ok last
  | fuel+1, pos, S, last =>
    if pos < h.size then
      match step N cfg S (h.at pos) with
      | .dead => .ok last
      | .limit => .gaveUp
      | .next T => searchLoopU N cfg h fuel (pos+1) T (if T.isMatch then some pos else last)
    else if checkEOI N S then .ok (some h.size) else .ok last

/-- `searchAt(cache, haystack, startPos)` -/
def searchAtU (N : NFA) (cfg : Config) (h : Bytes) (startPos : Nat) : Outcome (Option Nat) :=
  if startPos > h.size then .ok none
  else if alwaysAnchored N ∧ startPos > 0 then .ok none
  else searchLoopU N cfg h (h.size + 1 - startPos) startPos (startState N (kindAt h startPos) false) none

/-- `searchEarliestMatch`, loop -/
def earliestLoopU (N : NFA) (cfg : Config) (h : Bytes) : Nat → Nat → DState → Outcome Bool
  | 0, _, _ => .ok false
  | fuel+1, pos, S =>
    if pos < h.size then
      match step N cfg S (h.at pos) with
      | .dead => .ok false
      | .limit => .gaveUp
      | .next T => if T.isMatch then .ok true else earliestLoopU N cfg h fuel (pos+1) T
    else .ok (checkEOI N S)

/-- `searchEarliestMatch(cache, haystack, startPos)` -/
def earliestU (N : NFA) (cfg : Config) (h : Bytes) (startPos : Nat) : Outcome Bool :=
  if startPos > h.size then .ok false
  else if alwaysAnchored N ∧ startPos > 0 then .ok false
  else earliestLoopU N cfg h (h.size + 1 - startPos) startPos (startState N (kindAt h startPos) false)

/-- `SearchAtAnchored(cache, haystack, at)` for `at < len(haystack)`: the same loop from the anchored start state -/
def anchoredU (N : NFA) (cfg : Config) (h : Bytes) (at_ : Nat) : Outcome (Option Nat) :=
  searchLoopU N cfg h (h.size + 1 - at_) at_ (startState N (kindAt h at_) true) none

/-! ### state ids and the cache (state.go, cache.go) -/

/-- a `StateID`: row index (`Offset()/stride`) and the tag bits -/
structure Sid where
  off : Nat
  inv : Bool := false
  dead : Bool := false
  start : Bool := false
  mtch : Bool := false
  deriving DecidableEq, Repr, Inhabited

/-- `InvalidState` -/
def Sid.invalid : Sid := { off := 0, inv := true }
/-- `DeadState` -/
def Sid.deadS : Sid := { off := 0, dead := true }
/-- `IsTagged()` -/
def Sid.tagged (s : Sid) : Bool := s.inv || s.dead || s.start || s.mtch

/-- a `*State`: the value and the id stored in it -/
structure CState where
  id : Sid
  st : DState
  accel : List Nat := []          -- accelBytes (1..3 exit bytes, or none)
  accelChecked : Bool := false    -- accelChecked
  deriving DecidableEq, Repr, Inhabited

structure Cache where
  list : List (Option CState)          -- stateList; its length is also len(flatTrans)/stride
  trans : Nat → Nat → Sid              -- flatTrans[row*stride + class]
  start : StartKind → Bool → Sid       -- startTable.states[anchored][kind]
  nextIdx : Nat                        -- nextID / stride
  clearCount : Nat

/-- `NewCache()` -/
def Cache.empty : Cache :=
  { list := [], trans := fun _ _ => Sid.invalid, start := fun _ _ => Sid.invalid, nextIdx := 1, clearCount := 0 }

def Cache.rows (c : Cache) : Nat := c.list.length

/-- `getState(id)` -/
def Cache.getState (c : Cache) (id : Sid) : Option CState :=
  if id.inv || id.dead then none else (c.list.getD id.off none)

/-- `states[key]` -/
def Cache.findKey (c : Cache) (key : List Nat × Bool × Bool × Bool × Bool) : Option CState :=
  c.list.findSome? fun o => match o with
    | some cs => if cs.st.key = key then some cs else none
    | none => none

/-- `MemoryUsage()` -/
def memUsage (cfg : Config) (c : Cache) : Nat :=
  c.rows * cfg.stride * 4 + c.rows * 8 +
    (c.list.map fun o => match o with
      | some cs => 48 + cs.st.nfa.length * 4 + cs.accel.length
      | none => 0).sum

/-- flat-table read with the `offset < ftLen` guard -/
def Cache.lookupT (c : Cache) (row k : Nat) : Sid := if row < c.rows then c.trans row k else Sid.invalid

/-- `SetFlatTransition(fromID, classIdx, toID)` -/
def Cache.setTrans (c : Cache) (row k : Nat) (t : Sid) : Cache :=
  if row < c.rows then { c with trans := fun r k' => if r = row ∧ k' = k then t else c.trans r k' } else c

/-- `registerState`: `stateList[idx] = state`, growing the list with nils -/
def setAt (l : List (Option CState)) (i : Nat) (v : CState) : List (Option CState) :=
  if i < l.length then l.set i (some v) else l ++ List.replicate (i - l.length) none ++ [some v]

/-- `Insert(key, state)` for a state that is not in the map and has no id yet, followed by `registerState` -/
def Cache.insertNew (cfg : Config) (c : Cache) (st : DState) : Option (CState × Cache) :=
  if memUsage cfg c ≥ cfg.capacity then none else
  let cs : CState := { id := { off := c.nextIdx, mtch := st.isMatch }, st := st }
  some (cs, { c with list := setAt c.list c.nextIdx cs, nextIdx := c.nextIdx + 1 })

/-- `ClearKeepMemory()` followed by the start-state rebuild of `tryClearCache` -/
def clearRebuild (N : NFA) (c : Cache) : Cache :=
  let id : Sid := { off := 0, start := true }
  { list := [some { id := id, st := startState N .text false }],
    trans := fun _ _ => Sid.invalid,
    start := fun k a => if k = .text ∧ a = false then id else Sid.invalid,
    nextIdx := 1,
    clearCount := c.clearCount + 1 }

inductive DetR where
  | dead                 -- (nil, nil)
  | next (cs : CState)   -- (state, nil)
  | fail                 -- (nil, error)
  deriving Repr, Inhabited

/-- the part of `determinize` after a failed insert: clear, then look the new state up in / insert it into the
    cleared cache -/
def afterClear (N : NFA) (cfg : Config) (c : Cache) (T : DState) : DetR × Cache :=
  if c.clearCount ≥ cfg.maxClears then (.fail, c) else
  let c1 := clearRebuild N c
  match c1.findKey T.key with
  | some ex => (.next ex, c1)
  | none =>
    match c1.insertNew cfg T with
    | some (cs, c2) => (.next cs, c2)
    | none => (.fail, c1)

/-- `determinize(cache, current, b)` -/
def determinize (N : NFA) (cfg : Config) (c : Cache) (cur : CState) (b : Nat) : DetR × Cache :=
  match step N cfg cur.st b with
  | .dead => (.dead, c.setTrans cur.id.off (cfg.cls b) Sid.deadS)
  | .limit => (.fail, c)
  | .next T =>
    match c.findKey T.key with
    | some ex => (.next ex, c.setTrans cur.id.off (cfg.cls b) ex.id)
    | none =>
      match c.insertNew cfg T with
      | some (cs, c1) => (.next cs, c1.setTrans cur.id.off (cfg.cls b) cs.id)
      | none => afterClear N cfg c T

/-- tag the state object at `cs.id.off` as a start state and record it in the start table -/
def Cache.tagStart (c : Cache) (cs : CState) (kind : StartKind) (anch : Bool) : CState × Cache :=
  let cs' : CState := { cs with id := { cs.id with start := true } }
  (cs', { c with list := c.list.set cs.id.off (some cs'),
                 start := fun k a => if k = kind ∧ a = anch then cs'.id else c.start k a })

/-- `GetOrInsert(key, state)` + register + start tag + start table, the common tail of `getStartState` and
    `startStateAfterClear`; `none` = the insert failed -/
def Cache.putStart (cfg : Config) (c : Cache) (st : DState) (kind : StartKind) (anch : Bool) :
    Option (CState × Cache) :=
  match c.findKey st.key with
  | some ex => some (c.tagStart ex kind anch)
  | none =>
    match c.insertNew cfg st with
    | some (cs, c1) => some (c1.tagStart cs kind anch)
    | none => none

/-- `getStartState(cache, haystack, pos, anchored)`; `none` = the caller falls back to the NFA -/
def getStart (N : NFA) (cfg : Config) (c : Cache) (h : Bytes) (pos : Nat) (anch : Bool) : Option CState × Cache :=
  let kind := kindAt h pos
  let id := c.start kind anch
  if id ≠ Sid.invalid then (c.getState id, c) else
  let st := startState N kind anch
  match c.putStart cfg st kind anch with
  | some r => (some r.1, r.2)
  | none =>
    -- startStateAfterClear
    if c.clearCount ≥ cfg.maxClears then (none, c) else
    let c1 := clearRebuild N c
    match c1.putStart cfg st kind anch with
    | some r => (some r.1, r.2)
    | none => (none, c1)

/-! ### the searches with the cache -/

/-! #### state acceleration (builder.go: detectAccelExact, lazy.go: tryDetectAccelerationWithCache, accelerate) -/

/-- `detectAccelExact(sid, flatTrans, stride, byteClasses)`: the exit BYTES, `[]` = not accelerable -/
def detectAccelExact (cfg : Config) (c : Cache) (sid : Sid) : List Nat :=
  if sid.dead || sid.inv || cfg.stride == 0 || decide (cfg.stride > 256) then [] else
  if ¬ sid.off < c.rows then [] else
  if (List.range cfg.stride).any (fun k => (c.trans sid.off k).inv) then [] else
  let ex := (List.range 256).filter fun b =>
    decide (cfg.cls b ≥ cfg.stride) || (c.trans sid.off (cfg.cls b)).dead || (c.trans sid.off (cfg.cls b)).off != sid.off
  if ex.length > 3 then [] else ex

/-- `tryDetectAccelerationWithCache(state, cache)`: runs once per state object -/
def tryDetect (cfg : Config) (c : Cache) (cs : CState) : CState × Cache :=
  if cs.accelChecked then (cs, c) else
  let ex := if cfg.stride > 0 then detectAccelExact cfg c cs.id else []
  let cs' : CState := { cs with accelChecked := true, accel := if 0 < ex.length ∧ ex.length ≤ 3 then ex else cs.accel }
  (cs', { c with list := c.list.set cs.id.off (some cs') })

/-- `accelerate(haystack, pos, exitBytes)`: position of the next exit byte (memchr/memchr2/memchr3), `none` = -1 -/
def accelFind (h : Bytes) (ex : List Nat) : Nat → Nat → Option Nat
  | 0, _ => none
  | fuel+1, pos => if pos ≥ h.size then none else if ex.contains (h.at pos) then some pos else accelFind h ex fuel (pos+1)

/-- where the slow path continues: the position of the next exit byte, the end of input if there is none -/
def accelPos (h : Bytes) (cur : CState) (pos : Nat) : Nat :=
  if cur.accel.isEmpty then pos else (accelFind h cur.accel (h.size + 1 - pos) pos).getD h.size

/-- `IsAccelerable()` of the state named by `sid` (`false` when there is no such state) -/
def accelerable (c : Cache) (sid : Sid) : Bool :=
  match c.getState sid with
  | some cs => !cs.accel.isEmpty
  | none => false

/-- One transition of the 4x unrolled block.  `k = 0`: block entry (the entry conditions are checked, transition 1);
    `k > 0`: transitions 2-4, taken without any check.  `none` = go to the slow path at the current position. -/
def fastStep (N : NFA) (cfg : Config) (c : Cache) (h : Bytes) (pos : Nat) (sid : Sid) (k : Nat) : Option Sid :=
  if k > 0 then
    let n := c.lookupT sid.off (cfg.cls (h.at pos))
    if n.tagged then none else some n
  else if !hasWB N && decide (pos + 3 < h.size) && !accelerable c sid && decide (sid.off < c.rows) then
    let n := c.trans sid.off (cfg.cls (h.at pos))
    if n.tagged then none else some n
  else none

/-- the unrolled-block phase after a successful fast transition -/
def nextPhase (k : Nat) : Nat := if k = 0 then 3 else k - 1

/-- the end-of-input check after the loops: `eoi := cache.getState(sid); eoi != nil && checkEOIMatch(eoi)` -/
def eoiC (N : NFA) (c : Cache) (sid : Sid) : Bool :=
  match c.getState sid with
  | some e => checkEOI N e.st
  | none => false

/-- `searchAt`, loop; `k` = phase of the 4x unrolled block -/
def searchLoopC (N : NFA) (cfg : Config) (h : Bytes) :
    Nat → Cache → Nat → Sid → Option Nat → Nat → Outcome (Option Nat) × Cache
  | 0, c, _, _, last, _ => (.ok last, c)
  | fuel+1, c, pos, sid, last, k =>
    if pos < h.size then
      match fastStep N cfg c h pos sid k with
      | some n => searchLoopC N cfg h fuel c (pos+1) n last (nextPhase k)
      | none =>
        let nx0 := c.lookupT sid.off (cfg.cls (h.at pos))
        if sid.start && nx0 != Sid.invalid && nx0 != Sid.deadS then
          searchLoopC N cfg h fuel c (pos+1) nx0 (if nx0.mtch then some pos else last) 0
        else
        match c.getState sid with
        | none => (.gaveUp, c)
        | some cur0 =>
          let dc := tryDetect cfg c cur0
          let cur := dc.1
          let c := dc.2
          let npos := accelPos h cur pos
          let last := if decide (npos > pos) && sid.mtch then some (npos - 1) else last
          if npos ≥ h.size then
            (if eoiC N c sid then (.ok (some h.size), c) else (.ok last, c))
          else
            let b := h.at npos
            let nx := c.lookupT sid.off (cfg.cls b)
            if nx = Sid.invalid then
              match determinize N cfg c cur b with
              | (.dead, c1) => (.ok last, c1)
              | (.next cs, c1) => searchLoopC N cfg h fuel c1 (npos+1) cs.id (if cs.id.mtch then some npos else last) 0
              | (.fail, c1) => (.gaveUp, c1)
            else if nx = Sid.deadS then (.ok last, c)
            else searchLoopC N cfg h fuel c (npos+1) nx (if nx.mtch then some npos else last) 0
    else
      (if eoiC N c sid then (.ok (some h.size), c) else (.ok last, c))

/-- `searchAt(cache, haystack, startPos)` -/
def searchAtC (N : NFA) (cfg : Config) (c : Cache) (h : Bytes) (startPos : Nat) : Outcome (Option Nat) × Cache :=
  if startPos > h.size then (.ok none, c)
  else if alwaysAnchored N ∧ startPos > 0 then (.ok none, c)
  else
    match getStart N cfg c h startPos false with
    | (none, c1) => (.gaveUp, c1)
    | (some cur, c1) => searchLoopC N cfg h (h.size + 1 - startPos) c1 startPos cur.id none 0

inductive FastE where
  | hit            -- a match-tagged target: return true
  | go (n : Sid)
  | slow

/-- one transition of the 4x unrolled block of `searchEarliestMatch` -/
def fastStepE (N : NFA) (cfg : Config) (c : Cache) (h : Bytes) (pos : Nat) (sid : Sid) (k : Nat) : FastE :=
  if k > 0 then
    let n := c.lookupT sid.off (cfg.cls (h.at pos))
    if n.tagged then (if n.mtch then .hit else .slow) else .go n
  else if !hasWB N && decide (pos + 3 < h.size) && !accelerable c sid && decide (sid.off < c.rows) then
    let n := c.trans sid.off (cfg.cls (h.at pos))
    if n.tagged then (if n.mtch then .hit else .slow) else .go n
  else .slow

/-- `searchEarliestMatch`, loop -/
def earliestLoopC (N : NFA) (cfg : Config) (h : Bytes) : Nat → Cache → Nat → Sid → Nat → Outcome Bool × Cache
  | 0, c, _, _, _ => (.ok false, c)
  | fuel+1, c, pos, sid, k =>
    if pos < h.size then
      match fastStepE N cfg c h pos sid k with
      | .hit => (.ok true, c)
      | .go n => earliestLoopC N cfg h fuel c (pos+1) n (nextPhase k)
      | .slow =>
        let nx0 := c.lookupT sid.off (cfg.cls (h.at pos))
        if sid.start && nx0 != Sid.invalid && nx0 != Sid.deadS then
          (if nx0.mtch then (.ok true, c) else earliestLoopC N cfg h fuel c (pos+1) nx0 0)
        else
        match c.getState sid with
        | none => (.gaveUp, c)
        | some cur0 =>
          let dc := tryDetect cfg c cur0
          let cur := dc.1
          let c := dc.2
          let npos := accelPos h cur pos
          if npos ≥ h.size then (.ok (eoiC N c sid), c)
          else
            let b := h.at npos
            let nx := c.lookupT sid.off (cfg.cls b)
            if nx = Sid.invalid then
              match determinize N cfg c cur b with
              | (.dead, c1) => (.ok false, c1)
              | (.next cs, c1) => if cs.id.mtch then (.ok true, c1) else earliestLoopC N cfg h fuel c1 (npos+1) cs.id 0
              | (.fail, c1) => (.gaveUp, c1)
            else if nx = Sid.deadS then (.ok false, c)
            else if nx.mtch then (.ok true, c) else earliestLoopC N cfg h fuel c (npos+1) nx 0
    else (.ok (eoiC N c sid), c)

/-- `searchEarliestMatch(cache, haystack, startPos)` -/
def earliestC (N : NFA) (cfg : Config) (c : Cache) (h : Bytes) (startPos : Nat) : Outcome Bool × Cache :=
  if startPos > h.size then (.ok false, c)
  else if alwaysAnchored N ∧ startPos > 0 then (.ok false, c)
  else
    match getStart N cfg c h startPos false with
    | (none, c1) => (.gaveUp, c1)
    | (some cur, c1) => earliestLoopC N cfg h (h.size + 1 - startPos) c1 startPos cur.id 0

/-- `SearchAtAnchoredStopAt`, loop -/
def anchoredLoopC (N : NFA) (cfg : Config) (h : Bytes) :
    Nat → Cache → Nat → Sid → Option Nat → Outcome (Option Nat) × Cache
  | 0, c, _, _, last => (.ok last, c)
  | fuel+1, c, pos, sid, last =>
    if pos < h.size then
      let b := h.at pos
      let nx := c.lookupT sid.off (cfg.cls b)
      if nx = Sid.invalid then
        match c.getState sid with
        | none => (.gaveUp, c)
        | some cur =>
          match determinize N cfg c cur b with
          | (.dead, c1) => (.ok last, c1)
          | (.next cs, c1) => anchoredLoopC N cfg h fuel c1 (pos+1) cs.id (if cs.id.mtch then some pos else last)
          | (.fail, c1) => (.gaveUp, c1)
      else if nx = Sid.deadS then (.ok last, c)
      else anchoredLoopC N cfg h fuel c (pos+1) nx (if nx.mtch then some pos else last)
    else
      (if eoiC N c sid then (.ok (some h.size), c) else (.ok last, c))

/-- `SearchAtAnchored(cache, haystack, at)` for `at < len(haystack)` -/
def anchoredC (N : NFA) (cfg : Config) (c : Cache) (h : Bytes) (at_ : Nat) : Outcome (Option Nat) × Cache :=
  match getStart N cfg c h at_ true with
  | (none, c1) => (.gaveUp, c1)
  | (some cur, c1) => anchoredLoopC N cfg h (h.size + 1 - at_) c1 at_ cur.id none

/-! ### the exported entry points -/

/-- `SearchAt(cache, haystack, at)`; also `FindAt` (a DFA built by `CompileWithConfig` has no prefilter) -/
def apiSearchAt (N : NFA) (cfg : Config) (c : Cache) (h : Bytes) (at_ : Nat) : Outcome (Option Nat) × Cache :=
  if at_ > h.size then (.ok none, c)
  else if at_ = h.size then (.ok (if matchesEmptyAt N h at_ then some at_ else none), c)
  else searchAtC N cfg c h at_

/-- `SearchAtAnchored(cache, haystack, at)` -/
def apiSearchAtAnchored (N : NFA) (cfg : Config) (c : Cache) (h : Bytes) (at_ : Nat) : Outcome (Option Nat) × Cache :=
  if at_ > h.size then (.ok none, c)
  else if at_ = h.size then (.ok (if matchesEmptyAt N h at_ then some at_ else none), c)
  else anchoredC N cfg c h at_

/-- `IsMatchAt(cache, haystack, at)` -/
def apiIsMatchAt (N : NFA) (cfg : Config) (c : Cache) (h : Bytes) (at_ : Nat) : Outcome Bool × Cache :=
  if at_ ≥ h.size then (.ok (if at_ = h.size then matchesEmptyAt N h at_ else false), c)
  else earliestC N cfg c h at_

/-- `IsMatch(cache, haystack)` -/
def apiIsMatch (N : NFA) (cfg : Config) (c : Cache) (h : Bytes) : Outcome Bool × Cache :=
  if h.size = 0 then (.ok (matchesEmptyAt N h 0), c) else earliestC N cfg c h 0

/-- the same entry points without a cache -/
def apiSearchAtU (N : NFA) (cfg : Config) (h : Bytes) (at_ : Nat) : Outcome (Option Nat) :=
  if at_ > h.size then .ok none
  else if at_ = h.size then .ok (if matchesEmptyAt N h at_ then some at_ else none)
  else searchAtU N cfg h at_

def apiSearchAtAnchoredU (N : NFA) (cfg : Config) (h : Bytes) (at_ : Nat) : Outcome (Option Nat) :=
  if at_ > h.size then .ok none
  else if at_ = h.size then .ok (if matchesEmptyAt N h at_ then some at_ else none)
  else anchoredU N cfg h at_

def apiIsMatchAtU (N : NFA) (cfg : Config) (h : Bytes) (at_ : Nat) : Outcome Bool :=
  if at_ ≥ h.size then .ok (if at_ = h.size then matchesEmptyAt N h at_ else false)
  else earliestU N cfg h at_

def apiIsMatchU (N : NFA) (cfg : Config) (h : Bytes) : Outcome Bool :=
  if h.size = 0 then .ok (matchesEmptyAt N h 0) else earliestU N cfg h 0

/-- `DefaultConfig()` (2 MB, 5 clears) without byte-class compression -/
def Config.plain : Config := { capacity := 2097152, maxClears := 5, stride := 256, cls := id }

/-! ### decidable side conditions used by the theorems -/

def stateTargets : NState → List Nat
  | .byteRange _ _ nx => [nx]
  | .sparse ts => ts.map (·.2.2)
  | .split l r => [l, r]
  | .eps nx => [nx]
  | .cap _ _ nx => [nx]
  | .look _ nx => [nx]
  | .runeAny nx => [nx]
  | .runeAnyNotNL nx => [nx]
  | _ => []

/-- every id mentioned in the automaton is a state -/
def wfB (N : NFA) : Bool :=
  decide (N.startAnchored < N.states.size) && decide (N.startUnanchored < N.states.size) &&
    N.states.toList.all fun s => (stateTargets s).all fun t => decide (t < N.states.size)

def lookFreeB (N : NFA) : Bool := !hasLookWhere N fun _ => true

/-- no `\A` / `^` / `(?m)^` state: the start state does not depend on the look-behind kind -/
def noStartLookB (N : NFA) : Bool := !hasLookWhere N fun k => k == .startText || k == .startLine

def noRuneB (N : NFA) : Bool := N.states.toList.all fun s => match s with
  | .runeAny _ => false
  | .runeAnyNotNL _ => false
  | _ => true

def rangesDisjointB : List (Nat × Nat × Nat) → Bool
  | [] => true
  | (lo, hi, _) :: ts => (ts.all fun t => decide (hi < t.1 ∨ t.2.1 < lo)) && rangesDisjointB ts

def sparseDisjointB (N : NFA) : Bool := N.states.toList.all fun s => match s with
  | .sparse ts => rangesDisjointB ts
  | _ => true

def rangeAgree (lo hi b b' : Nat) : Bool := decide ((lo ≤ b ∧ b ≤ hi) ↔ (lo ≤ b' ∧ b' ≤ hi))

def stateAgree (b b' : Nat) : NState → Bool
  | .byteRange lo hi _ => rangeAgree lo hi b b'
  | .sparse ts => ts.all fun t => rangeAgree t.1 t.2.1 b b'
  | _ => true

/-- `(?m)^` / `(?m)$` states occur (then `addLookBoundaries` makes `\n` a class of its own) -/
def hasLineLook (N : NFA) : Bool := hasLookWhere N fun k => k == .startLine || k == .endLine

/-- `b` and `b'` are not told apart by the look-around assertions occurring in the automaton: with a line assertion both or
    neither is `\n`, with `\b`/`\B` both or neither is a word byte (what `Builder.addLookBoundaries` guarantees for
    bytes of one class) -/
def lookAgree (N : NFA) (b b' : Nat) : Bool :=
  (!hasLineLook N || (decide (b = 10) == decide (b' = 10))) && (!hasWB N || (isWordByte b == isWordByte b'))

/-- bytes of one class are inside or outside every byte range of the automaton together, and are not told apart by its
    look-around assertions (what `nfa.ByteClasses` + `addLookBoundaries` are supposed to guarantee; sufficient for
    `ClassSound`) -/
def classCompatB (N : NFA) (cls : Nat → Nat) : Bool :=
  (List.range 256).all fun b => (List.range 256).all fun b' =>
    cls b != cls b' || (N.states.toList.all (stateAgree b b') && lookAgree N b b')

/-- the same for class maps that number contiguous byte intervals in increasing order (what `nfa.ByteClasses` builds);
    linear instead of quadratic -/
def classStepB (N : NFA) (cls : Nat → Nat) : Bool :=
  (List.range 255).all fun b =>
    decide (cls b ≤ cls (b+1)) &&
      (cls b != cls (b+1) || (N.states.toList.all (stateAgree b (b+1)) && lookAgree N b (b+1)))

/-- the unanchored start is the `(?s:.)*?` prefix the compiler emits: `u = split(startAnchored, a)`, `a = [00-FF] → u`,
    and no other state points to `u` or `a` -/
def prefixOKB (N : NFA) : Bool :=
  match N.get N.startUnanchored with
  | .split l a =>
    decide (l = N.startAnchored) &&
    (match N.get a with
     | .byteRange lo hi nx => decide (lo = 0) && decide (255 ≤ hi) && decide (nx = N.startUnanchored)
     | _ => false) &&
    decide (a ≠ N.startUnanchored) && decide (N.startAnchored ≠ N.startUnanchored) && decide (N.startAnchored ≠ a) &&
    (List.range N.states.size).all fun q =>
      (stateTargets (N.get q)).all fun t =>
        (decide (t ≠ N.startUnanchored) || decide (q = a)) && (decide (t ≠ a) || decide (q = N.startUnanchored))
  | _ => false

/-- an always-anchored automaton: no unanchored prefix (`startUnanchored = startAnchored`) and the start state is the
    `\A` assertion itself, so no match starts after offset 0 -/
def anchoredHeadB (N : NFA) : Bool :=
  alwaysAnchored N && (match N.get N.startAnchored with
    | .look .startText _ => true
    | _ => false)

end Cx.Dfa
