import Cx.Model.Nfa
import Cx.Model.Caps
/-
  Cx.Model.OnePass — the one-pass DFA of `dfa/onepass`, transliterated over the dumped NFA (code as of 2d44821).

    `hasUnsupportedLook N`  `look.go`: `reachableStates` (explicit stack, `seen` map), `successors`; rejects automata
                   with `\b`, `\B`, `(?m)$`, a start look reachable after a byte was consumed, or an end look `\z` with
                   a byte-consuming state behind it.
    `build N`      `builder.go`: `Build` (guards, state 0 = dead state) → `buildState` (memo map NFA root → DFA state,
                   rows of `stride` transitions) → `epsilonClosureOnePass` (explicit stack of `(nfaID, slots, atEnd)`,
                   `seen` set consulted when a state is PUSHED: a second epsilon path to a state rejects the pattern; a
                   second match state in one closure rejects it; the LEFT branch of a split is explored first; every
                   popped state becomes a closure entry flagged `matchWins` when a match state that is not behind an
                   end look precedes it) → `buildTransitions` (entries behind an end look are skipped; per byte class ONE
                   `(target, slots, matchWins)`, anything else rejects — slot masks are never merged);
                   `IsOnePass` (`IsAlwaysAnchored`, `hasUnsupportedLook`); `ErrNotOnePass` = `none`.
    `search T h n` `search.go`: `Search` (anchored at offset 0, leftmost-first); `searchLongest` = `SearchLongest`.
    `Trans`        `transition.go`: 64-bit encoding (next state ≪ 43 | match-wins ≪ 42 | slot mask).
    `classOf`      `nfa/alphabet.go`: byte classes from the boundaries `lo-1`, `hi` of every byte-range / sparse
                   transition of the automaton (checked against `n.ByteClasses()` by the harness).

  What is kept exactly as the code has it:
   * DFA state 0 is a real dead state (no match, every transition dead); ids of real states start at 1; a transition
     is dead iff its next state is 0;
   * per DFA state: `matchStates`, `endMatches` (the match state lies behind `\z`: it only counts at the end of the
     input), `matchSlots`;
   * start looks are followed unconditionally (sound because of the guard: they are only reachable at offset 0),
     end looks set `atEnd`;
   * slots of a transition = slots on the epsilon path from the DFA state's root to the byte state, recorded into the
     scratch array at the offset of the byte; a match copies the scratch array, records the match state's slots at
     the match offset, and sets slot 0 := 0, slot 1 := offset; the search goes on after a match when the transition
     it takes has priority over the match (`matchWins` clear) and falls back to the recorded match when that path dies.
  Panics are modelled as "no DFA" (`none`): `sparse.SparseSet.Insert` of a state id that is out of range (`push`),
  `conv.IntToUint32(n.States())` for more than 2^32-1 states (`build`).  `reach` carries a fuel that is never
  exhausted (every iteration pops one entry, every state pushes its successors once); running out is answered
  `none` = "unsupported".
  The Go code walks the per-state transition map in Go's (random) map order; that order only decides how DFA states
  are numbered.  The model walks byte classes in ascending order.  `CaptureCount() > 16` (→ `ErrTooManyCaptures`) is
  `buildFor`.  Core-only and executable.
-/
namespace Cx.Caps.OnePass
open Cx Cx.Nfa

/-! ### `transition.go` -/

structure Trans where
  next : Nat
  matchWins : Bool
  slots : Nat
  deriving Repr, DecidableEq, Inhabited

/-- `NewTransition(next, matchWins, slots)` as a 64-bit word -/
def Trans.encode (t : Trans) : Nat :=
  (t.next % 2^21) * 2^43 + (if t.matchWins then 2^42 else 0) + t.slots % 2^32

/-- `NextState()` -/
def wNext (w : Nat) : Nat := (w / 2^43) % 2^21
/-- `IsMatchWins()` -/
def wMatchWins (w : Nat) : Bool := (w / 2^42) % 2 = 1
/-- `SlotMask()` -/
def wSlots (w : Nat) : Nat := w % 2^32
/-- `IsDead()` -/
def wDead (w : Nat) : Bool := wNext w = 0

/-- `NewTransition(DeadState, false, 0)` -/
def deadWord : Nat := 0

/-! ### byte classes (`nfa/alphabet.go`) -/

/-- boundary bits set by `SetRange(lo, hi)` -/
def rangeBoundary (lo hi b : Nat) : Bool := (lo > 0 && b = lo - 1) || b = hi

def isBoundary (N : NFA) (b : Nat) : Bool :=
  N.states.toList.any fun s =>
    match s with
    | .byteRange lo hi _ => rangeBoundary lo hi b
    | .sparse ts => ts.any fun t => rangeBoundary t.1 t.2.1 b
    | _ => false

/-- `ByteClasses.Get(b)`: number of boundaries below `b` -/
def classOf (N : NFA) (b : Nat) : Nat := ((List.range b).filter (isBoundary N)).length

/-- the loop of `ByteClassSet.ByteClasses()`: `classes[b] = class; if boundary(b) { class++ }` -/
def classesFrom (N : NFA) : Nat → Nat → Nat → List Nat
  | 0, _, _ => []
  | fuel+1, b, cl => cl :: classesFrom N fuel (b+1) (if isBoundary N b then cl + 1 else cl)

/-- the table `ByteClasses.classes` -/
def classTable (N : NFA) : Array Nat := (classesFrom N 256 0 0).toArray

/-- `AlphabetLen()` -/
def alphabetLen (N : NFA) : Nat := classOf N 255 + 1

/-- `nextPowerOf2` (for `n ≥ 1`, `n ≤ 256`) -/
def nextPow2 (n : Nat) : Nat :=
  if n ≤ 1 then 1 else if n ≤ 2 then 2 else if n ≤ 4 then 4 else if n ≤ 8 then 8 else if n ≤ 16 then 16
  else if n ≤ 32 then 32 else if n ≤ 64 then 64 else if n ≤ 128 then 128 else 256

/-! ### `look.go` -/

/-- `nfa.InvalidState` -/
def invalidState : Nat := 4294967295

/-- byte-consuming kinds -/
def consuming (s : NState) : Bool :=
  match s with
  | .byteRange _ _ _ => true
  | .sparse _ => true
  | .runeAny _ => true
  | .runeAnyNotNL _ => true
  | _ => false

/-- the loop of `reachableStates` (top of the stack first); `none` = out of fuel (never happens) -/
def reachLoop (N : NFA) : Nat → List Nat → Array Bool → Option (Array Bool)
  | 0, _, _ => none
  | _+1, [], seen => some seen
  | fuel+1, id :: st, seen =>
    if id = invalidState ∨ seen.getD id false then reachLoop N fuel st seen else
    if id ≥ N.states.size then reachLoop N fuel st seen else          -- `n.State(id) == nil`
    reachLoop N fuel ((succStates (N.get id)).reverse ++ st) (seen.setIfInBounds id true)

def reachFuel (N : NFA) (roots : List Nat) : Nat :=
  roots.length + (N.states.toList.map fun s => (succStates s).length).sum + 1

/-- `reachableStates(n, roots)` as a characteristic array -/
def reach (N : NFA) (roots : List Nat) : Option (Array Bool) :=
  reachLoop N (reachFuel N roots) roots.reverse (Array.replicate N.states.size false)

/-- the `switch look` of `hasUnsupportedLook` for the look state `id`; `C` = `consumed` -/
def badLook (N : NFA) (C : Array Bool) (id : Nat) : Bool :=
  match N.get id with
  | .look .startText _ => C.getD id false
  | .look .startLine _ => C.getD id false
  | .look .endText nx =>
    match reach N [nx] with
    | none => true
    | some A => (List.range N.states.size).any fun q => A.getD q false && consuming (N.get q)
  | _ => true

def isLook (s : NState) : Bool :=
  match s with
  | .look _ _ => true
  | _ => false

/-- `hasUnsupportedLook(n)` -/
def hasUnsupportedLook (N : NFA) : Bool :=
  match reach N [N.startAnchored] with
  | none => true
  | some R =>
    let ids := (List.range N.states.size).filter fun q => R.getD q false
    let looks := ids.filter fun q => isLook (N.get q)
    let afterByte := ids.flatMap fun q => if consuming (N.get q) then succStates (N.get q) else []
    if looks.isEmpty then false else
    match reach N afterByte with
    | none => true
    | some C => looks.any (badLook N C)

/-! ### `builder.go` -/

/-- `stackEntry` -/
structure Entry where
  nfaID : Nat
  slots : Nat
  atEnd : Bool
  deriving Repr, Inhabited, DecidableEq

/-- `closureEntry` -/
structure CEntry where
  nfaID : Nat
  slots : Nat
  atEnd : Bool
  matchWins : Bool
  deriving Repr, Inhabited, DecidableEq

/-- closure under construction: `seen`, the DFS stack (top first), the entries popped so far, `matched`, `matchMask`,
    `matchEnd` -/
structure ClS where
  seen : Array Bool
  stack : List Entry
  closure : List CEntry
  matched : Bool
  matchMask : Nat
  matchEnd : Bool
  deriving Inhabited

/-- `stackPush`: a state that was already pushed rejects the pattern (`SparseSet.Insert` panics on an id that is out
    of range: no DFA either) -/
def push (s : ClS) (q slots : Nat) (atEnd : Bool) : Option ClS :=
  if s.seen.getD q false then none
  else if q ≥ s.seen.size then none
  else some { s with seen := s.seen.setIfInBounds q true, stack := ⟨q, slots, atEnd⟩ :: s.stack }

/-- `slots |= 1 << slotIdx` (for `slotIdx < 32`) -/
def setBit (mask i : Nat) : Nat := if i < 32 then mask ||| (1 <<< i) else mask

def isEndLook (k : Look) : Bool :=
  match k with
  | .endText => true
  | .endLine => true
  | _ => false

/-- the `for len(b.stack) > 0` loop of `epsilonClosureOnePass` -/
def closureLoop (N : NFA) : Nat → ClS → Option ClS
  | 0, s => (match s.stack with | [] => some s | _ => none)   -- never reached with the fuel `epsClosure` hands in
  | fuel+1, s =>
    match s.stack with
    | [] => some s
    | e :: st =>
      let s := { s with stack := st, closure := s.closure ++ [⟨e.nfaID, e.slots, e.atEnd, s.matched && !s.matchEnd⟩] }
      if e.nfaID ≥ N.states.size then closureLoop N fuel s else
      match N.get e.nfaID with
      | .mtch =>
        if s.matched then none
        else closureLoop N fuel { s with matched := true, matchMask := e.slots, matchEnd := e.atEnd }
      | .split l r =>
        match push s r e.slots e.atEnd with
        | none => none
        | some s1 =>
          match push s1 l e.slots e.atEnd with
          | none => none
          | some s2 => closureLoop N fuel s2
      | .eps nx =>
        match push s nx e.slots e.atEnd with
        | none => none
        | some s1 => closureLoop N fuel s1
      | .cap idx isStart nx =>
        match push s nx (setBit e.slots (slotIdx idx isStart)) e.atEnd with
        | none => none
        | some s1 => closureLoop N fuel s1
      | .look k nx =>
        if nx = invalidState then closureLoop N fuel s else
        match push s nx e.slots (e.atEnd || isEndLook k) with
        | none => none
        | some s1 => closureLoop N fuel s1
      | .runeAny _ => none
      | .runeAnyNotNL _ => none
      | _ => closureLoop N fuel s

/-- result of `epsilonClosureOnePass(root)`: closure entries, `isMatch`, `b.matchEnd`, `b.matchMask` -/
structure Closure where
  entries : List CEntry
  matched : Bool
  matchEnd : Bool
  matchMask : Nat
  deriving Inhabited

def initClS (N : NFA) : ClS :=
  { seen := Array.replicate N.states.size false, stack := [], closure := [], matched := false, matchMask := 0,
    matchEnd := false }

def epsClosure (N : NFA) (root : Nat) : Option Closure :=
  match push (initClS N) root 0 false with
  | none => none
  | some s0 =>
    match closureLoop N (3 * N.states.size + 3) s0 with
    | none => none
    | some s => some ⟨s.closure, s.matched, s.matchEnd, s.matchMask⟩

/-- `transInfo` -/
abbrev Info := Nat × Nat × Bool

/-- `byteTransitions` per byte class -/
abbrev BT := Array (Option Info)

/-- the body of `for by := lo; by <= hi; by++` -/
def addByte (cls : Array Nat) (info : Info) (bt : Option BT) (byte : Nat) : Option BT :=
  match bt with
  | none => none
  | some bt =>
    let cl := cls.getD byte 0
    match bt.getD cl none with
    | some ex => if ex ≠ info then none else some (bt.setIfInBounds cl (some info))
    | none => some (bt.setIfInBounds cl (some info))

/-- `for by := int(lo); by <= int(hi); by++` — `lo`, `hi` are bytes in the code, so every `by` is below 256 -/
def addRange (cls : Array Nat) (lo hi : Nat) (info : Info) (bt : Option BT) : Option BT :=
  (((List.range (hi + 1 - lo)).map (· + lo)).filter (· < 256)).foldl (addByte cls info) bt

/-- one closure entry of the first loop of `buildTransitions` -/
def stepEntry (N : NFA) (cls : Array Nat) (bt : Option BT) (e : CEntry) : Option BT :=
  if e.atEnd then bt else
  match N.get e.nfaID with
  | .byteRange lo hi nx => addRange cls lo hi (nx, e.slots, e.matchWins) bt
  | .sparse ts => ts.foldl (fun bt t => addRange cls t.1 t.2.1 (t.2.2, e.slots, e.matchWins) bt) bt
  | _ => bt

/-- the first loop of `buildTransitions`: the byte transitions of every closure entry -/
def byteTrans (N : NFA) (cls : Array Nat) (closure : List CEntry) : Option BT :=
  closure.foldl (stepEntry N cls) (some (Array.replicate 256 none))

/-- the DFA under construction -/
structure Builder where
  numStates : Nat
  table : Array Nat
  matchFlags : Array Bool
  endFlags : Array Bool
  matchSlots : Array Nat
  nfaToDFA : List (Nat × Nat)
  deriving Inhabited

def lookup (m : List (Nat × Nat)) (k : Nat) : Option Nat := (m.find? (·.1 = k)).map (·.2)

/-- `addState(isMatch, atEnd, matchMask)` -/
def addState (b : Builder) (stride : Nat) (isMatch atEnd : Bool) (matchMask : Nat) : Builder :=
  { b with numStates := b.numStates + 1,
           table := b.table ++ Array.replicate stride deadWord,
           matchFlags := b.matchFlags.push isMatch,
           endFlags := b.endFlags.push (isMatch && atEnd),
           matchSlots := b.matchSlots.push (if isMatch then matchMask else 0) }

/-- the second loop of `buildTransitions` for one byte class: build the target's DFA state (`rec` = `buildState`),
    store `NewTransition(nextDFA, matchWins, slots)` in the row that starts at `startIdx` -/
def rowStep (rec : Builder → Nat → Option (Builder × Nat)) (startIdx : Nat) (bt : BT) (acc : Option Builder) (cl : Nat) :
    Option Builder :=
  match acc with
  | none => none
  | some b =>
    match bt.getD cl none with
    | none => some b
    | some (tgt, sl, mw) =>
      match rec b tgt with
      | none => none
      | some (b, nextDFA) =>
        let idx := startIdx + cl
        if idx ≥ b.table.size then none
        else some { b with table := b.table.setIfInBounds idx (Trans.encode ⟨nextDFA, mw, sl⟩) }

def maxStateID : Nat := 2097151

/-- `buildState` / `buildTransitions` (mutually recursive in the code; `fuel` bounds the recursion depth, which is
    at most the number of distinct roots).  `clsL` is the list of byte classes walked by the second loop of
    `buildTransitions` (`List.range 256` in `build`) -/
def buildState (N : NFA) (cls : Array Nat) (stride : Nat) (clsL : List Nat) : Nat → Builder → Nat → Option (Builder × Nat)
  | 0, _, _ => none
  | fuel+1, b, root =>
    match lookup b.nfaToDFA root with
    | some sid => some (b, sid)
    | none =>
      match epsClosure N root with
      | none => none
      | some cl =>
        let sid := b.numStates
        if sid > maxStateID then none else
        let startIdx := b.table.size
        let b0 := addState b stride cl.matched cl.matchEnd cl.matchMask
        let b : Builder := { b0 with nfaToDFA := (root, sid) :: b0.nfaToDFA }
        match byteTrans N cls cl.entries with
        | none => none
        | some bt =>
          match clsL.foldl (rowStep (buildState N cls stride clsL fuel) startIdx bt) (some b) with
          | none => none
          | some b => some (b, sid)

/-- the finished DFA (`DFA` in `onepass.go`) -/
structure Table where
  stride : Nat
  table : Array Nat
  startState : Nat
  matchStates : Array Bool
  endMatches : Array Bool
  matchSlots : Array Nat
  classes : Array Nat
  deriving Inhabited

def emptyBuilder : Builder :=
  { numStates := 0, table := #[], matchFlags := #[], endFlags := #[], matchSlots := #[], nfaToDFA := [] }

/-- `IsOnePass(n)` without the capture-count check -/
def isOnePass (N : NFA) : Bool := N.startAnchored == N.startUnanchored && !hasUnsupportedLook N

/-- `Build(n)` without the capture-count check; `none` = `ErrNotOnePass` (or a panic) -/
def build (N : NFA) : Option Table :=
  if !isOnePass N then none else
  if N.states.size > invalidState then none else      -- `conv.IntToUint32(n.States())` panics
  let stride := nextPow2 (alphabetLen N)
  let cls := classTable N
  match buildState N cls stride (List.range 256) (N.states.size + 2) (addState emptyBuilder stride false false 0)
      N.startAnchored with
  | none => none
  | some (b, start) =>
    some { stride := stride, table := b.table, startState := start, matchStates := b.matchFlags,
           endMatches := b.endFlags, matchSlots := b.matchSlots, classes := cls }

/-- `Build(n)`: `nslots = CaptureCount*2` -/
def buildFor (N : NFA) (nslots : Nat) : Option Table := if nslots > 32 then none else build N

/-! ### `search.go` -/

/-- `getTransition(state, class)` -/
def getTransition (T : Table) (state cl : Nat) : Nat :=
  let idx := state * T.stride + cl
  if idx ≥ T.table.size then deadWord else T.table.getD idx deadWord

/-- `UpdateSlots` / `applyMatchSlots`: `slots[i] = pos` for every set bit `i < 32` of the mask -/
def applyMask (mask : Nat) (pos : Nat) (slots : Slots) : Slots :=
  (List.range 32).foldl (fun sl i => if mask.testBit i then sl.set i (pos : Int) else sl) slots

/-- the tail of `recordMatch`: `slots[0] = 0; slots[1] = pos` when there are at least two slots -/
def spanSlots (pos : Nat) (sl : Slots) : Slots :=
  if sl.length ≥ 2 then (sl.set 0 0).set 1 (pos : Int) else sl

/-- `recordMatch(cache, state, pos)`: the new content of `cache.slots` -/
def recordMatch (T : Table) (state pos : Nat) (scratch : Slots) : Slots :=
  spanSlots pos (applyMask (T.matchSlots.getD state 0) pos scratch)

/-- the main loop of `search(input, cache, longest)`; `best` = `cache.slots` once `matched` -/
def searchLoop (T : Table) (h : Bytes) (longest : Bool) : Nat → Nat → Nat → Slots → Option Slots → Option Slots
  | 0, _, _, _, best => best
  | fuel+1, pos, state, scratch, best =>
    if pos < h.size then
      let w := getTransition T state (T.classes.getD (h.at pos) 0)
      let isM := T.matchStates.getD state false && !T.endMatches.getD state false
      let best := if isM then some (recordMatch T state pos scratch) else best
      if isM && wMatchWins w && !longest then best else
      if wDead w then best else
      searchLoop T h longest fuel (pos+1) (wNext w) (applyMask (wSlots w) pos scratch) best
    else
      if T.matchStates.getD state false then some (recordMatch T state h.size scratch) else best

/-- `Search(input, cache)` with `len(cache.slots) = nslots` -/
def search (T : Table) (h : Bytes) (nslots : Nat) : Option Slots :=
  searchLoop T h false (h.size + 1) 0 T.startState (unset nslots) none

/-- `SearchLongest(input, cache)` -/
def searchLongest (T : Table) (h : Bytes) (nslots : Nat) : Option Slots :=
  searchLoop T h true (h.size + 1) 0 T.startState (unset nslots) none

/-- `IsMatch(input)` -/
def isMatchLoop (T : Table) (h : Bytes) : Nat → Nat → Nat → Bool
  | 0, _, _ => false
  | fuel+1, pos, state =>
    if pos < h.size then
      if T.matchStates.getD state false && !T.endMatches.getD state false then true else
      let w := getTransition T state (T.classes.getD (h.at pos) 0)
      if wDead w then false else isMatchLoop T h fuel (pos+1) (wNext w)
    else T.matchStates.getD state false

def isMatch (T : Table) (h : Bytes) : Bool := isMatchLoop T h (h.size + 1) 0 T.startState

/-! ### the DFA without the numbering (used by the proofs; checked against `search` by the harness) -/

/-- `search` re-expressed over NFA roots: the DFA state of root `r` is the closure of `r` -/
def orun (N : NFA) (cls : Array Nat) (h : Bytes) (longest : Bool) : Nat → Nat → Nat → Slots → Option Slots → Option Slots
  | 0, _, _, _, best => best
  | fuel+1, pos, root, scratch, best =>
    match epsClosure N root with
    | none => best
    | some c =>
      let mm := if c.matched then c.matchMask else 0
      if pos < h.size then
        match byteTrans N cls c.entries with
        | none => best
        | some bt =>
          let isM := c.matched && !(c.matched && c.matchEnd)
          let best := if isM then some (spanSlots pos (applyMask mm pos scratch)) else best
          match bt.getD (cls.getD (h.at pos) 0) none with
          | none => best
          | some (tgt, sl, mw) =>
            if isM && mw && !longest then best
            else orun N cls h longest fuel (pos+1) tgt (applyMask sl pos scratch) best
      else if c.matched then some (spanSlots h.size (applyMask mm h.size scratch)) else best

def orunSearch (N : NFA) (h : Bytes) (nslots : Nat) (longest : Bool) : Option Slots :=
  orun N (classTable N) h longest (h.size + 1) 0 N.startAnchored (unset nslots) none

/-! ### auxiliary decidable checks (reported by the driver; not needed by the theorems any more) -/

/-- no capture state for group 0 -/
def noCap0 (N : NFA) : Bool := N.states.toList.all fun s =>
  match s with
  | .cap idx _ _ => idx != 0
  | _ => true

/-- no look-around state -/
def noLook (N : NFA) : Bool := N.states.toList.all fun s =>
  match s with
  | .look _ _ => false
  | _ => true

end Cx.Caps.OnePass
