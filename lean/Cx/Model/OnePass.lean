import Cx.Model.Nfa
import Cx.Model.Caps
/-
  Cx.Model.OnePass — the one-pass DFA of `dfa/onepass`, transliterated over the dumped NFA.

    `build N`      `builder.go`: `Build` → `buildState` (memo map NFA root → DFA state, rows of `stride` transitions)
                   → `epsilonClosureOnePass` (explicit stack, `seen` set consulted when a state is PUSHED: a second
                   epsilon path to a state rejects the pattern; a second match state in one closure rejects it)
                   → `buildTransitions` (per byte class: one target NFA state, slots of the SOURCE closure entry,
                   OR-ed when two closure entries reach the same target) ; `IsOnePass` (`IsAlwaysAnchored`);
                   `ErrNotOnePass` = `none`.
    `search T h n` `search.go`: `Search` (anchored at offset 0).
    `Trans`        `transition.go`: 64-bit encoding (next state ≪ 43 | match-wins ≪ 42 | slot mask).
    `classOf`      `nfa/alphabet.go`: byte classes from the boundaries `lo-1`, `hi` of every byte-range / sparse
                   transition of the automaton (checked against `n.ByteClasses()` by the harness).

  What is kept exactly as the code has it:
   * DFA state ids are handed out from 0, and `DeadState` is 0 as well: the state of the anchored start is id 0, so
     every transition INTO the start state's DFA state is indistinguishable from "no transition" (`IsDead`);
   * look-around states are followed as plain epsilon moves — no assertion is ever evaluated;
   * `NewTransition(next, false, slots)`: the match-wins flag is never set, so `Search` only answers at the END of the
     input: the whole input must be consumed and the final state must be a match state;
   * slots of a transition = slots on the epsilon path from the DFA state's root to the byte state, recorded at the
     offset of the byte; the match state's slots are recorded at the end; slot 0 := 0, slot 1 := len(input);
   * a split pushes left, then right: the right branch is popped (explored) first.
  The Go code walks the per-state transition map in Go's (random) map order; that order only decides how DFA states
  are numbered.  The model walks byte classes in ascending order.  `CaptureCount() > 16` (→ `ErrTooManyCaptures`) is
  `buildFor`.  Core-only and executable.
-/
namespace Cx.Caps.OnePass
open Cx Cx.Nfa

/-! ### `transition.go` -/

structure Trans where
  next : Nat
  matchWins : Bool
  slots : Nat
  deriving Repr, DecidableEq, Inhabited

/-- `NewTransition(next, matchWins, slots)` as a 64-bit word -/
def Trans.encode (t : Trans) : Nat :=
  (t.next % 2^21) * 2^43 + (if t.matchWins then 2^42 else 0) + t.slots % 2^32

/-- `NextState()` -/
def wNext (w : Nat) : Nat := (w / 2^43) % 2^21
/-- `IsMatchWins()` -/
def wMatchWins (w : Nat) : Bool := (w / 2^42) % 2 = 1
/-- `SlotMask()` -/
def wSlots (w : Nat) : Nat := w % 2^32
/-- `IsDead()` -/
def wDead (w : Nat) : Bool := wNext w = 0

/-- `NewTransition(DeadState, false, 0)` -/
def deadWord : Nat := 0

/-! ### byte classes (`nfa/alphabet.go`) -/

/-- boundary bits set by `SetRange(lo, hi)` -/
def rangeBoundary (lo hi b : Nat) : Bool := (lo > 0 && b = lo - 1) || b = hi

def isBoundary (N : NFA) (b : Nat) : Bool :=
  N.states.toList.any fun s =>
    match s with
    | .byteRange lo hi _ => rangeBoundary lo hi b
    | .sparse ts => ts.any fun t => rangeBoundary t.1 t.2.1 b
    | _ => false

/-- `ByteClasses.Get(b)`: number of boundaries below `b` -/
def classOf (N : NFA) (b : Nat) : Nat := ((List.range b).filter (isBoundary N)).length

/-- the loop of `ByteClassSet.ByteClasses()`: `classes[b] = class; if boundary(b) { class++ }` -/
def classesFrom (N : NFA) : Nat → Nat → Nat → List Nat
  | 0, _, _ => []
  | fuel+1, b, cl => cl :: classesFrom N fuel (b+1) (if isBoundary N b then cl + 1 else cl)

/-- the table `ByteClasses.classes` -/
def classTable (N : NFA) : Array Nat := (classesFrom N 256 0 0).toArray

/-- `AlphabetLen()` -/
def alphabetLen (N : NFA) : Nat := classOf N 255 + 1

/-- `nextPowerOf2` (for `n ≥ 1`, `n ≤ 256`) -/
def nextPow2 (n : Nat) : Nat :=
  if n ≤ 1 then 1 else if n ≤ 2 then 2 else if n ≤ 4 then 4 else if n ≤ 8 then 8 else if n ≤ 16 then 16
  else if n ≤ 32 then 32 else if n ≤ 64 then 64 else if n ≤ 128 then 128 else 256

/-! ### `builder.go` -/

/-- `closureEntry` / `stackEntry` -/
structure Entry where
  nfaID : Nat
  slots : Nat
  deriving Repr, Inhabited

/-- closure under construction: `seen`, the DFS stack (top first), the entries popped so far, `matched`, `matchMask` -/
structure ClS where
  seen : Array Bool
  stack : List Entry
  closure : List Entry
  matched : Bool
  matchMask : Nat
  deriving Inhabited

/-- `stackPush`: a state that was already pushed rejects the pattern -/
def push (s : ClS) (q slots : Nat) : Option ClS :=
  if s.seen.getD q false then none
  else some { s with seen := s.seen.setIfInBounds q true, stack := ⟨q, slots⟩ :: s.stack }

/-- `slots |= 1 << slotIdx` (for `slotIdx < 32`) -/
def setBit (mask i : Nat) : Nat := if i < 32 then mask ||| (1 <<< i) else mask

/-- the `for len(b.stack) > 0` loop of `epsilonClosureOnePass` -/
def closureLoop (N : NFA) : Nat → ClS → Option ClS
  | 0, s => (match s.stack with | [] => some s | _ => none)   -- never reached with the fuel `epsClosure` hands in
  | fuel+1, s =>
    match s.stack with
    | [] => some s
    | e :: st =>
      let s := { s with stack := st, closure := s.closure ++ [e] }
      if e.nfaID ≥ N.states.size then closureLoop N fuel s else
      match N.get e.nfaID with
      | .mtch => if s.matched then none else closureLoop N fuel { s with matched := true, matchMask := e.slots }
      | .split l r =>
        match push s l e.slots with
        | none => none
        | some s1 =>
          match push s1 r e.slots with
          | none => none
          | some s2 => closureLoop N fuel s2
      | .eps nx =>
        match push s nx e.slots with
        | none => none
        | some s1 => closureLoop N fuel s1
      | .cap idx isStart nx =>
        match push s nx (setBit e.slots (slotIdx idx isStart)) with
        | none => none
        | some s1 => closureLoop N fuel s1
      | .look _ nx =>
        match push s nx e.slots with
        | none => none
        | some s1 => closureLoop N fuel s1
      | _ => closureLoop N fuel s

/-- `epsilonClosureOnePass(root)`: closure entries, `isMatch`, `matchMask` -/
def epsClosure (N : NFA) (root : Nat) : Option (List Entry × Bool × Nat) :=
  match push { seen := Array.replicate N.states.size false, stack := [], closure := [], matched := false, matchMask := 0 }
      root 0 with
  | none => none
  | some s0 =>
    match closureLoop N (3 * N.states.size + 3) s0 with
    | none => none
    | some s => some (s.closure, s.matched, s.matchMask)

/-- `transInfo` per byte class -/
abbrev BT := Array (Option (Nat × Nat))

/-- the body of `for by := lo; by <= hi; by++` -/
def addByte (cls : Array Nat) (next slots : Nat) (bt : Option BT) (byte : Nat) : Option BT :=
  match bt with
  | none => none
  | some bt =>
    let cl := cls.getD byte 0
    match bt.getD cl none with
    | some (tgt, sl) => if tgt ≠ next then none else some (bt.setIfInBounds cl (some (next, sl ||| slots)))
    | none => some (bt.setIfInBounds cl (some (next, slots)))

def addRange (cls : Array Nat) (lo hi next slots : Nat) (bt : Option BT) : Option BT :=
  ((List.range (hi + 1 - lo)).map (· + lo)).foldl (addByte cls next slots) bt

/-- the first loop of `buildTransitions`: the byte transitions of every closure entry -/
def byteTrans (N : NFA) (cls : Array Nat) (closure : List Entry) : Option BT :=
  closure.foldl (fun bt e =>
    match N.get e.nfaID with
    | .byteRange lo hi nx => addRange cls lo hi nx e.slots bt
    | .sparse ts => ts.foldl (fun bt t => addRange cls t.1 t.2.1 t.2.2 e.slots bt) bt
    | _ => bt) (some (Array.replicate 256 none))

/-- the DFA under construction -/
structure Builder where
  numStates : Nat
  table : Array Nat
  matchFlags : Array Bool
  matchSlots : Array Nat
  nfaToDFA : List (Nat × Nat)
  deriving Inhabited

def lookup (m : List (Nat × Nat)) (k : Nat) : Option Nat := (m.find? (·.1 = k)).map (·.2)

/-- the second loop of `buildTransitions` for one byte class: build the target's DFA state (`rec` = `buildState`),
    store `NewTransition(nextDFA, false, slots)` in the row that starts at `startIdx` -/
def rowStep (rec : Builder → Nat → Option (Builder × Nat)) (startIdx : Nat) (bt : BT) (acc : Option Builder) (cl : Nat) :
    Option Builder :=
  match acc with
  | none => none
  | some b =>
    match bt.getD cl none with
    | none => some b
    | some (tgt, sl) =>
      match rec b tgt with
      | none => none
      | some (b, nextDFA) =>
        let idx := startIdx + cl
        if idx ≥ b.table.size then none
        else some { b with table := b.table.setIfInBounds idx (Trans.encode ⟨nextDFA, false, sl⟩) }

/-- `buildState` / `buildTransitions` (mutually recursive in the code; `fuel` bounds the recursion depth, which is
    at most the number of distinct roots) -/
def maxStateID : Nat := 2097151

/-- `clsL` is the list of byte classes walked by the second loop of `buildTransitions` (`List.range 256` in `build`) -/
def buildState (N : NFA) (cls : Array Nat) (stride : Nat) (clsL : List Nat) : Nat → Builder → Nat → Option (Builder × Nat)
  | 0, _, _ => none
  | fuel+1, b, root =>
    match lookup b.nfaToDFA root with
    | some sid => some (b, sid)
    | none =>
      match epsClosure N root with
      | none => none
      | some (closure, isMatch, matchMask) =>
        let sid := b.numStates
        if sid > maxStateID then none else
        let startIdx := b.table.size
        let b : Builder :=
          { numStates := b.numStates + 1,
            table := b.table ++ Array.replicate stride deadWord,
            matchFlags := b.matchFlags.push isMatch,
            matchSlots := b.matchSlots.push (if isMatch then matchMask else 0),
            nfaToDFA := (root, sid) :: b.nfaToDFA }
        match byteTrans N cls closure with
        | none => none
        | some bt =>
          match clsL.foldl (rowStep (buildState N cls stride clsL fuel) startIdx bt) (some b) with
          | none => none
          | some b => some (b, sid)

/-- the finished DFA (`DFA` in `onepass.go`) -/
structure Table where
  stride : Nat
  table : Array Nat
  startState : Nat
  matchStates : Array Bool
  matchSlots : Array Nat
  classes : Array Nat
  deriving Inhabited

/-- `Build(n)` without the capture-count check; `none` = `ErrNotOnePass` -/
def build (N : NFA) : Option Table :=
  if N.startAnchored ≠ N.startUnanchored then none else      -- IsOnePass: IsAlwaysAnchored
  let stride := nextPow2 (alphabetLen N)
  let cls := classTable N
  match buildState N cls stride (List.range 256) (N.states.size + 2)
      { numStates := 0, table := #[], matchFlags := #[], matchSlots := #[], nfaToDFA := [] } N.startAnchored with
  | none => none
  | some (b, start) =>
    some { stride := stride, table := b.table, startState := start, matchStates := b.matchFlags,
           matchSlots := b.matchSlots, classes := cls }

/-- `Build(n)`: `nslots = CaptureCount*2` -/
def buildFor (N : NFA) (nslots : Nat) : Option Table := if nslots > 32 then none else build N

/-! ### `search.go` -/

/-- `getTransition(state, class)` -/
def getTransition (T : Table) (state cl : Nat) : Nat :=
  let idx := state * T.stride + cl
  if idx ≥ T.table.size then deadWord else T.table.getD idx deadWord

/-- `UpdateSlots` / `applyMatchSlots`: `slots[i] = pos` for every set bit `i < 32` of the mask -/
def applyMask (mask : Nat) (pos : Nat) (slots : Slots) : Slots :=
  (List.range 32).foldl (fun sl i => if mask.testBit i then sl.set i (pos : Int) else sl) slots

/-- the main loop of `Search` -/
def searchLoop (T : Table) (h : Bytes) : Nat → Nat → Nat → Slots → Option Slots
  | 0, _, _, _ => none
  | fuel+1, pos, state, slots =>
    if pos < h.size then
      let w := getTransition T state (T.classes.getD (h.at pos) 0)
      if wDead w then none else
      let slots := applyMask (wSlots w) pos slots
      let nextState := wNext w
      if wMatchWins w ∧ T.matchStates.getD nextState false then
        some ((applyMask (T.matchSlots.getD nextState 0) (pos+1) slots).set 1 ((pos+1 : Nat) : Int))
      else searchLoop T h fuel (pos+1) nextState slots
    else
      if T.matchStates.getD state false then
        some ((applyMask (T.matchSlots.getD state 0) h.size slots).set 1 (h.size : Int))
      else none

/-- `Search(input, cache)` with `len(cache.slots) = nslots` -/
def search (T : Table) (h : Bytes) (nslots : Nat) : Option Slots :=
  searchLoop T h (h.size + 1) 0 T.startState ((unset nslots).set 0 0)

/-! ### the DFA without the numbering (used by the proofs; checked against `search` by the harness) -/

/-- `search` re-expressed over NFA roots: the DFA state of root `r` is the closure of `r`; a transition into the
    anchored start (DFA state 0 = `DeadState`) is dead -/
def arun (N : NFA) (cls : Array Nat) (h : Bytes) : Nat → Nat → Nat → Slots → Option Slots
  | 0, _, _, _ => none
  | fuel+1, pos, root, slots =>
    match epsClosure N root with
    | none => none
    | some (c, m, mm) =>
      if pos < h.size then
        match byteTrans N cls c with
        | none => none
        | some bt =>
          match bt.getD (cls.getD (h.at pos) 0) none with
          | none => none
          | some (tgt, sl) =>
            if tgt = N.startAnchored then none else arun N cls h fuel (pos+1) tgt (applyMask sl pos slots)
      else if m then some ((applyMask mm h.size slots).set 1 (h.size : Int)) else none

def arunSearch (N : NFA) (h : Bytes) (nslots : Nat) : Option Slots :=
  arun N (classTable N) h (h.size + 1) 0 N.startAnchored ((unset nslots).set 0 0)

/-! ### decidable hypotheses of the one-pass theorems -/

/-- `addByte` that refuses to merge two closure entries with different slot masks -/
def addByteStrict (cls : Array Nat) (next slots : Nat) (bt : Option BT) (byte : Nat) : Option BT :=
  match bt with
  | none => none
  | some bt =>
    let cl := cls.getD byte 0
    match bt.getD cl none with
    | some (tgt, sl) => if tgt ≠ next ∨ sl ≠ slots then none else some bt
    | none => some (bt.setIfInBounds cl (some (next, slots)))

def addRangeStrict (cls : Array Nat) (lo hi next slots : Nat) (bt : Option BT) : Option BT :=
  ((List.range (hi + 1 - lo)).map (· + lo)).foldl (addByteStrict cls next slots) bt

def byteTransStrict (N : NFA) (cls : Array Nat) (closure : List Entry) : Option BT :=
  closure.foldl (fun bt e =>
    match N.get e.nfaID with
    | .byteRange lo hi nx => addRangeStrict cls lo hi nx e.slots bt
    | .sparse ts => ts.foldl (fun bt t => addRangeStrict cls t.1 t.2.1 t.2.2 e.slots bt) bt
    | _ => bt) (some (Array.replicate 256 none))

/-- no closure merges two entries with different slot masks into one transition -/
def strictRows (N : NFA) : Bool :=
  (List.range N.states.size).all fun r =>
    match epsClosure N r with
    | none => true
    | some (c, _, _) => (byteTransStrict N (classTable N) c).isSome || (byteTrans N (classTable N) c).isNone

/-- no byte transition leads back to the anchored start state (whose DFA state is `DeadState`) -/
def noBackToStart (N : NFA) : Bool := N.states.toList.all fun s =>
  match s with
  | .byteRange _ _ nx => nx != N.startAnchored
  | .sparse ts => ts.all fun t => t.2.2 != N.startAnchored
  | _ => true

/-- no capture state for group 0 -/
def noCap0 (N : NFA) : Bool := N.states.toList.all fun s =>
  match s with
  | .cap idx _ _ => idx != 0
  | _ => true

/-- no look-around state -/
def noLook (N : NFA) : Bool := N.states.toList.all fun s =>
  match s with
  | .look _ _ => false
  | _ => true

end Cx.Caps.OnePass
