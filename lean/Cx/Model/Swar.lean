import Cx.Basic
/-
  Cx.Model.Swar — the pure-Go SWAR primitives of `simd/`:
    memchrGeneric / memchr2Generic / memchr3Generic   (simd/memchr_generic_impl.go)
    isASCIIGeneric                                    (simd/ascii_generic.go)
    memchrPairGeneric (scalar tail form), memmemSingle (simd/memmem.go)
  `uint64` is `BitVec 64`; `binary.LittleEndian.Uint64(h[i:])` is `load64`; `bits.TrailingZeros64` is `tz`.
  The three memchrN functions differ only in the number of needles and are modelled by one function over a needle list.
-/
namespace Cx.Swar
open Cx

def lo8 : BitVec 64 := 0x0101010101010101#64
def hi8 : BitVec 64 := 0x8080808080808080#64

/-- `(v - lo8) & ^v & hi8` -/
def hasZero (x : BitVec 64) : BitVec 64 := (x - lo8) &&& ~~~x &&& hi8

/-- `uint64(needle) * 0x0101010101010101` -/
def broadcast (b : Nat) : BitVec 64 := BitVec.ofNat 64 b * lo8

def load64 (h : Bytes) (i : Nat) : BitVec 64 :=
  BitVec.ofNat 64 (h.at i + 256 * (h.at (i+1) + 256 * (h.at (i+2) + 256 * (h.at (i+3) + 256 * (h.at (i+4)
    + 256 * (h.at (i+5) + 256 * (h.at (i+6) + 256 * h.at (i+7))))))))

/-- `bits.TrailingZeros64` -/
def tzFrom (x : BitVec 64) : Nat → Nat → Nat
  | 0, i => i
  | fuel+1, i => if x.getLsbD i then i else tzFrom x fuel (i+1)
def tz (x : BitVec 64) : Nat := tzFrom x 64 0

/-- the specification every search primitive is compared with: first index whose byte satisfies `p`, else -1 -/
def naiveFrom (h : Bytes) (p : Nat → Bool) : Nat → Nat → Int
  | 0, _ => -1
  | fuel+1, i => if i ≥ h.size then -1 else if p (h.at i) then (i : Int) else naiveFrom h p fuel (i+1)
def naiveIndex (h : Bytes) (p : Nat → Bool) : Int := naiveFrom h p (h.size + 1) 0

/-- combined zero-byte detector for a chunk against every needle: `hasZero1 | hasZero2 | …` -/
def detect (needles : List Nat) (chunk : BitVec 64) : BitVec 64 :=
  needles.foldl (fun acc n => acc ||| hasZero (chunk ^^^ broadcast n)) 0#64

/-- the 8-bytes-at-a-time loop followed by the byte tail -/
def chunkLoop (h : Bytes) (needles : List Nat) : Nat → Nat → Int
  | 0, _ => -1
  | fuel+1, idx =>
    if idx + 8 ≤ h.size then
      let hz := detect needles (load64 h idx)
      if hz ≠ 0#64 then ((idx + tz hz / 8 : Nat) : Int)
      else chunkLoop h needles fuel (idx + 8)
    else naiveFrom h (fun b => needles.contains b) (h.size + 1) idx

def memchrNGeneric (h : Bytes) (needles : List Nat) : Int :=
  if h.size = 0 then -1
  else if h.size < 8 then naiveIndex h (fun b => needles.contains b)
  else chunkLoop h needles (h.size + 1) 0

def memchrGeneric (h : Bytes) (n : Nat) : Int := memchrNGeneric h [n]
def memchr2Generic (h : Bytes) (a b : Nat) : Int := memchrNGeneric h [a, b]
def memchr3Generic (h : Bytes) (a b c : Nat) : Int := memchrNGeneric h [a, b, c]

/-- isASCIIGeneric -/
def asciiLoop (h : Bytes) : Nat → Nat → Bool
  | 0, _ => true
  | fuel+1, idx =>
    if idx + 8 ≤ h.size then
      if load64 h idx &&& hi8 ≠ 0#64 then false else asciiLoop h fuel (idx + 8)
    else naiveFrom h (fun b => b ≥ 128) (h.size + 1) idx = -1

def isASCIIGeneric (h : Bytes) : Bool :=
  if h.size = 0 then true
  else if h.size < 8 then naiveIndex h (fun b => b ≥ 128) = -1
  else asciiLoop h (h.size + 1) 0

/-- substring test `bytes.Equal(h[i:i+len(n)], n)` -/
def matchesAt (h n : Bytes) (i : Nat) : Bool :=
  i + n.size ≤ h.size && (List.range n.size).all fun k => h.at (i + k) = n.at k

/-- the specification of Memmem: least `i` with `h[i:i+|n|] = n`, else -1 -/
def naiveMemmemFrom (h n : Bytes) : Nat → Nat → Int
  | 0, _ => -1
  | fuel+1, i => if i + n.size > h.size then -1 else if matchesAt h n i then (i : Int) else naiveMemmemFrom h n fuel (i+1)
def naiveMemmem (h n : Bytes) : Int := naiveMemmemFrom h n (h.size + 1) 0

/-- memmemSingle with the rare byte at index `rareIdx` of the needle; `memchr` is abstract (any function equal to the
    naive definition on suffixes), here the naive scan from `searchStart`. -/
def memmemSingleLoop (h n : Bytes) (rareIdx : Nat) : Nat → Nat → Int
  | 0, _ => -1
  | fuel+1, searchStart =>
    match naiveFrom h (fun b => b = n.at rareIdx) (h.size + 1) searchStart with
    | Int.negSucc _ => -1
    | Int.ofNat cand =>
      if cand < rareIdx ∨ cand - rareIdx + n.size > h.size then
        if cand + 1 ≥ h.size then -1 else memmemSingleLoop h n rareIdx fuel (cand + 1)
      else if matchesAt h n (cand - rareIdx) then ((cand - rareIdx : Nat) : Int)
      else if cand + 1 ≥ h.size then -1 else memmemSingleLoop h n rareIdx fuel (cand + 1)

def memmemSingle (h n : Bytes) (rareIdx : Nat) : Int := memmemSingleLoop h n rareIdx (h.size + 1) 0

end Cx.Swar
