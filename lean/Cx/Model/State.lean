import Cx.Basic
/-
  Cx.Model.State — the recycled mutable state behind C06 / C13 / C20, as transition systems:

  * `Vis`   — the backtracker's generation-stamped visited table (nfa/backtrack.go: reset, shouldVisit and the
              per-start-position `Generation++` in SearchAtWithState), including the uint16 wrap and the
              re-slicing of a backing array that is never shrunk;
  * `Cache` — byte accounting of the lazy-DFA cache (dfa/lazy/cache.go: Insert + registerState, MemoryUsage,
              ClearKeepMemory / Reset);
  * `Pool`  — hand-off of per-search state between goroutines (meta/engine.go: getSearchState / putSearchState,
              an atomic single slot backed by sync.Pool), one atomic action per step.
-/
namespace Cx.State

/-! ### visited table -/

def genMod : Nat := 65536

structure Vis where
  arr : List Nat        -- the whole backing array (capacity), stamps
  len : Nat             -- current slice length, ≤ arr.length
  gen : Nat             -- Generation (uint16)
  deriving Repr

def Vis.new : Vis := { arr := [], len := 0, gen := 0 }

/-- Generation++ with the overflow branch (post-fix: the whole capacity is zeroed) -/
def Vis.bump (s : Vis) : Vis :=
  let g := (s.gen + 1) % genMod
  if g = 0 then { s with arr := List.replicate s.arr.length 0, gen := 1 } else { s with gen := g }

/-- `reset(state, haystackLen)` with `n = numStates * (haystackLen+1)` entries needed -/
def Vis.reset (s : Vis) (n : Nat) : Vis :=
  let s1 : Vis := if s.arr.length ≥ n then { s with len := n } else { arr := List.replicate n 0, len := n, gen := 0 }
  s1.bump

/-- `shouldVisit`: was `idx` visited in this generation? then mark it -/
def Vis.visited (s : Vis) (idx : Nat) : Bool := s.arr.getD idx 0 = s.gen
def Vis.mark (s : Vis) (idx : Nat) : Vis := if idx < s.len then { s with arr := s.arr.set idx s.gen } else s

inductive VOp where
  | reset (n : Nat)      -- a new search
  | bump                 -- next start position inside SearchAtWithState
  | mark (idx : Nat)     -- shouldVisit on an unvisited entry
  deriving Repr

def Vis.step (s : Vis) : VOp → Vis
  | .reset n => s.reset n
  | .bump => s.bump
  | .mark i => s.mark i

def Vis.run (s : Vis) (ops : List VOp) : Vis := ops.foldl Vis.step s

/-- the pre-fix overflow branch, kept to state what was wrong: only `arr[:len]` is zeroed -/
def Vis.bumpOld (s : Vis) : Vis :=
  let g := (s.gen + 1) % genMod
  if g = 0 then { s with arr := List.replicate s.len 0 ++ s.arr.drop s.len, gen := 1 } else { s with gen := g }

/-! ### lazy-DFA cache accounting -/

structure Cache where
  nStates : Nat      -- len(states) = number of registered states
  flatLen : Nat      -- len(flatTrans)
  listLen : Nat      -- len(stateList)
  nfaBytes : Nat     -- Σ 4*len(NFAStates) + len(AccelExitBytes) over registered states
  stride : Nat
  cap : Nat          -- capacityBytes
  nextID : Nat       -- premultiplied
  clears : Nat
  deriving Repr

def Cache.new (stride cap : Nat) : Cache :=
  { nStates := 0, flatLen := 0, listLen := 0, nfaBytes := 0, stride := stride, cap := cap, nextID := stride, clears := 0 }

/-- `MemoryUsage()` -/
def Cache.mem (c : Cache) : Nat := c.flatLen * 4 + c.listLen * 8 + c.nStates * 48 + c.nfaBytes

/-- `Insert` of a new key followed by `registerState`; `sz` = the state's own bytes. `none` = ErrCacheFull. -/
def Cache.add (c : Cache) (sz : Nat) : Option Cache :=
  if c.mem ≥ c.cap then none else
  let needed := c.nextID + c.stride
  some { c with nStates := c.nStates + 1, flatLen := max c.flatLen needed, listLen := max c.listLen (c.nextID / c.stride + 1),
                nfaBytes := c.nfaBytes + sz, nextID := c.nextID + c.stride }

/-- `ClearKeepMemory` (post-fix: transition rows dropped) -/
def Cache.clear (c : Cache) : Cache :=
  { c with nStates := 0, flatLen := 0, listLen := 0, nfaBytes := 0, nextID := c.stride, clears := c.clears + 1 }

inductive COp where
  | add (sz : Nat)
  | clear
  deriving Repr

def Cache.step (c : Cache) : COp → Cache
  | .add sz => (c.add sz).getD c
  | .clear => c.clear

def Cache.run (c : Cache) (ops : List COp) : Cache := ops.foldl Cache.step c

/-! ### search-state pool -/

structure Pool where
  slot : Option Nat            -- Engine.localState
  pool : List Nat              -- sync.Pool contents
  held : List (Nat × Nat)      -- (goroutine, state id) currently checked out
  next : Nat                   -- ids handed out by pool.New so far
  deriving Repr

def Pool.init : Pool := { slot := some 0, pool := [], held := [], next := 1 }

inductive POp where
  | getLocal (t : Nat)           -- localState.Swap(nil) returned a state
  | getPool (t : Nat) (k : Nat)  -- slot was nil; statePool.get() returned the k-th pooled state
  | getNew (t : Nat)             -- slot was nil; pool empty (or emptied by GC): New()
  | put (t : Nat) (s : Nat)      -- reset + CompareAndSwap(nil, s), else statePool.put(s)
  | gc (keep : List Bool)        -- the collector drops any pooled states
  deriving Repr

def Pool.step (p : Pool) : POp → Pool
  | .getLocal t =>
    match p.slot with
    | some s => { p with slot := none, held := (t, s) :: p.held }
    | none => p
  | .getPool t k =>
    match p.slot, p.pool[k]? with
    | none, some s => { p with pool := p.pool.eraseIdx k, held := (t, s) :: p.held }
    | _, _ => p
  | .getNew t =>
    match p.slot with
    | none => { p with held := (t, p.next) :: p.held, next := p.next + 1 }
    | some _ => p
  | .put t s =>
    if (t, s) ∈ p.held then
      let held := p.held.erase (t, s)
      match p.slot with
      | none => { p with slot := some s, held := held }
      | some _ => { p with pool := s :: p.pool, held := held }
    else p
  | .gc keep => { p with pool := (p.pool.zip (keep ++ List.replicate p.pool.length false)).filterMap fun (s, k) => if k then some s else none }

def Pool.run (p : Pool) (ops : List POp) : Pool := ops.foldl Pool.step p

/-- every state id that exists anywhere -/
def Pool.ids (p : Pool) : List Nat := p.slot.toList ++ p.pool ++ p.held.map (·.2)

end Cx.State
