import Cx.Model.Nfa
import Cx.Model.Pike
/-
  Cx.Model.Caps — capture-group positions.

  (1) `btCaps`   : the REFERENCE.  `btSearchAt` (leftmost start; from that start the FIRST accepting path in priority
                   order, left branch of a split before the right one) threading a slot array: a `.cap idx isStart nx`
                   state writes the current offset into slot `2*idx + (if isStart then 0 else 1)`; slots are passed
                   down functionally, so the writes of a failing path are undone when the search backtracks.  The
                   answer is the slot array of the first accepting path with slots 0/1 overwritten by the span
                   (that is what regexp does: `cap[0]`,`cap[1]` are the thread's start and the match offset).
  (2) `pikeCaps` : `nfa/pikevm.go` `PikeVM.SearchWithSlotTableCapturesAt`, transliterated:
                     → `searchWithSlotTableCapturesAnchored`    (nfa.IsAnchored())
                     → `searchWithSlotTableCapturesUnanchored`  (otherwise)
                   with `addSearchThread` / `addSearchThreadToNext` (explicit stack, RestoreCapture frames, the
                   working buffer `currSlots`), `stepSearchThread`, the two `SlotTable`s (`nfa/slot_table.go`: one row
                   of `CaptureCount*2` ints per NFA state) that are swapped after each byte, `bestSlots`, and
                   `buildCapturesFromSlots`.
  What is kept exactly as the code has it:
   * `at == len(haystack)` (this includes the empty haystack) is NOT special-cased (since 729c212): the ordinary
     loops seed the closure of the start state at `at` and take the end-of-input branch at once;
   * group 0 of the answer is (thread start, match offset), never slots 0/1; group i ≥ 1 is reported only when BOTH
     its slots are ≥ 0 (`buildCapturesFromSlots`), otherwise it is (-1,-1);
   * slots live in per-STATE rows: a closure copies `currSlots` into the row of each thread state it appends to the
     queue (`SlotTable` for the seed thread, `NextSlotTable` for stepped threads); stepping a thread reloads
     `currSlots` from the row of its state in the current table;
   * a capture state whose slot index is ≥ len(currSlots) writes nothing and pushes no restore frame;
   * unlike the span search, `Visited` is NOT cleared before the start thread of a position is added: the seed's
     closure is cut at the states that the stepped threads already occupy;
   * rune states: a thread held back on a continuation byte is re-queued WITHOUT writing its row in the next table
     (after the swap it reads a stale row); the closure after a rune step runs at `pos+width` but is queued at `pos+1`;
   * sparse states follow EVERY transition containing the byte; `isBetterMatch`; break on the first match state in
     leftmost-first mode; `hasLeftmostCandidate` early exit; end-of-input loop takes the first match state.
  Not modelled: `skipAhead` (nil unless `SetSkipAhead`) and the guard
  `activeSlots > 2` around every slot operation: with `CaptureCount ≤ 1` the code does not track slots at all, which
  is unobservable because `buildCapturesFromSlots` then reads no slot (its loop starts at group 1).
  `nslots` is `CaptureCount*2` (the code indexes `captures[0]` unconditionally, so it panics for `nslots = 0`;
  the model answers `[s,e]`).

  Core-only and executable.
-/
namespace Cx.Caps
open Cx Cx.Nfa

abbrev Slots := List Int

/-- slot written by `StateCapture(groupIndex, isStart)`: `groupIndex*2`, `+1` for the closing state -/
def slotIdx (idx : Nat) (isStart : Bool) : Nat := 2 * idx + (if isStart then 0 else 1)

/-- all slots unset -/
def unset (n : Nat) : Slots := List.replicate n (-1)

/-- slots 0/1 := the overall span -/
def withSpan (s e : Nat) (sl : Slots) : Slots := (s : Int) :: (e : Int) :: sl.drop 2

/-! ### (1) the reference: priority DFS threading the slots -/

/-- `btFind` with a slot array: end offset and slots of the first accepting path from `(pos,q)` -/
def btCapsFind (c : BTCtx) : Nat → Nat → Nat → Slots → Array Bool → Option (Nat × Slots) × Array Bool
  | 0, _, _, _, vis => (none, vis)
  | fuel+1, pos, q, sl, vis =>
    if q ≥ c.N.states.size then (none, vis) else
    if vis.getD (c.idx q pos) true then (none, vis) else
    let vis := vis.setIfInBounds (c.idx q pos) true
    match c.N.get q with
    | .mtch => (some (pos, sl), vis)
    | .byteRange lo hi nx =>
      if pos < c.h.size ∧ lo ≤ c.h.at pos ∧ c.h.at pos ≤ hi then btCapsFind c fuel (pos+1) nx sl vis else (none, vis)
    | .sparse ts =>
      if pos ≥ c.h.size then (none, vis) else
      match firstTrans (c.h.at pos) ts with
      | some nx => btCapsFind c fuel (pos+1) nx sl vis
      | none => (none, vis)
    | .split l r =>
      match btCapsFind c fuel pos l sl vis with
      | (some r, vis) => (some r, vis)
      | (none, vis) => btCapsFind c fuel pos r sl vis
    | .eps nx => btCapsFind c fuel pos nx sl vis
    | .cap idx st nx => btCapsFind c fuel pos nx (sl.set (slotIdx idx st) (pos : Int)) vis
    | .look k nx => if lookOK k c.h pos then btCapsFind c fuel pos nx sl vis else (none, vis)
    | .runeAny nx =>
      if pos < c.h.size ∧ runeWidth c.h pos > 0 then btCapsFind c fuel (pos + runeWidth c.h pos) nx sl vis
      else (none, vis)
    | .runeAnyNotNL nx =>
      if pos < c.h.size ∧ c.h.at pos ≠ 10 ∧ runeWidth c.h pos > 0 then
        btCapsFind c fuel (pos + runeWidth c.h pos) nx sl vis
      else (none, vis)
    | .fail => (none, vis)

/-- leftmost start; a fresh visited set per start position (as `btSearchFrom`) -/
def btCapsFrom (N : NFA) (h : Bytes) (at_ nslots : Nat) : Nat → Nat → Option Slots
  | 0, _ => none
  | fuel+1, start =>
    if start > h.size then none else
    let c : BTCtx := { N := N, h := h, spanStart := at_ }
    match (btCapsFind c (btFuel N h) start N.startAnchored (unset nslots) (freshVis N h)).1 with
    | some (e, sl) => some (withSpan start e sl)
    | none => btCapsFrom N h at_ nslots fuel (start+1)

/-- the reference for `FindSubmatchIndex` on `h` from offset `at_` -/
def btCaps (N : NFA) (h : Bytes) (at_ nslots : Nat) : Option Slots :=
  btCapsFrom N h at_ nslots (h.size + 2 - at_) at_

/-- anchored reference: only the start position `at_` is tried -/
def btCapsAnchored (N : NFA) (h : Bytes) (at_ nslots : Nat) : Option Slots :=
  if at_ > h.size then none else
  match (btCapsFind { N := N, h := h, spanStart := at_ } (btFuel N h) at_ N.startAnchored (unset nslots)
      (freshVis N h)).1 with
  | some (e, sl) => some (withSpan at_ e sl)
  | none => none

/-! ### (2) the Pike VM with slot tables -/

open Cx.Pike (Thread Vis clearVis anchored isMatchState closureFuel isBetter hasLeftmost)

/-- `captureFrame`: explore a state, or (`state == InvalidState`) restore one slot of `currSlots` -/
inductive Frame where
  | explore (state start : Nat)
  | restore (slot : Nat) (value : Int)
  deriving Repr, Inhabited

/-- the mutable data a closure works on: `Visited`, `currSlots`, the table it writes rows of, the queue it appends to -/
structure CS where
  vis : Vis
  slots : Slots
  tab : Array Slots
  out : List Thread
  deriving Inhabited

/-- the `for len(captureStack) > 0` loop of `addSearchThread` / `addSearchThreadToNext` (top of the stack first) -/
def closureC (N : NFA) (h : Bytes) (pos : Nat) : Nat → List Frame → CS → CS
  | 0, _, s => s
  | _+1, [], s => s
  | fuel+1, .restore k v :: st, s => closureC N h pos fuel st { s with slots := s.slots.set k v }
  | fuel+1, .explore q start :: st, s =>
    if s.vis.getD q true then closureC N h pos fuel st s else
    let s := { s with vis := s.vis.setIfInBounds q true }
    match N.get q with
    | .eps nx => closureC N h pos fuel (.explore nx start :: st) s
    | .split l r => closureC N h pos fuel (.explore l start :: .explore r start :: st) s
    | .cap idx isStart nx =>
      let k := slotIdx idx isStart
      if k < s.slots.length then
        closureC N h pos fuel (.explore nx start :: .restore k (s.slots.getD k (-1)) :: st)
          { s with slots := s.slots.set k (pos : Int) }
      else closureC N h pos fuel (.explore nx start :: st) s
    | .look k nx => if lookOK k h pos then closureC N h pos fuel (.explore nx start :: st) s else closureC N h pos fuel st s
    | .fail => closureC N h pos fuel st s
    | _ => -- Match, ByteRange, Sparse, RuneAny, RuneAnyNotNL: copy `currSlots` into the row, append the thread
      closureC N h pos fuel st { s with tab := s.tab.setIfInBounds q s.slots, out := s.out ++ [⟨q, start⟩] }

/-- frames processed by one closure: every explore frame of a new state pushes at most two frames -/
def closureFuelC (N : NFA) : Nat := 2 * N.states.size + 2

/-- `addSearchThread(t, haystack, pos)`; the caller has prepared `currSlots` -/
def addThreadC (N : NFA) (h : Bytes) (pos : Nat) (t : Thread) (s : CS) : CS :=
  closureC N h pos (closureFuelC N) [.explore t.state t.start] s

/-- `addSearchThreadToNext(t, srcState, haystack, pos)`: `currSlots` := row of `srcState` in the CURRENT table -/
def addNextC (N : NFA) (h : Bytes) (nslots : Nat) (cur : Array Slots) (pos : Nat) (t : Thread) (src : Nat) (s : CS) : CS :=
  addThreadC N h pos t { s with slots := cur.getD src (unset nslots) }

def stepSparseC (N : NFA) (h : Bytes) (nslots : Nat) (cur : Array Slots) (pos b : Nat) (t : Thread) :
    List (Nat × Nat × Nat) → CS → CS
  | [], s => s
  | (lo, hi, nx) :: ts, s =>
    if lo ≤ b ∧ b ≤ hi then
      stepSparseC N h nslots cur pos b t ts (addNextC N h nslots cur (pos+1) ⟨nx, t.start⟩ t.state s)
    else stepSparseC N h nslots cur pos b t ts s

/-- `stepSearchThread(t, haystack[pos], haystack, pos+1)`; `s.tab` is the NEXT table, `s.out` the next queue -/
def stepThreadC (N : NFA) (h : Bytes) (nslots : Nat) (cur : Array Slots) (pos : Nat) (t : Thread) (s : CS) : CS :=
  let b := h.at pos
  match N.get t.state with
  | .byteRange lo hi nx => if lo ≤ b ∧ b ≤ hi then addNextC N h nslots cur (pos+1) ⟨nx, t.start⟩ t.state s else s
  | .sparse ts => stepSparseC N h nslots cur pos b t ts s
  | .runeAny nx =>
    if 0x80 ≤ b ∧ b ≤ 0xBF then { s with out := s.out ++ [t] } else
    if pos < h.size then
      let rw := Utf8.decodeAt h pos
      if rw.1 ≠ Utf8.runeError ∨ rw.2 = 1 then addNextC N h nslots cur (pos + rw.2) ⟨nx, t.start⟩ t.state s else s
    else s
  | .runeAnyNotNL nx =>
    if 0x80 ≤ b ∧ b ≤ 0xBF then { s with out := s.out ++ [t] } else
    if pos < h.size then
      let rw := Utf8.decodeAt h pos
      if (rw.1 ≠ Utf8.runeError ∨ rw.2 = 1) ∧ rw.1 ≠ 10 then addNextC N h nslots cur (pos + rw.2) ⟨nx, t.start⟩ t.state s
      else s
    else s
  | _ => s

/-- recorded match: span and `bestSlots` -/
abbrev Best := Option ((Nat × Nat) × Slots)

def bestSpan (b : Best) : Option (Nat × Nat) := b.map (·.1)

/-- the `if p.isBetterMatch(...) { bestStart, bestEnd = ...; copy(bestSlots, SlotTable.ForState(t.state)) }` block -/
def recordC (nslots : Nat) (cur : Array Slots) (best : Best) (t : Thread) (pos : Nat) : Best :=
  if isBetter (bestSpan best) t.start pos then some ((t.start, pos), cur.getD t.state (unset nslots)) else best

/-- the combined match-check + step loop over the current queue (`pos < len(haystack)`) -/
def stepQueueC (N : NFA) (h : Bytes) (nslots : Nat) (longest : Bool) (cur : Array Slots) (pos : Nat) :
    List Thread → Best → CS → Best × CS
  | [], best, s => (best, s)
  | t :: ts, best, s =>
    if isMatchState N t.state then
      let best := recordC nslots cur best t pos
      if !longest then (best, s) else stepQueueC N h nslots longest cur pos ts best s
    else stepQueueC N h nslots longest cur pos ts best (stepThreadC N h nslots cur pos t s)

/-- the loop at the end of the input: first match state in the queue, then break -/
def endQueueC (N : NFA) (nslots : Nat) (cur : Array Slots) (pos : Nat) : List Thread → Best → Best
  | [], best => best
  | t :: ts, best => if isMatchState N t.state then recordC nslots cur best t pos else endQueueC N nslots cur pos ts best

/-- `SlotTable.Reset()` -/
def freshTab (N : NFA) (nslots : Nat) : Array Slots := Array.replicate N.states.size (unset nslots)

/-- per-iteration state of the search loops: current queue, `Visited`, `SlotTable`, `NextSlotTable` -/
structure LS where
  queue : List Thread
  vis : Vis
  cur : Array Slots
  nxt : Array Slots
  deriving Inhabited

/-- the `for pos := startAt; pos <= len(haystack); pos++` loop of `searchWithSlotTableCapturesUnanchored` -/
def loopCU (N : NFA) (h : Bytes) (nslots : Nat) (longest : Bool) : Nat → Nat → LS → Best → Best
  | 0, _, _, best => best
  | fuel+1, pos, ls, best =>
    -- seed: `currSlots[i] = -1`, then `addSearchThread` (no `Visited.Clear()`), rows go to the CURRENT table
    let sd : CS := if best.isNone then
        addThreadC N h pos ⟨N.startAnchored, pos⟩ { vis := ls.vis, slots := unset nslots, tab := ls.cur, out := ls.queue }
      else { vis := ls.vis, slots := unset nslots, tab := ls.cur, out := ls.queue }
    let queue := sd.out
    let cur := sd.tab
    if pos < h.size then
      let r := stepQueueC N h nslots longest cur pos queue best
        { vis := clearVis N, slots := sd.slots, tab := ls.nxt, out := [] }
      let best := r.1
      let next := r.2.out
      let ls' : LS := { queue := next, vis := r.2.vis, cur := r.2.tab, nxt := cur }
      match best with
      | some ((bs, _), _) => if hasLeftmost next bs then loopCU N h nslots longest fuel (pos+1) ls' best else best
      | none => loopCU N h nslots longest fuel (pos+1) ls' best
    else endQueueC N nslots cur pos queue best

/-- `buildCapturesFromSlots`' loop over groups ≥ 1: a group is reported only when both its slots are ≥ 0 -/
def normPairs : Slots → Slots
  | a :: b :: rest => (if a ≥ 0 ∧ b ≥ 0 then [a, b] else [-1, -1]) ++ normPairs rest
  | _ => []

/-- `buildCapturesFromSlots(slots, s, e)` flattened: group 0 from the span, groups ≥ 1 from the slots -/
def buildCaps (nslots : Nat) (slots : Option Slots) (s e : Nat) : Slots :=
  match slots with
  | some sl => (s : Int) :: (e : Int) :: normPairs (sl.drop 2)
  | none => (s : Int) :: (e : Int) :: unset (nslots - 2)

def finishC (nslots : Nat) : Best → Option Slots
  | some ((s, e), sl) => some (buildCaps nslots (some sl) s e)
  | none => none

def initLS (N : NFA) (nslots : Nat) : LS :=
  { queue := [], vis := clearVis N, cur := freshTab N nslots, nxt := freshTab N nslots }

def searchCapsUnanchored (N : NFA) (h : Bytes) (at_ nslots : Nat) (longest : Bool) : Option Slots :=
  finishC nslots (loopCU N h nslots longest (h.size + 1 - at_) at_ (initLS N nslots) none)

/-- `lastMatchPos` / `bestSlots` of the anchored loop -/
abbrev BestA := Option (Nat × Slots)

def recordA (nslots : Nat) (cur : Array Slots) (last : BestA) (t : Thread) (pos : Nat) : BestA :=
  match last with
  | none => some (pos, cur.getD t.state (unset nslots))
  | some (l, sl) => if pos > l then some (pos, cur.getD t.state (unset nslots)) else some (l, sl)

def stepQueueCA (N : NFA) (h : Bytes) (nslots : Nat) (longest : Bool) (cur : Array Slots) (pos : Nat) :
    List Thread → BestA → CS → BestA × CS
  | [], last, s => (last, s)
  | t :: ts, last, s =>
    if isMatchState N t.state then
      let last := recordA nslots cur last t pos
      if !longest then (last, s) else stepQueueCA N h nslots longest cur pos ts last s
    else stepQueueCA N h nslots longest cur pos ts last (stepThreadC N h nslots cur pos t s)

def endQueueCA (N : NFA) (nslots : Nat) (cur : Array Slots) (pos : Nat) : List Thread → BestA → BestA
  | [], last => last
  | t :: ts, last =>
    if isMatchState N t.state then recordA nslots cur last t pos else endQueueCA N nslots cur pos ts last

/-- the loop of `searchWithSlotTableCapturesAnchored` -/
def loopCA (N : NFA) (h : Bytes) (nslots : Nat) (longest : Bool) : Nat → Nat → LS → BestA → BestA
  | 0, _, _, last => last
  | fuel+1, pos, ls, last =>
    if pos < h.size then
      let r := stepQueueCA N h nslots longest ls.cur pos ls.queue last
        { vis := clearVis N, slots := unset nslots, tab := ls.nxt, out := [] }
      let last := r.1
      let next := r.2.out
      if next.isEmpty ∧ last.isSome then last
      else loopCA N h nslots longest fuel (pos+1) { queue := next, vis := r.2.vis, cur := r.2.tab, nxt := ls.cur } last
    else endQueueCA N nslots ls.cur pos ls.queue last

def searchCapsAnchored (N : NFA) (h : Bytes) (at_ nslots : Nat) (longest : Bool) : Option Slots :=
  let sd := addThreadC N h at_ ⟨N.startAnchored, at_⟩
    { vis := clearVis N, slots := unset nslots, tab := freshTab N nslots, out := [] }
  match loopCA N h nslots longest (h.size + 1 - at_) at_
      { queue := sd.out, vis := sd.vis, cur := sd.tab, nxt := freshTab N nslots } none with
  | some (e, sl) => some (buildCaps nslots (some sl) at_ e)
  | none => none

/-- `SearchWithSlotTableCapturesAt(haystack, at)` with `Longest = longest` -/
def pikeCapsL (N : NFA) (h : Bytes) (at_ nslots : Nat) (longest : Bool) : Option Slots :=
  if at_ > h.size then none
  else if anchored N then searchCapsAnchored N h at_ nslots longest
  else searchCapsUnanchored N h at_ nslots longest

/-- `SearchWithSlotTableCapturesAt(haystack, at)` (leftmost-first, the default) -/
def pikeCaps (N : NFA) (h : Bytes) (at_ nslots : Nat) : Option Slots := pikeCapsL N h at_ nslots false

/-! ### group discipline: a checkable sufficient condition for `group.start ≤ group.end` -/

/-- successors of a state, whatever the kind of move -/
def succStates (s : NState) : List Nat :=
  match s with
  | .byteRange _ _ nx => [nx]
  | .sparse ts => ts.map (·.2.2)
  | .split l r => [l, r]
  | .eps nx => [nx]
  | .cap _ _ nx => [nx]
  | .look _ nx => [nx]
  | .runeAny nx => [nx]
  | .runeAnyNotNL nx => [nx]
  | _ => []

/-- per state (`none` = not reached): for each group, is it open (start written, end not yet)? -/
abbrev Lab := Array (Option (List Bool))

/-- label of the successors of a state labelled `L` -/
def updLab (s : NState) (L : List Bool) : List Bool :=
  match s with
  | .cap idx isStart _ => if idx = 0 then L else L.set idx isStart
  | _ => L

/-- `lab` is a consistent labelling: the start is all-closed, match states are all-closed, a group is opened only
    when closed and closed only when open, every successor carries the updated label -/
def labOK (N : NFA) (ng : Nat) (lab : Lab) : Bool :=
  (lab.getD N.startAnchored none == some (List.replicate ng false)) &&
  (List.range N.states.size).all fun q =>
    match lab.getD q none with
    | none => true
    | some L =>
      (L.length == ng) &&
      (match N.get q with
        | .cap idx isStart _ => (idx == 0) || (decide (idx ≥ ng)) || (L.getD idx false != isStart)
        | .mtch => (L.drop 1).all (fun b => !b)
        | _ => true) &&
      (succStates (N.get q)).all fun q' => lab.getD q' none == some (updLab (N.get q) L)

/-- one relaxation round: every labelled state labels its unlabelled successors -/
def relaxLab (N : NFA) (lab : Lab) : Lab :=
  (List.range N.states.size).foldl (fun lab q =>
    match lab.getD q none with
    | none => lab
    | some L =>
      (succStates (N.get q)).foldl (fun lab q' =>
        match lab.getD q' none with
        | none => lab.setIfInBounds q' (some (updLab (N.get q) L))
        | some _ => lab) lab) lab

/-- a candidate labelling (to be validated by `labOK`) -/
def computeLab (N : NFA) (ng : Nat) : Lab :=
  (List.range (N.states.size + 1)).foldl (fun lab _ => relaxLab N lab)
    ((Array.replicate N.states.size none).setIfInBounds N.startAnchored (some (List.replicate ng false)))

/-- the group discipline holds for the automaton -/
def groupsOK (N : NFA) (ng : Nat) : Bool := labOK N ng (computeLab N ng)

/-! ### decidable versions of the hypotheses of the theorems (used by the driver) -/

/-- no rune states -/
def noRuneB (N : NFA) : Bool := N.states.toList.all fun s =>
  match s with
  | .runeAny _ => false
  | .runeAnyNotNL _ => false
  | _ => true

def pairwiseDisjointB : List (Nat × Nat × Nat) → Bool
  | [] => true
  | a :: ts => ts.all (fun b => decide (a.2.1 < b.1 ∨ b.2.1 < a.1)) && pairwiseDisjointB ts

/-- the ranges of every sparse state are pairwise disjoint -/
def sparseDisjointB (N : NFA) : Bool := N.states.toList.all fun s =>
  match s with
  | .sparse ts => pairwiseDisjointB ts
  | _ => true

end Cx.Caps
