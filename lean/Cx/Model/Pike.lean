import Cx.Model.Nfa
import Cx.Spec.Utf8
/-
  Cx.Model.Pike — the Pike VM of `nfa/pikevm.go`, span search, transliterated.

  Family modelled: the SlotTable family, i.e. what `meta.findIndicesNFA/findIndicesNFAAt` call:
    `SearchWithSlotTableAt(haystack, at, SearchModeFind)`
      → `matchesEmptyAt`                      (at == len(haystack))
      → `searchWithSlotTableAnchored`         (nfa.IsAnchored())
      → `searchWithSlotTableUnanchored`       (otherwise)
    with `addSearchThread` / `addSearchThreadToNext` (explicit-stack epsilon closure) and `stepSearchThread`.
  In `SearchModeFind` the slot table has at most 2 active slots, so every `activeSlots > 2` block is dead:
  capture states are plain epsilon moves and only the thread's `startPos` is carried.
  `IsMatch` exists only in the legacy family (`isMatchUnanchored` / `isMatchAnchored` with `addThreadForMatch`,
  `stepForMatch`, `addThreadToNextForMatch`); it is modelled here as well: its closure is the same DFS with the
  current state kept in a register instead of on top of the stack, its step is `stepSearchThread` without start
  positions.

  What is kept exactly as the code has it:
   * thread lists are ordered (priority order); the epsilon closure is a DFS over an explicit stack (split pushes
     right, then left, so left is popped first) with the sparse set `Visited` consulted when a frame is POPPED;
   * `Visited` is cleared before the start thread of a position is added (so the closure of the new start thread
     does not see the states already in the queue: the queue may hold the same state twice) and once more before
     the queue is stepped (so it is shared by all closures into the next queue);
   * look-around is evaluated against the whole haystack at the position handed to the closure;
   * a sparse state follows EVERY transition whose range contains the byte (no first-wins break);
   * rune states: when the current byte is a continuation byte (0x80..0xBF) the thread is re-queued unchanged,
     without consulting `Visited`; otherwise `utf8.DecodeRune(haystack[pos:])` is taken, rejected when it
     yields (RuneError, width ≠ 1) — which also rejects a well-formed U+FFFD — and otherwise the closure of the
     successor is computed with look-around evaluated at `pos + width` but its threads are put in the queue of
     `pos + 1`;
   * a start thread is injected at every position while no match has been recorded;
   * on a match state: `isBetterMatch` decides whether (start,pos) replaces the recorded span; in leftmost-first
     mode the loop over the queue breaks (lower-priority threads are not stepped), in longest mode it continues;
     at the end of the input the first match state in the queue is taken in both modes;
   * early exit when a match is recorded and no thread of the next queue has `startPos ≤ bestStart`.
  Not modelled: `skipAhead` (nil unless `SetSkipAhead` is called), the dead `len(haystack) == 0` branch after
  the `at == len(haystack)` branch, state ids ≥ the sparse-set capacity (the code panics; the model drops them
  like any id ≥ number of states, for which `nfa.State` returns nil).
  `nfa.IsAnchored()` is not part of the dumped NFA; for compiled NFAs it coincides with
  `startAnchored == startUnanchored` (checked by the fidelity harness), which is what `anchored` uses.

  Core-only and executable.
-/
namespace Cx.Pike
open Cx Cx.Nfa

structure Thread where
  state : Nat
  start : Nat
  deriving Repr, DecidableEq, Inhabited

abbrev Vis := Array Bool

/-- `Visited.Clear()` -/
def clearVis (N : NFA) : Vis := Array.replicate N.states.size false

/-- `nfa.IsAnchored()` for compiled NFAs -/
def anchored (N : NFA) : Bool := N.startAnchored == N.startUnanchored

/-- `nfa.IsMatch(id)` -/
def isMatchState (N : NFA) (q : Nat) : Bool :=
  match N.get q with
  | .mtch => true
  | _ => false

def closureFuel (N : NFA) : Nat := 2 * N.states.size + 2

/-- The `switch state.Kind()` inside the closure loop of `addSearchThread` / `addSearchThreadToNext`, for the
    popped frame `fr`: the frames it pushes (top of the stack first: split pushes right, then left) and whether
    `fr` itself is appended to the thread queue. -/
def expand (N : NFA) (h : Bytes) (pos : Nat) (fr : Thread) : List Thread × Bool :=
  match N.get fr.state with
  | .mtch => ([], true)
  | .byteRange _ _ _ => ([], true)
  | .sparse _ => ([], true)
  | .runeAny _ => ([], true)
  | .runeAnyNotNL _ => ([], true)
  | .eps nx => ([⟨nx, fr.start⟩], false)
  | .split l r => ([⟨l, fr.start⟩, ⟨r, fr.start⟩], false)
  | .cap _ _ nx => ([⟨nx, fr.start⟩], false)
  | .look k nx => (if lookOK k h pos then [⟨nx, fr.start⟩] else [], false)
  | .fail => ([], false)

/-- The `for len(captureStack) > 0` loop of `addSearchThread` / `addSearchThreadToNext`.
    `stack` has its top at the head; `out` is the queue being appended to.
    `vis.getD q true` is "`!Visited.Insert(q)` or `nfa.State(q) == nil`". -/
def closure (N : NFA) (h : Bytes) (pos : Nat) : Nat → List Thread → Vis → List Thread → Vis × List Thread
  | 0, _, vis, out => (vis, out)
  | _+1, [], vis, out => (vis, out)
  | fuel+1, fr :: st, vis, out =>
    if vis.getD fr.state true then closure N h pos fuel st vis out else
    let e := expand N h pos fr
    closure N h pos fuel (e.1 ++ st) (vis.setIfInBounds fr.state true) (if e.2 then out ++ [fr] else out)

/-- `addSearchThread(t, haystack, pos)` / `addSearchThreadToNext(t, _, haystack, pos)` -/
def addThread (N : NFA) (h : Bytes) (pos : Nat) (t : Thread) (vq : Vis × List Thread) : Vis × List Thread :=
  closure N h pos (closureFuel N) [t] vq.1 vq.2

/-- the `for _, tr := range state.Transitions()` loop of `stepSearchThread` -/
def stepSparse (N : NFA) (h : Bytes) (pos : Nat) (b : Nat) (start : Nat) :
    List (Nat × Nat × Nat) → Vis × List Thread → Vis × List Thread
  | [], vq => vq
  | (lo, hi, nx) :: ts, vq =>
    if lo ≤ b ∧ b ≤ hi then stepSparse N h pos b start ts (addThread N h (pos+1) ⟨nx, start⟩ vq)
    else stepSparse N h pos b start ts vq

/-- `stepSearchThread(t, haystack[pos], haystack, pos+1)`; requires `pos < h.size` -/
def stepThread (N : NFA) (h : Bytes) (pos : Nat) (t : Thread) (vq : Vis × List Thread) : Vis × List Thread :=
  let b := h.at pos
  match N.get t.state with
  | .byteRange lo hi nx => if lo ≤ b ∧ b ≤ hi then addThread N h (pos+1) ⟨nx, t.start⟩ vq else vq
  | .sparse ts => stepSparse N h pos b t.start ts vq
  | .runeAny nx =>
    if 0x80 ≤ b ∧ b ≤ 0xBF then (vq.1, vq.2 ++ [t]) else
    if pos < h.size then
      let rw := Utf8.decodeAt h pos
      if rw.1 ≠ Utf8.runeError ∨ rw.2 = 1 then addThread N h (pos + rw.2) ⟨nx, t.start⟩ vq else vq
    else vq
  | .runeAnyNotNL nx =>
    if 0x80 ≤ b ∧ b ≤ 0xBF then (vq.1, vq.2 ++ [t]) else
    if pos < h.size then
      let rw := Utf8.decodeAt h pos
      if (rw.1 ≠ Utf8.runeError ∨ rw.2 = 1) ∧ rw.1 ≠ 10 then addThread N h (pos + rw.2) ⟨nx, t.start⟩ vq else vq
    else vq
  | _ => vq

/-- `isBetterMatchWithLongest(bestStart, bestEnd, candStart, candEnd)`; `none` is `bestStart == -1` -/
def isBetter (best : Option (Nat × Nat)) (cs ce : Nat) : Bool :=
  match best with
  | none => true
  | some (bs, be) => if cs < bs then true else if cs > bs then false else decide (ce > be)

def record (best : Option (Nat × Nat)) (cs ce : Nat) : Option (Nat × Nat) :=
  if isBetter best cs ce then some (cs, ce) else best

/-- the combined match-check + step loop over the current queue (`pos < len(haystack)`) -/
def stepQueue (N : NFA) (h : Bytes) (longest : Bool) (pos : Nat) :
    List Thread → Option (Nat × Nat) → Vis × List Thread → Option (Nat × Nat) × (Vis × List Thread)
  | [], best, vq => (best, vq)
  | t :: ts, best, vq =>
    if isMatchState N t.state then
      let best := record best t.start pos
      if !longest then (best, vq) else stepQueue N h longest pos ts best vq
    else stepQueue N h longest pos ts best (stepThread N h pos t vq)

/-- the loop at the end of the input: first match state in the queue, then break -/
def endQueue (N : NFA) (pos : Nat) : List Thread → Option (Nat × Nat) → Option (Nat × Nat)
  | [], best => best
  | t :: ts, best => if isMatchState N t.state then record best t.start pos else endQueue N pos ts best

/-- `hasLeftmostCandidate` -/
def hasLeftmost (next : List Thread) (bestStart : Nat) : Bool := next.any fun t => decide (t.start ≤ bestStart)

/-- the `for pos := startAt; pos <= len(haystack); pos++` loop of `searchWithSlotTableUnanchored` -/
def loopU (N : NFA) (h : Bytes) (longest : Bool) : Nat → Nat → List Thread → Option (Nat × Nat) → Option (Nat × Nat)
  | 0, _, _, best => best
  | fuel+1, pos, queue, best =>
    let queue := if best.isNone then (addThread N h pos ⟨N.startAnchored, pos⟩ (clearVis N, queue)).2 else queue
    if pos < h.size then
      let r := stepQueue N h longest pos queue best (clearVis N, [])
      let best := r.1
      let next := r.2.2
      match best with
      | some (bs, _) => if hasLeftmost next bs then loopU N h longest fuel (pos+1) next best else best
      | none => loopU N h longest fuel (pos+1) next best
    else endQueue N pos queue best

def searchUnanchored (N : NFA) (h : Bytes) (at_ : Nat) (longest : Bool) : Option (Nat × Nat) :=
  loopU N h longest (h.size + 1 - at_) at_ [] none

/-- anchored variant of the queue loop: `lastMatchPos` instead of a span -/
def stepQueueA (N : NFA) (h : Bytes) (longest : Bool) (pos : Nat) :
    List Thread → Option Nat → Vis × List Thread → Option Nat × (Vis × List Thread)
  | [], last, vq => (last, vq)
  | t :: ts, last, vq =>
    if isMatchState N t.state then
      let last := match last with
        | none => some pos
        | some l => if pos > l then some pos else some l
      if !longest then (last, vq) else stepQueueA N h longest pos ts last vq
    else stepQueueA N h longest pos ts last (stepThread N h pos t vq)

def endQueueA (N : NFA) (pos : Nat) : List Thread → Option Nat → Option Nat
  | [], last => last
  | t :: ts, last =>
    if isMatchState N t.state then
      (match last with
        | none => some pos
        | some l => if pos > l then some pos else some l)
    else endQueueA N pos ts last

/-- the loop of `searchWithSlotTableAnchored` -/
def loopA (N : NFA) (h : Bytes) (longest : Bool) : Nat → Nat → List Thread → Option Nat → Option Nat
  | 0, _, _, last => last
  | fuel+1, pos, queue, last =>
    if pos < h.size then
      let r := stepQueueA N h longest pos queue last (clearVis N, [])
      let last := r.1
      let next := r.2.2
      if next.isEmpty ∧ last.isSome then last else loopA N h longest fuel (pos+1) next last
    else endQueueA N pos queue last

def searchAnchored (N : NFA) (h : Bytes) (at_ : Nat) (longest : Bool) : Option (Nat × Nat) :=
  let queue := (addThread N h at_ ⟨N.startAnchored, at_⟩ (clearVis N, [])).2
  match loopA N h longest (h.size + 1 - at_) at_ queue none with
  | some e => some (at_, e)
  | none => none

/-- `if !Visited.Contains(x) { Visited.Insert(x); stack = append(stack, x) }` -/
def pushNew (sv : List Nat × Vis) (x : Nat) : List Nat × Vis :=
  if sv.2.getD x true then sv else (x :: sv.1, sv.2.setIfInBounds x true)

/-- the `for len(stack) > 0` loop of `matchesEmptyAt`: states are marked when PUSHED; the `switch` follows the
    same moves as the closure (`expand`: epsilon, split, passing look, capture; byte and rune states are dead
    ends) but a split pushes left first, then right (so right is popped first). -/
def emptyLoop (N : NFA) (h : Bytes) (pos : Nat) : Nat → List Nat → Vis → Bool
  | 0, _, _ => false
  | _+1, [], _ => false
  | fuel+1, q :: st, vis =>
    if isMatchState N q then true else
    let sv := ((expand N h pos ⟨q, 0⟩).1.map (·.state)).foldl pushNew (st, vis)
    emptyLoop N h pos fuel sv.1 sv.2

/-- `matchesEmptyAt(haystack, pos)`.  (The start state is pushed unconditionally; an id outside the table is
    popped, is not a match state and has no `State`, so it is dropped.) -/
def matchesEmptyAt (N : NFA) (h : Bytes) (pos : Nat) : Bool :=
  emptyLoop N h pos (N.states.size + 2) [N.startAnchored] ((clearVis N).setIfInBounds N.startAnchored true)

/-- `SearchWithSlotTableAt(haystack, at, SearchModeFind)` with `Longest = longest` -/
def searchAt (N : NFA) (h : Bytes) (at_ : Nat) (longest : Bool) : Option (Nat × Nat) :=
  if at_ > h.size then none
  else if at_ = h.size then (if matchesEmptyAt N h at_ then some (at_, at_) else none)
  else if anchored N then searchAnchored N h at_ longest
  else searchUnanchored N h at_ longest

/-! ### `IsMatch` (legacy family: `addThreadForMatch`, `stepForMatch`) -/

def anyMatch (N : NFA) (queue : List Thread) : Bool := queue.any fun t => isMatchState N t.state

/-- `for _, t := range Queue { stepForMatch(t, b, haystack, pos+1) }` -/
def stepAll (N : NFA) (h : Bytes) (pos : Nat) : List Thread → Vis × List Thread → Vis × List Thread
  | [], vq => vq
  | t :: ts, vq => stepAll N h pos ts (stepThread N h pos t vq)

/-- `isMatchUnanchored` -/
def loopM (N : NFA) (h : Bytes) : Nat → Nat → List Thread → Bool
  | 0, _, _ => false
  | fuel+1, pos, queue =>
    let queue := (addThread N h pos ⟨N.startAnchored, 0⟩ (clearVis N, queue)).2
    if anyMatch N queue then true
    else if pos ≥ h.size then false
    else loopM N h fuel (pos+1) (stepAll N h pos queue (clearVis N, [])).2

/-- `isMatchAnchored` -/
def loopMA (N : NFA) (h : Bytes) : Nat → Nat → List Thread → Bool
  | 0, _, _ => false
  | fuel+1, pos, queue =>
    if anyMatch N queue then true
    else if queue.isEmpty ∨ pos ≥ h.size then false
    else loopMA N h fuel (pos+1) (stepAll N h pos queue (clearVis N, [])).2

/-- `IsMatch(haystack)` -/
def isMatch (N : NFA) (h : Bytes) : Bool :=
  if h.size = 0 then matchesEmptyAt N h 0
  else if anchored N then loopMA N h (h.size + 1) 0 (addThread N h 0 ⟨N.startAnchored, 0⟩ (clearVis N, [])).2
  else loopM N h (h.size + 1) 0 []

end Cx.Pike
