import Cx.Model.Nfa
import Cx.Model.Utf8Range
/-
  Cx.Model.Utf8RangePaths — the byte-range sequences of a dumped NFA fragment: all paths from a state to a match
  state, depth first, left branch first (the order in which `buildSplitChain` / a Sparse state list the alternatives),
  so that the result can be compared literally with `Cx.Utf8Range.classSeqs`.  Only the state kinds a character class
  compiles to are followed (Match, ByteRange, Sparse whose transitions share one target, Split, Epsilon, Capture, Fail);
  anything else, or a cycle (fuel exhausted), answers `none`.
-/
namespace Cx.Utf8Range
open Cx Cx.Nfa

/-- all transitions of a Sparse state lead to the same state (then "first matching transition wins" coincides with
"some transition matches") -/
def sameTarget (ts : List (Nat × Nat × Nat)) (nx : Nat) : Bool := ts.all fun t => t.2.2 == nx

def pathsFrom (N : NFA) : (fuel : Nat) → (q : Nat) → Option (List Seq)
  | 0, _ => none
  | fuel + 1, q =>
    match N.get q with
    | .mtch => some [[]]
    | .byteRange lo hi nx => (pathsFrom N fuel nx).map fun L => L.map fun s => (lo, hi) :: s
    | .sparse ts =>
      match ts with
      | [] => some []
      | (_, _, nx) :: _ =>
        if sameTarget ts nx then
          (pathsFrom N fuel nx).map fun L => ts.flatMap fun t => L.map fun s => (t.1, t.2.1) :: s
        else none
    | .split l r =>
      match pathsFrom N fuel l, pathsFrom N fuel r with
      | some a, some b => some (a ++ b)
      | _, _ => none
    | .eps nx => pathsFrom N fuel nx
    | .cap _ _ nx => pathsFrom N fuel nx
    | .fail => some []
    | _ => none

/-- paths from the anchored start state -/
def pathsOf (N : NFA) : Option (List Seq) := pathsFrom N (N.states.size + 1) N.startAnchored

/-- the bytes `h[i:j]` -/
def slice (h : Bytes) (i j : Nat) : List Nat := (List.range (j - i)).map fun k => h.at (i + k)

end Cx.Utf8Range
