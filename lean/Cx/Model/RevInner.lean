import Cx.Model.RevSuffix
/-
  Cx.Model.RevInner — the STRATEGY layer `UseReverseInner` of the meta engine (`meta/reverse_inner.go`): the pattern is split
  in front of an inner literal into PREFIX and SUFFIX (the literal and everything after it).  A prefilter finds the inner
  literal, the reverse lazy DFA of PREFIX finds the leftmost position from which PREFIX reaches the literal, the forward lazy
  DFA of the WHOLE pattern, anchored there, confirms the candidate; the exact span comes from the DFAs of the whole pattern.
  Over ABSTRACT component oracles, like `Cx.Model.RevSuffix` (whose byte-search helpers and `RevAnswer` are reused).

  Go (meta/reverse_inner.go)                                               Lean (namespace Cx.RevInner)
  ------------------------------------------------------------------------------------------------------------------
  s.prefilter.Find(haystack, searchStart)                          (l.482) Oracles.pfFind h start       (-1 = none)
  s.reverseDFA.SearchReverseLimited(revCache, h, at, pos, minMatchStart)
      (l.505; reverse DFA of the PREFIX portion; lazy.go:1904)             Oracles.revLimited h at pos minMatchStart
      >= 0 / -1 / SearchReverseLimitedQuadratic (-2)                         RevAnswer.found s / .none / .cutOff
  s.forwardDFA.IsMatchAt(fwdCache, h, from)          (l.427, 518; lazy.go:512)  Oracles.fwdIsMatchAt h from
  s.forwardDFA.SearchAtAnchoredStopAt(fwdCache, h, matchStart)
      (l.529; lazy.go:224)  = (end, stop)                                  Oracles.fwdAnchoredStopAt h matchStart = (end?, stop)
  s.forwardDFA.SearchAt(fwdCache, h, from)              (l.589; lazy.go:190)    Oracles.fwdEnd h from        (-1 = none)
  s.fullReverseDFA.SearchReverse(c, h, from, end)       (l.597; lazy.go:1736)   Oracles.revFull h from end   (< 0 = none)
  s.pikevm.SearchAt(h, from)                            (l.601)                 Oracles.pike h from
  s.innerLen, s.dotStarLiteral (nil = none), s.prefixNullable, s.startAnchored,
      s.exactStart, s.lineBounded (SetLineBounded, l.377)                  Params.*
  candidateNone / candidateGiveUp / (pos, matchStart, matchEnd, shape)     Cand.none / .giveUp / .found pos matchStart matchEnd? shape
  bytes.HasPrefix(haystack[pos:], s.dotStarLiteral)                (l.489) RevSuffix.occursAt h lit pos
  lineStartBefore(haystack, at, pos)   (reverse_suffix.go l.21-30) (l.490, 574)  RevSuffix.lineStartBefore h at pos
  steps 1 and 2 of one candidate (l.504-534)                               verify   (`inl` = return, `inr` = new minPreStart)
  findCandidate: the `for` loop                                 (l.480-546) candLoop (fuel = iterations left)
  findCandidate                                                 (l.472-547) findCandidate
  findIndicesAtImpl = FindIndicesAt = FindIndicesAtWithCaches   (l.435-582) findIndicesAt
  `end = pos + IndexByte(h[pos:], '\n')` or len(h)              (l.562-565) RevSuffix.lineEndAt h pos
  searchSpan                                                    (l.588-604) searchSpan
  IsMatch                                                       (l.413-430) isMatch
  Find (l.397-403): FindIndicesAt(h, 0) wrapped in *Match                  (not modelled: `NewMatch(start,end,h)`)

  Left out: caches and pools (the cache is invisible: `Cx.Proofs.DfaCache`), the `*Match` wrapper, the constructor
  `NewReverseInnerSearcher` (which automata / prefilter are built and the flags computed from the split AST:
  `isStartAnchorOnly`, `isASCIIClassLoop`, `dotStarLiteralDotStar`, `prefixNullable` — its contribution to the search are
  the `Params` and WHICH language each oracle decides; the theorems state what both must guarantee).

  `verifyT` / `candLoopT` / `findIndicesAtT` / `isMatchT` are the same functions instrumented with the windows the scans
  may read (erasure: `Cx.RevInner.findIndicesAtT_fst`), for the anti-quadratic bound.
-/
namespace Cx.RevInner
open Cx
open Cx.RevSuffix (RevAnswer findFirst findLast occursAt lineStartBefore lineEndAt)

/-- the components the searcher calls -/
structure Oracles where
  /-- `prefilter.Find(haystack, start)` (inner-literal prefilter) -/
  pfFind : Bytes → Nat → Option Nat
  /-- `reverseDFA.SearchReverseLimited(cache, haystack, start, end, minStart)`: reverse DFA of the PREFIX portion -/
  revLimited : Bytes → Nat → Nat → Nat → RevAnswer
  /-- `forwardDFA.IsMatchAt(cache, haystack, at)`: forward DFA of the WHOLE pattern, unanchored, earliest -/
  fwdIsMatchAt : Bytes → Nat → Bool
  /-- `forwardDFA.SearchAtAnchoredStopAt(cache, haystack, at)` = (end or none, stop) -/
  fwdAnchoredStopAt : Bytes → Nat → Option Nat × Nat
  /-- `forwardDFA.SearchAt(cache, haystack, at)` -/
  fwdEnd : Bytes → Nat → Option Nat
  /-- `fullReverseDFA.SearchReverse(cache, haystack, start, end)`: reverse DFA of the WHOLE pattern -/
  revFull : Bytes → Nat → Nat → Option Nat
  /-- `pikevm.SearchAt(haystack, at)` -/
  pike : Bytes → Nat → Option (Nat × Nat)

/-- the fields of `ReverseInnerSearcher` the search reads -/
structure Params where
  innerLen : Nat
  dotStarLiteral : Option Bytes := none
  prefixNullable : Bool := false
  startAnchored : Bool := false
  exactStart : Bool := false
  lineBounded : Bool := false
  deriving Repr, Inhabited

/-- result of `findCandidate`: `candidateNone`, `candidateGiveUp`, or `(pos, matchStart, matchEnd, shape)` (`matchEnd = -1`
    is `none`: `earliest` and `shape` results) -/
inductive Cand where
  | none
  | giveUp
  | found (pos matchStart : Nat) (matchEnd : Option Nat) (shape : Bool)
  deriving Repr, DecidableEq, Inhabited

/-- `searchSpan(haystack, from, fwdCache)` -/
def searchSpan (O : Oracles) (h : Bytes) (from_ : Nat) : Option (Nat × Nat) :=
  match O.fwdEnd h from_ with
  | none => none                                         -- end < 0
  | some e =>
    if e = from_ then some (from_, e)                    -- end == from
    else
      match O.revFull h from_ e with
      | none => O.pike h from_                           -- start < 0: PikeVM
      | some s => some (s, e)

/-- Step 1 (l.504-513): the reverse search of the PREFIX portion from the candidate, or the empty prefix at `at` -/
def prefixStart (O : Oracles) (P : Params) (h : Bytes) (at_ pos minMatchStart : Nat) : RevAnswer :=
  if pos > at_ then O.revLimited h at_ pos minMatchStart
  else if P.prefixNullable && (at_ == 0 || !P.startAnchored) then .found at_
  else .none

/-- Step 2 (l.515-534) for a candidate whose step 1 answered `r ≠ cutOff`: `inl c` = `return c`, `inr m` = the candidate is
    the inner literal of no match, go on with `minPreStart = m` -/
def verify (O : Oracles) (h : Bytes) (earliest : Bool) (pos minPreStart : Nat) : RevAnswer → Cand ⊕ Nat
  | .found matchStart =>
    if earliest then
      if O.fwdIsMatchAt h matchStart then .inl (.found pos matchStart none false) else .inl .giveUp
    else
      match O.fwdAnchoredStopAt h matchStart with
      | (some matchEnd, _) => .inl (.found pos matchStart (some matchEnd) false)
      | (none, stop) => .inr stop
  | .none => .inr minPreStart
  | .cutOff => .inl .giveUp

/-- the loop of `findCandidate`; state `searchStart`, `minMatchStart`, `minPreStart` -/
def candLoop (O : Oracles) (P : Params) (h : Bytes) (at_ : Nat) (earliest : Bool) : Nat → Nat → Nat → Nat → Cand
  | 0, _, _, _ => .none
  | fuel+1, searchStart, minMatchStart, minPreStart =>
    match O.pfFind h searchStart with
    | none => .none
    | some pos =>
      match P.dotStarLiteral with
      | some lit =>
        if occursAt h lit pos then .found pos (lineStartBefore h at_ pos) none true
        else candLoop O P h at_ earliest fuel (pos + 1) minMatchStart minPreStart        -- searchStart = pos + 1; continue
      | none =>
        if pos < minPreStart then .giveUp else
        match verify O h earliest pos minPreStart (prefixStart O P h at_ pos minMatchStart) with
        | .inl c => c
        | .inr minPreStart' =>
          let minMatchStart' := if pos + P.innerLen > minMatchStart then pos + P.innerLen else minMatchStart
          if pos + 1 ≥ h.size then .none else candLoop O P h at_ earliest fuel (pos + 1) minMatchStart' minPreStart'

/-- `findCandidate(haystack, at, fwdCache, revCache, earliest)` -/
def findCandidate (O : Oracles) (P : Params) (h : Bytes) (at_ : Nat) (earliest : Bool) : Cand :=
  if at_ ≥ h.size then .none else candLoop O P h at_ earliest (h.size + 1 - at_) at_ at_ at_

/-- `findIndicesAtImpl(haystack, at, …)` = `FindIndicesAt` = `FindIndicesAtWithCaches` -/
def findIndicesAt (O : Oracles) (P : Params) (h : Bytes) (at_ : Nat) : Option (Nat × Nat) :=
  match findCandidate O P h at_ false with
  | .none => none
  | .giveUp => searchSpan O h at_
  | .found pos matchStart matchEnd shape =>
    if shape then some (matchStart, lineEndAt h pos)
    else
      let from_ := if P.lineBounded then lineStartBefore h at_ pos else at_
      if P.exactStart || from_ == matchStart then
        matchEnd.map fun e => (matchStart, e)          -- `matchEnd = -1` only with `earliest` or `shape`
      else searchSpan O h from_

/-- `IsMatch(haystack)` -/
def isMatch (O : Oracles) (P : Params) (h : Bytes) : Bool :=
  if h.size = 0 then false else
  match findCandidate O P h 0 true with
  | .giveUp => O.fwdIsMatchAt h 0
  | .none => false
  | .found _ _ _ _ => true

/-! ### the same, instrumented: which bytes may the scans read?

`SearchReverseLimited(h, start, end, minStart)` reads `h[i]` for `max(start, minStart) ≤ i < end` at most (lazy.go:1916-1926),
`SearchAtAnchoredStopAt(h, at)` reads `h[at:stop)` (that is what `stop` reports), `SearchReverse(h, start, end)` reads
`h[start:end)`, `SearchAt(h, from)` / `IsMatchAt(h, from)` read `h[from:]` at most. -/

structure Trace where
  /-- windows of the `SearchReverseLimited` calls, in call order -/
  limited : List (Nat × Nat) := []
  /-- windows `[matchStart, stop)` of the `SearchAtAnchoredStopAt` calls, in call order -/
  anch : List (Nat × Nat) := []
  /-- start offsets of the `IsMatchAt` calls -/
  isMatchAts : List Nat := []
  /-- window of the `SearchReverse` call of `searchSpan`, if it is made -/
  full : Option (Nat × Nat) := none
  /-- start offset of the `SearchAt` call of `searchSpan`, if it is made -/
  fwd : Option Nat := none
  /-- number of `prefilter.Find` calls -/
  pfCalls : Nat := 0
  deriving Repr, Inhabited

def searchSpanT (O : Oracles) (h : Bytes) (from_ : Nat) (t : Trace) : Option (Nat × Nat) × Trace :=
  let t := { t with fwd := some from_ }
  match O.fwdEnd h from_ with
  | none => (none, t)
  | some e =>
    if e = from_ then (some (from_, e), t)
    else
      let t := { t with full := some (from_, e) }
      match O.revFull h from_ e with
      | none => (O.pike h from_, t)
      | some s => (some (s, e), t)

def prefixStartT (O : Oracles) (P : Params) (h : Bytes) (at_ pos minMatchStart : Nat) (t : Trace) : RevAnswer × Trace :=
  if pos > at_ then
    (O.revLimited h at_ pos minMatchStart, { t with limited := t.limited ++ [(max at_ minMatchStart, pos)] })
  else if P.prefixNullable && (at_ == 0 || !P.startAnchored) then (.found at_, t)
  else (.none, t)

def verifyT (O : Oracles) (h : Bytes) (earliest : Bool) (pos minPreStart : Nat) (t : Trace) : RevAnswer → (Cand ⊕ Nat) × Trace
  | .found matchStart =>
    if earliest then
      let t := { t with isMatchAts := t.isMatchAts ++ [matchStart] }
      if O.fwdIsMatchAt h matchStart then (.inl (.found pos matchStart none false), t) else (.inl .giveUp, t)
    else
      let t := { t with anch := t.anch ++ [(matchStart, (O.fwdAnchoredStopAt h matchStart).2)] }
      match O.fwdAnchoredStopAt h matchStart with
      | (some matchEnd, _) => (.inl (.found pos matchStart (some matchEnd) false), t)
      | (none, stop) => (.inr stop, t)
  | .none => (.inr minPreStart, t)
  | .cutOff => (.inl .giveUp, t)

def candLoopT (O : Oracles) (P : Params) (h : Bytes) (at_ : Nat) (earliest : Bool) :
    Nat → Nat → Nat → Nat → Trace → Cand × Trace
  | 0, _, _, _, t => (.none, t)
  | fuel+1, searchStart, minMatchStart, minPreStart, t =>
    let t := { t with pfCalls := t.pfCalls + 1 }
    match O.pfFind h searchStart with
    | none => (.none, t)
    | some pos =>
      match P.dotStarLiteral with
      | some lit =>
        if occursAt h lit pos then (.found pos (lineStartBefore h at_ pos) none true, t)
        else candLoopT O P h at_ earliest fuel (pos + 1) minMatchStart minPreStart t
      | none =>
        if pos < minPreStart then (.giveUp, t) else
        let (r, t) := prefixStartT O P h at_ pos minMatchStart t
        match verifyT O h earliest pos minPreStart t r with
        | (.inl c, t) => (c, t)
        | (.inr minPreStart', t) =>
          let minMatchStart' := if pos + P.innerLen > minMatchStart then pos + P.innerLen else minMatchStart
          if pos + 1 ≥ h.size then (.none, t) else candLoopT O P h at_ earliest fuel (pos + 1) minMatchStart' minPreStart' t

def findCandidateT (O : Oracles) (P : Params) (h : Bytes) (at_ : Nat) (earliest : Bool) : Cand × Trace :=
  if at_ ≥ h.size then (.none, {}) else candLoopT O P h at_ earliest (h.size + 1 - at_) at_ at_ at_ {}

def findIndicesAtT (O : Oracles) (P : Params) (h : Bytes) (at_ : Nat) : Option (Nat × Nat) × Trace :=
  match findCandidateT O P h at_ false with
  | (.none, t) => (none, t)
  | (.giveUp, t) => searchSpanT O h at_ t
  | (.found pos matchStart matchEnd shape, t) =>
    if shape then (some (matchStart, lineEndAt h pos), t)
    else
      let from_ := if P.lineBounded then lineStartBefore h at_ pos else at_
      if P.exactStart || from_ == matchStart then (matchEnd.map fun e => (matchStart, e), t)
      else searchSpanT O h from_ t

def isMatchT (O : Oracles) (P : Params) (h : Bytes) : Bool × Trace :=
  if h.size = 0 then (false, {}) else
  match findCandidateT O P h 0 true with
  | (.giveUp, t) => (O.fwdIsMatchAt h 0, { t with isMatchAts := t.isMatchAts ++ [0] })
  | (.none, t) => (false, t)
  | (.found _ _ _ _, t) => (true, t)

/-- upper bound on the bytes read by all reverse scans of one call -/
def Trace.revCost (t : Trace) : Nat :=
  RevSuffix.windowsCost t.limited + (match t.full with | some w => w.2 - w.1 | none => 0)

/-- upper bound on the bytes read by all ANCHORED forward scans of one call -/
def Trace.anchCost (t : Trace) : Nat := RevSuffix.windowsCost t.anch

/-! ### brute-force oracles (driver, non-vacuity of the contracts) -/

/-- the least position `≥ start` at which one of the literals occurs -/
def refPfFindSet (lits : List Bytes) (h : Bytes) (start : Nat) : Option Nat :=
  findFirst (fun p => lits.any fun l => occursAt h l p) start (h.size + 1 - start)

/-- oracles computed from tables for ONE haystack (their haystack argument is ignored): `mt s e` = the pattern matches
    `h[s:e)`, `pre s p` = the PREFIX portion matches `h[s:p)`, `ref a` = the reference's answer from `a`, `anch s` = the end
    of the leftmost-first match that starts exactly at `s`.  `cutMode` chooses among the answers the contract of
    `SearchReverseLimited` allows when `start < minStart` (0 = exact answer unless it lies below `minStart`, 1 = always
    cutOff, 2 = mixed); `giveUp`: `SearchReverse` always answers -1; `stopMode` chooses the `stop` of a failed anchored scan
    (0 = `len`, 1 = `at`, 2 = in between). -/
def bruteOracles (lits : List Bytes) (mt pre : Nat → Nat → Bool) (ref : Nat → Option (Nat × Nat)) (anch : Nat → Option Nat)
    (cutMode : Nat) (giveUp : Bool) (stopMode : Nat) (n : Nat) : Oracles where
  pfFind := refPfFindSet lits
  revLimited := fun _ lo e m =>
    if decide (lo < m) && (cutMode == 1 || (cutMode == 2 && (e + m) % 2 == 1)) then .cutOff else
    match findFirst (fun s => pre s e) lo (e + 1 - lo) with
    | some s => if s < m then .cutOff else .found s
    | none => .none
  fwdIsMatchAt := fun _ a => (ref a).isSome
  fwdAnchoredStopAt := fun _ a =>
    match anch a with
    | some e => (some e, n)
    | none => (none, if stopMode == 0 then n else if stopMode == 1 then a else (a + n + 1) / 2)
  fwdEnd := fun _ a => (ref a).map (·.2)
  revFull := fun _ lo e => if giveUp then none else findFirst (fun s => mt s e) lo (e + 1 - lo)
  pike := fun _ a => ref a

end Cx.RevInner
