import Cx.Basic
/-
  Cx.Model.RevSuffix — the STRATEGY layer `UseReverseSuffix` of the meta engine (`meta/reverse_suffix.go`): a suffix-literal
  prefilter combined with a reverse lazy DFA (is there a match END here, where does it START) and a forward lazy DFA (END of
  the leftmost-first match), over ABSTRACT component oracles.  The components have their own models and theorems
  (`Cx.Model.Dfa`, `Cx.Model.Pike`, `Cx.Model.Reverse`); this file is about the way they are combined.

  Go (meta/reverse_suffix.go)                                              Lean (namespace Cx.RevSuffix)
  ------------------------------------------------------------------------------------------------------------------
  s.prefilter.Find(haystack, start)                         (l.257, 359)   Oracles.pfFind h start       (-1 = none)
  s.reverseDFA.SearchReverseLimited(c, h, start, end, minStart)
      (l.285, 383; dfa/lazy/lazy.go:1903)                                  Oracles.revLimited h start end minStart
      >= 0 / -1 / SearchReverseLimitedQuadratic (-2)                         RevAnswer.found s / .none / .cutOff
  s.reverseDFA.SearchReverse(c, h, start, end)      (l.329; lazy.go:1735)  Oracles.revFull h start end  (< 0 = none)
  s.forwardDFA.SearchAt(c, h, at)                   (l.322; lazy.go:189)   Oracles.fwdEnd h at          (-1 = none)
  s.pikevm.SearchAt(h, at)  (l.332),  s.pikevm.Search(h) = SearchAt(h, 0)
      (l.391; nfa/pikevm.go:415)                                           Oracles.pike h at
  s.suffixBytes, s.suffixLen (= len(suffixBytes), l.107), s.matchStartZero,
      s.lineBounded (SetLineBounded, l.178)                                Params.suffix / .matchStartZero / .lineBounded
  lineStartBefore(haystack, at, pos)                        (l.21-30)      lineStartBefore h at pos
  bytes.IndexByte(haystack[pos:], '\n')                     (l.274)        nlFrom h pos      (absolute index)
  bytes.LastIndex(haystack[pos:lineEnd], s.suffixBytes)     (l.277)        lastIndexIn h suf pos lineEnd   (relative)
  the matchStartZero block                                  (l.267-282)    dotStarSpan
  searchSpan(haystack, from, knownStart, …)                 (l.321-335)    searchSpan  (knownStart = -1 is `none`)
  findIndicesAtImpl: the `for` loop                         (l.255-310)    findLoop   (fuel = number of iterations left)
  findIndicesAtImpl / FindIndicesAt / FindIndicesAtWithCaches (l.204-311)  findIndicesAt
  Find / FindAt (l.184-200): FindIndicesAt wrapped in *Match               (not modelled: `NewMatch(start,end,h)`)
  IsMatch: the `for` loop                                   (l.357-403)    isMatchLoop
  IsMatch                                                   (l.346-404)    isMatch

  Left out: the DFA caches and their pools (the cache is invisible: `Cx.Proofs.DfaCache`), statistics, the `*Match`
  wrappers, the constructor (`NewReverseSuffixSearcher`: which literal / prefilter / automata are built — its only
  contribution to the search are the `Params`), `isDotStarLiteral` and `canMatchNewline` (meta/strategy.go: they decide
  `matchStartZero` / `lineBounded`; the theorems state what these flags must guarantee).

  `findLoopT` / `findIndicesAtT` / `isMatchT` are the same functions instrumented with the list of windows `[lo, end)` the
  reverse scans may read (erasure: `Cx.RevSuffix.findIndicesAtT_fst`), for the anti-quadratic bound.
-/
namespace Cx.RevSuffix
open Cx

/-- answer of `SearchReverseLimited`: `>= 0`, `-1`, `SearchReverseLimitedQuadratic` -/
inductive RevAnswer where
  | found (s : Nat)
  | none
  | cutOff
  deriving Repr, DecidableEq, Inhabited

/-- the components the searcher calls -/
structure Oracles where
  /-- `prefilter.Find(haystack, start)` -/
  pfFind : Bytes → Nat → Option Nat
  /-- `reverseDFA.SearchReverseLimited(cache, haystack, start, end, minStart)` -/
  revLimited : Bytes → Nat → Nat → Nat → RevAnswer
  /-- `reverseDFA.SearchReverse(cache, haystack, start, end)` -/
  revFull : Bytes → Nat → Nat → Option Nat
  /-- `forwardDFA.SearchAt(cache, haystack, at)` -/
  fwdEnd : Bytes → Nat → Option Nat
  /-- `pikevm.SearchAt(haystack, at)` -/
  pike : Bytes → Nat → Option (Nat × Nat)

/-- the fields of `ReverseSuffixSearcher` the search reads -/
structure Params where
  suffix : Bytes
  matchStartZero : Bool := false
  lineBounded : Bool := false
  deriving Repr, Inhabited

/-! ### byte searches of package `bytes` -/

/-- `suf` occurs in `h` at offset `p` -/
def occursAt (h suf : Bytes) (p : Nat) : Bool :=
  decide (p + suf.size ≤ h.size) && (List.range suf.size).all (fun k => h.at (p + k) == suf.at k)

/-- least `i` in `[lo, lo+n)` with `p i` -/
def findFirst (p : Nat → Bool) : Nat → Nat → Option Nat
  | _, 0 => none
  | lo, n+1 => if p lo then some lo else findFirst p (lo+1) n

/-- greatest `i` in `[lo, lo+n)` with `p i` -/
def findLast (p : Nat → Bool) (lo : Nat) : Nat → Option Nat
  | 0 => none
  | n+1 => if p (lo + n) then some (lo + n) else findLast p lo n

/-- `lineStartBefore(haystack, at, pos)`: `at + bytes.LastIndexByte(haystack[at:pos], '\n') + 1`, or `at` -/
def lineStartBefore (h : Bytes) (at_ pos : Nat) : Nat :=
  if at_ ≥ pos then at_ else
  match findLast (fun i => h.at i == 10) at_ (pos - at_) with
  | some i => i + 1
  | none => at_

/-- `pos + bytes.IndexByte(haystack[pos:], '\n')` (absolute), `none` for -1 -/
def nlFrom (h : Bytes) (pos : Nat) : Option Nat := findFirst (fun i => h.at i == 10) pos (h.size - pos)

/-- `lineEnd`: `pos + bytes.IndexByte(haystack[pos:], '\n')`, or `len(haystack)` (l.273-276) -/
def lineEndAt (h : Bytes) (pos : Nat) : Nat :=
  match nlFrom h pos with
  | some nl => nl
  | none => h.size

/-- `bytes.LastIndex(haystack[pos:lineEnd], suf)` (relative to `pos`), `none` for -1 -/
def lastIndexIn (h suf : Bytes) (pos lineEnd : Nat) : Option Nat :=
  (findLast (fun p => occursAt h suf p && decide (p + suf.size ≤ lineEnd)) pos (lineEnd + 1 - (pos + suf.size))).map (· - pos)

/-- a prefilter that meets the contract of `prefilter.Find` for the single literal `suf` (used by the driver) -/
def refPfFind (suf : Bytes) (h : Bytes) (start : Nat) : Option Nat :=
  findFirst (occursAt h suf) start (h.size + 1 - start)

/-! ### the search -/

/-- `searchSpan(haystack, from, knownStart, fwdCache, revCache)` -/
def searchSpan (O : Oracles) (h : Bytes) (from_ : Nat) (knownStart : Option Nat) : Option (Nat × Nat) :=
  match O.fwdEnd h from_ with
  | none => none                                         -- end < 0
  | some e =>
    if knownStart = some from_ then some (from_, e)      -- knownStart == from
    else
      match O.revFull h from_ e with
      | none => O.pike h from_                           -- start < 0: PikeVM
      | some s => some (s, e)

/-- the `matchStartZero` block: the span of `.*suffix` given the first candidate `pos` -/
def dotStarSpan (P : Params) (h : Bytes) (at_ pos suffixEnd : Nat) : Nat × Nat :=
  let lineStart := lineStartBefore h at_ pos
  let lineEnd := lineEndAt h pos
  let suffixEnd := match lastIndexIn h P.suffix pos lineEnd with
    | some lastPos => if lastPos > 0 then pos + lastPos + P.suffix.size else suffixEnd
    | none => suffixEnd
  (lineStart, suffixEnd)

/-- the loop of `findIndicesAtImpl`; state `searchStart`, `minStart` -/
def findLoop (O : Oracles) (P : Params) (h : Bytes) (at_ : Nat) : Nat → Nat → Nat → Option (Nat × Nat)
  | 0, _, _ => none
  | fuel+1, searchStart, minStart =>
    match O.pfFind h searchStart with
    | none => none
    | some pos =>
      let suffixEnd := if pos + P.suffix.size > h.size then h.size else pos + P.suffix.size
      if P.matchStartZero then some (dotStarSpan P h at_ pos suffixEnd)
      else
        match O.revLimited h at_ suffixEnd minStart with
        | .cutOff => searchSpan O h at_ none
        | .found matchStart =>
          let from_ := if P.lineBounded then lineStartBefore h at_ pos else at_
          searchSpan O h from_ (some matchStart)
        | .none =>
          -- minStart = suffixEnd; searchStart = pos + 1
          if pos + 1 ≥ h.size then none else findLoop O P h at_ fuel (pos + 1) suffixEnd

/-- `findIndicesAtImpl(haystack, at, …)` = `FindIndicesAt` = `FindIndicesAtWithCaches` -/
def findIndicesAt (O : Oracles) (P : Params) (h : Bytes) (at_ : Nat) : Option (Nat × Nat) :=
  if at_ ≥ h.size then none else findLoop O P h at_ (h.size - at_) at_ at_

/-- the loop of `IsMatch`; state `start`, `minStart` -/
def isMatchLoop (O : Oracles) (P : Params) (h : Bytes) : Nat → Nat → Nat → Bool
  | 0, _, _ => false
  | fuel+1, start, minStart =>
    match O.pfFind h start with
    | none => false
    | some pos =>
      let revEnd := if pos + P.suffix.size > h.size then h.size else pos + P.suffix.size
      match O.revLimited h 0 revEnd minStart with
      | .found _ => true
      | .cutOff => (O.pike h 0).isSome
      | .none => if pos + 1 ≥ h.size then false else isMatchLoop O P h fuel (pos + 1) revEnd

/-- `IsMatch(haystack)` -/
def isMatch (O : Oracles) (P : Params) (h : Bytes) : Bool :=
  if h.size = 0 then false else isMatchLoop O P h h.size 0 0

/-! ### the same, instrumented: which windows `[lo, end)` may the reverse scans read?

`SearchReverseLimited(h, start, end, minStart)` reads `h[i]` for `max(start, minStart) ≤ i < end` at most (lazy.go:1916-1926),
`SearchReverse(h, start, end)` for `start ≤ i < end`. -/

structure Trace where
  /-- windows of the `SearchReverseLimited` calls, in call order -/
  limited : List (Nat × Nat) := []
  /-- window of the `SearchReverse` call of `searchSpan`, if it is made -/
  full : Option (Nat × Nat) := none
  /-- the forward scan `SearchAt(h, from)` of `searchSpan` reads `h[from:]` at most -/
  fwd : Option Nat := none
  /-- number of `prefilter.Find` calls -/
  pfCalls : Nat := 0
  deriving Repr, Inhabited

def searchSpanT (O : Oracles) (h : Bytes) (from_ : Nat) (knownStart : Option Nat) (t : Trace) : Option (Nat × Nat) × Trace :=
  let t := { t with fwd := some from_ }
  match O.fwdEnd h from_ with
  | none => (none, t)
  | some e =>
    if knownStart = some from_ then (some (from_, e), t)
    else
      let t := { t with full := some (from_, e) }
      match O.revFull h from_ e with
      | none => (O.pike h from_, t)
      | some s => (some (s, e), t)

def findLoopT (O : Oracles) (P : Params) (h : Bytes) (at_ : Nat) : Nat → Nat → Nat → Trace → Option (Nat × Nat) × Trace
  | 0, _, _, t => (none, t)
  | fuel+1, searchStart, minStart, t =>
    let t := { t with pfCalls := t.pfCalls + 1 }
    match O.pfFind h searchStart with
    | none => (none, t)
    | some pos =>
      let suffixEnd := if pos + P.suffix.size > h.size then h.size else pos + P.suffix.size
      if P.matchStartZero then (some (dotStarSpan P h at_ pos suffixEnd), t)
      else
        let t := { t with limited := t.limited ++ [(max at_ minStart, suffixEnd)] }
        match O.revLimited h at_ suffixEnd minStart with
        | .cutOff => searchSpanT O h at_ none t
        | .found matchStart =>
          let from_ := if P.lineBounded then lineStartBefore h at_ pos else at_
          searchSpanT O h from_ (some matchStart) t
        | .none =>
          if pos + 1 ≥ h.size then (none, t) else findLoopT O P h at_ fuel (pos + 1) suffixEnd t

def findIndicesAtT (O : Oracles) (P : Params) (h : Bytes) (at_ : Nat) : Option (Nat × Nat) × Trace :=
  if at_ ≥ h.size then (none, {}) else findLoopT O P h at_ (h.size - at_) at_ at_ {}

def isMatchLoopT (O : Oracles) (P : Params) (h : Bytes) : Nat → Nat → Nat → Trace → Bool × Trace
  | 0, _, _, t => (false, t)
  | fuel+1, start, minStart, t =>
    let t := { t with pfCalls := t.pfCalls + 1 }
    match O.pfFind h start with
    | none => (false, t)
    | some pos =>
      let revEnd := if pos + P.suffix.size > h.size then h.size else pos + P.suffix.size
      let t := { t with limited := t.limited ++ [(max 0 minStart, revEnd)] }
      match O.revLimited h 0 revEnd minStart with
      | .found _ => (true, t)
      | .cutOff => ((O.pike h 0).isSome, t)
      | .none => if pos + 1 ≥ h.size then (false, t) else isMatchLoopT O P h fuel (pos + 1) revEnd t

def isMatchT (O : Oracles) (P : Params) (h : Bytes) : Bool × Trace :=
  if h.size = 0 then (false, {}) else isMatchLoopT O P h h.size 0 0 {}

/-- bytes the windows cover -/
def windowsCost (ws : List (Nat × Nat)) : Nat := (ws.map fun w => w.2 - w.1).sum

/-- upper bound on the bytes read by all reverse scans of one call -/
def Trace.revCost (t : Trace) : Nat :=
  windowsCost t.limited + (match t.full with | some w => w.2 - w.1 | none => 0)

/-! ### brute-force oracles (driver, non-vacuity of the contracts) -/

/-- oracles computed from a table for ONE haystack (their haystack argument is ignored): `mt s e` = the pattern matches
    `h[s:e)`, `ref a` = the reference's answer from `a`.  `cutMode` chooses among the answers the contract of
    `SearchReverseLimited` allows when `start < minStart`: 0 = always the exact answer, 1 = always cutOff,
    2 = cutOff iff `end + minStart` is odd.  `giveUp`: `SearchReverse` always answers -1 (cache limits). -/
def bruteOracles (suf : Bytes) (mt : Nat → Nat → Bool) (ref : Nat → Option (Nat × Nat)) (cutMode : Nat) (giveUp : Bool) :
    Oracles where
  pfFind := refPfFind suf
  revLimited := fun _ lo e m =>
    if decide (lo < m) && (cutMode == 1 || (cutMode == 2 && (e + m) % 2 == 1)) then .cutOff else
    match findFirst (fun s => mt s e) lo (e + 1 - lo) with
    | some s => .found s
    | none => .none
  revFull := fun _ lo e => if giveUp then none else findFirst (fun s => mt s e) lo (e + 1 - lo)
  fwdEnd := fun _ a => (ref a).map (·.2)
  pike := fun _ a => ref a

end Cx.RevSuffix
