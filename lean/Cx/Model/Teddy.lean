import Cx.Basic
/-
  Cx.Model.Teddy — `prefilter/teddy.go` (slim Teddy, scalar candidate finder): nibble masks with up to 8 buckets
  (`buildMasks`), fingerprint candidate search (`findScalarCandidate`; the SSSE3/AVX2 kernels compute the same
  function and are tied by correspondence), bucket verification in bucket order (`verifyBucket`), the resume loop
  of `Find` / `FindMatch`, and the short-haystack path (`findScalar`, `findMatchScalar`).
  Bit sets are `Nat` (bit k = bucket k).
-/
namespace Cx.Teddy
open Cx

abbrev Pat := List Nat

structure T where
  patterns : List Pat
  fpLen : Nat          -- fingerprint length: min(config, minLen, 4)
  nb : Nat             -- number of buckets: min(8, #patterns)
  minLen : Nat
  deriving Repr

def mk (patterns : List Pat) (fpCfg : Nat) : T :=
  let minLen := (patterns.map List.length).foldl min (patterns.headD []).length
  { patterns := patterns, fpLen := min (min fpCfg minLen) 4, nb := min 8 patterns.length, minLen := minLen }

/-- `masks.loMasks[pos][nib]`: OR over patterns whose byte `pos` has low nibble `nib` of their bucket bit -/
def loMask (t : T) (pos nib : Nat) : Nat :=
  (t.patterns.zipIdx.filter fun (p, _) => p.getD pos 0 % 16 = nib).foldl (fun acc (_, id) => acc ||| (1 <<< (id % t.nb))) 0

def hiMask (t : T) (pos nib : Nat) : Nat :=
  (t.patterns.zipIdx.filter fun (p, _) => p.getD pos 0 / 16 % 16 = nib).foldl (fun acc (_, id) => acc ||| (1 <<< (id % t.nb))) 0

/-- candidate mask at offset `i` of `h`: AND over the fingerprint positions of lo & hi nibble masks -/
def candMask (t : T) (h : Bytes) (i : Nat) : Nat :=
  (List.range t.fpLen).foldl (fun acc pos => acc &&& loMask t pos (h.at (i + pos) % 16) &&& hiMask t pos (h.at (i + pos) / 16 % 16)) 255

/-- `findScalarCandidate(h[from:])`: first `i ≥ from` with `i + fpLen ≤ len` and non-zero mask -/
def findCand (t : T) (h : Bytes) : Nat → Nat → Option (Nat × Nat)
  | 0, _ => none
  | fuel+1, i =>
    if i + t.fpLen > h.size then none else
    let m := candMask t h i
    if m ≠ 0 then some (i, m) else findCand t h fuel (i + 1)

def occursAt (h : Bytes) (p : Pat) (i : Nat) : Bool :=
  i + p.length ≤ h.size && (List.range p.length).all fun k => h.at (i + k) = p.getD k 0

/-- `verifyBucket`: first pattern of the bucket (in pattern order within the bucket) that occurs at `pos` -/
def verifyBucket (t : T) (h : Bytes) (pos bucket : Nat) : Option Nat :=
  ((t.patterns.zipIdx.filter fun (_, id) => id % t.nb = bucket).find? fun (p, _) => occursAt h p pos).map (·.2)

/-- all buckets of the candidate mask are verified (`TrailingZeros8` loop); the smallest matching pattern id wins
    (post-fix behaviour: alternation priority, not bucket order) -/
def verifyMask (t : T) (h : Bytes) (pos mask : Nat) : Option Nat :=
  ((List.range 8).filterMap fun b => if mask.testBit b then verifyBucket t h pos b else none).foldl
    (fun best id => match best with | none => some id | some b => some (min b id)) none

/-- the resume loop of `FindMatch` on haystacks of at least 16 bytes: (match start, pattern id) -/
def findLoop (t : T) (h : Bytes) : Nat → Nat → Option (Nat × Nat)
  | 0, _ => none
  | fuel+1, from_ =>
    match findCand t h (h.size + 1) from_ with
    | none => none
    | some (pos, mask) =>
      match verifyMask t h pos mask with
      | some id => some (pos, id)
      | none => if pos + 1 ≥ h.size then none else findLoop t h fuel (pos + 1)

/-- `findMatchScalar`: every offset, patterns in pattern order -/
def findScalar (t : T) (h : Bytes) : Nat → Nat → Option (Nat × Nat)
  | 0, _ => none
  | fuel+1, i =>
    if i + t.minLen > h.size then none else
    match (t.patterns.zipIdx.find? fun (p, _) => occursAt h p i) with
    | some (_, id) => some (i, id)
    | none => findScalar t h fuel (i + 1)

/-- `FindMatch(haystack, start)`: (start, pattern id); `Find` is its first component -/
def findMatch (t : T) (h : Bytes) (start : Nat) : Option (Nat × Nat) :=
  if start ≥ h.size then none else
  if h.size - start < 16 then findScalar t h (h.size + 1) start
  else findLoop t h (h.size + 1) start

def find (t : T) (h : Bytes) (start : Nat) : Option Nat := (findMatch t h start).map (·.1)

/-- the specification: least offset ≥ start at which some pattern occurs -/
def naiveFind (pats : List Pat) (h : Bytes) : Nat → Nat → Option Nat
  | 0, _ => none
  | fuel+1, i =>
    if i > h.size then none else
    if pats.any fun p => occursAt h p i then some i else naiveFind pats h fuel (i + 1)

end Cx.Teddy
