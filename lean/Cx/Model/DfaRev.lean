import Cx.Model.Dfa
import Cx.Model.RevSuffix
/-
  Cx.Model.DfaRev — the REVERSE searches of the lazy DFA (`dfa/lazy/lazy.go`), transliterated on top of `Cx.Model.Dfa`.

  A reverse DFA is an ordinary `lazy.DFA` compiled from a reverse automaton (`nfa.Reverse(N)` / `nfa.ReverseAnchored(N)`,
  model `Cx.Model.Reverse`) with `Config.BreakAtMatch = false` (meta/reverse_suffix.go:135, reverse_suffix_set.go:104,
  reverse_inner.go:311, reverse_anchored.go:56, compile.go:194): `determinize` then never cuts the thread list at a match
  state (`Dfa.step` with `cfg.breakAtMatch = false`: the `brk` argument of `moveLoop` is `false`), so a DFA state is the
  SET of all threads alive — "all matches" semantics.  The loops read the haystack BACKWARDS (`h[end-1], h[end-2], …`) and
  remember the last position at which a match state was seen, i.e. the LEFTMOST start.

  Go (dfa/lazy/lazy.go)                                            here (namespace Cx.Dfa)
  ---------------------------------------------------------------------------------------------------------------------
  getStartStateForReverse(cache, haystack, end)                    `getStartK N cfg c (kindRev h end) false`
      kind = StartText if end >= len, else byteMap[haystack[end]]    `kindRev`
      the rest is getStartState verbatim (+ startStateAfterClear)    `getStartK` (`getStart = getStartK ∘ kindAt`, by `rfl`)
  reverseWalk(haystack, start, end, minStart, earliest)            `reverseWalk`  (loop: `revWalkLoop`; the body of
      (the uncached search behind all three NFA fallbacks)           determinize minus cache and limit: `walkStep`)
  nfaFallbackReverse(h, start, end)                                `reverseWalk … start end start false`
  nfaFallbackReverseLimited(h, start, end, minStart)               `reverseWalk … start end minStart false`
  nfaFallbackIsMatchReverse(h, start, end)                         `(reverseWalk … start end start true).isFound`
  SearchReverse(cache, h, start, end)                              `searchReverseC`  = 4x unrolled block `revFast`, then the
                                                                     single-byte tail loop `revLoopC` (lb = minStart = start)
  SearchReverseLimited(cache, h, start, end, minStart)             `searchReverseLimitedC` (loop `revLoopC`, lb = max start minStart)
  SearchReverseLimitedQuadratic (-2)                               `RevAnswer.cutOff`
  IsMatchReverse(cache, h, start, end)                             `isMatchReverseC` (loop `revLoopC` with `earliest = true`)
  results: `>= 0` / `-1` / `-2`                                    `RevAnswer.found s` / `.none` / `.cutOff`
                                                                     (type shared with `Cx.Model.RevSuffix`)

  The three single-byte loops of the Go code (tail of SearchReverse, SearchReverseLimited, IsMatchReverse) are the same
  loop up to (i) the lower bound (`start` / `lowerBound = max(start, minStart)`), (ii) what is done at a match-tagged
  state (record `at+1` / return true), (iii) which fallback is called, (iv) the epilogue (`-2` if `lowerBound > start`).
  `revLoopC` takes these as parameters `(start, minStart, lb, earliest)`; the instances are spelled out in
  `searchReverseC`, `searchReverseLimitedC`, `isMatchReverseC`.  Positions: the Go loops run `at` from `end-1` down to the
  bound (an `int` that may reach -1); the model carries `p = at + 1` (so `lastMatch = at+1 = p`, the byte read is `h[p-1]`,
  the loop condition `at >= lb` is `p > lb`).

  When exactly is `-2` returned?  Only after the loop has run to completion (every byte `h[end-1] … h[lowerBound]` read
  without reaching the dead state / a `nil` successor) and `lowerBound > start`; in particular always when
  `minStart > start` and `minStart >= end`.  The DFA loop and `reverseWalk` differ in ONE case: when the thread set
  becomes empty on the very last byte read (`h[lowerBound]`) while the source set contained a match state, `determinize`
  creates a dead-end match state (the loop then completes: `-2`), whereas `reverseWalk` returns `lastMatch` at once
  (`len(next) == 0`).  So with `minStart > start` the result of `SearchReverseLimited` may depend on whether the cache
  forced the NFA fallback (`Cx.Dfa.limited_cache_dependent` in `Cx.Proofs.DfaRevExamples`: pattern `ab`, "xxab", start 0, end 4, minStart 1:
  -2 from the DFA loop, 2 from the fallback); both answers are within the contract (-2 = "ask another engine").

  Uncached versions (`…U`): `reverseWalk` IS the search without a cache ("simulates the DFA without its cache").

  Kept as in the code: the start state is requested with `anchored = false` (`startUnanchored` of the reverse automaton);
  the start kind only enters the state through `isFromWord`/`lookHave` (reverse DFAs are built for look-free patterns
  only, but the model keeps `resolved`, i.e. `resolveLookAhead`, as `determinize` and `reverseWalk` have it); the EOI check
  of the reverse loops is `containsNFAMatch` on the raw state list (NO end-of-input closure, unlike `checkEOIMatch`); the
  4x unrolled block of `SearchReverse` is left for good on the first tagged / unknown transition (`goto reverseSlowPath`
  is a `break`), no acceleration, no start-state fast path.  `cache.IsMatchState(sid)` is the match tag of the id.

  Core-only and executable.
-/
namespace Cx.Dfa
open Cx Cx.Nfa
open Cx.RevSuffix (RevAnswer)

/-- the start kind `getStartStateForReverse` / `reverseWalk` select for a scan that begins at `end` -/
def kindRev (h : Bytes) (e : Nat) : StartKind := if e ≥ h.size then .text else kindOfByte (h.at e)

/-- `getStartState` / `getStartStateForReverse` after the kind has been chosen (incl. `startStateAfterClear`);
    `none` = the caller falls back to the NFA -/
def getStartK (N : NFA) (cfg : Config) (c : Cache) (kind : StartKind) (anch : Bool) : Option CState × Cache :=
  let id := c.start kind anch
  if id ≠ Sid.invalid then (c.getState id, c) else
  let st := startState N kind anch
  match c.putStart cfg st kind anch with
  | some r => (some r.1, r.2)
  | none =>
    -- startStateAfterClear
    if c.clearCount ≥ cfg.maxClears then (none, c) else
    let c1 := clearRebuild N c
    match c1.putStart cfg st kind anch with
    | some r => (some r.1, r.2)
    | none => (none, c1)

theorem getStart_eq_K (N : NFA) (cfg : Config) (c : Cache) (h : Bytes) (pos : Nat) (anch : Bool) :
    getStart N cfg c h pos anch = getStartK N cfg c (kindAt h pos) anch := rfl

/-- `lastMatch` as an answer: `>= 0` / `-1` -/
def ofLast : Option Nat → RevAnswer
  | some s => .found s
  | none => .none

/-- `>= 0` -/
def _root_.Cx.RevSuffix.RevAnswer.isFound : RevAnswer → Bool
  | .found _ => true
  | _ => false

/-- the answer as `SearchReverse` callers read it (`start < 0` = no start) -/
def _root_.Cx.RevSuffix.RevAnswer.toOption : RevAnswer → Option Nat
  | .found s => some s
  | _ => none

/-! ### the uncached reverse search (`reverseWalk`) -/

/-- "the body of determinize, minus the cache" (and minus the determinization limit): `(sourceHasMatch, next)` -/
def walkStep (N : NFA) (cfg : Config) (S : DState) (b : Nat) : Bool × List Nat :=
  let cur := resolved N S b
  let srcMatch := containsMatch N cur
  (srcMatch, moveLoop N (lookAfter b) b (srcMatch && cfg.breakAtMatch) cur [])

/-- `states = next; isFromWord = isWordByte(b); lookHave = LookStartLine & mask if b == '\n'` (and the delayed match flag
    the DFA state reached by this byte carries) -/
def walkState (N : NFA) (b : Nat) (srcMatch : Bool) (next : List Nat) : DState :=
  { nfa := next, isMatch := srcMatch, fromWord := isWordByte b, lhText := false, lhLine := b == 10 && hasStartLine N }

/-- the `for at := end - 1; at >= lowerBound; at--` loop of `reverseWalk` and its epilogue; `p = at + 1` -/
def revWalkLoop (N : NFA) (cfg : Config) (h : Bytes) (start lb : Nat) (earliest : Bool) :
    Nat → Nat → DState → Option Nat → RevAnswer
  | 0, _, _, last => ofLast last
  | fuel+1, p, S, last =>
    if p > lb then
      let b := h.at (p - 1)
      let r := walkStep N cfg S b
      let last := if r.1 then some p else last
      if r.1 && earliest then ofLast last
      else if r.2.isEmpty then ofLast last
      else revWalkLoop N cfg h start lb earliest fuel (p - 1) (walkState N b r.1 r.2) last
    else
      -- EOI for reverse: delayed match at the region start
      let last := if containsMatch N S.nfa then some lb else last
      if lb > start then .cutOff else ofLast last

/-- `lowerBound` -/
def lowerBound (start minStart : Nat) : Nat := if minStart > start then minStart else start

/-- `reverseWalk(haystack, start, end, minStart, earliest)` -/
def reverseWalk (N : NFA) (cfg : Config) (h : Bytes) (start e minStart : Nat) (earliest : Bool) : RevAnswer :=
  if e ≤ start ∨ e > h.size then .none else
  revWalkLoop N cfg h start (lowerBound start minStart) earliest (e - lowerBound start minStart + 1) e
    (startState N (kindRev h e) false) none

/-- `SearchReverse` without a cache (= `nfaFallbackReverse`) -/
def searchReverseU (N : NFA) (cfg : Config) (h : Bytes) (start e : Nat) : RevAnswer :=
  reverseWalk N cfg h start e start false

/-- `SearchReverseLimited` without a cache (= `nfaFallbackReverseLimited`) -/
def searchReverseLimitedU (N : NFA) (cfg : Config) (h : Bytes) (start e minStart : Nat) : RevAnswer :=
  reverseWalk N cfg h start e minStart false

/-- `IsMatchReverse` without a cache (= `nfaFallbackIsMatchReverse`) -/
def isMatchReverseU (N : NFA) (cfg : Config) (h : Bytes) (start e : Nat) : Bool :=
  (reverseWalk N cfg h start e start true).isFound

/-! ### the cached reverse searches -/

/-- The 4x unrolled block of `SearchReverse`: `k = 0` is the loop head (`at >= start+3` is checked), `k > 0` are
    transitions 2-4.  Returns where the single-byte tail loop takes over. -/
def revFast (cfg : Config) (c : Cache) (h : Bytes) (start : Nat) : Nat → Nat → Sid → Nat → Nat × Sid
  | 0, p, sid, _ => (p, sid)
  | fuel+1, p, sid, k =>
    if k > 0 ∨ p ≥ start + 4 then
      let n := c.lookupT sid.off (cfg.cls (h.at (p - 1)))
      if n.tagged then (p, sid) else revFast cfg c h start fuel (p - 1) n (nextPhase k)
    else (p, sid)

/-- the single-byte reverse loop with its epilogue (see the header for the parameters) -/
def revLoopC (N : NFA) (cfg : Config) (h : Bytes) (start e minStart lb : Nat) (earliest : Bool) :
    Nat → Cache → Nat → Sid → Option Nat → RevAnswer × Cache
  | 0, c, _, _, last => (ofLast last, c)
  | fuel+1, c, p, sid, last =>
    if p > lb then
      let b := h.at (p - 1)
      let nx := c.lookupT sid.off (cfg.cls b)
      if nx = Sid.invalid then
        match c.getState sid with
        | none => (reverseWalk N cfg h start e minStart earliest, c)
        | some cur =>
          match determinize N cfg c cur b with
          | (.dead, c1) => (ofLast last, c1)
          | (.next cs, c1) =>
            if cs.id.mtch && earliest then (.found p, c1)
            else revLoopC N cfg h start e minStart lb earliest fuel c1 (p - 1) cs.id (if cs.id.mtch then some p else last)
          | (.fail, c1) => (reverseWalk N cfg h start e minStart earliest, c1)
      else if nx = Sid.deadS then (ofLast last, c)
      else if nx.mtch && earliest then (.found p, c)
      else revLoopC N cfg h start e minStart lb earliest fuel c (p - 1) nx (if nx.mtch then some p else last)
    else
      -- eoi := cache.getState(sid); eoi != nil && containsNFAMatch(d.nfa, eoi.NFAStates())
      let last := match c.getState sid with
        | some eoi => if containsMatch N eoi.st.nfa then some lb else last
        | none => last
      if lb > start then (.cutOff, c) else (ofLast last, c)

/-- `SearchReverse(cache, haystack, start, end)` -/
def searchReverseC (N : NFA) (cfg : Config) (c : Cache) (h : Bytes) (start e : Nat) : RevAnswer × Cache :=
  if e ≤ start ∨ e > h.size then (.none, c) else
  match getStartK N cfg c (kindRev h e) false with
  | (none, c1) => (reverseWalk N cfg h start e start false, c1)
  | (some cur, c1) =>
    let f := revFast cfg c1 h start e e cur.id 0
    revLoopC N cfg h start e start start false (f.1 - start + 1) c1 f.1 f.2 none

/-- `SearchReverseLimited(cache, haystack, start, end, minStart)` -/
def searchReverseLimitedC (N : NFA) (cfg : Config) (c : Cache) (h : Bytes) (start e minStart : Nat) : RevAnswer × Cache :=
  if e ≤ start ∨ e > h.size then (.none, c) else
  match getStartK N cfg c (kindRev h e) false with
  | (none, c1) => (reverseWalk N cfg h start e minStart false, c1)
  | (some cur, c1) =>
    revLoopC N cfg h start e minStart (lowerBound start minStart) false (e - lowerBound start minStart + 1) c1 e cur.id none

/-- `IsMatchReverse(cache, haystack, start, end)` -/
def isMatchReverseC (N : NFA) (cfg : Config) (c : Cache) (h : Bytes) (start e : Nat) : Bool × Cache :=
  if e ≤ start ∨ e > h.size then (false, c) else
  match getStartK N cfg c (kindRev h e) false with
  | (none, c1) => ((reverseWalk N cfg h start e start true).isFound, c1)
  | (some cur, c1) =>
    let r := revLoopC N cfg h start e start start true (e - start + 1) c1 e cur.id none
    (r.1.isFound, r.2)

end Cx.Dfa
