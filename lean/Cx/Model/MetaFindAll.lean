import Cx.Spec.Utf8
import Cx.Model.Loops
import Cx.Model.MetaFind
/-
  Cx.Model.MetaFindAll — the ENUMERATION LOOPS INSIDE THE META ENGINE (`meta/findall.go` of the snapshot `repo_head`, the whole
  file), transliterated branch by branch over abstract single-search oracles for ONE haystack of length `len`.
  `Cx.Model.Loops` has the loop skeletons over one abstract `find`; this file has the text of findall.go itself: the
  `useDFADirect` branch that calls the DFA pair directly, its guard, the caches of the pooled `SearchState` the guard reads, the
  always-anchored shortcut, the CharClassSearcher streaming branch, Go's `n int` limit, the accumulators (`results`, `count`,
  `matches`), `nextPos`, and the two-phase `findSubmatchAtWithState` under `FindAllSubmatch`.
  `Cx.Proofs.MetaFindAll` proves the refinement to `Cx.Loops.findAllA / findAllB` over the reference search.

  Go (meta/findall.go, line numbers of `repo_head`)                                Lean (namespace Cx.MetaFindAll)
  ------------------------------------------------------------------------------------------------------------------------
  nextPos(b, pos)                                                      (l.15-21)    nextPos h pos  (= `Loops.nextOf (Utf8.widthAt h)`:
                                                                                    `nextPos_eq_nextOf`); the loops take `next`
  e.findIndicesAtWithState(haystack, pos, state)           (l.119, 259, 354)        Oracles.findAt pos
  e.FindIndices(haystack)                                              (l.219)      Oracles.findIndices
  e.dfa.SearchAt(state.dfaCache, haystack, pos)            (l.245, 340; -1 = none)  Oracles.fwdSearchAt pos
      (the comments l.231, 329 speak of `SearchFirstAt` "with integrated prefilter"; the code calls `SearchAt`, which uses none)
  e.reverseDFA.SearchReverse(state.revDFACache, haystack, pos, matchEnd)
                                                           (l.252, 347; < 0 = none) Oracles.revSearch pos matchEnd
  e.charClassSearcher.FindAllIndices(haystack, results)                (l.179)      Oracles.ccFindAll
  e.strategy (meta/strategy.go l.28-230, all 17 constants)                          Params.strategy : Strat
  e.longest, e.dfa != nil, e.reverseDFA != nil, e.nfa.IsAlwaysAnchored(), e.isStartAnchored,
      e.charClassSearcher != nil, e.onepass != nil, e.nfa.CaptureCount()            Params.longest / .hasDFA / .hasReverseDFA / .alwaysAnchored /
                                                                                    .isStartAnchored / .hasCharClassSearcher / .hasOnePass / .captureCount
  state.dfaCache != nil      (search_state.go l.104-109: forwardDFA != nil and strategy ∈ {DFA, Both, DigitPrefilter, BoundedBacktracker})
                                                                                    hasDfaCache P
  state.revDFACache != nil   (search_state.go l.112-117: reverseDFA != nil and strategy ∈ {DFA, BoundedBacktracker})
                                                                                    hasRevDFACache P
  state.onepassCache != nil  (search_state.go l.134-137: hasOnePass && numCaptures > 0)   hasOnepassCache P
  useDFADirect := !e.longest && (e.strategy == UseDFA || e.strategy == UseBoth) && e.dfa != nil && e.reverseDFA != nil &&
      state.dfaCache != nil && state.revDFACache != nil                (l.234-236, 331-333: two copies)   useDFADirect P
      the same guard without `!e.longest` (`Count` until the fix that this snapshot contains)     useDFADirectNoLongestGuard P, countNoLongestGuard
  `if useDFADirect { … } else { start, end, found = e.findIndicesAtWithState(…) }; if !found { break }`
                                                           (l.242-263, 339-358: two copies)   searchStep O direct pos
  the `for n <= 0 || len(results) < n` loop of findAllIndicesLoop      (l.238-298)   idxLoop   (fuel = iterations left; state pos, lastMatchEnd, results)
  findAllIndicesLoop (results[:0]; the IsAlwaysAnchored shortcut l.218-224)  (l.193-301)   findAllIndicesLoop
      (the `initCap` computation l.194-211 only sizes the slice: `isStartAnchored` has no other reader here)
  FindAllIndicesStreaming                                              (l.172-187)   findAllIndicesStreaming
  the `for pos <= len(haystack)` loop of Count                         (l.335-392)   countLoop (state pos, lastNonEmptyEnd, count)
  Count                                                                (l.315-395)   count
  findSubmatchAtWithState (= FindSubmatchAt for at ≤ len, l.61-71)     (l.75-145)    findSubmatchAtWithState
      e.onepass.Search / .SearchLongest(haystack, state.onepassCache) + slotsToCaptures (l.78-91, 149-162)   SubOracles.onepass / .onepassLongest
      state.pikevm.SearchWithSlotTableCapturesAt(haystack, at)         (l.110, 138)  SubOracles.pikeCapsAt at
      state.pikevm.SearchWithCapturesInSpan(haystack, start, end)      (l.135)       SubOracles.pikeCapsInSpan start end
      `captures := [][]int{{start, end}}`                              (l.127)       SubOracles.ofSpan start end
      `switch e.strategy { case UseBoundedBacktracker, UseNFA, UseDFA, UseBoth, UseDigitPrefilter: … }` (l.106-115)   directToPike
  the `for pos <= len(haystack)` loop of FindAllSubmatch               (l.423-463)   subLoop (state pos, lastMatchEnd, matches)
  FindAllSubmatch                                                      (l.409-466)   findAllSubmatch
  FindSubmatch = FindSubmatchAt(haystack, 0)                           (l.42-44)     findSubmatchAtWithState … 0

  `-1` answers / `found == false` / `nil` are `none`; `lastMatchEnd := -1` is `none`; a span is `(start, end)`.
  Left out: statistics counters, the `SearchState` pool (`getSearchState` / `putSearchState`: the loops acquire ONE state; the
  DFA caches it carries are invisible, `Cx.Proofs.DfaCache`), slice capacities, the `*MatchWithCaptures` wrapper
  (`Start()` / `End()` = `sp`).  `fuel` bounds the number of iterations; every iteration moves `pos` forward (`nextPos` and the
  advance rule are strictly increasing on well-formed answers) and the loops leave when `pos > len`, so `len + 2` iterations
  are never used up (the refinement theorems are stated for that fuel, as in `Cx.Model.Loops`).
-/
namespace Cx.MetaFindAll
open Cx
open Cx.MetaFind (Span)

/-- `meta.Strategy` (meta/strategy.go) -/
inductive Strat where
  | nfa | dfa | both | reverseAnchored | reverseSuffix | onePass | reverseInner | boundedBacktracker | teddy
  | reverseSuffixSet | charClassSearcher | compositeSearcher | branchDispatch | digitPrefilter | ahoCorasick
  | anchoredLiteral | multilineReverseSuffix
  deriving Repr, DecidableEq, Inhabited

/-- the fields of `Engine` that findall.go reads -/
structure Params where
  strategy : Strat := .nfa
  longest : Bool := false
  hasDFA : Bool := false
  hasReverseDFA : Bool := false
  alwaysAnchored : Bool := false
  /-- `e.isStartAnchored`: only sizes the result slice -/
  isStartAnchored : Bool := false
  hasCharClassSearcher : Bool := false
  hasOnePass : Bool := false
  captureCount : Nat := 1
  deriving Repr, Inhabited

/-- the single-search components the loops call, for one haystack -/
structure Oracles where
  /-- `findIndicesAtWithState(haystack, at, state)` -/
  findAt : Nat → Option Span
  /-- `FindIndices(haystack)` -/
  findIndices : Option Span
  /-- `dfa.SearchAt(state.dfaCache, haystack, at)` -/
  fwdSearchAt : Nat → Option Nat
  /-- `reverseDFA.SearchReverse(state.revDFACache, haystack, start, end)` -/
  revSearch : Nat → Nat → Option Nat
  /-- `charClassSearcher.FindAllIndices(haystack, results)` -/
  ccFindAll : List Span := []

/-! ### `nextPos` -/

/-- `nextPos(b, pos)` (l.15-21) -/
def nextPos (h : Bytes) (pos : Nat) : Nat :=
  if pos ≥ h.size ∨ h.at pos < 128 then pos + 1            -- pos >= len(b) || b[pos] < utf8.RuneSelf
  else pos + (Utf8.decodeAt h pos).2                        -- _, w := utf8.DecodeRune(b[pos:]); pos + w

/-! ### the pooled `SearchState` (search_state.go `newSearchState`) -/

/-- `state.dfaCache != nil` -/
def hasDfaCache (P : Params) : Bool :=
  P.hasDFA && (match P.strategy with | .dfa | .both | .digitPrefilter | .boundedBacktracker => true | _ => false)

/-- `state.revDFACache != nil` -/
def hasRevDFACache (P : Params) : Bool :=
  P.hasReverseDFA && (match P.strategy with | .dfa | .boundedBacktracker => true | _ => false)

/-- `state.onepassCache != nil` -/
def hasOnepassCache (P : Params) : Bool := P.hasOnePass && decide (P.captureCount > 0)

/-- `useDFADirect` (l.234-236 and l.331-333) -/
def useDFADirect (P : Params) : Bool :=
  !P.longest && (decide (P.strategy = .dfa) || decide (P.strategy = .both)) &&
    P.hasDFA && P.hasReverseDFA && hasDfaCache P && hasRevDFACache P

/-- the guard as it stood in `Count` before the fix: no `!e.longest` -/
def useDFADirectNoLongestGuard (P : Params) : Bool :=
  (decide (P.strategy = .dfa) || decide (P.strategy = .both)) &&
    P.hasDFA && P.hasReverseDFA && hasDfaCache P && hasRevDFACache P

/-! ### the search of one iteration -/

/-- l.242-263 = l.339-358: the direct two-pass DFA search or `findIndicesAtWithState`; `none` = the loop `break`s -/
def searchStep (O : Oracles) (direct : Bool) (pos : Nat) : Option Span :=
  if direct then
    match O.fwdSearchAt pos with                       -- matchEnd := e.dfa.SearchAt(state.dfaCache, haystack, pos)
    | none => none                                     -- matchEnd < 0: break
    | some matchEnd =>
      if matchEnd = pos then some (pos, pos)           -- start, end, found = pos, pos, true
      else
        match O.revSearch pos matchEnd with            -- matchStart := e.reverseDFA.SearchReverse(…, pos, matchEnd)
        | none => none                                 -- matchStart < 0: break
        | some matchStart => some (matchStart, matchEnd)
  else O.findAt pos                                    -- !found: break

/-! ### FindAllIndicesStreaming / findAllIndicesLoop -/

/-- the loop of `findAllIndicesLoop` (l.238-298) -/
def idxLoop (O : Oracles) (direct : Bool) (next : Nat → Nat) (len : Nat) (n : Int) :
    (fuel pos : Nat) → (lastMatchEnd : Option Nat) → (results : List Span) → List Span
  | 0, _, _, results => results
  | fuel+1, pos, lastMatchEnd, results =>
    if ¬ (n ≤ 0 ∨ (results.length : Int) < n) then results else          -- for n <= 0 || len(results) < n
    match searchStep O direct pos with
    | none => results                                                     -- break
    | some m =>
      let start := m.1
      let end_ := m.2
      if start = end_ ∧ some start = lastMatchEnd then                    -- l.269: skip the empty match
        if next pos > len then results                                    -- pos = nextPos(haystack, pos); pos > len: break
        else idxLoop O direct next len n fuel (next pos) lastMatchEnd results      -- continue
      else
        let results' := results ++ [(start, end_)]                        -- l.277
        let last' := if start ≠ end_ then some end_ else lastMatchEnd     -- l.280-282
        let pos' := if start = end_ then next end_                        -- l.285-293
                    else if end_ > pos then end_ else pos + 1
        if pos' > len then results'                                       -- l.295-297
        else idxLoop O direct next len n fuel pos' last' results'

/-- `findAllIndicesLoop(haystack, n, results)` (l.193-301) -/
def findAllIndicesLoop (O : Oracles) (P : Params) (next : Nat → Nat) (len : Nat) (n : Int) : List Span :=
  if P.alwaysAnchored then                                                -- l.218: e.nfa.IsAlwaysAnchored()
    match O.findIndices with                                              -- e.FindIndices(haystack)
    | some m => [m]
    | none => []
  else idxLoop O (useDFADirect P) next len n (len + 2) 0 none []

/-- `FindAllIndicesStreaming(haystack, n, results)` (l.172-187) -/
def findAllIndicesStreaming (O : Oracles) (P : Params) (next : Nat → Nat) (len : Nat) (n : Int) : List Span :=
  if P.strategy ≠ .charClassSearcher ∨ P.hasCharClassSearcher = false then findAllIndicesLoop O P next len n   -- l.174
  else
    let allMatches := O.ccFindAll                                         -- l.179
    if n > 0 ∧ (allMatches.length : Int) > n then allMatches.take n.toNat -- l.182-184
    else allMatches

/-! ### Count -/

/-- the loop of `Count` (l.335-392) -/
def countLoop (O : Oracles) (direct : Bool) (next : Nat → Nat) (len : Nat) (n : Int) :
    (fuel pos : Nat) → (lastNonEmptyEnd : Option Nat) → (count : Nat) → Nat
  | 0, _, _, count => count
  | fuel+1, pos, lastNonEmptyEnd, count =>
    if pos > len then count else                                          -- for pos <= len(haystack)
    match searchStep O direct pos with
    | none => count
    | some m =>
      let start := m.1
      let end_ := m.2
      if start = end_ ∧ some start = lastNonEmptyEnd then                 -- l.362
        if next pos > len then count
        else countLoop O direct next len n fuel (next pos) lastNonEmptyEnd count
      else
        let count' := count + 1                                           -- l.370
        let last' := if start ≠ end_ then some end_ else lastNonEmptyEnd
        let pos' := if start = end_ then next end_
                    else if end_ > pos then end_ else pos + 1
        if n > 0 ∧ (count' : Int) ≥ n then count'                         -- l.389-391
        else countLoop O direct next len n fuel pos' last' count'

/-- the whole of `Count` for a given value of `useDFADirect` -/
def countWith (O : Oracles) (direct : Bool) (next : Nat → Nat) (len : Nat) (n : Int) : Nat :=
  if n = 0 then 0 else countLoop O direct next len n (len + 2) 0 none 0

/-- `Count(haystack, n)` (l.315-395) -/
def count (O : Oracles) (P : Params) (next : Nat → Nat) (len : Nat) (n : Int) : Nat :=
  countWith O (useDFADirect P) next len n

/-- `Count` as it was before the `!e.longest` guard -/
def countNoLongestGuard (O : Oracles) (P : Params) (next : Nat → Nat) (len : Nat) (n : Int) : Nat :=
  countWith O (useDFADirectNoLongestGuard P) next len n

/-! ### FindSubmatchAt / FindAllSubmatch -/

/-- the capture-producing components; `M` = `*MatchWithCaptures` -/
structure SubOracles (M : Type) where
  /-- `onepass.Search(haystack, state.onepassCache)` wrapped by `slotsToCaptures` / `NewMatchWithCaptures` -/
  onepass : Option M
  /-- `onepass.SearchLongest(haystack, state.onepassCache)` -/
  onepassLongest : Option M
  /-- `state.pikevm.SearchWithSlotTableCapturesAt(haystack, at)` -/
  pikeCapsAt : Nat → Option M
  /-- `state.pikevm.SearchWithCapturesInSpan(haystack, start, end)` -/
  pikeCapsInSpan : Nat → Nat → Option M
  /-- `NewMatchWithCaptures(haystack, [][]int{{start, end}})` -/
  ofSpan : Nat → Nat → M

/-- l.106-108: the strategies that bypass the two-phase search (reads `e.strategy`, not `searchStrategy()`) -/
def directToPike : Strat → Bool
  | .boundedBacktracker | .nfa | .dfa | .both | .digitPrefilter => true
  | _ => false

/-- `findSubmatchAtWithState(haystack, at, state)` (l.75-145) -/
def findSubmatchAtWithState {M : Type} (O : Oracles) (S : SubOracles M) (P : Params) (at_ : Nat) : Option M :=
  let op : Option M :=
    if at_ = 0 ∧ P.hasOnePass = true ∧ hasOnepassCache P = true then      -- l.78
      (if P.longest then S.onepassLongest else S.onepass)                 -- l.81-85; `slots != nil`
    else none
  match op with
  | some m => some m                                                      -- l.86-89
  | none =>                                                               -- "OnePass failed — fall through"
    if directToPike P.strategy then S.pikeCapsAt at_                      -- l.106-115
    else
      match O.findAt at_ with                                             -- l.119: Phase 1
      | none => none
      | some se =>
        if P.captureCount ≤ 1 then some (S.ofSpan se.1 se.2)              -- l.126-129
        else
          match S.pikeCapsInSpan se.1 se.2 with                           -- l.135: Phase 2
          | some m => some m
          | none => S.pikeCapsAt at_                                      -- l.138: "Defensive fallback"

/-- the loop of `FindAllSubmatch` (l.423-463) over `find pos = findSubmatchAtWithState(haystack, pos, state)` -/
def subLoop {M : Type} (find : Nat → Option M) (sp : M → Span) (next : Nat → Nat) (len : Nat) (n : Int) :
    (fuel pos : Nat) → (lastMatchEnd : Option Nat) → (ms : List M) → List M
  | 0, _, _, ms => ms
  | fuel+1, pos, lastMatchEnd, ms =>
    if pos > len then ms else
    match find pos with
    | none => ms
    | some m =>
      let matchStart := (sp m).1
      let matchEnd := (sp m).2
      if matchStart = matchEnd ∧ some matchStart = lastMatchEnd then
        if next pos > len then ms
        else subLoop find sp next len n fuel (next pos) lastMatchEnd ms
      else
        let ms' := ms ++ [m]
        let last' := if matchStart ≠ matchEnd then some matchEnd else lastMatchEnd
        let pos' := if matchStart = matchEnd then next matchEnd
                    else if matchEnd > pos then matchEnd else pos + 1
        if n > 0 ∧ (ms'.length : Int) ≥ n then ms'
        else subLoop find sp next len n fuel pos' last' ms'

/-- `FindAllSubmatch(haystack, n)` (l.409-466) -/
def findAllSubmatch {M : Type} (O : Oracles) (S : SubOracles M) (P : Params) (sp : M → Span) (next : Nat → Nat) (len : Nat)
    (n : Int) : List M :=
  if n = 0 then [] else subLoop (findSubmatchAtWithState O S P) sp next len n (len + 2) 0 none []

/-! ### tables (driver, counter-models) -/

/-- a table of single-search answers, one per offset -/
def tab (t : List (Option Span)) (p : Nat) : Option Span := t.getD p none

/-- `FindOK (tab t) id len`, decided offset by offset -/
def findOKCheck (f : Nat → Option Span) (len : Nat) : Bool :=
  (List.range (len + 1)).all fun pos =>
    match f pos with
    | none => true
    | some m =>
      decide (pos ≤ m.1) && decide (m.1 ≤ m.2) && decide (m.2 ≤ len) &&
        (List.range (len + 1)).all fun p => !(decide (pos ≤ p) && decide (p ≤ m.1)) || (f p == some m)

/-! ### the instance over the dispatch model `Cx.MetaFind` -/

/-- the four strategies of `Cx.Model.MetaFind` -/
def stratOfMeta : MetaFind.Strategy → Strat
  | .nfa => .nfa
  | .dfa => .dfa
  | .both => .both
  | .bt => .boundedBacktracker

/-- the loop parameters of an engine described by `MetaFind.Params` -/
def paramsOfMeta (P : MetaFind.Params) (st : MetaFind.Strategy) : Params :=
  { strategy := stratOfMeta st, longest := P.longest, hasDFA := P.hasDFA, hasReverseDFA := P.hasReverseDFA,
    alwaysAnchored := P.alwaysAnchored, isStartAnchored := P.isStartAnchored }

/-- the loop oracles are the dispatch functions of `Cx.Model.MetaFind` and its DFA pair -/
def oraclesOfMeta (O : MetaFind.Oracles) (P : MetaFind.Params) (st : MetaFind.Strategy) (h : Bytes) : Oracles :=
  { findAt := MetaFind.findIndicesAtWithState O P st h,
    findIndices := MetaFind.findIndices O P st h,
    fwdSearchAt := O.fwdSearchAt h,
    revSearch := O.revSearch h }

/-- `Engine.FindAllIndicesStreaming(h, n, nil)` of an engine with one of the four core strategies -/
def metaFindAll (O : MetaFind.Oracles) (P : MetaFind.Params) (st : MetaFind.Strategy) (h : Bytes) (n : Int) : List Span :=
  findAllIndicesStreaming (oraclesOfMeta O P st h) (paramsOfMeta P st) (nextPos h) h.size n

/-- `Engine.Count(h, n)` of an engine with one of the four core strategies -/
def metaCount (O : MetaFind.Oracles) (P : MetaFind.Params) (st : MetaFind.Strategy) (h : Bytes) (n : Int) : Nat :=
  count (oraclesOfMeta O P st h) (paramsOfMeta P st) (nextPos h) h.size n

end Cx.MetaFindAll
