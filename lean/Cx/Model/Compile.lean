import Cx.Basic
import Cx.Model.Nfa
import Cx.Spec.Regex
/-
  Cx.Model.Compile — the Thompson construction of `nfa/compile.go` over the state builder of `nfa/builder.go`,
  transliterated for the byte-level fragment of the AST (`Cx.Regex`).

  Builder: the `states` slice as an `Array NState`; `AddX(..)` = "id := len(states); push", `Patch(id, target)`
  rewrites the single `next` field of a ByteRange / Epsilon / Capture / Look / RuneAny / RuneAnyNotNL state and
  fails on every other kind and on an out-of-range id.  `InvalidState` = 0xFFFFFFFF.

  Every `compileX` returns a fragment `(start, end, builder)`: one entry state and one exit state whose `next`
  is still `InvalidState` and is patched by the caller.  An `error` return is `none`; the recursion-depth counter
  `c.depth` / `MaxRecursionDepth` is the fuel argument of `compile` (fuel = MaxRecursionDepth - c.depth on entry of
  `compileRegexp`; the call fails iff fuel = 0).  The helpers take the recursive call `f = compile fuel` as a
  parameter, exactly as they call `c.compileRegexp` in the code.

  Shapes kept as in the code: operand order of quantifier splits, `(x+)?` for `x*` when `canMatchEmpty(x)`,
  `x{n}` by unrolling copies through `compileConcat`, `x{m,}` as m-1 copies and a synthetic `OpPlus`, `x{m,n}` as m
  copies and n-m nested optional copies built iteratively around one shared `final` epsilon (tree at e802781; before
  it: m copies + `x*`, and m copies + a flat `x?x?…`), the "patch, else epsilon + patch" fall-backs (dead code in
  this fragment, but transliterated), the silently ignored patch failure in `compileAlternate`, `OpNoMatch` being an
  unsupported operation of `compileRegexp`, no capture group 0 around the pattern in `CompileRegexp`, `compileNoMatch`
  = a Fail state and an unconnected epsilon (tree at b0fdb2d; before it the start was an epsilon into `InvalidState`).

  `Builder.Build` = `Builder.Validate` (start states set and in range, every target `InvalidState` or in range), then the
  automaton.  Not modelled: byte-class bookkeeping (`byteClassSet`), capture names / counts, the `isQuantifierSplit`
  flag (not visible in the state dump), the `anchored` / `utf8` flags of the NFA.
-/
namespace Cx.Compile
open Cx Cx.Nfa

abbrev Builder := Array NState

/-- `InvalidState` -/
def invalid : Nat := 4294967295

def Builder.get (b : Builder) (q : Nat) : NState := b.getD q NState.fail

/-- the kinds `Builder.Patch` accepts -/
def patchable : NState → Bool
  | .byteRange .. => true
  | .eps _ => true
  | .cap .. => true
  | .look .. => true
  | .runeAny _ => true
  | .runeAnyNotNL _ => true
  | _ => false

/-- `s.next = target` -/
def setNext : NState → Nat → NState
  | .byteRange lo hi _, t => .byteRange lo hi t
  | .eps _, t => .eps t
  | .cap idx st _, t => .cap idx st t
  | .look k _, t => .look k t
  | .runeAny _, t => .runeAny t
  | .runeAnyNotNL _, t => .runeAnyNotNL t
  | s, _ => s

/-- `Builder.Patch(id, target)` -/
def patch (b : Builder) (id target : Nat) : Option Builder :=
  if id < b.size ∧ patchable (b.get id) = true then some (b.setIfInBounds id (setNext (b.get id) target)) else none

/-- `if err := Patch(e, target); err != nil { eps := AddEpsilon(target); if err := Patch(e, eps); err != nil { return err } }` -/
def patchOrEps (b : Builder) (e target : Nat) : Option Builder :=
  match patch b e target with
  | some b' => some b'
  | none => patch (b.push (.eps target)) e b.size

/-- a compiled fragment: start, end, builder -/
abbrev Frag := Nat × Nat × Builder
/-- the recursive call `c.compileRegexp` -/
abbrev Rec := Regex → Builder → Option Frag

/-- `compileEmptyMatch` -/
def emptyMatch (b : Builder) : Frag := (b.size, b.size, b.push (.eps invalid))

/-- `compileNoMatch`: a dead start (`AddFail`) and an unconnected epsilon end -/
def noMatchFrag (b : Builder) : Frag := (b.size, b.size + 1, (b.push .fail).push (.eps invalid))

/-- the loop of `compileLiteral` / `compileCaseSensitiveRune` over the encoded bytes -/
def litLoop : List Nat → (prev first : Nat) → Builder → Option Frag
  | [], prev, first, b => some (first, prev, b)
  | x :: xs, prev, first, b =>
    let id := b.size
    let b1 := b.push (.byteRange x x invalid)
    let first := if first = invalid then id else first
    if prev ≠ invalid then
      match patch b1 prev id with
      | some b2 => litLoop xs id first b2
      | none => none
    else litLoop xs id first b1

/-- `compileLiteral` (no FoldCase) -/
def compileLit (bs : List Nat) (b : Builder) : Option Frag :=
  match bs with
  | [] => some (emptyMatch b)
  | _ => litLoop bs invalid invalid b

def allASCII (rs : List (Nat × Nat)) : Bool := rs.all fun p => decide (p.1 ≤ 127) && decide (p.2 ≤ 127)

/-- `compileCharClass`, the branches for the empty class and for classes with all ranges ≤ 0x7F; other classes
    (`compileUnicodeClass`) are outside the model (`none`) -/
def compileClass (rs : List (Nat × Nat)) (b : Builder) : Option Frag :=
  match rs with
  | [] => some (noMatchFrag b)
  | [p] => if allASCII rs then some (b.size, b.size, b.push (.byteRange p.1 p.2 invalid)) else none
  | _ =>
    if allASCII rs then
      let target := b.size
      let b1 := b.push (.eps invalid)
      some (b1.size, target, b1.push (.sparse (rs.map fun p => (p.1, p.2, target))))
    else none

/-- the `for i := 1; i < len(subs); i++` loop of `compileConcat` -/
def concatLoop (f : Rec) : List Regex → Nat → Builder → Option (Nat × Builder)
  | [], e, b => some (e, b)
  | r :: rs, e, b =>
    match f r b with
    | none => none
    | some (ns, ne, b1) =>
      match patchOrEps b1 e ns with
      | none => none
      | some b2 => concatLoop f rs ne b2

/-- `compileConcat` -/
def compileConcat (f : Rec) (rs : List Regex) (b : Builder) : Option Frag :=
  match rs with
  | [] => some (emptyMatch b)
  | [r] => f r b
  | r :: r2 :: rs =>
    match f r b with
    | none => none
    | some (s, e, b1) =>
      match concatLoop f (r2 :: rs) e b1 with
      | none => none
      | some (e', b2) => some (s, e', b2)

/-- the first loop of `compileAlternate`: compile every alternative, collect starts and ends -/
def altSubs (f : Rec) : List Regex → Builder → Option (List Nat × List Nat × Builder)
  | [], b => some ([], [], b)
  | r :: rs, b =>
    match f r b with
    | none => none
    | some (s, e, b1) =>
      match altSubs f rs b1 with
      | none => none
      | some (ss, es, b2) => some (s :: ss, e :: es, b2)

/-- `buildSplitChain` (called with at least two targets; `targets[1:]` of an empty slice would panic) -/
def splitChain : List Nat → Builder → Nat × Builder
  | [], b => (invalid, b)
  | [t], b => (t, b)
  | t :: t2 :: ts, b =>
    let r := splitChain (t2 :: ts) b
    (r.2.size, r.2.push (.split t r.1))

/-- `for _, e := range ends { if err := Patch(e, join); err != nil { continue } }` -/
def patchAll (join : Nat) : List Nat → Builder → Builder
  | [], b => b
  | e :: es, b =>
    match patch b e join with
    | some b' => patchAll join es b'
    | none => patchAll join es b

/-- `compileAlternate` -/
def compileAlternate (f : Rec) (rs : List Regex) (b : Builder) : Option Frag :=
  match rs with
  | [] => some (emptyMatch b)
  | [r] => f r b
  | r :: r2 :: rs =>
    match altSubs f (r :: r2 :: rs) b with
    | none => none
    | some (ss, es, b1) =>
      let c := splitChain ss b1
      let join := c.2.size
      some (c.1, join, patchAll join es (c.2.push (.eps invalid)))

mutual
/-- `canMatchEmpty` -/
def canMatchEmpty : Regex → Bool
  | .emptyMatch => true
  | .noMatch => false
  | .lit bs => bs.isEmpty
  | .cls _ => false
  | .look _ => true
  | .cap _ r => canMatchEmpty r
  | .star _ _ => true
  | .plus r _ => canMatchEmpty r
  | .quest _ _ => true
  | .rep r mn _ _ => mn == 0 || canMatchEmpty r
  | .cat rs => allCanMatchEmpty rs
  | .alt rs => anyCanMatchEmpty rs
def allCanMatchEmpty : List Regex → Bool
  | [] => true
  | r :: rs => canMatchEmpty r && allCanMatchEmpty rs
def anyCanMatchEmpty : List Regex → Bool
  | [] => false
  | r :: rs => canMatchEmpty r || anyCanMatchEmpty rs
end

/-- `AddQuantifierSplit`: greedy = (continue, exit), non-greedy = (exit, continue) -/
def quantSplit (greedy : Bool) (body exit : Nat) : NState :=
  if greedy then .split body exit else .split exit body

/-- `compileStarViaPlus`: `x*` as `(x+)?` -/
def compileStarViaPlus (f : Rec) (r : Regex) (greedy : Bool) (b : Builder) : Option Frag :=
  match f r b with
  | none => none
  | some (s, e, b1) =>
    let endId := b1.size
    let b2 := b1.push (.eps invalid)
    let plus := b2.size
    let b3 := b2.push (quantSplit greedy s endId)
    match patchOrEps b3 e plus with
    | none => none
    | some b4 => some (b4.size, endId, b4.push (quantSplit greedy s endId))

/-- `compileStar` -/
def compileStar (f : Rec) (r : Regex) (greedy : Bool) (b : Builder) : Option Frag :=
  if canMatchEmpty r then compileStarViaPlus f r greedy b else
  match f r b with
  | none => none
  | some (s, e, b1) =>
    let endId := b1.size
    let b2 := b1.push (.eps invalid)
    let split := b2.size
    let b3 := b2.push (quantSplit greedy s endId)
    match patchOrEps b3 e split with
    | none => none
    | some b4 => some (split, endId, b4)

/-- `compilePlus` -/
def compilePlus (f : Rec) (r : Regex) (greedy : Bool) (b : Builder) : Option Frag :=
  match f r b with
  | none => none
  | some (s, e, b1) =>
    let endId := b1.size
    let b2 := b1.push (.eps invalid)
    let split := b2.size
    let b3 := b2.push (quantSplit greedy s endId)
    match patchOrEps b3 e split with
    | none => none
    | some b4 => some (s, endId, b4)

/-- `compileQuest` -/
def compileQuest (f : Rec) (r : Regex) (greedy : Bool) (b : Builder) : Option Frag :=
  match f r b with
  | none => none
  | some (s, e, b1) =>
    let endId := b1.size
    let b2 := b1.push (.eps invalid)
    let split := b2.size
    let b3 := b2.push (quantSplit greedy s endId)
    match patchOrEps b3 e endId with
    | none => none
    | some b4 => some (split, endId, b4)

/-- `compileRepeatMin`: `a{0,}` is `compileStar`; `a{m,}` (m ≥ 1) is m-1 copies followed by a synthetic `OpPlus`
    (`len(subs) == 1`, i.e. m = 1: `compileRegexp` of the synthetic node alone) -/
def compileRepeatMin (f : Rec) (r : Regex) (mn : Nat) (greedy : Bool) (b : Builder) : Option Frag :=
  if mn = 0 then compileStar f r greedy b
  else
    let subs := List.replicate (mn - 1) r ++ [Regex.plus r greedy]
    if subs.length = 1 then f (Regex.plus r greedy) b
    else compileConcat f subs b

/-- `compileRepeatExact` -/
def compileRepeatExact (f : Rec) (r : Regex) (n : Nat) (b : Builder) : Option Frag :=
  if n = 0 then some (emptyMatch b)
  else if n = 1 then f r b
  else compileConcat f (List.replicate n r) b

/-- the first loop of `compileRepeatRange` (`for i := 0; i < minCount; i++`): the mandatory copies, chained by
    `connect` (= `patchOrEps`); `start == InvalidState` tells the first copy.  Argument: the iterations left. -/
def rangeMinLoop (f : Rec) (r : Regex) : Nat → (start end_ : Nat) → Builder → Option Frag
  | 0, st, en, b => some (st, en, b)
  | n+1, st, en, b =>
    match f r b with
    | none => none
    | some (s, e, b1) =>
      if st = invalid then rangeMinLoop f r n s e b1
      else
        match patchOrEps b1 en s with
        | none => none
        | some b2 => rangeMinLoop f r n st e b2

/-- the second loop of `compileRepeatRange` (`for i := 0; i < maxCount-minCount; i++`): every optional copy is
    compiled, then its quantifier split (continue = the copy, exit = `final`) is added, then the previous end is
    connected to the split (or the split becomes the start when there is no mandatory copy) -/
def rangeOptLoop (f : Rec) (r : Regex) (greedy : Bool) (final : Nat) : Nat → (start end_ : Nat) → Builder → Option Frag
  | 0, st, en, b => some (st, en, b)
  | n+1, st, en, b =>
    match f r b with
    | none => none
    | some (s, e, b1) =>
      let split := b1.size
      let b2 := b1.push (quantSplit greedy s final)
      if st = invalid then rangeOptLoop f r greedy final n split e b2
      else
        match patchOrEps b2 en split with
        | none => none
        | some b3 => rangeOptLoop f r greedy final n st e b3

/-- `compileRepeatRange`: m copies, the shared `final` epsilon, the nested optional copies, `connect(end, final)` -/
def compileRepeatRange (f : Rec) (r : Regex) (mn mx : Nat) (greedy : Bool) (b : Builder) : Option Frag :=
  if mn > mx then none
  else
    match rangeMinLoop f r mn invalid invalid b with
    | none => none
    | some (st, en, b1) =>
      let final := b1.size
      let b2 := b1.push (.eps invalid)
      match rangeOptLoop f r greedy final (mx - mn) st en b2 with
      | none => none
      | some (st', en', b3) =>
        match patchOrEps b3 en' final with
        | none => none
        | some b4 => some (st', final, b4)

/-- `compileRepeat` -/
def compileRepeat (f : Rec) (r : Regex) (mn : Nat) (mx : Option Nat) (greedy : Bool) (b : Builder) : Option Frag :=
  match mx with
  | none => compileRepeatMin f r mn greedy b
  | some mx =>
    if mn = mx then compileRepeatExact f r mn b
    else compileRepeatRange f r mn mx greedy b

/-- `compileCapture` -/
def compileCapture (f : Rec) (idx : Nat) (r : Regex) (b : Builder) : Option Frag :=
  match f r b with
  | none => none
  | some (s, e, b1) =>
    let close := b1.size
    let b2 := b1.push (.cap idx false invalid)
    match patchOrEps b2 e close with
    | none => none
    | some b3 => some (b3.size, close, b3.push (.cap idx true s))

/-- `compileRegexp`; the first argument is `MaxRecursionDepth - c.depth` on entry -/
def compile : Nat → Regex → Builder → Option Frag
  | 0, _, _ => none
  | fuel+1, re, b =>
    match re with
    | .emptyMatch => some (emptyMatch b)
    | .noMatch => none                       -- `default: unsupported regex operation`
    | .lit bs => compileLit bs b
    | .cls rs => compileClass rs b
    | .look k => some (b.size, b.size, b.push (.look k invalid))
    | .cap idx r => compileCapture (compile fuel) idx r b
    | .star r g => compileStar (compile fuel) r g b
    | .plus r g => compilePlus (compile fuel) r g b
    | .quest r g => compileQuest (compile fuel) r g b
    | .rep r mn mx g => compileRepeat (compile fuel) r mn mx g b
    | .cat rs => compileConcat (compile fuel) rs b
    | .alt rs => compileAlternate (compile fuel) rs b

/-- `isPatternAnchored`: `\A`, or a concatenation / capture starting with one -/
def isPatternAnchored : Regex → Bool
  | .look .startText => true
  | .cat (r :: _) => isPatternAnchored r
  | .cap _ r => isPatternAnchored r
  | _ => false

/-- `CompilerConfig` as far as it matters here (`MaxRecursionDepth = 0` is replaced by 100 in `NewCompiler`) -/
structure Config where
  anchored : Bool := false
  maxDepth : Nat := 100

/-- `s.next != InvalidState && int(s.next) >= len(b.states)` is an error -/
def refOK (n t : Nat) : Bool := t == invalid || decide (t < n)

/-- the per-state check of `Builder.Validate` -/
def stateTargetsOK (n : Nat) : NState → Bool
  | .byteRange _ _ nx => refOK n nx
  | .eps nx => refOK n nx
  | .cap _ _ nx => refOK n nx
  | .look _ nx => refOK n nx
  | .runeAny nx => refOK n nx
  | .runeAnyNotNL nx => refOK n nx
  | .split l r => refOK n l && refOK n r
  | .sparse ts => ts.all fun t => refOK n t.2.2
  | .mtch => true
  | .fail => true

/-- `Builder.Validate` -/
def validate (b : Builder) (sa su : Nat) : Bool :=
  sa != invalid && decide (sa < b.size) && su != invalid && decide (su < b.size) &&
    b.all (stateTargetsOK b.size)

/-- `SetStarts` + `Builder.Build` -/
def build (b : Builder) (sa su : Nat) : Option NFA :=
  if validate b sa su then some { states := b, startAnchored := sa, startUnanchored := su } else none

/-- `CompileRegexp` -/
def compileTop (cfg : Config) (re : Regex) : Option NFA :=
  match compile cfg.maxDepth re #[] with
  | none => none
  | some (s, e, b) =>
    let matchId := b.size
    let b1 := b.push .mtch
    match patchOrEps b1 e matchId with
    | none => none
    | some b2 =>
      if cfg.anchored || isPatternAnchored re then
        build b2 s s
      else
        -- compileUnanchoredPrefix
        let anyByte := b2.size
        let b3 := b2.push (.byteRange 0 255 invalid)
        let split := b3.size
        let b4 := b3.push (.split s anyByte)
        match patch b4 anyByte split with
        | some b5 => build b5 s split
        | none => build b4 s s

mutual
/-- the nesting depth `c.depth` reaches while compiling `re` (1 for a leaf; the synthetic `OpPlus` node of
    `compileRepeatMin` costs one more level than the operand; `compileRepeatRange` compiles the operand directly) -/
def depth : Regex → Nat
  | .emptyMatch => 1
  | .noMatch => 1
  | .lit _ => 1
  | .cls _ => 1
  | .look _ => 1
  | .cap _ r => 1 + depth r
  | .star r _ => 1 + depth r
  | .plus r _ => 1 + depth r
  | .quest r _ => 1 + depth r
  | .rep r mn mx _ =>
    match mx with
    | none => if mn = 0 then 1 + depth r else 2 + depth r
    | some m => if mn = m then (if mn = 0 then 1 else 1 + depth r) else 1 + depth r
  | .cat rs => 1 + depthL rs
  | .alt rs => 1 + depthL rs
def depthL : List Regex → Nat
  | [] => 0
  | r :: rs => max (depth r) (depthL rs)
end

mutual
/-- the ASTs on which `compile` can only fail through the recursion limit: no `OpNoMatch` (unsupported by
    `compileRegexp`), classes inside the model (all ranges ≤ 0x7F), repeat bounds in order (`compileRepeatRange`
    rejects min > max; the parser never produces it) -/
def Supported : Regex → Prop
  | .emptyMatch => True
  | .noMatch => False
  | .lit _ => True
  | .cls rs => allASCII rs = true
  | .look _ => True
  | .cap _ r => Supported r
  | .star r _ => Supported r
  | .plus r _ => Supported r
  | .quest r _ => Supported r
  | .rep r mn mx _ => (∀ m, mx = some m → mn ≤ m) ∧ Supported r
  | .cat rs => SupportedL rs
  | .alt rs => SupportedL rs
def SupportedL : List Regex → Prop
  | [] => True
  | r :: rs => Supported r ∧ SupportedL rs
end

end Cx.Compile
