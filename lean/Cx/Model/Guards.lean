import Cx.Model.Fast
/-
  Cx.Model.Guards — the strategy GUARDS of coregex's meta engine: the AST predicates of meta/strategy.go, meta/compile.go and
  meta/reverse_inner.go that route a pattern away from the engines that cannot express it.  Transliteration over the miniature
  `regexp/syntax.Regexp` of Cx.Model.Fast (`Cx.Fast.Re`; nothing is added to it: all 19 operators, the flags `NonGreedy` and
  `FoldCase`, `Sub`, `Rune`, `Min`, `Max` are there).  Core-only, executable, structurally recursive (so `decide` evaluates it).

  Go ↔ Lean (line numbers of the snapshot, coregex HEAD a736269)

    meta/strategy.go
      l.280   hasWordBoundary                   hasWordBoundary / anyWordBoundary
      l.312   isDigitOnlyClass                  isDigitOnlyClass
      l.332   isDigitLeadConcat                 isDigitLeadConcat
      l.352   isOptionalElement                 isOptionalElement
      l.369   isOptionalDigitOnly               isOptionalDigitOnly
      l.417   isDigitLeadPattern                isDigitLeadPattern / allDigitLead / headDigitLead
      l.536   isDigitRunSkipSafe                isDigitRunSkipSafe / headDigitRunSkipSafe
      l.570   isFullDigitClass                  isFullDigitClass
      l.654   isWildcardSubexpression           isWildcardSubexpression (loop `for re.Op == OpCapture …` = unwrapCapture)
      l.677   isSafeForReverseSuffix            isSafeForReverseSuffix / headSafeForReverseSuffix
      l.717   containsAnchor                    containsAnchor / anyContainsAnchor / headContainsAnchor
      l.741   hasNonGreedyQuantifier            hasNonGreedyQuantifier / anyNonGreedy
      l.778   isMultilineLineAnchored           isMultilineLineAnchored
      l.784   containsLineStartAnchor           containsLineStartAnchor / anyLineStartAnchor / allLineStartAnchor / headLineStartAnchor
      l.821   containsWildcard                  containsWildcard / anyContainsWildcard / headContainsWildcard
      l.855   isSafeForMultilineReverseSuffix   isSafeForMultilineReverseSuffix / headSafeForMultilineReverseSuffix
      l.905   canMatchNewline                   canMatchNewline / anyCanMatchNewline
      l.933   isWildcardOp                      isWildcardOp
      l.961   isSafeForReverseInner             isSafeForReverseInner / headSafeForReverseInner
      l.1309  isSimpleCharClass                 isSimpleCharClass / allSimpleCharClass
      l.1389  hasAnchorAssertions               hasAnchorAssertions / anyAnchorAssertions
      l.1410  hasMultilineLineAnchor            hasMultilineLineAnchor / anyMultilineLineAnchor
      l.1429  canMatchEmpty                     canMatchEmpty / allCanMatchEmpty / anyCanMatchEmpty / headCanMatchEmpty
      l.1526  hasWordBoundaryAnchorCombo        hasWordBoundaryAnchorCombo
      l.1533  hasCaseInsensitiveUnicode         hasCaseInsensitiveUnicode / anyCaseInsensitiveUnicode
    meta/compile.go
      l.731   hasNonLineAnchors                 hasNonLineAnchors / anyNonLineAnchors
      l.754   lineAnchorLeadsEveryBranch        lineAnchorLeadsEveryBranch / allLineAnchorLeads
    meta/reverse_inner.go
      l.52    isStartAnchorOnly                 isStartAnchorOnly / allStartAnchorOnly

  Conventions
  * `for _, sub := range re.Sub { if f(sub) { return true } }` is `anyF re.sub`, the ∀ form is `allF`; `f(re.Sub[0])` guarded by
    `len(re.Sub) > 0` is `headF re.sub` (`[] ↦` the value Go returns without the call).  Each is a member of the `mutual` block of `f`
    (structural recursion over the nested inductive `Re` / `List Re`).
  * a `*syntax.Regexp` of the model is never `nil` (the `re == nil` tests at the heads of the Go functions have no counterpart;
    meta never passes `nil` to them except `canMatchEmpty(nil)`, unreachable from `SelectStrategy` with a parsed pattern).
  * `canMatchEmpty` indexes `re.Sub[0]` for `OpCapture`, `OpPlus`, `OpRepeat` WITHOUT a length test: on an operator node without
    operand Go panics (index out of range).  The parser always supplies the operand; the model answers `true` for `[]`
    (`headCanMatchEmpty [] = true`), the conservative answer.  Every other function tests the length first.
  * `rune` constants: '0' = 48, '9' = 57, '\n' = 10; runes are `Nat` (no negative runes), `Min`/`Max` are `Int` (`Max = -1` for `{n,}`).
  * `switch` without `default` falling to the final `return false`: the `| _ => false` of the model.  The Go functions that
    `switch` and then loop over `re.Sub` for every remaining operator (`hasAnchorAssertions`, `hasMultilineLineAnchor`,
    `canMatchNewline`, `hasCaseInsensitiveUnicode`, `hasNonLineAnchors`) do so in the model as well: they look under EVERY node,
    the others only under the operators their `switch` lists.
  * the loop of `isSafeForMultilineReverseSuffix` (`for i, sub := range re.Sub { if i == 0 && sub.Op == OpBeginLine { hasLineAnchor =
    true; continue }; if isWildcardOp(sub) { hasWildcard = true; continue } }`) is `msLoop`.
-/
namespace Cx.Guards
open Cx Cx.Fast

/-! ## word boundaries, lazy quantifiers, assertions -/

mutual
/-- `hasWordBoundary(re)` (strategy.go l.280) -/
def hasWordBoundary : Re → Bool
  | .mk op _ _ sub _ _ _ =>
    match op with
    | .wordBoundary | .noWordBoundary => true
    | .concat | .alternate => anyWordBoundary sub
    | .capture | .star | .plus | .quest | .repeat_ => anyWordBoundary sub
    | _ => false
def anyWordBoundary : List Re → Bool
  | [] => false
  | x :: xs => hasWordBoundary x || anyWordBoundary xs
end

mutual
/-- `hasNonGreedyQuantifier(re)` (strategy.go l.741) -/
def hasNonGreedyQuantifier : Re → Bool
  | .mk op ng _ sub _ _ _ =>
    match op with
    | .star | .plus | .quest | .repeat_ => ng || anyNonGreedy sub
    | .concat | .alternate => anyNonGreedy sub
    | .capture => anyNonGreedy sub
    | _ => false
def anyNonGreedy : List Re → Bool
  | [] => false
  | x :: xs => hasNonGreedyQuantifier x || anyNonGreedy xs
end

mutual
/-- `hasAnchorAssertions(re)` (strategy.go l.1389): `^ $ \A \z \b \B` at any node, under any operator -/
def hasAnchorAssertions : Re → Bool
  | .mk op _ _ sub _ _ _ =>
    match op with
    | .beginLine | .endLine | .beginText | .endText | .wordBoundary | .noWordBoundary => true
    | _ => anyAnchorAssertions sub
def anyAnchorAssertions : List Re → Bool
  | [] => false
  | x :: xs => hasAnchorAssertions x || anyAnchorAssertions xs
end

mutual
/-- `hasMultilineLineAnchor(re)` (strategy.go l.1410): `OpBeginLine` / `OpEndLine` at any node -/
def hasMultilineLineAnchor : Re → Bool
  | .mk op _ _ sub _ _ _ =>
    match op with
    | .beginLine | .endLine => true
    | _ => anyMultilineLineAnchor sub
def anyMultilineLineAnchor : List Re → Bool
  | [] => false
  | x :: xs => hasMultilineLineAnchor x || anyMultilineLineAnchor xs
end

/-- `hasWordBoundaryAnchorCombo(re)` (strategy.go l.1526) -/
def hasWordBoundaryAnchorCombo (re : Re) : Bool := hasWordBoundary re && hasAnchorAssertions re

mutual
/-- `hasCaseInsensitiveUnicode(re)` (strategy.go l.1533): a node with the `FoldCase` flag and a rune above 127 in `Rune`
    (whatever its operator: the parser also flags classes) -/
def hasCaseInsensitiveUnicode : Re → Bool
  | .mk _ _ fc sub rune _ _ => (fc && rune.any fun r => decide (r > 127)) || anyCaseInsensitiveUnicode sub
def anyCaseInsensitiveUnicode : List Re → Bool
  | [] => false
  | x :: xs => hasCaseInsensitiveUnicode x || anyCaseInsensitiveUnicode xs
end

mutual
/-- `hasNonLineAnchors(re)` (compile.go l.731): an assertion other than `(?m)^` -/
def hasNonLineAnchors : Re → Bool
  | .mk op _ _ sub _ _ _ =>
    match op with
    | .beginLine => false
    | .endLine | .endText | .beginText | .wordBoundary | .noWordBoundary => true
    | _ => anyNonLineAnchors sub
def anyNonLineAnchors : List Re → Bool
  | [] => false
  | x :: xs => hasNonLineAnchors x || anyNonLineAnchors xs
end

/-! ## nullability, newlines -/

mutual
/-- `canMatchEmpty(re)` (strategy.go l.1429) -/
def canMatchEmpty : Re → Bool
  | .mk op _ _ sub _ mn _ =>
    match op with
    | .emptyMatch | .noMatch => true
    | .literal | .charClass | .anyCharNotNL | .anyChar => false
    | .beginLine | .endLine | .beginText | .endText | .wordBoundary | .noWordBoundary => true
    | .capture => headCanMatchEmpty sub
    | .star | .quest => true
    | .plus => headCanMatchEmpty sub
    | .repeat_ => decide (mn = 0) || headCanMatchEmpty sub
    | .concat => allCanMatchEmpty sub
    | .alternate => anyCanMatchEmpty sub
/-- `canMatchEmpty(re.Sub[0])`; Go panics for `len(re.Sub) == 0` -/
def headCanMatchEmpty : List Re → Bool
  | [] => true
  | x :: _ => canMatchEmpty x
def allCanMatchEmpty : List Re → Bool
  | [] => true
  | x :: xs => canMatchEmpty x && allCanMatchEmpty xs
def anyCanMatchEmpty : List Re → Bool
  | [] => false
  | x :: xs => canMatchEmpty x || anyCanMatchEmpty xs
end

mutual
/-- `canMatchNewline(re)` (strategy.go l.905) -/
def canMatchNewline : Re → Bool
  | .mk op _ _ sub rune _ _ =>
    match op with
    | .literal => rune.any fun r => decide (r = 10)
    | .charClass => (pairs rune).any fun p => decide (p.1 ≤ 10) && decide (10 ≤ p.2)
    | .anyChar => true
    | _ => anyCanMatchNewline sub
def anyCanMatchNewline : List Re → Bool
  | [] => false
  | x :: xs => canMatchNewline x || anyCanMatchNewline xs
end

/-! ## reverse strategies -/

/-- `for re.Op == syntax.OpCapture && len(re.Sub) > 0 { re = re.Sub[0] }` -/
def unwrapCapture : Re → Re
  | .mk .capture _ _ (x :: _) _ _ _ => unwrapCapture x
  | re => re

/-- `len(re.Sub) > 0 && (re.Sub[0].Op == OpAnyChar || re.Sub[0].Op == OpAnyCharNotNL)` -/
def headIsAny (sub : List Re) : Bool :=
  match sub with
  | [] => false
  | x :: _ => x.op == .anyChar || x.op == .anyCharNotNL

/-- `len(re.Sub) > 0 && re.Sub[0].Op == OpCharClass` -/
def headIsClass (sub : List Re) : Bool :=
  match sub with
  | [] => false
  | x :: _ => x.op == .charClass

/-- `isWildcardSubexpression(re)` (strategy.go l.654) -/
def isWildcardSubexpression (re0 : Re) : Bool :=
  let re := unwrapCapture re0
  ((re.op == .star || re.op == .plus) && headIsAny re.sub) ||
  (re.op == .plus && headIsClass re.sub) ||
  (re.op == .repeat_ && decide (re.min ≥ 1))

mutual
/-- `containsAnchor(re)` (strategy.go l.717): `^ $ \A \z`; under a unary operator only `Sub[0]` is inspected -/
def containsAnchor : Re → Bool
  | .mk op _ _ sub _ _ _ =>
    match op with
    | .beginLine | .endLine | .beginText | .endText => true
    | .concat | .alternate => anyContainsAnchor sub
    | .capture | .star | .plus | .quest | .repeat_ => headContainsAnchor sub
    | _ => false
def anyContainsAnchor : List Re → Bool
  | [] => false
  | x :: xs => containsAnchor x || anyContainsAnchor xs
def headContainsAnchor : List Re → Bool
  | [] => false
  | x :: _ => containsAnchor x
end

mutual
/-- `isSafeForReverseSuffix(re)` (strategy.go l.677) -/
def isSafeForReverseSuffix : Re → Bool
  | .mk op _ _ sub _ _ _ =>
    match op with
    | .concat =>
      if sub.length < 2 then false else
      -- `for i := 0; i < len(re.Sub)-1; i++ { if isWildcardSubexpression(re.Sub[i]) { wildcardCount++ } }`
      if (sub.dropLast.filter isWildcardSubexpression).length = 0 then false else
      -- `for i := 1; i < len(re.Sub)-1; i++ { if containsAnchor(re.Sub[i]) { return false } }`
      !((sub.dropLast.drop 1).any containsAnchor)
    | .capture => headSafeForReverseSuffix sub
    | _ => false
def headSafeForReverseSuffix : List Re → Bool
  | [] => false
  | x :: _ => isSafeForReverseSuffix x
end

mutual
/-- `isSafeForReverseInner(re)` (strategy.go l.961) -/
def isSafeForReverseInner : Re → Bool
  | .mk op _ _ sub _ _ _ =>
    match op with
    | .concat =>
      if sub.length < 2 then false else
      match sub with
      | [] => false
      | first :: _ =>
        ((first.op == .star || first.op == .plus) && headIsAny first.sub) ||
        (first.op == .plus && headIsClass first.sub)
    | .capture => headSafeForReverseInner sub
    | _ => false
def headSafeForReverseInner : List Re → Bool
  | [] => false
  | x :: _ => isSafeForReverseInner x
end

mutual
/-- `containsLineStartAnchor(re)` (strategy.go l.784) -/
def containsLineStartAnchor : Re → Bool
  | .mk op _ _ sub _ _ _ =>
    match op with
    | .beginLine => true
    | .beginText => false
    | .concat =>
      -- `if len(re.Sub) > 0 && re.Sub[0].Op == OpBeginLine { return true }`, then the loop over all operands
      (match sub with
       | [] => false
       | x :: _ => x.op == .beginLine) || anyLineStartAnchor sub
    | .alternate => !sub.isEmpty && allLineStartAnchor sub
    | .capture => headLineStartAnchor sub
    | _ => false
def anyLineStartAnchor : List Re → Bool
  | [] => false
  | x :: xs => containsLineStartAnchor x || anyLineStartAnchor xs
def allLineStartAnchor : List Re → Bool
  | [] => true
  | x :: xs => containsLineStartAnchor x && allLineStartAnchor xs
def headLineStartAnchor : List Re → Bool
  | [] => false
  | x :: _ => containsLineStartAnchor x
end

mutual
/-- `containsWildcard(re)` (strategy.go l.821): under `*` / `+` only "is the operand a dot" is asked (no recursion) -/
def containsWildcard : Re → Bool
  | .mk op _ _ sub _ _ _ =>
    match op with
    | .star | .plus => headIsAny sub
    | .concat | .alternate => anyContainsWildcard sub
    | .capture | .quest | .repeat_ => headContainsWildcard sub
    | _ => false
def anyContainsWildcard : List Re → Bool
  | [] => false
  | x :: xs => containsWildcard x || anyContainsWildcard xs
def headContainsWildcard : List Re → Bool
  | [] => false
  | x :: _ => containsWildcard x
end

/-- `isMultilineLineAnchored(re)` (strategy.go l.778) -/
def isMultilineLineAnchored (re : Re) : Bool := containsLineStartAnchor re && containsWildcard re

/-- `isWildcardOp(re)` (strategy.go l.933): `.*`, `.+`, `[class]+` -/
def isWildcardOp (re : Re) : Bool :=
  (re.op == .star || re.op == .plus) &&
    (headIsAny re.sub || (re.op == .plus && headIsClass re.sub))

/-- the loop of `isSafeForMultilineReverseSuffix` over `re.Sub`: state `(i == 0, hasLineAnchor, hasWildcard)` -/
def msLoop : List Re → Bool → Bool × Bool → Bool × Bool
  | [], _, st => st
  | x :: xs, first, (la, wc) =>
    if first && x.op == .beginLine then msLoop xs false (true, wc)
    else if isWildcardOp x then msLoop xs false (la, true)
    else msLoop xs false (la, wc)

mutual
/-- `isSafeForMultilineReverseSuffix(re)` (strategy.go l.855) -/
def isSafeForMultilineReverseSuffix : Re → Bool
  | .mk op ng fc sub rune mn mx =>
    if !isMultilineLineAnchored (.mk op ng fc sub rune mn mx) then false else
    if canMatchNewline (.mk op ng fc sub rune mn mx) then false else
    match op with
    | .concat =>
      if sub.length < 2 then false else
      let st := msLoop sub true (false, false)
      st.1 && st.2
    | .capture => headSafeForMultilineReverseSuffix sub
    | _ => false
def headSafeForMultilineReverseSuffix : List Re → Bool
  | [] => false
  | x :: _ => isSafeForMultilineReverseSuffix x
end

/-! ## character-class and digit shapes -/

mutual
/-- `isSimpleCharClass(re)` (strategy.go l.1309) -/
def isSimpleCharClass : Re → Bool
  | .mk op _ _ sub _ _ _ =>
    match op with
    | .charClass => true
    | .plus | .star | .quest | .repeat_ =>
      (match sub with
       | [x] => isSimpleCharClass x
       | _ => false)
    | .concat => allSimpleCharClass sub
    | .capture =>
      (match sub with
       | [x] => isSimpleCharClass x
       | _ => false)
    | _ => false
def allSimpleCharClass : List Re → Bool
  | [] => true
  | x :: xs => isSimpleCharClass x && allSimpleCharClass xs
end

/-- the loop of `isDigitOnlyClass`: `for i := 0; i < len(runes); i += 2 { lo, hi := runes[i], runes[i+1]; if lo < '0' || hi > '9' { return false } }`
    (the length is even here) -/
def digitPairs : List Nat → Bool
  | lo :: hi :: rest => if lo < 48 || hi > 57 then false else digitPairs rest
  | _ => true

/-- `isDigitOnlyClass(runes)` (strategy.go l.312) -/
def isDigitOnlyClass (runes : List Nat) : Bool :=
  if runes.length = 0 || runes.length % 2 ≠ 0 then false else digitPairs runes

/-- `isFullDigitClass(runes)` (strategy.go l.570) -/
def isFullDigitClass (runes : List Nat) : Bool :=
  match runes with
  | [a, b] => a == 48 && b == 57
  | _ => false

/-- `isOptionalElement(re)` (strategy.go l.352) -/
def isOptionalElement (re : Re) : Bool :=
  match re.op with
  | .quest | .star => true
  | .repeat_ => decide (re.min = 0)
  | _ => false

/-- the `OpLiteral` case of `isOptionalDigitOnly`: every rune a digit, and at least one -/
def allDigitRunes (runes : List Nat) : Bool := runes.all (fun r => !(decide (r < 48) || decide (r > 57))) && decide (runes.length > 0)

mutual
/-- `isDigitLeadPattern(re)` (strategy.go l.417) -/
def isDigitLeadPattern : Re → Bool
  | .mk op _ _ sub rune mn _ =>
    match op with
    | .charClass => isDigitOnlyClass rune
    | .literal =>
      (match rune with
       | [] => false
       | r :: _ => decide (r ≥ 48) && decide (r ≤ 57))
    | .alternate => if sub.length = 0 then false else allDigitLead sub
    | .concat => if sub.length = 0 then false else isDigitLeadConcat sub
    | .capture => headDigitLead sub
    | .plus => headDigitLead sub
    | .repeat_ => if sub.length = 0 then false else if mn ≥ 1 then headDigitLead sub else false
    | _ => false
def headDigitLead : List Re → Bool
  | [] => false
  | x :: _ => isDigitLeadPattern x
def allDigitLead : List Re → Bool
  | [] => true
  | x :: xs => isDigitLeadPattern x && allDigitLead xs
/-- `isDigitLeadConcat(subs)` (strategy.go l.332) -/
def isDigitLeadConcat : List Re → Bool
  | [] => false
  | x :: xs =>
    if isOptionalElement x then
      if !isOptionalDigitOnly x then false else isDigitLeadConcat xs
    else isDigitLeadPattern x
/-- `isOptionalDigitOnly(re)` (strategy.go l.369) -/
def isOptionalDigitOnly : Re → Bool
  | .mk _ _ _ sub _ _ _ =>
    match sub with
    | [] => false
    | s :: _ =>
      match s.op with
      | .charClass => isDigitOnlyClass s.rune
      | .literal => allDigitRunes s.rune
      | _ => isDigitLeadPattern s
end

mutual
/-- `isDigitRunSkipSafe(re)` (strategy.go l.536) -/
def isDigitRunSkipSafe : Re → Bool
  | .mk op _ _ sub _ _ mx =>
    match op with
    | .concat => headDigitRunSkipSafe sub
    | .capture => headDigitRunSkipSafe sub
    | .plus | .star =>
      (match sub with
       | [x] => x.op == .charClass && isFullDigitClass x.rune
       | _ => false)
    | .repeat_ =>
      (match sub with
       | [x] => decide (mx = -1) && x.op == .charClass && isFullDigitClass x.rune
       | _ => false)
    | _ => false
def headDigitRunSkipSafe : List Re → Bool
  | [] => false
  | x :: _ => isDigitRunSkipSafe x
end

/-! ## line anchors in front of every branch, start anchors only -/

mutual
/-- `lineAnchorLeadsEveryBranch(re)` (compile.go l.754) -/
def lineAnchorLeadsEveryBranch : Re → Bool
  | .mk op _ _ sub _ _ _ =>
    match op with
    | .beginLine => true
    | .capture =>
      (match sub with
       | [x] => lineAnchorLeadsEveryBranch x
       | _ => false)
    | .alternate => allLineAnchorLeads sub && decide (sub.length > 0)
    | .concat =>
      (match sub with
       | [] => false
       | x :: xs => lineAnchorLeadsEveryBranch x && !(xs.any hasAnchorAssertions))
    | _ => false
def allLineAnchorLeads : List Re → Bool
  | [] => true
  | x :: xs => lineAnchorLeadsEveryBranch x && allLineAnchorLeads xs
end

mutual
/-- `isStartAnchorOnly(re)` (reverse_inner.go l.52) -/
def isStartAnchorOnly : Re → Bool
  | .mk op _ _ sub _ _ _ =>
    match op with
    | .beginText | .beginLine => true
    | .star | .plus | .quest =>
      (match sub with
       | [x] => isStartAnchorOnly x
       | _ => false)
    | .concat => allStartAnchorOnly sub && decide (sub.length > 0)
    | .capture =>
      (match sub with
       | [x] => isStartAnchorOnly x
       | _ => false)
    | .emptyMatch => true
    | _ => false
def allStartAnchorOnly : List Re → Bool
  | [] => true
  | x :: xs => isStartAnchorOnly x && allStartAnchorOnly xs
end

/-! ## parser normal form (what `syntax.Parse` guarantees and the theorems of Cx.Proofs.Guards may assume; decidable, checked by
    the harness on every AST it sends) -/

/-- operators that have operands -/
def isOperator (op : Op) : Bool :=
  match op with
  | .capture | .star | .plus | .quest | .repeat_ | .concat | .alternate => true
  | _ => false

def isUnary (op : Op) : Bool :=
  match op with
  | .capture | .star | .plus | .quest | .repeat_ => true
  | _ => false

mutual
/-- `normalForm re`: at every node — a leaf has no operand; a unary operator has exactly one; a concatenation / alternation has at
    least two; a literal has at least one rune; a class has an even number of runes; `{n,m}` has `n ≥ 0` and `m = -1 ∨ n ≤ m` -/
def normalForm : Re → Bool
  | .mk op _ _ sub rune mn mx =>
    (if isUnary op then decide (sub.length = 1)
     else if isOperator op then decide (sub.length ≥ 2)
     else decide (sub.length = 0)) &&
    (op != .literal || decide (rune.length > 0)) &&
    (op != .charClass || decide (rune.length % 2 = 0)) &&
    (op != .repeat_ || (decide (mn ≥ 0) && (decide (mx = -1) || decide (mn ≤ mx)))) &&
    allNormalForm sub
def allNormalForm : List Re → Bool
  | [] => true
  | x :: xs => normalForm x && allNormalForm xs
end

/-- the answers of `guards all`, in this order -/
def allGuards : List (String × (Re → Bool)) :=
  [("hasWordBoundary", hasWordBoundary), ("hasNonGreedyQuantifier", hasNonGreedyQuantifier),
   ("hasAnchorAssertions", hasAnchorAssertions), ("hasMultilineLineAnchor", hasMultilineLineAnchor),
   ("canMatchEmpty", canMatchEmpty), ("canMatchNewline", canMatchNewline),
   ("isSafeForReverseSuffix", isSafeForReverseSuffix), ("isSafeForReverseInner", isSafeForReverseInner),
   ("isSafeForMultilineReverseSuffix", isSafeForMultilineReverseSuffix), ("isSimpleCharClass", isSimpleCharClass),
   ("isDigitLeadPattern", isDigitLeadPattern), ("isDigitRunSkipSafe", isDigitRunSkipSafe),
   ("hasWordBoundaryAnchorCombo", hasWordBoundaryAnchorCombo), ("hasCaseInsensitiveUnicode", hasCaseInsensitiveUnicode),
   ("hasNonLineAnchors", hasNonLineAnchors), ("lineAnchorLeadsEveryBranch", lineAnchorLeadsEveryBranch),
   ("isStartAnchorOnly", isStartAnchorOnly),
   -- helpers (tied as well)
   ("containsAnchor", containsAnchor), ("isWildcardSubexpression", isWildcardSubexpression),
   ("containsLineStartAnchor", containsLineStartAnchor), ("containsWildcard", containsWildcard),
   ("isWildcardOp", isWildcardOp), ("isOptionalElement", isOptionalElement), ("isOptionalDigitOnly", isOptionalDigitOnly),
   ("normalForm", normalForm)]

end Cx.Guards
