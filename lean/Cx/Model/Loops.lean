import Cx.Basic
/-
  Cx.Model.Loops — the hand-written iteration loops of coregex, transliterated over an abstract
  single-match function (`find pos` = `Engine.FindIndicesAt / findIndicesAtWithState / findSubmatchAtWithState`
  at offset `pos`; `sp` its span; `next p` = `nextPos(haystack, p)`).

    loopA  = meta/findall.go:findAllIndicesLoop       (limit checked at the top, `pos > len` breaks)
    loopB  = meta/findall.go:Count / FindAllSubmatch  (`for pos <= len`, limit checked at the bottom)
    loopC  = regex.go:AllIndex                        (iterator; no limit; its own advance rule)
    replace = regex.go:ReplaceAllLiteral / …String / ReplaceAll / ReplaceAllFunc / ReplaceAllStringFunc
    split  = regex.go:Split
-/
namespace Cx.Loops

variable {α : Type}

/-- `nextPos(b, pos)` in terms of the rune width at `pos` (0 at/after the end). -/
def nextOf (w : Nat → Nat) (p : Nat) : Nat := if w p = 0 then p + 1 else p + w p

/-- `n > 0 && cnt >= n` with `n = none` for "no limit" -/
def limitHit (n : Option Nat) (cnt : Nat) : Bool :=
  match n with
  | some k => decide (cnt ≥ k)
  | none => false

/-- advance after an accepted match found from `pos` -/
def advance (next : Nat → Nat) (pos s e : Nat) : Nat :=
  if s = e then next e else if e > pos then e else pos + 1

/-- findAllIndicesLoop body. `n = none`: no limit (`n <= 0`). `cnt` = `len(results)`. -/
def loopA (find : Nat → Option α) (sp : α → Nat × Nat) (next : Nat → Nat) (len : Nat) :
    (fuel pos : Nat) → (last : Option Nat) → (cnt : Nat) → (n : Option Nat) → List α
  | 0, _, _, _, _ => []
  | fuel+1, pos, last, cnt, n =>
    if limitHit n cnt then [] else
    match find pos with
    | none => []
    | some m =>
      let s := (sp m).1
      let e := (sp m).2
      if s = e ∧ some s = last then
        if next pos > len then [] else loopA find sp next len fuel (next pos) last cnt n
      else
        let last' := if s ≠ e then some e else last
        let pos' := advance next pos s e
        if pos' > len then [m] else m :: loopA find sp next len fuel pos' last' (cnt+1) n

/-- findAllIndicesLoop including the `IsAlwaysAnchored` shortcut (one search at 0, the limit is not consulted). -/
def findAllA (anchored : Bool) (find : Nat → Option α) (sp : α → Nat × Nat) (next : Nat → Nat) (len : Nat)
    (n : Option Nat) : List α :=
  if anchored then (match find 0 with | none => [] | some m => [m])
  else loopA find sp next len (len + 2) 0 none 0 n

/-- Count / FindAllSubmatch body (`n = none`: `n <= 0`... callers return early for `n == 0`). -/
def loopB (find : Nat → Option α) (sp : α → Nat × Nat) (next : Nat → Nat) (len : Nat) :
    (fuel pos : Nat) → (last : Option Nat) → (cnt : Nat) → (n : Option Nat) → List α
  | 0, _, _, _, _ => []
  | fuel+1, pos, last, cnt, n =>
    if pos > len then [] else
    match find pos with
    | none => []
    | some m =>
      let s := (sp m).1
      let e := (sp m).2
      if s = e ∧ some s = last then
        if next pos > len then [] else loopB find sp next len fuel (next pos) last cnt n
      else
        let last' := if s ≠ e then some e else last
        let pos' := advance next pos s e
        if limitHit n (cnt + 1) then [m]
        else m :: loopB find sp next len fuel pos' last' (cnt+1) n

def findAllB (find : Nat → Option α) (sp : α → Nat × Nat) (next : Nat → Nat) (len : Nat) (n : Option Nat) : List α :=
  loopB find sp next len (len + 2) 0 none 0 n

/-- AllIndex body (yield never asks to stop). -/
def loopC (find : Nat → Option α) (sp : α → Nat × Nat) (next : Nat → Nat) (len : Nat) :
    (fuel pos : Nat) → (last : Option Nat) → List α
  | 0, _, _ => []
  | fuel+1, pos, last =>
    if pos > len then [] else
    match find pos with
    | none => []
    | some m =>
      let s := (sp m).1
      let e := (sp m).2
      if s = e ∧ some s = last then
        if next pos > len then [] else loopC find sp next len fuel (next pos) last
      else
        let last' := if s ≠ e then some e else last
        let pos' := if s = e then next e else e
        m :: loopC find sp next len fuel pos' last'

def findAllC (find : Nat → Option α) (sp : α → Nat × Nat) (next : Nat → Nat) (len : Nat) : List α :=
  loopC find sp next len (len + 2) 0 none

/-- The five Replace* loops: state `pos, lastEnd, lastMatchEnd, result`. -/
def replaceLoop (find : Nat → Option α) (sp : α → Nat × Nat) (next : Nat → Nat) (src : List Nat) (repl : α → List Nat) :
    (fuel pos lastEnd : Nat) → (last : Option Nat) → (buf : List Nat) → List Nat
  | 0, _, lastEnd, _, buf => buf ++ src.drop lastEnd
  | fuel+1, pos, lastEnd, last, buf =>
    match find pos with
    | none => buf ++ src.drop lastEnd
    | some m =>
      let s := (sp m).1
      let e := (sp m).2
      if s = e ∧ some s = last then
        if next pos > src.length then buf ++ src.drop lastEnd
        else replaceLoop find sp next src repl fuel (next pos) lastEnd last buf
      else
        let buf := buf ++ (src.drop lastEnd).take (s - lastEnd) ++ repl m
        let last' := if s ≠ e then some e else last
        let pos' := advance next pos s e
        if pos' > src.length then buf ++ src.drop e
        else replaceLoop find sp next src repl fuel pos' e last' buf

def replaceAll (find : Nat → Option α) (sp : α → Nat × Nat) (next : Nat → Nat) (src : List Nat)
    (repl : α → List Nat) : List Nat :=
  replaceLoop find sp next src repl (src.length + 2) 0 0 none []

/-- regex.go:Split after the port (own transliteration; `patEmpty` is `len(r.pattern) == 0`). -/
def splitLoop (s : List Nat) (n : Int) : List (Nat × Nat) → (beg end_ : Nat) → List (List Nat) → List (List Nat) × Nat × Nat
  | [], beg, end_, acc => (acc, beg, end_)
  | (m0, m1) :: rest, beg, end_, acc =>
    if n > 0 ∧ (acc.length : Int) = n - 1 then (acc, beg, end_) else
    let acc' := if m1 ≠ 0 then acc ++ [(s.drop beg).take (m0 - beg)] else acc
    splitLoop s n rest m1 m0 acc'

def split (patEmpty : Bool) (s : List Nat) (n : Int) (ms : List (Nat × Nat)) : Option (List (List Nat)) :=
  if n = 0 then none else
  if !patEmpty ∧ s.length = 0 then some [[]] else
  let (acc, beg, end_) := splitLoop s n ms 0 0 []
  some (if end_ ≠ s.length then acc ++ [s.drop beg] else acc)

end Cx.Loops
