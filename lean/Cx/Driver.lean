import Cx.Basic
import Cx.Spec.Utf8
import Cx.Spec.GoRef
import Cx.Spec.StdLoops
import Cx.Model.Loops
/-
  Cx.Driver — line protocol: one request per input line, one canonical answer per output line.
  Every model / spec function that takes part in a correspondence is reachable from here.
  Malformed requests answer `bad-op` (never a default value).
-/
namespace Cx.Driver
open Cx

/-- table of recorded single-match results: entry `x` = none, else ints joined by '.' (s.e or s.e.c2.c3…) -/
def parseTable (s : String) : Option (Array (Option (List Int))) :=
  if s = "-" then some #[] else
  (s.splitOn ",").foldlM (init := #[]) fun acc tok =>
    if tok = "x" then some (acc.push none) else
    match (tok.splitOn ".").mapM parseInt with
    | some l => if l.length ≥ 2 then some (acc.push (some l)) else none
    | none => none

def spanOf (m : List Int) : Nat × Nat := ((m.getD 0 0).toNat, (m.getD 1 0).toNat)

def showSpans (l : List (List Int)) : String :=
  if l.isEmpty then "-" else ",".intercalate (l.map fun m => ".".intercalate (m.map toString))

def tableFind (t : Array (Option (List Int))) (pos : Nat) : Option (List Int) := (t.getD pos none)

def widthFn (ws : List Nat) (p : Nat) : Nat := ws.getD p 0

def parseRanges (rs : String) : Option (List (Nat × Nat)) :=
  if rs = "" then some [] else
  (rs.splitOn "_").mapM fun r =>
    match r.splitOn "-" with
    | [lo, hi] => do pure ((← parseNat lo), (← parseNat hi))
    | _ => none

def parseProg (s : String) : Option GoRef.Prog := do
  match s.splitOn "/" with
  | [st, cond, nc, body] =>
    let start ← parseNat st
    let cond ← parseNat cond
    let numCap ← parseNat nc
    let insts ← (body.splitOn ";").mapM fun tok =>
      match tok.splitOn "." with
      | ["A", o, a] => do pure (GoRef.Inst.alt (← parseNat o) (← parseNat a))
      | ["C", o, a] => do pure (GoRef.Inst.cap (← parseNat o) (← parseNat a))
      | ["E", o, f] => do pure (GoRef.Inst.empty (← parseNat o) (← parseNat f))
      | ["M"] => some GoRef.Inst.mtch
      | ["F"] => some GoRef.Inst.fail
      | ["N", o] => do pure (GoRef.Inst.nop (← parseNat o))
      | ["Y", o] => do pure (GoRef.Inst.any (← parseNat o))
      | ["Z", o] => do pure (GoRef.Inst.anyNotNL (← parseNat o))
      | ["R", o, rs] => do pure (GoRef.Inst.rune (← parseNat o) (← parseRanges rs))
      | _ => none
    pure { insts := insts.toArray, start := start, cond := cond, numCap := numCap }
  | _ => none

def showOptInts : Option (List Int) → String
  | none => "nil"
  | some l => showIntList l

def limitOfInt (n : Int) : Option Nat := if n ≤ 0 then none else some n.toNat

def handle (line : String) : String :=
  match (line.trimAscii.toString.splitOn " ").filter (· ≠ "") with
  | ["decode", hex, pos] =>
    match parseHex hex, parseNat pos with
    | some h, some p => let (r, w) := Utf8.decodeAt h p; s!"{r},{w}"
    | _, _ => "bad-op"
  | ["encode", r] =>
    match parseNat r with
    | some r => showNatList (Utf8.encode r)
    | none => "bad-op"
  | ["goref", lg, ncap, pos, hex, prog] =>
    match parseNat lg, parseNat ncap, parseNat pos, parseHex hex, parseProg prog with
    | some lg, some ncap, some pos, some h, some p =>
      showOptInts ((GoRef.backtrack p h (lg = 1) pos ncap).map (·.toList))
    | _, _, _, _, _ => "bad-op"
  -- spec loop over a recorded table (validated against real regexp)
  | ["stdall", n, len, ws, tbl] =>
    match parseInt n, parseNat len, parseNatList ws, parseTable tbl with
    | some n, some len, some ws, some t =>
      showSpans (Std.stdFindAll (tableFind t) spanOf (widthFn ws) len n)
    | _, _, _, _ => "bad-op"
  -- model loops over a recorded table
  | ["loop", variant, n, len, ws, anch, tbl] =>
    match parseInt n, parseNat len, parseNatList ws, parseTable tbl with
    | some n, some len, some ws, some t =>
      let find := tableFind t
      let next := Loops.nextOf (widthFn ws)
      match variant with
      | "A" => showSpans (Loops.findAllA (anch = "1") find spanOf next len (limitOfInt n))
      | "B" => showSpans (Loops.findAllB find spanOf next len (limitOfInt n))
      | "C" => showSpans (Loops.findAllC find spanOf next len)
      | _ => "bad-op"
    | _, _, _, _ => "bad-op"
  | _ => "bad-op"

end Cx.Driver
