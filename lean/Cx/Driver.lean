import Cx.Basic
import Cx.Spec.Utf8
import Cx.Spec.GoRef
import Cx.Spec.StdLoops
import Cx.Model.Loops
import Cx.Model.Nfa
import Cx.Model.Swar
import Cx.Model.Expand
import Cx.Model.State
import Cx.Model.Teddy
import Cx.Model.ClassCheck
/-
  Cx.Driver — line protocol: one request per input line, one canonical answer per output line.
  Every model / spec function that takes part in a correspondence is reachable from here.
  Malformed requests answer `bad-op` (never a default value).
-/
namespace Cx.Driver
open Cx

/-- table of recorded single-match results: entry `x` = none, else ints joined by '.' (s.e or s.e.c2.c3…) -/
def parseTable (s : String) : Option (Array (Option (List Int))) :=
  if s = "-" then some #[] else
  (s.splitOn ",").foldlM (init := #[]) fun acc tok =>
    if tok = "x" then some (acc.push none) else
    match (tok.splitOn ".").mapM parseInt with
    | some l => if l.length ≥ 2 then some (acc.push (some l)) else none
    | none => none

def spanOf (m : List Int) : Nat × Nat := ((m.getD 0 0).toNat, (m.getD 1 0).toNat)

def showSpans (l : List (List Int)) : String :=
  if l.isEmpty then "-" else ",".intercalate (l.map fun m => ".".intercalate (m.map toString))

def tableFind (t : Array (Option (List Int))) (pos : Nat) : Option (List Int) := (t.getD pos none)

def widthFn (ws : List Nat) (p : Nat) : Nat := ws.getD p 0

def parseRanges (rs : String) : Option (List (Nat × Nat)) :=
  if rs = "" then some [] else
  (rs.splitOn "_").mapM fun r =>
    match r.splitOn "-" with
    | [lo, hi] => do pure ((← parseNat lo), (← parseNat hi))
    | _ => none

def parseProg (s : String) : Option GoRef.Prog := do
  match s.splitOn "/" with
  | [st, cond, nc, body] =>
    let start ← parseNat st
    let cond ← parseNat cond
    let numCap ← parseNat nc
    let insts ← (body.splitOn ";").mapM fun tok =>
      match tok.splitOn "." with
      | ["A", o, a] => do pure (GoRef.Inst.alt (← parseNat o) (← parseNat a))
      | ["C", o, a] => do pure (GoRef.Inst.cap (← parseNat o) (← parseNat a))
      | ["E", o, f] => do pure (GoRef.Inst.empty (← parseNat o) (← parseNat f))
      | ["M"] => some GoRef.Inst.mtch
      | ["F"] => some GoRef.Inst.fail
      | ["N", o] => do pure (GoRef.Inst.nop (← parseNat o))
      | ["Y", o] => do pure (GoRef.Inst.any (← parseNat o))
      | ["Z", o] => do pure (GoRef.Inst.anyNotNL (← parseNat o))
      | ["R", o, rs] => do pure (GoRef.Inst.rune (← parseNat o) (← parseRanges rs))
      | _ => none
    pure { insts := insts.toArray, start := start, cond := cond, numCap := numCap }
  | _ => none

/-- NFA dump: `sa/su/st;st;…` with states
    M | B.lo.hi.next | S.lo-hi-next_lo-hi-next… | P.left.right | E.next | C.idx.isStart.next | F | L.kind.next | A.next | N.next -/
def parseNfa (s : String) : Option Nfa.NFA := do
  match s.splitOn "/" with
  | [sa, su, body] =>
    let sa ← parseNat sa
    let su ← parseNat su
    let sts ← (body.splitOn ";").mapM fun tok =>
      match tok.splitOn "." with
      | ["M"] => some Nfa.NState.mtch
      | ["F"] => some Nfa.NState.fail
      | ["B", lo, hi, nx] => do pure (Nfa.NState.byteRange (← parseNat lo) (← parseNat hi) (← parseNat nx))
      | ["S", ts] => do
        let l ← (if ts = "" then some [] else (ts.splitOn "_").mapM fun t =>
          match t.splitOn "-" with
          | [lo, hi, nx] => do pure ((← parseNat lo), (← parseNat hi), (← parseNat nx))
          | _ => none)
        pure (Nfa.NState.sparse l)
      | ["P", l, r] => do pure (Nfa.NState.split (← parseNat l) (← parseNat r))
      | ["E", nx] => do pure (Nfa.NState.eps (← parseNat nx))
      | ["C", idx, st, nx] => do pure (Nfa.NState.cap (← parseNat idx) (st = "1") (← parseNat nx))
      | ["L", k, nx] => do
        let kind ← (match k with
          | "0" => some Nfa.Look.startText | "1" => some Nfa.Look.endText | "2" => some Nfa.Look.startLine
          | "3" => some Nfa.Look.endLine | "4" => some Nfa.Look.wordB | "5" => some Nfa.Look.noWordB | _ => none)
        pure (Nfa.NState.look kind (← parseNat nx))
      | ["A", nx] => do pure (Nfa.NState.runeAny (← parseNat nx))
      | ["N", nx] => do pure (Nfa.NState.runeAnyNotNL (← parseNat nx))
      | _ => none
    pure { states := sts.toArray, startAnchored := sa, startUnanchored := su }
  | _ => none

def showSpan : Option (Nat × Nat) → String
  | none => "nil"
  | some (s, e) => s!"{s},{e}"

def showOptInts : Option (List Int) → String
  | none => "nil"
  | some l => showIntList l

def limitOfInt (n : Int) : Option Nat := if n ≤ 0 then none else some n.toNat

def doExpand (std : Bool) (runes thex shex m names : String) : String :=
  match parseNatList runes, parseHex thex, parseHex shex, parseIntList m,
        (if names = "none" then some [] else (names.splitOn ",").mapM parseHex) with
  | some rs, some t, some src, some m, some ns =>
    let isName := fun r => (48 ≤ r && r ≤ 57) || (65 ≤ r && r ≤ 90) || (97 ≤ r && r ≤ 122) || r = 95 || rs.contains r
    let nl := ns.map (·.toList)
    toHex (if std then Std.stdExpand isName t src m nl else Model.cxExpand isName t src m nl).toArray
  | _, _, _, _, _ => "bad-op"

def handle (line : String) : String :=
  match (line.trimAscii.toString.splitOn " ").filter (· ≠ "") with
  | ["decode", hex, pos] =>
    match parseHex hex, parseNat pos with
    | some h, some p => let (r, w) := Utf8.decodeAt h p; s!"{r},{w}"
    | _, _ => "bad-op"
  | ["encode", r] =>
    match parseNat r with
    | some r => showNatList (Utf8.encode r)
    | none => "bad-op"
  | ["goref", lg, ncap, pos, hex, prog] =>
    match parseNat lg, parseNat ncap, parseNat pos, parseHex hex, parseProg prog with
    | some lg, some ncap, some pos, some h, some p =>
      showOptInts ((GoRef.backtrack p h (lg = 1) pos ncap).map (·.toList))
    | _, _, _, _, _ => "bad-op"
  -- spec loop over a recorded table (validated against real regexp)
  | ["stdall", n, len, ws, tbl] =>
    match parseInt n, parseNat len, parseNatList ws, parseTable tbl with
    | some n, some len, some ws, some t =>
      showSpans (Std.stdFindAll (tableFind t) spanOf (widthFn ws) len n)
    | _, _, _, _ => "bad-op"
  -- model loops over a recorded table
  | ["loop", variant, n, len, ws, anch, tbl] =>
    match parseInt n, parseNat len, parseNatList ws, parseTable tbl with
    | some n, some len, some ws, some t =>
      let find := tableFind t
      let next := Loops.nextOf (widthFn ws)
      match variant with
      | "A" => showSpans (Loops.findAllA (anch = "1") find spanOf next len (limitOfInt n))
      | "B" => showSpans (Loops.findAllB find spanOf next len (limitOfInt n))
      | "C" => showSpans (Loops.findAllC find spanOf next len)
      | _ => "bad-op"
    | _, _, _, _ => "bad-op"
  -- SWAR models
  | ["memchr", needles, hex] =>
    match parseNatList needles, parseHex hex with
    | some ns, some h => toString (Swar.memchrNGeneric h ns)
    | _, _ => "bad-op"
  | ["isascii", hex] =>
    match parseHex hex with
    | some h => toString (Swar.isASCIIGeneric h)
    | none => "bad-op"
  | ["memmem", rare, hex, nhex] =>
    match parseNat rare, parseHex hex, parseHex nhex with
    | some r, some h, some n => toString (Swar.memmemSingle h n r)
    | _, _, _ => "bad-op"
  | ["naivememmem", hex, nhex] =>
    match parseHex hex, parseHex nhex with
    | some h, some n => toString (Swar.naiveMemmem h n)
    | _, _ => "bad-op"
  -- template expansion: model (coregex port) and spec (regexp)
  | ["expand", runes, thex, shex, m, names] => doExpand false runes thex shex m names
  | ["stdexpand", runes, thex, shex, m, names] => doExpand true runes thex shex m names
  | ["quotemeta", hex] =>
    match parseHex hex with
    | some h => toHex (Model.cxQuoteMeta h.toList).toArray
    | none => "bad-op"
  | ["stdquotemeta", hex] =>
    match parseHex hex with
    | some h => toHex (Std.stdQuoteMeta h.toList).toArray
    | none => "bad-op"
  | ["split", pe, shex, n, ms] =>
    match parseHex shex, parseInt n, parseTable ms with
    | some s, some n, some t =>
      let spans := t.toList.filterMap fun o => o.map spanOf
      match Loops.split (pe = "1") s.toList n spans with
      | none => "nil"
      | some pieces => if pieces.isEmpty then "empty" else ",".intercalate (pieces.map fun p => toHex p.toArray)
    | _, _, _ => "bad-op"
  -- Replace* loop model over a recorded table; mode `lit:<hex>` or `wrap` (= "<" ++ match ++ ">")
  | ["replace", shex, ws, tbl, mode] =>
    match parseHex shex, parseNatList ws, parseTable tbl with
    | some src, some ws, some t =>
      let find := tableFind t
      let next := Loops.nextOf (widthFn ws)
      let isName := fun r => (48 ≤ r && r ≤ 57) || (65 ≤ r && r ≤ 90) || (97 ≤ r && r ≤ 122) || r = 95
      let repl : List Int → List Nat :=
        if mode = "wrap" then fun m => [60] ++ Std.slice src (spanOf m).1 (spanOf m).2 ++ [62]
        else match mode.splitOn ":" with
          | ["lit", r] => (match parseHex r with | some r => fun _ => r.toList | none => fun _ => [])
          | ["tmpl", th, names] =>
            (match parseHex th, (if names = "none" then some [] else (names.splitOn ",").mapM parseHex) with
             | some t, some ns => fun m => Model.cxExpand isName t src m (ns.map (·.toList))
             | _, _ => fun _ => [])
          | _ => fun _ => []
      toHex (Loops.replaceAll find spanOf next src.toList repl).toArray
    | _, _, _ => "bad-op"
  -- slim Teddy model
  | ["teddy", op, start, hex, fp, pats] =>
    match parseNat start, parseHex hex, parseNat fp, (pats.splitOn ",").mapM parseHex with
    | some st, some h, some fp, some ps =>
      let t := Teddy.mk (ps.map (·.toList)) fp
      match op with
      | "find" => (match Teddy.find t h st with | some i => toString i | none => "-1")
      | "match" => (match Teddy.findMatch t h st with | some (i, id) => s!"{i},{id}" | none => "-1")
      | _ => "bad-op"
    | _, _, _, _ => "bad-op"
  -- visited-table model: ops `r<n>` (reset with n entries) / `b` (bump); answers gen:len:cap after each op
  | ["vis", ops] =>
    let step := fun (acc : State.Vis × List String) (tok : String) =>
      let s := acc.1
      let s' := if tok = "b" then s.bump else match parseNat (tok.drop 1).toString with
        | some n => s.reset n
        | none => s
      (s', acc.2 ++ [s!"{s'.gen}:{s'.len}:{s'.arr.length}"])
    ",".intercalate ((ops.splitOn ",").foldl step (State.Vis.new, [])).2
  -- bounded backtracker model on a dumped NFA
  | ["bt", op, at_, hex, nfa] =>
    match parseNat at_, parseHex hex, parseNfa nfa with
    | some at_, some h, some N =>
      match op with
      | "ismatch" => toString (Nfa.btIsMatch N h)
      | "search" => showSpan (Nfa.btSearchAt N h at_)
      -- all ends e such that (leftmost start from at_, e) is accepted, as "s:e1.e2…" (nil if no match)
      | "ends" =>
        match Nfa.btSearchAt N h at_ with
        | none => "nil"
        | some (s, _) => s!"{s}:" ++ ".".intercalate (((List.range (h.size + 1)).filter fun e => Nfa.acceptsSpan N h s e).map toString)
      | _ => "bad-op"
    | _, _, _ => "bad-op"
  -- C15 verified class check: for EVERY scalar value r, `Accepts N (encode r) 0 |encode r|` ⇔ r ∈ ranges; then ill-formed
  -- strings: all of length 1 and 2, length 3 over boundary bytes: accepted ⇔ Go decodes them as ONE rune of the class.
  -- `lo`/`hi` restrict the rune sweep (ASCII-only automata are only promised for runes < 128). Answers ok | fail:<kind>:<data>
  -- The checker is the pure function `ClassCheck.classCheck` (Cx/Model/ClassCheck.lean); what `ok` means in terms of
  -- `Nfa.Accepts` is `ClassCheck.classCheck_ok` (Cx/Proofs/ClassCheck.lean) = `C15_class_checker_sound`.
  | ["classcheck", lo, hi, rs, nfa] =>
    match parseNat lo, parseNat hi, parseRanges rs, parseNfa nfa with
    | some lo, some hi, some ranges, some N => ClassCheck.classCheck N ranges lo hi
    | _, _, _, _ => "bad-op"
  -- classify a reported end offset `e` for a search from `at_`: end of a match from the leftmost start, from another
  -- start at or after `at_`, or of no match at all
  | ["btend", at_, e, hex, nfa] =>
    match parseNat at_, parseNat e, parseHex hex, parseNfa nfa with
    | some at_, some e, some h, some N =>
      match Nfa.btSearchAt N h at_ with
      | none => "nomatch"
      | some (s, _) =>
        if Nfa.acceptsSpan N h s e then "leftmost"
        else if ((List.range (h.size + 1)).any fun s' => decide (at_ ≤ s') && Nfa.acceptsSpan N h s' e) then "other-start"
        else "none"
    | _, _, _, _ => "bad-op"
  | _ => "bad-op"

end Cx.Driver
