import Cx.Driver
import Cx.DriverCompile
import Cx.DriverLit
import Cx.DriverPike
import Cx.DriverFast
import Cx.DriverCompDfa
import Cx.DriverCost
import Cx.DriverConfig
import Cx.DriverCaps
import Cx.DriverDfa
import Cx.DriverUtf8Range
import Cx.DriverRev
import Cx.DriverRevSuffix
import Cx.DriverSeqOps
import Cx.DriverCompSim
import Cx.DriverMetaFind
import Cx.DriverMetaFind2
import Cx.DriverMetaFindAll
import Cx.DriverRevInner
import Cx.DriverRevAnchored
import Cx.DriverRevSuffixSet
import Cx.DriverMultilineRevSuffix
import Cx.DriverGuards
/-! cxdrv — reads requests from stdin (one per line), writes one answer per line. -/

def tokens (line : String) : List String := (line.trimAscii.toString.splitOn " ").filter (· ≠ "")

/-- model-specific handlers first, then the core protocol -/
def handlers : List (List String → Option String) :=
  [Cx.DriverCompile.handle?, Cx.DriverLit.handle?, Cx.DriverPike.handle?, Cx.DriverFast.handle?, Cx.DriverCompDfa.handle?, Cx.DriverCompSim.handle?, Cx.DriverCost.handle?,
   Cx.DriverConfig.handle?, Cx.DriverCaps.handle?, Cx.DriverDfa.handle?, Cx.DriverUtf8Range.handle?, Cx.DriverRev.handle?, Cx.DriverRevSuffix.handle?,
   Cx.DriverRevInner.handle?, Cx.DriverRevAnchored.handle?, Cx.DriverRevSuffixSet.handle?, Cx.DriverMultilineRevSuffix.handle?, Cx.DriverMetaFind.handle?, Cx.DriverSeqOps.handle?,
   Cx.DriverMetaFind2.handle?, Cx.DriverMetaFindAll.handle?, Cx.DriverGuards.handle?]

def answer (line : String) : String :=
  let toks := tokens line
  match handlers.findSome? (fun f => f toks) with
  | some r => r
  | none => Cx.Driver.handle line

partial def loop (h : IO.FS.Stream) (out : IO.FS.Stream) : IO Unit := do
  let line ← h.getLine
  if line.isEmpty then return ()
  out.putStrLn (answer line)
  loop h out

def main : IO Unit := do
  let stdin ← IO.getStdin
  let stdout ← IO.getStdout
  loop stdin stdout
  stdout.flush
