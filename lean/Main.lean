import Cx.Driver
/-! cxdrv — reads requests from stdin (one per line), writes one answer per line. -/
partial def loop (h : IO.FS.Stream) (out : IO.FS.Stream) : IO Unit := do
  let line ← h.getLine
  if line.isEmpty then return ()
  out.putStrLn (Cx.Driver.handle line)
  loop h out

def main : IO Unit := do
  let stdin ← IO.getStdin
  let stdout ← IO.getStdout
  loop stdin stdout
  stdout.flush
