import Cx.Driver
import Cx.DriverCompile
import Cx.DriverLit
import Cx.DriverPike
import Cx.DriverFast
import Cx.DriverCost
import Cx.DriverConfig
/-! cxdrv — reads requests from stdin (one per line), writes one answer per line. -/

def tokens (line : String) : List String := (line.trimAscii.toString.splitOn " ").filter (· ≠ "")

/-- model-specific handlers first, then the core protocol -/
def answer (line : String) : String :=
  let toks := tokens line
  match Cx.DriverCompile.handle? toks with
  | some r => r
  | none =>
    match Cx.DriverLit.handle? toks with
    | some r => r
    | none =>
      match Cx.DriverPike.handle? toks with
      | some r => r
      | none =>
        match Cx.DriverFast.handle? toks with
        | some r => r
        | none =>
          match Cx.DriverCost.handle? toks with
          | some r => r
          | none =>
            match Cx.DriverConfig.handle? toks with
            | some r => r
            | none => Cx.Driver.handle line

partial def loop (h : IO.FS.Stream) (out : IO.FS.Stream) : IO Unit := do
  let line ← h.getLine
  if line.isEmpty then return ()
  out.putStrLn (answer line)
  loop h out

def main : IO Unit := do
  let stdin ← IO.getStdin
  let stdout ← IO.getStdout
  loop stdin stdout
  stdout.flush
